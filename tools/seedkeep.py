#!/usr/bin/env python3
"""tools/seedkeep.py <seed-worktree> <name e.g. C37-1> '<json: detected_by, ran, notes>' - store a confirmed seeded change under /verif/seeded/<name>/"""
import json, os, shutil, sys, glob
sd, name, extra = sys.argv[1], sys.argv[2], json.loads(sys.argv[3])
dst = os.path.join('/verif/seeded', name)
os.makedirs(dst, exist_ok=True)
for f in glob.glob(os.path.join(sd, '_seed', '*')):
    if os.path.isfile(f):
        shutil.copy(f, dst)
m = json.load(open(os.path.join(dst, 'meta.json')))
m.update(extra)
json.dump(m, open(os.path.join(dst, 'meta.json'), 'w'), indent=1, ensure_ascii=False)
print('kept', dst, sorted(os.listdir(dst)))
