// vrewrite: syntactic source rewriter for the /verif controlled scheduler (engine E3).
//
// usage: vrewrite spec.json
// spec: {"repo": "/repo", "module": "github.com/WuKongIM/WuKongIM", "out": DIR,
//        "packages": [{"path": "pkg/workqueue", "level": "full"|"spawn"}]}
//
// For every non-test .go file of the listed packages it writes a rewritten copy to
// DIR/<path>/<file> and an overlay.json mapping the original path to the copy; the
// package's own *_test.go files are mapped to "" (removed) because they are written
// against the real sync/time types.
//
// level full:
//   import "sync"|"sync/atomic"|"time"|"context"|ants -> zzverif shims (same local name)
//   go f(a)            -> args bound eagerly, vsched.Go(func(){ f(a') })
//   c <- v             -> vsched.BeforeSend(c'); c' <- v
//   <-c / v,ok := <-c  -> vsched.Recv(c) / vsched.Recv2(c)
//   close(c)           -> vsched.Close(c)
//   select {...}       -> channel operands bound to temporaries, switch vsched.Select(...)
//                         whose cases perform the (now non-blocking) real operation
//   runtime.Gosched()  -> vsched.Yield()
// level spawn: only the `go` statement rewrite.
//
// The rewrite is purely syntactic (no type information): `for range ch` over a channel is
// NOT rewritten and is reported as an error if the range operand is syntactically a
// receive-only use we can recognise; see DESIGN.md for the survey of target packages.
package main

import (
	"bytes"
	"encoding/json"
	"fmt"
	"go/ast"
	"go/format"
	"go/parser"
	"go/token"
	"os"
	"path/filepath"
	"sort"
	"strconv"
	"strings"
)

type pkgSpec struct {
	Path  string `json:"path"`
	Level string `json:"level"`
	// Dir overrides the source directory (absolute; e.g. a module-cache package).
	Dir string `json:"dir"`
	// As places the rewritten files at this repo-relative package path instead of the
	// source path (used to import a module-cache package as a virtual in-module package).
	As string `json:"as"`
	// ImportMap adds extra import-path replacements for this package.
	ImportMap map[string]string `json:"import_map"`
	// Files restricts the rewrite to these base names (default: every non-test file).
	Files []string `json:"files"`
	// Imports restricts the import replacement to these import paths (default: all known).
	Imports []string `json:"imports"`
	// NoSyntax disables the go/chan/select statement rewrites (imports only).
	NoSyntax bool `json:"no_syntax"`
	// KeepTests keeps the package's own _test.go files in the build.
	KeepTests bool `json:"keep_tests"`
}

type spec struct {
	Repo     string    `json:"repo"`
	Module   string    `json:"module"`
	Out      string    `json:"out"`
	Packages []pkgSpec `json:"packages"`
}

const shimRoot = "/pkg/zzverif/"

var importMap = map[string]string{
	"sync":                          "vsync",
	"sync/atomic":                   "vatomic",
	"time":                          "vtime",
	"context":                       "vctx",
	"github.com/panjf2000/ants/v2": "vants",
}

var defaultName = map[string]string{
	"sync": "sync", "sync/atomic": "atomic", "time": "time", "context": "context",
	"github.com/panjf2000/ants/v2": "ants",
}

type rewriter struct {
	fset    *token.FileSet
	module  string
	level   string
	tmp     int
	used    bool // vsched referenced
	errs    []string
	fname   string
	runtime string // local name of "runtime" import
	imports map[string]bool
	extra   map[string]string
	gosched bool
}

func (r *rewriter) errf(pos token.Pos, format string, args ...any) {
	r.errs = append(r.errs, fmt.Sprintf("%s: %s", r.fset.Position(pos), fmt.Sprintf(format, args...)))
}

func (r *rewriter) name(prefix string) *ast.Ident {
	r.tmp++
	return ast.NewIdent(fmt.Sprintf("__vs%s%d", prefix, r.tmp))
}

func (r *rewriter) vs(fn string) ast.Expr {
	r.used = true
	return &ast.SelectorExpr{X: ast.NewIdent("__vsched"), Sel: ast.NewIdent(fn)}
}

func call(fun ast.Expr, args ...ast.Expr) *ast.CallExpr { return &ast.CallExpr{Fun: fun, Args: args} }

func define(lhs ast.Expr, rhs ast.Expr) ast.Stmt {
	return &ast.AssignStmt{Lhs: []ast.Expr{lhs}, Tok: token.DEFINE, Rhs: []ast.Expr{rhs}}
}

func unparen(e ast.Expr) ast.Expr {
	for {
		p, ok := e.(*ast.ParenExpr)
		if !ok {
			return e
		}
		e = p.X
	}
}

func isRecv(e ast.Expr) (*ast.UnaryExpr, bool) {
	u, ok := unparen(e).(*ast.UnaryExpr)
	if ok && u.Op == token.ARROW {
		return u, true
	}
	return nil, false
}

// ---- expression rewriting (receives, close, Gosched) ----

func (r *rewriter) expr(e ast.Expr) ast.Expr {
	if e == nil {
		return nil
	}
	switch x := e.(type) {
	case *ast.UnaryExpr:
		x.X = r.expr(x.X)
		if x.Op == token.ARROW && r.level == "full" {
			return call(r.vs("Recv"), x.X)
		}
		return x
	case *ast.CallExpr:
		x.Fun = r.expr(x.Fun)
		for i := range x.Args {
			x.Args[i] = r.expr(x.Args[i])
		}
		if r.level == "full" {
			if id, ok := x.Fun.(*ast.Ident); ok && id.Name == "close" && len(x.Args) == 1 {
				return call(r.vs("Close"), x.Args[0])
			}
			if sel, ok := x.Fun.(*ast.SelectorExpr); ok && r.runtime != "" {
				if id, ok := sel.X.(*ast.Ident); ok && id.Name == r.runtime && sel.Sel.Name == "Gosched" && len(x.Args) == 0 {
					r.gosched = true
					return call(r.vs("Yield"))
				}
			}
		}
		return x
	case *ast.ParenExpr:
		x.X = r.expr(x.X)
		return x
	case *ast.BinaryExpr:
		x.X = r.expr(x.X)
		x.Y = r.expr(x.Y)
		return x
	case *ast.SelectorExpr:
		x.X = r.expr(x.X)
		return x
	case *ast.IndexExpr:
		x.X = r.expr(x.X)
		x.Index = r.expr(x.Index)
		return x
	case *ast.IndexListExpr:
		x.X = r.expr(x.X)
		return x
	case *ast.SliceExpr:
		x.X = r.expr(x.X)
		x.Low, x.High, x.Max = r.expr(x.Low), r.expr(x.High), r.expr(x.Max)
		return x
	case *ast.StarExpr:
		x.X = r.expr(x.X)
		return x
	case *ast.TypeAssertExpr:
		x.X = r.expr(x.X)
		return x
	case *ast.KeyValueExpr:
		x.Key = r.expr(x.Key)
		x.Value = r.expr(x.Value)
		return x
	case *ast.CompositeLit:
		for i := range x.Elts {
			x.Elts[i] = r.expr(x.Elts[i])
		}
		return x
	case *ast.FuncLit:
		r.block(x.Body)
		return x
	}
	return e
}

func (r *rewriter) exprs(es []ast.Expr) {
	for i := range es {
		es[i] = r.expr(es[i])
	}
}

// ---- statement rewriting ----

func (r *rewriter) block(b *ast.BlockStmt) {
	if b == nil {
		return
	}
	b.List = r.list(b.List)
}

func (r *rewriter) list(in []ast.Stmt) []ast.Stmt {
	var out []ast.Stmt
	for _, s := range in {
		out = append(out, r.stmt(s)...)
	}
	return out
}

// one wraps a possibly multi-statement result into a single statement.
func (r *rewriter) one(s ast.Stmt) ast.Stmt {
	if s == nil {
		return nil
	}
	ss := r.stmt(s)
	if len(ss) == 1 {
		return ss[0]
	}
	return &ast.BlockStmt{List: ss}
}

func (r *rewriter) simple(s ast.Stmt, where string) ast.Stmt {
	if s == nil {
		return nil
	}
	ss := r.stmt(s)
	if len(ss) != 1 {
		r.errf(s.Pos(), "channel send in %s position is not supported by vrewrite", where)
		return s
	}
	return ss[0]
}

func (r *rewriter) stmt(s ast.Stmt) []ast.Stmt {
	switch x := s.(type) {
	case *ast.ExprStmt:
		x.X = r.expr(x.X)
	case *ast.SendStmt:
		x.Chan = r.expr(x.Chan)
		x.Value = r.expr(x.Value)
		if r.level == "full" {
			c := r.name("c")
			return []ast.Stmt{&ast.BlockStmt{List: []ast.Stmt{
				define(c, x.Chan),
				&ast.ExprStmt{X: call(r.vs("BeforeSend"), c)},
				&ast.SendStmt{Chan: c, Value: x.Value},
			}}}
		}
	case *ast.AssignStmt:
		if r.level == "full" && len(x.Lhs) == 2 && len(x.Rhs) == 1 {
			if u, ok := isRecv(x.Rhs[0]); ok {
				r.exprs(x.Lhs)
				x.Rhs[0] = call(r.vs("Recv2"), r.expr(u.X))
				return []ast.Stmt{x}
			}
		}
		r.exprs(x.Lhs)
		r.exprs(x.Rhs)
	case *ast.DeclStmt:
		if gd, ok := x.Decl.(*ast.GenDecl); ok {
			for _, sp := range gd.Specs {
				if vs, ok := sp.(*ast.ValueSpec); ok {
					if r.level == "full" && len(vs.Names) == 2 && len(vs.Values) == 1 {
						if u, ok := isRecv(vs.Values[0]); ok {
							vs.Values[0] = call(r.vs("Recv2"), r.expr(u.X))
							continue
						}
					}
					r.exprs(vs.Values)
				}
			}
		}
	case *ast.GoStmt:
		if r.level == "full" || r.level == "spawn" {
			return r.goStmt(x)
		}
		x.Call.Fun = r.expr(x.Call.Fun)
		r.exprs(x.Call.Args)
	case *ast.DeferStmt:
		x.Call.Fun = r.expr(x.Call.Fun)
		r.exprs(x.Call.Args)
		if r.level == "full" {
			if id, ok := x.Call.Fun.(*ast.Ident); ok && id.Name == "close" && len(x.Call.Args) == 1 {
				x.Call = call(r.vs("Close"), x.Call.Args[0])
			}
		}
	case *ast.ReturnStmt:
		r.exprs(x.Results)
	case *ast.BlockStmt:
		r.block(x)
	case *ast.IfStmt:
		x.Init = r.simple(x.Init, "if-init")
		x.Cond = r.expr(x.Cond)
		r.block(x.Body)
		if x.Else != nil {
			x.Else = r.one(x.Else)
		}
	case *ast.ForStmt:
		x.Init = r.simple(x.Init, "for-init")
		x.Cond = r.expr(x.Cond)
		x.Post = r.simple(x.Post, "for-post")
		r.block(x.Body)
	case *ast.RangeStmt:
		x.X = r.expr(x.X)
		r.block(x.Body)
	case *ast.SwitchStmt:
		x.Init = r.simple(x.Init, "switch-init")
		x.Tag = r.expr(x.Tag)
		for _, c := range x.Body.List {
			cc := c.(*ast.CaseClause)
			r.exprs(cc.List)
			cc.Body = r.list(cc.Body)
		}
	case *ast.TypeSwitchStmt:
		x.Init = r.simple(x.Init, "switch-init")
		if as, ok := x.Assign.(*ast.AssignStmt); ok {
			r.exprs(as.Rhs)
		} else if es, ok := x.Assign.(*ast.ExprStmt); ok {
			es.X = r.expr(es.X)
		}
		for _, c := range x.Body.List {
			cc := c.(*ast.CaseClause)
			cc.Body = r.list(cc.Body)
		}
	case *ast.LabeledStmt:
		if sel, ok := x.Stmt.(*ast.SelectStmt); ok && r.level == "full" {
			pre, sw := r.selectStmt(sel)
			x.Stmt = sw
			return append(pre, x)
		}
		x.Stmt = r.one(x.Stmt)
	case *ast.SelectStmt:
		if r.level == "full" {
			pre, sw := r.selectStmt(x)
			return append(pre, sw)
		}
		for _, c := range x.Body.List {
			cc := c.(*ast.CommClause)
			cc.Body = r.list(cc.Body)
		}
	case *ast.IncDecStmt:
		x.X = r.expr(x.X)
	}
	return []ast.Stmt{s}
}

func (r *rewriter) goStmt(g *ast.GoStmt) []ast.Stmt {
	c := g.Call
	c.Fun = r.expr(c.Fun)
	r.exprs(c.Args)
	if fl, ok := c.Fun.(*ast.FuncLit); ok && len(c.Args) == 0 {
		return []ast.Stmt{&ast.ExprStmt{X: call(r.vs("Go"), fl)}}
	}
	var pre []ast.Stmt
	fn := c.Fun
	if _, ok := fn.(*ast.FuncLit); !ok {
		f := r.name("f")
		pre = append(pre, define(f, fn))
		fn = f
	}
	args := make([]ast.Expr, len(c.Args))
	for i, a := range c.Args {
		t := r.name("a")
		pre = append(pre, define(t, a))
		args[i] = t
	}
	inner := &ast.CallExpr{Fun: fn, Args: args, Ellipsis: c.Ellipsis}
	lit := &ast.FuncLit{Type: &ast.FuncType{Params: &ast.FieldList{}}, Body: &ast.BlockStmt{List: []ast.Stmt{&ast.ExprStmt{X: inner}}}}
	pre = append(pre, &ast.ExprStmt{X: call(r.vs("Go"), lit)})
	return []ast.Stmt{&ast.BlockStmt{List: pre}}
}

func (r *rewriter) selectStmt(sel *ast.SelectStmt) ([]ast.Stmt, ast.Stmt) {
	var pre []ast.Stmt
	var cases []ast.Expr
	hasDefault := false
	sw := &ast.SwitchStmt{Body: &ast.BlockStmt{}}
	idx := 0
	for _, c := range sel.Body.List {
		cc := c.(*ast.CommClause)
		body := r.list(cc.Body)
		if cc.Comm == nil {
			hasDefault = true
			sw.Body.List = append(sw.Body.List, &ast.CaseClause{List: nil, Body: body})
			continue
		}
		ch := r.name("c")
		var op ast.Stmt
		switch m := cc.Comm.(type) {
		case *ast.SendStmt:
			pre = append(pre, define(ch, r.expr(m.Chan)))
			cases = append(cases, call(r.vs("S"), ch))
			op = &ast.SendStmt{Chan: ch, Value: r.expr(m.Value)}
		case *ast.ExprStmt:
			u, ok := isRecv(m.X)
			if !ok {
				r.errf(m.Pos(), "unsupported select case")
				continue
			}
			pre = append(pre, define(ch, r.expr(u.X)))
			cases = append(cases, call(r.vs("R"), ch))
			op = &ast.ExprStmt{X: &ast.UnaryExpr{Op: token.ARROW, X: ch}}
		case *ast.AssignStmt:
			u, ok := isRecv(m.Rhs[0])
			if !ok || len(m.Rhs) != 1 {
				r.errf(m.Pos(), "unsupported select case")
				continue
			}
			pre = append(pre, define(ch, r.expr(u.X)))
			cases = append(cases, call(r.vs("R"), ch))
			r.exprs(m.Lhs)
			op = &ast.AssignStmt{Lhs: m.Lhs, Tok: m.Tok, Rhs: []ast.Expr{&ast.UnaryExpr{Op: token.ARROW, X: ch}}}
		default:
			r.errf(cc.Pos(), "unsupported select case")
			continue
		}
		sw.Body.List = append(sw.Body.List, &ast.CaseClause{
			List: []ast.Expr{&ast.BasicLit{Kind: token.INT, Value: strconv.Itoa(idx)}},
			Body: append([]ast.Stmt{op}, body...),
		})
		idx++
	}
	def := "false"
	if hasDefault {
		def = "true"
	} else {
		// keep the statement "terminating" like a select without default
		sw.Body.List = append(sw.Body.List, &ast.CaseClause{List: nil, Body: []ast.Stmt{
			&ast.ExprStmt{X: call(ast.NewIdent("panic"), &ast.BasicLit{Kind: token.STRING, Value: strconv.Quote("vsched: select returned no case")})},
		}})
	}
	sw.Tag = call(r.vs("Select"), append([]ast.Expr{ast.NewIdent(def)}, cases...)...)
	return pre, sw
}

// ---- file level ----

func (r *rewriter) file(f *ast.File) {
	r.runtime = ""
	for _, im := range f.Imports {
		p, _ := strconv.Unquote(im.Path.Value)
		if p == "runtime" {
			r.runtime = "runtime"
			if im.Name != nil {
				r.runtime = im.Name.Name
			}
		}
		if to, ok := r.extra[p]; ok {
			if im.Name == nil {
				// keep the original package name as the local name
				base := p[strings.LastIndex(p, "/")+1:]
				im.Name = ast.NewIdent(base)
			}
			im.Path.Value = strconv.Quote(to)
			continue
		}
		if r.level != "full" && r.level != "imports" {
			continue
		}
		if shim, ok := importMap[p]; ok && (r.imports == nil || r.imports[p]) {
			if im.Name == nil {
				im.Name = ast.NewIdent(defaultName[p])
			}
			im.Path.Value = strconv.Quote(r.module + shimRoot + shim)
		}
	}
	for _, d := range f.Decls {
		switch x := d.(type) {
		case *ast.FuncDecl:
			r.block(x.Body)
		case *ast.GenDecl:
			for _, sp := range x.Specs {
				if vs, ok := sp.(*ast.ValueSpec); ok {
					r.exprs(vs.Values)
				}
			}
		}
	}
}

func addImport(f *ast.File, name, path string) {
	spec := &ast.ImportSpec{Name: ast.NewIdent(name), Path: &ast.BasicLit{Kind: token.STRING, Value: strconv.Quote(path)}}
	gd := &ast.GenDecl{Tok: token.IMPORT, Specs: []ast.Spec{spec}}
	f.Decls = append([]ast.Decl{gd}, f.Decls...)
	f.Imports = append(f.Imports, spec)
}

func main() {
	if len(os.Args) != 2 {
		fmt.Fprintln(os.Stderr, "usage: vrewrite spec.json")
		os.Exit(2)
	}
	b, err := os.ReadFile(os.Args[1])
	if err != nil {
		fmt.Fprintln(os.Stderr, err)
		os.Exit(2)
	}
	var sp spec
	if err := json.Unmarshal(b, &sp); err != nil {
		fmt.Fprintln(os.Stderr, err)
		os.Exit(2)
	}
	overlay := map[string]string{}
	var allErrs []string
	nfiles := 0
	for _, p := range sp.Packages {
		dir := filepath.Join(sp.Repo, p.Path)
		if p.Dir != "" {
			dir = p.Dir
		}
		ents, err := os.ReadDir(dir)
		if err != nil {
			fmt.Fprintln(os.Stderr, err)
			os.Exit(2)
		}
		level := p.Level
		if level == "" {
			level = "full"
		}
		var names []string
		for _, e := range ents {
			if !e.IsDir() && strings.HasSuffix(e.Name(), ".go") {
				names = append(names, e.Name())
			}
		}
		sort.Strings(names)
		for _, n := range names {
			src := filepath.Join(dir, n)
			if strings.HasSuffix(n, "_test.go") {
				if !strings.HasPrefix(n, "zz_verif_") && !p.KeepTests && p.As == "" {
					overlay[src] = ""
				}
				continue
			}
			if len(p.Files) > 0 {
				keep := false
				for _, fn := range p.Files {
					if fn == n {
						keep = true
					}
				}
				if !keep {
					continue
				}
			}
			fset := token.NewFileSet()
			f, err := parser.ParseFile(fset, src, nil, parser.ParseComments)
			if err != nil {
				allErrs = append(allErrs, err.Error())
				continue
			}
			r := &rewriter{fset: fset, module: sp.Module, level: level, fname: src}
			if len(p.Imports) > 0 {
				r.imports = map[string]bool{}
				for _, ip := range p.Imports {
					r.imports[ip] = true
				}
			}
			if p.NoSyntax {
				r.level = "imports"
			}
			r.extra = p.ImportMap
			r.file(f)
			if r.gosched {
				// keep the "runtime" import used when Gosched was its only use
				f.Decls = append(f.Decls, &ast.GenDecl{Tok: token.VAR, Specs: []ast.Spec{&ast.ValueSpec{
					Names:  []*ast.Ident{ast.NewIdent("_")},
					Values: []ast.Expr{&ast.SelectorExpr{X: ast.NewIdent(r.runtime), Sel: ast.NewIdent("Gosched")}},
				}}})
			}
			if r.used {
				addImport(f, "__vsched", sp.Module+shimRoot+"vsched")
			}
			allErrs = append(allErrs, r.errs...)
			var buf bytes.Buffer
			if err := format.Node(&buf, fset, f); err != nil {
				allErrs = append(allErrs, fmt.Sprintf("%s: print: %v", src, err))
				continue
			}
			if p.As != "" {
				src = filepath.Join(sp.Repo, p.As, n)
			}
			dst := filepath.Join(sp.Out, p.Path, n)
			if err := os.MkdirAll(filepath.Dir(dst), 0o755); err != nil {
				fmt.Fprintln(os.Stderr, err)
				os.Exit(2)
			}
			if err := os.WriteFile(dst, buf.Bytes(), 0o644); err != nil {
				fmt.Fprintln(os.Stderr, err)
				os.Exit(2)
			}
			overlay[src] = dst
			nfiles++
		}
	}
	if len(allErrs) > 0 {
		for _, e := range allErrs {
			fmt.Fprintln(os.Stderr, "vrewrite:", e)
		}
		os.Exit(1)
	}
	ob, _ := json.MarshalIndent(map[string]any{"Replace": overlay}, "", " ")
	if err := os.WriteFile(filepath.Join(sp.Out, "overlay.json"), ob, 0o644); err != nil {
		fmt.Fprintln(os.Stderr, err)
		os.Exit(2)
	}
	fmt.Printf("vrewrite: %d files rewritten in %d packages\n", nfiles, len(sp.Packages))
}
