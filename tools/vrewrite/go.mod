module verif/vrewrite

go 1.23
