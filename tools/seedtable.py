#!/usr/bin/env python3
"""Generate /verif/seeded/README.md from seeded/*/meta.json"""
import json, glob, os
rows = []
for d in sorted(glob.glob('/verif/seeded/*/')):
    mp = os.path.join(d, 'meta.json')
    if not os.path.exists(mp):
        continue
    m = json.load(open(mp))
    n = os.path.basename(d.rstrip('/'))
    first = 'yes' if m.get('detected') and 'detected_after_strengthening' not in m and 'AFTER' not in m.get('detected_by', '') else 'no'
    now = 'yes' if m.get('detected') else 'NO'
    rows.append((n, m.get('breaks_property', m.get('property')), m.get('summary', '').replace('|', '/')[:260], m.get('needs_to_manifest', '').replace('|', '/')[:260], first, now,
                 (m.get('detected_after_strengthening') or m.get('detected_by', '')).replace('|', '/')[:300]))
out = ["# Independently seeded property-breaking changes\n",
       "Each directory holds `patch.diff` (source change only), the author's demonstration test, `DEMO.md` and `meta.json`.",
       "The changes were written by fresh sub-agents that saw only the property text and a scratch worktree (nothing from /verif);",
       "each was confirmed by the coordinator (`tools/seedconfirm.sh`: demonstration passes without the change, fails with it, the package's own tests still pass)",
       "and run against the check (`tools/seedcheck.sh` / `tools/seedrecheck.sh`: `VERIF_REPO=<scratch worktree of /repo HEAD + patch> ./check <ID> quick`).\n",
       "| seed | property | change | needs to manifest | detected at first run | detected now | by |", "|---|---|---|---|---|---|---|"]
for r in rows:
    out.append("| %s | %s | %s | %s | %s | %s | %s |" % r)
tot = len(rows); f = sum(1 for r in rows if r[4] == 'yes'); n = sum(1 for r in rows if r[5] == 'yes')
out.append("\n%d seeded changes: %d detected by the check as first built, %d detected now (after strengthening the checks that missed one)." % (tot, f, n))
open('/verif/seeded/README.md', 'w').write("\n".join(out) + "\n")
print(out[-1])
