package porcupine

// Stub for /verif: porcupine's visualization.go embeds HTML assets, which a build overlay
// cannot provide. The checker only needs the Annotation type declared there.

// Annotation mirrors porcupine.Annotation (visualization only; unused by the checker).
type Annotation struct {
	ClientId        int
	Tag             string
	Start           int64
	End             int64
	Description     string
	Details         string
	TextColor       string
	BackgroundColor string
}
