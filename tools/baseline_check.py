#!/usr/bin/env python3
"""Run the repository baseline (guard OFF) and compare with /root/.vp/BASELINE.json stable_pass."""
import json, subprocess, sys, os
env = dict(os.environ); env['GOFLAGS'] = '-mod=mod'; env['GOPROXY'] = 'off'; env.pop('GOSUMDB', None); env.pop('GOTOOLCHAIN', None)
out = '/dev/shm/baseline.gotest.json'
with open(out, 'w') as f:
    subprocess.run(['go', 'test', '-json', '-vet=off', '-count=1', '-timeout', '25m', './...'], cwd='/repo', stdout=f, stderr=subprocess.STDOUT, env=env)
res = {}
for line in open(out):
    try:
        e = json.loads(line)
    except Exception:
        continue
    if e.get('Test') and e.get('Action') in ('pass', 'fail', 'skip'):
        res[e['Package'] + '::' + e['Test']] = e['Action']
b = json.load(open('/root/.vp/BASELINE.json'))
bad = [t for t in b['stable_pass'] if res.get(t) != 'pass']
print('stable_pass=%d now_pass=%d missing_or_failing=%d' % (len(b['stable_pass']), sum(1 for t in b['stable_pass'] if res.get(t) == 'pass'), len(bad)))
for t in bad[:40]:
    print(' ', t, res.get(t))
sys.exit(1 if bad else 0)
