#!/usr/bin/env python3-vt
"""validate MANIFEST.json and every evidence file against the task schemas"""
import json, sys, glob, jsonschema
ok = True
ms = json.load(open('/root/.vp/MANIFEST.schema.json'))
es = json.load(open('/root/.vp/EVIDENCE.schema.json'))
try:
    m = json.load(open('/verif/MANIFEST.json'))
    jsonschema.validate(m, ms)
    print("MANIFEST ok: %d checks, %d n/a" % (len(m['checks']), len(m.get('not_applicable', []))))
except Exception as e:
    ok = False; print("MANIFEST invalid:", str(e)[:500])
for f in sorted(glob.glob('/verif/evidence/*.json')):
    try:
        jsonschema.validate(json.load(open(f)), es)
    except Exception as e:
        ok = False; print(f, "INVALID:", str(e)[:400])
print("evidence files:", len(glob.glob('/verif/evidence/*.json')))
sys.exit(0 if ok else 1)
