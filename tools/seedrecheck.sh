#!/bin/bash
# tools/seedrecheck.sh <name e.g. C16-1> <ID> [tier] - run check <ID> against /repo HEAD + /verif/seeded/<name>/patch.diff
set -u
N=$1; ID=$2; TIER=${3:-quick}
W=/dev/shm/sr-$N
git -C /repo worktree remove --force $W >/dev/null 2>&1
git -C /repo worktree add --detach $W HEAD >/dev/null 2>&1 || exit 2
if ! git -C $W apply /verif/seeded/$N/patch.diff; then echo "PATCH DOES NOT APPLY to current HEAD"; git -C /repo worktree remove --force $W; exit 2; fi
cd /verif && VERIF_REPO=$W ./check $ID $TIER 2>&1 | grep -v "^  \[\|^KNOWN" | cut -c1-300 | tail -5
rc=${PIPESTATUS[0]}
git -C /repo worktree remove --force $W >/dev/null 2>&1
echo "seedrecheck $N rc=$rc"
