import json,sys,subprocess,os
pid=sys.argv[1]; k=sys.argv[2]; hint=sys.argv[3] if len(sys.argv)>3 else ""
for l in open('/verif/properties.jsonl'):
    p=json.loads(l)
    if p['id']==pid: break
wt=f"/tmp/seed-{pid}-{k}"
if not os.path.isdir(wt):
    subprocess.check_call(['git','-C','/repo','worktree','add','--detach',wt,'HEAD'],stdout=subprocess.DEVNULL,stderr=subprocess.DEVNULL)
prop=json.dumps({x:p[x] for x in ('id','title','statement','quantifier','why_tests_cant','anchors')},indent=1,ensure_ascii=False)
txt=f"""You are a software engineer doing fault-injection research on the Go repository checked out in your private scratch git worktree {wt} (WuKongIM, an instant-messaging server; the worktree is a full checkout, go builds work offline there). Work ONLY inside {wt}. Do not read or write /verif, /repo or any other directory outside your worktree (reading the Go module cache and toolchain is fine).

Here is a semantic property of the system that is supposed to hold (JSON):

{prop}

Your task: make ONE realistic change to the repository's non-test source code that BREAKS this property while
 (1) the repository still compiles (`go build ./...` in the touched packages and their dependents),
 (2) the repository's existing tests still pass - run at least `go test -vet=off -count=1` for every package you touched and for the obvious dependent packages, and make sure they pass (if an existing test fails because of your change, choose a different change),
 (3) the breakage needs something SPECIFIC to manifest - a particular interleaving of goroutines, a crash or fault at a particular point, a multi-step sequence of operations, an unusual input value or boundary, or two cooperating code sites that each look fine alone - NOT something that ordinary use or a trivial smoke test would expose at once. Think of the kind of bug a competent developer could plausibly introduce in a refactoring or optimisation (off-by-one at a boundary, a check moved after the action it guards, a cache not invalidated on one path, a lock scope narrowed, an error path that forgets cleanup, a comparison that ignores one field, state published before it is durable...). {hint}

Then write a DEMONSTRATION: a Go test (preferred; placed as a new *_test.go file in the relevant package) or a small program that FAILS with your change applied and PASSES on the unchanged code. For interleaving-dependent bugs make the demonstration deterministic if you can (hooks already present in the code, channels/barriers in test doubles, or a loop that reproduces with high probability and says so).

Every shell that runs go needs: `export GOFLAGS=-mod=mod GOPROXY=off; unset GOSUMDB GOTOOLCHAIN` (no network exists; GOSUMDB=off or GOTOOLCHAIN=local break the build).

Deliverables, all inside {wt}/_seed/ (create the directory):
 - patch.diff : `git diff` of your source change ONLY (no test files, not the _seed directory), applicable with `git apply` to a clean checkout of the same commit
 - the demonstration file(s), plus DEMO.md saying exactly where each file goes and the exact command to run it
 - meta.json : {{"property": "{pid}", "summary": "<one sentence: what was changed>", "needs_to_manifest": "<the specific interleaving / crash point / operation sequence / input needed>", "touched_files": [...], "existing_tests_run": ["<commands you ran and that passed>"], "demo_fails_with_change": true, "demo_passes_without_change": true}}
Verify both directions yourself before finishing: with the change the demo fails; after reverting the source change with `git diff > /tmp/p-$$.diff; git apply -R /tmp/p-$$.diff` (do NOT use git stash: the stash is shared between worktrees of other engineers) the demo passes, then re-apply with `git apply`. Leave the worktree with the source change APPLIED and the demo file in place. Your final message: a 5-10 line summary (what you changed, why it breaks the property, what it needs to manifest, commands run)."""
open(f'/verif/tools/seedprompts/{pid}-{k}.txt','w').write(txt)
print(wt)
