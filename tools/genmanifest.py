#!/usr/bin/env python3
"""Regenerate /verif/MANIFEST.json from harness/*/harness.json (claimed checks) and
tools/not_applicable.json (reasons for unclaimed properties)."""
import json, os, glob, subprocess
V = os.path.dirname(os.path.dirname(os.path.abspath(__file__)))
props = [json.loads(l)["id"] for l in open(os.path.join(V, "properties.jsonl"))]
na_reasons = {}
p = os.path.join(V, "tools", "not_applicable.json")
if os.path.exists(p):
    na_reasons = json.load(open(p))
checks, claimed = [], set()
ready = set(l.strip() for l in open(os.path.join(V, "tools", "claimed.txt")) if l.strip() and not l.startswith("#"))
for pid in props:
    if pid not in ready:
        continue
    hp = os.path.join(V, "harness", pid, "harness.json")
    if not os.path.exists(hp):
        continue
    H = json.load(open(hp))
    if H.get("disabled"):
        na_reasons.setdefault(pid, H["disabled"])
        continue
    claimed.add(pid)
    c = {
        "property_id": pid,
        "quick_cmd": "./check %s quick" % pid,
        "thorough_cmd": "./check %s thorough" % pid,
        "evidence_file": "evidence/%s.json" % pid,
        "replay_cmd_template": "./check %s --replay {path}" % pid,
        "engine": H.get("engine", "mc"),
        "level_claimed": {"category": H["level"], "text": H.get("level_text", H.get("rule", "")), "design_ref": H.get("design_ref", "DESIGN.md section 4, " + pid)},
        "level_note": H.get("level_note", "; ".join(H.get("trusted_base", []))),
        "technique": H.get("technique", ""),
    }
    checks.append(c)
hooks_commits = []
hp = os.path.join(V, "tools", "hook_commits.txt")
if os.path.exists(hp):
    hooks_commits = [l.split()[0] for l in open(hp) if l.strip()]
M = {
    "version": 1,
    "setup_cmd": "./setup",
    "hooks": {
        "guard": "verif",
        "enable": "go test -c -trimpath -tags verif -overlay <generated> (see /verif/check); harness and engine sources are injected by -overlay, /repo is never written",
        "baseline_off_cmd": "cd /repo && GOFLAGS=-mod=mod GOPROXY=off go test -json -vet=off -count=1 -timeout 25m ./...",
        "source_commits": hooks_commits,
        "add_only": True,
    },
    "engines": [
        {"name": "mc", "path": "lib/mc", "kind_free_text": "explicit-state BFS over real objects: replay-from-fresh successors, canonical-state merging, deviation-bounded environment answers", "serves_properties": []},
        {"name": "enum", "path": "lib/ev", "kind_free_text": "bounded-exhaustive input enumeration with measured distinct-case counting", "serves_properties": []},
        {"name": "vsched", "path": "lib/vsched", "kind_free_text": "controlled cooperative scheduler + source rewriter: preemption-bounded DFS over all interleavings of real goroutine code", "serves_properties": []},
        {"name": "crashfs", "path": "lib/crashfs", "kind_free_text": "crash-point enumeration: every mutating FS call is a crash point, kill and power-loss images reopened by the real recovery path", "serves_properties": []},
        {"name": "check", "path": "check", "kind_free_text": "driver: overlay generation, build from /repo working tree, sharding, evidence, known-findings", "serves_properties": sorted(claimed)},
    ],
    "checks": checks,
    "not_applicable": [{"property_id": pid, "reason": na_reasons.get(pid, "check not built yet in this session; not claimed")} for pid in props if pid not in claimed],
    "notes": "All checks rebuild from $VERIF_REPO (default /repo) working tree through go build -overlay; see DESIGN.md.",
}
for e in M["engines"]:
    if e["name"] != "check":
        e["serves_properties"] = sorted(pid for pid in claimed if json.load(open(os.path.join(V, "harness", pid, "harness.json"))).get("engine", "mc").find(e["name"]) >= 0)
json.dump(M, open(os.path.join(V, "MANIFEST.json"), "w"), indent=1)
print("MANIFEST.json: %d checks, %d not claimed" % (len(checks), len(props) - len(claimed)))
