#!/bin/bash
# tools/seedconfirm.sh <seed-worktree> <pkg> <go test -run regex> [extra go test flags]
# Confirms in a FRESH scratch worktree of /repo HEAD: patch applies; demo fails with the change and
# passes without; the package's own tests still pass with the change. Then removes the worktree.
set -u
SD=$1; PKG=$2; RUN=$3; shift 3
export GOFLAGS=-mod=mod GOPROXY=off; unset GOSUMDB GOTOOLCHAIN
W=/dev/shm/sc-$(basename $SD)
git -C /repo worktree remove --force $W >/dev/null 2>&1
git -C /repo worktree add --detach $W HEAD >/dev/null 2>&1 || exit 2
for f in $SD/_seed/*_test.go; do cp $f $W/$PKG/; done
cd $W
echo "== demo WITHOUT change (expect ok)"; go test -vet=off -count=1 -run "$RUN" "$@" ./$PKG/ 2>&1 | tail -3
git apply $SD/_seed/patch.diff || { echo "PATCH DOES NOT APPLY"; }
echo "== demo WITH change (expect FAIL)"; go test -vet=off -count=1 -run "$RUN" "$@" ./$PKG/ 2>&1 | tail -4
for f in $SD/_seed/*_test.go; do rm -f $W/$PKG/$(basename $f); done
echo "== package's own tests WITH change (expect ok)"; go test -vet=off -count=1 "$@" ./$PKG/ 2>&1 | tail -3
cd /; git -C /repo worktree remove --force $W >/dev/null 2>&1
