#!/bin/bash
# tools/seedcheck.sh <seed-dir> <ID> [tier]  - run check <ID> against a scratch worktree of /repo HEAD
# carrying <seed-dir>/_seed/patch.diff; prints the check's verdict. The worktree is removed.
set -u
SD=$1; ID=$2; TIER=${3:-quick}
W=/dev/shm/sv-$(basename $SD)-$ID
git -C /repo worktree remove --force $W >/dev/null 2>&1
git -C /repo worktree add --detach $W HEAD >/dev/null 2>&1 || { echo "cannot create worktree"; exit 2; }
if ! git -C $W apply $SD/_seed/patch.diff; then echo "PATCH DOES NOT APPLY to current HEAD"; git -C /repo worktree remove --force $W; exit 2; fi
cd /verif && VERIF_REPO=$W ./check $ID $TIER 2>&1 | grep -v "^  \[" | cut -c1-400 | tail -8
rc=${PIPESTATUS[0]}
git -C /repo worktree remove --force $W >/dev/null 2>&1
echo "seedcheck rc=$rc"
