#!/bin/bash
# tools/seedprocess.sh <ID> <k> <pkg> <run-regex> - confirm /tmp/seed-<ID>-<k>, run check <ID> quick against it, print both logs
ID=$1; K=$2; PKG=$3; RUN=$4
cd /verif
tools/seedconfirm.sh /tmp/seed-$ID-$K $PKG "$RUN" > /tmp/sc-$ID-$K.log 2>&1
tools/seedcheck.sh /tmp/seed-$ID-$K $ID > /tmp/sk-$ID-$K.log 2>&1
echo "=== $ID-$K"; cat /tmp/sc-$ID-$K.log; tail -4 /tmp/sk-$ID-$K.log
