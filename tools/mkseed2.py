import json,sys,subprocess
pid=sys.argv[1]; k=sys.argv[2]
prev=[]
import glob
for d in glob.glob('/verif/seeded/%s-*/meta.json'%pid):
    m=json.load(open(d)); prev.append(m.get('summary',''))
hint="IMPORTANT: other engineers already delivered the following change(s) for this property - choose a DIFFERENT code site and a different mechanism (ideally a different part of the property statement, and prefer concurrency-, crash- or multi-step-dependent breakage): " + " || ".join(p[:400] for p in prev)
subprocess.check_call(['python3','/tmp/mkseed.py',pid,k,hint])
