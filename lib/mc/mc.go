// Package mc is the explicit-state / operation-sequence explorer of /verif (engine E1).
//
// It explores, breadth first and exhaustively up to stated bounds, every sequence of
// events of a System, where every transition is executed on the REAL implementation
// objects owned by an Instance. Real objects cannot be cloned, so a state is the event
// path that reaches it and a successor is produced by replaying that path on a fresh
// instance plus one event (or by Clone when the instance offers it).
//
// Environment nondeterminism inside one event (is the reply lost? does the node crash
// before this page?) is asked through Env.Choose; answer 0 is the default and every other
// answer is a deviation. All executions with at most MaxDeviations deviations along the
// whole path are enumerated, at every position.
package mc

import (
	"encoding/json"
	"fmt"
	"hash/fnv"
	"runtime"
	"sort"
	"strings"
	"sync"
	"sync/atomic"
	"time"

	"github.com/WuKongIM/WuKongIM/pkg/zzverif/ev"
)

// Step is one executed transition: an event label plus the environment answers given
// during it.
type Step struct {
	Ev      string `json:"ev"`
	Choices []int  `json:"env,omitempty"`
}

// Path is a sequence of steps from a fresh instance.
type Path []Step

func (p Path) String() string {
	parts := make([]string, len(p))
	for i, s := range p {
		if len(s.Choices) > 0 {
			parts[i] = fmt.Sprintf("%s%v", s.Ev, s.Choices)
		} else {
			parts[i] = s.Ev
		}
	}
	return strings.Join(parts, " ; ")
}

func (p Path) deviations() int {
	n := 0
	for _, s := range p {
		for _, c := range s.Choices {
			if c != 0 {
				n++
			}
		}
	}
	return n
}

// Env answers environment questions during one Apply.
type Env struct {
	prefix []int
	trace  []int
	arity  []int
	labels []string
	bad    string
}

// Choose returns the environment's answer in [0,n). Beyond the replayed prefix it
// returns 0 (the default answer); the explorer then schedules the alternatives.
func (e *Env) Choose(label string, n int) int {
	if n <= 1 {
		return 0
	}
	i := len(e.trace)
	c := 0
	if i < len(e.prefix) {
		c = e.prefix[i]
		if c >= n {
			e.bad = fmt.Sprintf("replayed env choice %d out of range %d at %q (#%d)", c, n, label, i)
			c = 0
		}
	}
	e.trace = append(e.trace, c)
	e.arity = append(e.arity, n)
	e.labels = append(e.labels, label)
	return c
}

// Labels returns the labels of the questions asked so far (for written-out samples).
func (e *Env) Labels() []string { return e.labels }

// Instance owns the real objects of one execution.
type Instance interface {
	// Events lists the labels of the events enabled now, simplest first. Labels must be
	// stable: the same label means the same operation in every state.
	Events() []string
	// Apply executes one event on the real code. obs is a short description of what
	// was observed (counted as distinct outcomes); a non-nil error is a property
	// violation detected on this transition.
	Apply(event string, env *Env) (obs string, err error)
	// Canon returns the canonical form of everything the future behaviour and the
	// oracle depend on; "" disables merging for this state.
	Canon() string
	// Check evaluates the state invariant; a non-nil error is a property violation.
	Check() error
}

// Closer is implemented by instances that hold resources.
type Closer interface{ Close() }

// Cloner is implemented by instances that can be deep-copied (pure structs).
type Cloner interface{ Clone() Instance }

// Fingerprinter lets a violation carry a structural fingerprint.
type Fingerprinter interface{ Fingerprint() string }

// V is an error with a fingerprint, for use by harness oracles.
type V struct {
	FP  string
	Msg string
}

func (v *V) Error() string       { return v.Msg }
func (v *V) Fingerprint() string { return v.FP }

// Violatef builds a fingerprinted violation.
func Violatef(fp string, format string, args ...any) error {
	return &V{FP: fp, Msg: fmt.Sprintf(format, args...)}
}

// Prune is returned (wrapped in no violation) by Apply to say "valid, but do not extend
// this path" (used after a known finding so that its consequences are not new findings).
type pruneErr struct{ inner error }

func (p *pruneErr) Error() string { return p.inner.Error() }
func (p *pruneErr) Unwrap() error { return p.inner }

// PruneAfter marks a violation after which the path is not extended.
func PruneAfter(err error) error { return &pruneErr{inner: err} }

// System describes one exploration.
type System struct {
	Name string
	New  func() Instance
	// MaxDepth bounds the number of top-level events on a path.
	MaxDepth int
	// MaxDeviations bounds non-default environment answers along the whole path.
	MaxDeviations int
	// Workers is the number of in-process expansion workers (0 = GOMAXPROCS). Use 1 when
	// the code under test has process-global state.
	Workers int
	// ShardDepth is the layer at which the frontier is split between shard processes.
	ShardDepth int
	// MaxStates stops the search (exhaustive=false) when that many states were stored.
	MaxStates int64
	// KeepGoing explores past a violating state (default: a violating path is not extended).
	KeepGoing bool
	// Bounds is copied to the evidence.
	Bounds map[string]any
	// Note is copied to the evidence.
	Note string
}

type node struct {
	path Path
	dev  int
}

// Result is returned by Run.
type Result struct {
	States, Transitions, Replays int64
	Depth                        int
	Exhaustive                   bool
	Outcomes                     int
	Violations                   int
}

func build(sys *System, p Path) (Instance, error) {
	inst := sys.New()
	for i, s := range p {
		if err := checkEnabled(inst, s.Ev); err != nil {
			closeInst(inst)
			return nil, fmt.Errorf("replay diverged at step %d (%s): %v", i, s.Ev, err)
		}
		env := &Env{prefix: s.Choices}
		_, _ = inst.Apply(s.Ev, env)
		if env.bad != "" {
			closeInst(inst)
			return nil, fmt.Errorf("replay diverged at step %d (%s): %s", i, s.Ev, env.bad)
		}
		if len(env.trace) != len(s.Choices) {
			closeInst(inst)
			return nil, fmt.Errorf("replay diverged at step %d (%s): %d env questions, recorded %d", i, s.Ev, len(env.trace), len(s.Choices))
		}
	}
	return inst, nil
}

func checkEnabled(inst Instance, evl string) error {
	for _, e := range inst.Events() {
		if e == evl {
			return nil
		}
	}
	return fmt.Errorf("event %q not enabled", evl)
}

func closeInst(i Instance) {
	if c, ok := i.(Closer); ok {
		c.Close()
	}
}

func fp(err error, sys string) string {
	var f Fingerprinter
	e := err
	for e != nil {
		if x, ok := e.(Fingerprinter); ok {
			f = x
			break
		}
		u, ok := e.(interface{ Unwrap() error })
		if !ok {
			break
		}
		e = u.Unwrap()
	}
	if f != nil {
		return f.Fingerprint()
	}
	// Default fingerprint: the message with digits removed, so that it classifies the
	// kind of failure and not one particular instance.
	msg := err.Error()
	var b strings.Builder
	for _, r := range msg {
		if r >= '0' && r <= '9' {
			continue
		}
		b.WriteRune(r)
	}
	s := b.String()
	if len(s) > 96 {
		s = s[:96]
	}
	return sys + ":" + s
}

type replayPayload struct {
	System string `json:"system"`
	Path   Path   `json:"path"`
}

// Run explores sys and records a section, samples and violations in r.
func Run(r *ev.R, sys System) Result {
	if rf := r.Replay(); rf != nil {
		return runReplay(r, &sys, rf)
	}
	start := time.Now()
	workers := sys.Workers
	if workers <= 0 {
		workers = runtime.GOMAXPROCS(0)
	}
	deadline := r.Deadline()
	shardI, shardN := r.Shard()
	shardDepth := sys.ShardDepth
	if shardDepth <= 0 {
		shardDepth = 1
	}

	var (
		mu          sync.Mutex
		seen        = map[uint64]int{} // canon hash -> min deviations used
		outcomes    = map[uint64]struct{}{}
		states      int64
		transitions int64
		replays     int64
		capped      atomic.Bool
		nviol       int64
		sampleEvery = int64(1)
	)
	hash := func(s string) uint64 { h := fnv.New64a(); h.Write([]byte(s)); return h.Sum64() }

	report := func(p Path, err error) {
		// Re-run twice: a violation must reproduce identically before it is believed.
		msgs := [2]string{}
		for k := 0; k < 2; k++ {
			msgs[k] = replayOnce(&sys, p)
		}
		if msgs[0] != msgs[1] || msgs[0] == "" {
			r.HarnessError("system %s: violation %q on path [%s] did not reproduce identically (%q vs %q)", sys.Name, err.Error(), p.String(), msgs[0], msgs[1])
			return
		}
		atomic.AddInt64(&nviol, 1)
		r.Violation(ev.Violation{Fingerprint: fp(err, sys.Name), Message: fmt.Sprintf("%s: %v | path: %s", sys.Name, err, p.String()), System: sys.Name,
			Replay: replayPayload{System: sys.Name, Path: p}})
	}

	root, err := build(&sys, nil)
	if err != nil {
		r.HarnessError("system %s: cannot build root: %v", sys.Name, err)
		return Result{}
	}
	if e := root.Check(); e != nil {
		report(nil, e)
	}
	if c := root.Canon(); c != "" {
		seen[hash(c)] = 0
	}
	closeInst(root)
	states = 1
	frontier := []node{{}}
	depth := 0
	exhaustive := true

	for len(frontier) > 0 && depth < sys.MaxDepth {
		if shardN > 1 && depth == shardDepth {
			kept := frontier[:0]
			for i, n := range frontier {
				if (i+int(r.Seed()))%shardN == shardI {
					kept = append(kept, n)
				}
			}
			frontier = kept
		}
		var next []node
		var wg sync.WaitGroup
		work := make(chan node, 256)
		for w := 0; w < workers; w++ {
			wg.Add(1)
			go func() {
				defer wg.Done()
				for n := range work {
					if capped.Load() {
						continue
					}
					if !deadline.IsZero() && time.Now().After(deadline) {
						capped.Store(true)
						continue
					}
					expand(&sys, n, func() { atomic.AddInt64(&replays, 1) }, func(child node, obs string, canon string, verr error, prune bool) {
						t := atomic.AddInt64(&transitions, 1)
						mu.Lock()
						outcomes[hash(obs)] = struct{}{}
						takeSample := t >= sampleEvery
						if takeSample {
							sampleEvery = sampleEvery*7 + 1
						}
						mu.Unlock()
						if takeSample {
							r.Sample(map[string]any{"system": sys.Name, "path": child.path.String(), "observed": obs})
						}
						if verr != nil {
							report(child.path, verr)
							if !sys.KeepGoing || prune {
								return
							}
						}
						if prune {
							return
						}
						mu.Lock()
						defer mu.Unlock()
						if canon != "" {
							k := hash(canon)
							if d, ok := seen[k]; ok && d <= child.dev {
								return
							} else if !ok {
								states++
							}
							seen[k] = child.dev
						} else {
							states++
						}
						if sys.MaxStates > 0 && states >= sys.MaxStates {
							capped.Store(true)
						}
						next = append(next, child)
					}, func(format string, args ...any) { r.HarnessError(format, args...) })
				}
			}()
		}
		for _, n := range frontier {
			work <- n
		}
		close(work)
		wg.Wait()
		if capped.Load() {
			exhaustive = false
			break
		}
		depth++
		// Deterministic order of the next layer (workers finish in any order).
		sort.Slice(next, func(i, j int) bool { return next[i].path.String() < next[j].path.String() })
		frontier = next
	}
	if len(frontier) > 0 && depth >= sys.MaxDepth {
		// Depth bound cut the search: everything up to MaxDepth events was covered.
		exhaustive = true
	}
	bounds := map[string]any{"max_depth": sys.MaxDepth, "max_deviations": sys.MaxDeviations, "depth_completed": depth, "frontier_at_bound": len(frontier)}
	for k, v := range sys.Bounds {
		bounds[k] = v
	}
	note := sys.Note
	if !exhaustive {
		note += " [stopped by wall-clock/state cap before the depth bound; layers < depth_completed+1 fully covered]"
	}
	r.Section(ev.Section{Name: sys.Name, Kind: "mc", States: states, Transitions: transitions, Validated: transitions,
		Evaluations: transitions, Distinct: states, Exhaustive: exhaustive, Bounds: bounds, Outcomes: int64(len(outcomes)),
		Note: note, WallS: time.Since(start).Seconds()})
	r.Count("replayed_prefix_executions", replays)
	return Result{States: states, Transitions: transitions, Replays: replays, Depth: depth, Exhaustive: exhaustive, Outcomes: len(outcomes), Violations: int(nviol)}
}

// expand executes every (event, environment answers) successor of n.
func expand(sys *System, n node, onReplay func(), emit func(child node, obs, canon string, verr error, prune bool), herr func(string, ...any)) {
	var base Instance
	getBase := func() Instance {
		if base != nil {
			if c, ok := base.(Cloner); ok {
				return c.Clone()
			}
			b := base
			base = nil
			return b
		}
		onReplay()
		inst, err := build(sys, n.path)
		if err != nil {
			herr("system %s: %v", sys.Name, err)
			return nil
		}
		if _, ok := inst.(Cloner); ok {
			base = inst
			return inst.(Cloner).Clone()
		}
		return inst
	}
	first := getBase()
	if first == nil {
		return
	}
	events := first.Events()
	type item struct {
		ev     string
		prefix []int
	}
	var stack []item
	for i := len(events) - 1; i >= 0; i-- {
		stack = append(stack, item{ev: events[i]})
	}
	cur := first
	for len(stack) > 0 {
		it := stack[len(stack)-1]
		stack = stack[:len(stack)-1]
		inst := cur
		cur = nil
		if inst == nil {
			inst = getBase()
			if inst == nil {
				return
			}
		}
		env := &Env{prefix: it.prefix}
		obs, verr := inst.Apply(it.ev, env)
		if env.bad != "" {
			herr("system %s: %s", sys.Name, env.bad)
			closeInst(inst)
			continue
		}
		// Schedule the alternatives of every question asked beyond the prefix.
		devPrefix := 0
		for _, c := range it.prefix {
			if c != 0 {
				devPrefix++
			}
		}
		for i := len(env.trace) - 1; i >= len(it.prefix); i-- {
			if n.dev+devPrefix+1 > sys.MaxDeviations {
				break
			}
			for alt := env.arity[i] - 1; alt >= 1; alt-- {
				np := make([]int, i+1)
				copy(np, env.trace[:i])
				np[i] = alt
				stack = append(stack, item{ev: it.ev, prefix: np})
			}
		}
		dev := 0
		for _, c := range env.trace {
			if c != 0 {
				dev++
			}
		}
		prune := false
		if verr != nil {
			if _, ok := verr.(*pruneErr); ok {
				prune = true
			}
		}
		if verr == nil {
			verr = inst.Check()
		}
		canon := ""
		if verr == nil || sys.KeepGoing {
			canon = inst.Canon()
		}
		closeInst(inst)
		cp := make(Path, len(n.path)+1)
		copy(cp, n.path)
		cp[len(n.path)] = Step{Ev: it.ev, Choices: append([]int(nil), env.trace...)}
		emit(node{path: cp, dev: n.dev + dev}, obs, canon, verr, prune)
	}
	if base != nil {
		closeInst(base)
	}
}

// replayOnce runs a path and returns the violation message it ends with ("" if none).
func replayOnce(sys *System, p Path) string {
	inst := sys.New()
	defer closeInst(inst)
	if e := inst.Check(); e != nil && len(p) == 0 {
		return e.Error()
	}
	for i, s := range p {
		if err := checkEnabled(inst, s.Ev); err != nil {
			return ""
		}
		env := &Env{prefix: s.Choices}
		_, verr := inst.Apply(s.Ev, env)
		if verr == nil {
			verr = inst.Check()
		}
		if verr != nil {
			if i == len(p)-1 {
				return verr.Error()
			}
			// an earlier violation on the path (KeepGoing); continue
		}
	}
	return ""
}

func runReplay(r *ev.R, sys *System, rf *ev.ReplayFile) Result {
	var pl replayPayload
	if err := json.Unmarshal(rf.Replay, &pl); err != nil || pl.System != sys.Name {
		return Result{}
	}
	inst := sys.New()
	defer closeInst(inst)
	for i, s := range pl.Path {
		if err := checkEnabled(inst, s.Ev); err != nil {
			r.HarnessError("replay: step %d: %v", i, err)
			return Result{}
		}
		env := &Env{prefix: s.Choices}
		obs, verr := inst.Apply(s.Ev, env)
		if verr == nil {
			verr = inst.Check()
		}
		fmt.Printf("replay step %d: %s env=%v -> %s\n", i, s.Ev, env.trace, obs)
		if verr != nil {
			fmt.Printf("replay step %d: VIOLATES: %v\n", i, verr)
			if i == len(pl.Path)-1 {
				r.MarkReplayReproduced()
				r.Violation(ev.Violation{Fingerprint: fp(verr, sys.Name), Message: verr.Error(), System: sys.Name, Replay: pl})
			}
		}
	}
	r.Section(ev.Section{Name: sys.Name, Kind: "mc", States: int64(len(pl.Path)) + 1, Transitions: int64(len(pl.Path)), Validated: int64(len(pl.Path)), Note: "replay"})
	return Result{}
}
