// Package vctx replaces "context" in rewritten packages: everything is the real package
// except deadlines, which run on vsched's virtual clock.
package vctx

import (
	"context"
	"time"

	"github.com/WuKongIM/WuKongIM/pkg/zzverif/vsched"
	"github.com/WuKongIM/WuKongIM/pkg/zzverif/vtime"
)

type (
	Context         = context.Context
	CancelFunc      = context.CancelFunc
	CancelCauseFunc = context.CancelCauseFunc
)

var (
	Canceled         = context.Canceled
	DeadlineExceeded = context.DeadlineExceeded
)

func Background() Context                                      { return context.Background() }
func TODO() Context                                            { return context.TODO() }
func WithCancel(p Context) (Context, CancelFunc)               { return context.WithCancel(p) }
func WithCancelCause(p Context) (Context, CancelCauseFunc)     { return context.WithCancelCause(p) }
func WithValue(p Context, k, v any) Context                    { return context.WithValue(p, k, v) }
func WithoutCancel(p Context) Context                          { return context.WithoutCancel(p) }
func Cause(c Context) error                                    { return context.Cause(c) }
func AfterFunc(c Context, f func()) (stop func() bool)         { return context.AfterFunc(c, f) }

type deadlineCtx struct {
	context.Context
	deadline time.Time
	expired  *bool
}

func (d *deadlineCtx) Deadline() (time.Time, bool) { return d.deadline, true }
func (d *deadlineCtx) Err() error {
	if *d.expired {
		return context.DeadlineExceeded
	}
	return d.Context.Err()
}

// WithDeadline uses the virtual clock inside an execution.
func WithDeadline(p Context, t time.Time) (Context, CancelFunc) {
	if vsched.Active() == nil {
		return context.WithDeadline(p, t)
	}
	return WithTimeout(p, t.Sub(vtime.Now()))
}

// WithTimeout uses the virtual clock inside an execution.
func WithTimeout(p Context, d time.Duration) (Context, CancelFunc) {
	if vsched.Active() == nil {
		return context.WithTimeout(p, d)
	}
	inner, cancel := context.WithCancelCause(p)
	expired := false
	ctx := &deadlineCtx{Context: inner, deadline: vtime.Now().Add(d), expired: &expired}
	if pd, ok := p.Deadline(); ok && pd.Before(ctx.deadline) {
		ctx.deadline = pd
	}
	h := vsched.AddTimer(d, func() {
		if inner.Err() == nil {
			expired = true
			cancel(context.DeadlineExceeded)
		}
	})
	return ctx, func() {
		h.Stop()
		cancel(context.Canceled)
		vsched.Progress()
	}
}

func WithTimeoutCause(p Context, d time.Duration, _ error) (Context, CancelFunc) { return WithTimeout(p, d) }
func WithDeadlineCause(p Context, t time.Time, _ error) (Context, CancelFunc)    { return WithDeadline(p, t) }
