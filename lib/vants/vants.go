// Package vants replaces github.com/panjf2000/ants/v2 in rewritten packages with a MODEL
// of the pool on managed threads (trusted base): bounded resident workers, blocking vs
// non-blocking submit, ErrPoolOverload / ErrPoolClosed, panic handler, Release /
// ReleaseTimeout, and the window in which a worker has finished its task but is not yet
// back on the idle list (a separate scheduling step).
package vants

import (
	"time"

	ants "github.com/panjf2000/ants/v2"

	"github.com/WuKongIM/WuKongIM/pkg/zzverif/vsched"
)

type (
	Option  = ants.Option
	Options = ants.Options
	Logger  = ants.Logger
)

var (
	ErrPoolClosed   = ants.ErrPoolClosed
	ErrPoolOverload = ants.ErrPoolOverload
	ErrTimeout      = ants.ErrTimeout
	ErrLackPoolFunc = ants.ErrLackPoolFunc
)

const DefaultAntsPoolSize = ants.DefaultAntsPoolSize

func WithOptions(o Options) Option              { return ants.WithOptions(o) }
func WithExpiryDuration(d time.Duration) Option { return ants.WithExpiryDuration(d) }
func WithPreAlloc(b bool) Option                { return ants.WithPreAlloc(b) }
func WithMaxBlockingTasks(n int) Option         { return ants.WithMaxBlockingTasks(n) }
func WithNonblocking(b bool) Option             { return ants.WithNonblocking(b) }
func WithPanicHandler(h func(any)) Option       { return ants.WithPanicHandler(h) }
func WithLogger(l Logger) Option                { return ants.WithLogger(l) }
func WithDisablePurge(b bool) Option            { return ants.WithDisablePurge(b) }

type worker struct {
	task func()
	quit bool
	busy bool
}

type core struct {
	cap     int
	opts    Options
	closed  bool
	running int // live worker threads
	idle    []*worker
	waiting int
}

func newCore(size int, options []Option) *core {
	c := &core{cap: size}
	for _, o := range options {
		o(&c.opts)
	}
	if c.cap <= 0 {
		c.cap = 1 << 30
	}
	return c
}

func (c *core) workerLoop(w *worker) {
	for {
		vsched.WaitUntil("ants.worker.idle", func() bool { return w.task != nil || w.quit })
		if w.task == nil {
			break
		}
		t := w.task
		w.task = nil
		c.runTask(t)
		// finished, but not yet back on the idle list: a submit in this window sees a busy worker
		vsched.Point("ants.worker.revert")
		w.busy = false
		if c.closed || c.running > c.cap {
			break
		}
		c.idle = append(c.idle, w)
		vsched.Progress()
	}
	c.running--
	vsched.Progress()
}

func (c *core) runTask(t func()) {
	defer func() {
		if p := recover(); p != nil {
			if vsched.Aborting() {
				return
			}
			if c.opts.PanicHandler != nil {
				c.opts.PanicHandler(p)
				return
			}
			panic(p)
		}
	}()
	t()
}

func (c *core) submit(task func()) error {
	vsched.Point("ants.submit")
	if c.closed {
		return ErrPoolClosed
	}
	for {
		if len(c.idle) > 0 {
			w := c.idle[len(c.idle)-1]
			c.idle = c.idle[:len(c.idle)-1]
			w.task = task
			w.busy = true
			vsched.Progress()
			return nil
		}
		if c.running < c.cap {
			w := &worker{task: task, busy: true}
			c.running++
			vsched.GoNamed("ants.worker", func() { c.workerLoop(w) })
			return nil
		}
		if c.opts.Nonblocking || (c.opts.MaxBlockingTasks != 0 && c.waiting >= c.opts.MaxBlockingTasks) {
			return ErrPoolOverload
		}
		c.waiting++
		vsched.WaitUntil("ants.submit.blocked", func() bool { return c.closed || len(c.idle) > 0 || c.running < c.cap })
		c.waiting--
		if c.closed {
			return ErrPoolClosed
		}
	}
}

func (c *core) Running() int   { return c.running }
func (c *core) Cap() int       { return c.cap }
func (c *core) Waiting() int   { return c.waiting }
func (c *core) IsClosed() bool { return c.closed }
func (c *core) Free() int {
	if c.cap >= 1<<30 {
		return -1
	}
	return c.cap - c.running
}
func (c *core) Tune(size int) {
	if size > 0 {
		c.cap = size
		vsched.Progress()
	}
}

func (c *core) Release() {
	if c.closed {
		return
	}
	c.closed = true
	for _, w := range c.idle {
		w.quit = true
	}
	c.idle = nil
	vsched.Progress()
}

func (c *core) ReleaseTimeout(d time.Duration) error {
	if c.closed {
		return ErrPoolClosed
	}
	c.Release()
	fired := false
	h := vsched.AddTimer(d, func() { fired = true })
	vsched.WaitUntil("ants.ReleaseTimeout", func() bool { return c.running == 0 || fired })
	h.Stop()
	if c.running == 0 {
		return nil
	}
	return ErrTimeout
}

func (c *core) Reboot() {
	if c.closed {
		c.closed = false
	}
}

// Pool models ants.Pool.
type Pool struct{ *core }

func NewPool(size int, options ...Option) (*Pool, error) { return &Pool{newCore(size, options)}, nil }

func (p *Pool) Submit(task func()) error { return p.submit(task) }

// PoolWithFuncGeneric models ants.PoolWithFuncGeneric.
type PoolWithFuncGeneric[T any] struct {
	*core
	fn func(T)
}

func NewPoolWithFuncGeneric[T any](size int, pf func(T), options ...Option) (*PoolWithFuncGeneric[T], error) {
	if pf == nil {
		return nil, ErrLackPoolFunc
	}
	return &PoolWithFuncGeneric[T]{core: newCore(size, options), fn: pf}, nil
}

func (p *PoolWithFuncGeneric[T]) Invoke(arg T) error {
	return p.submit(func() { p.fn(arg) })
}

// PoolWithFunc models ants.PoolWithFunc.
type PoolWithFunc struct {
	*core
	fn func(any)
}

func NewPoolWithFunc(size int, pf func(any), options ...Option) (*PoolWithFunc, error) {
	if pf == nil {
		return nil, ErrLackPoolFunc
	}
	return &PoolWithFunc{core: newCore(size, options), fn: pf}, nil
}

func (p *PoolWithFunc) Invoke(arg any) error { return p.submit(func() { p.fn(arg) }) }
