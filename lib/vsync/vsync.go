// Package vsync replaces "sync" in rewritten packages: same API, but blocking is a
// scheduling decision of vsched instead of a real block. State is plain data because only
// one managed thread runs at a time.
package vsync

import (
	"sync"

	"github.com/WuKongIM/WuKongIM/pkg/zzverif/vsched"
)

// Locker is sync.Locker.
type Locker = sync.Locker

// Pool replaces sync.Pool with a deterministic model: a LIFO free list that is emptied at
// the start of every execution (the real pool's contents depend on the GC and on earlier
// executions, which would make schedules irreproducible). Get and Put are scheduling
// points: which thread recycles an object first is a scheduling decision.
type Pool struct {
	New   func() any
	items []any
	gen   uint64
	real  sync.Pool
}

func (p *Pool) sync() bool {
	g := vsched.Generation()
	if g == 0 {
		return false
	}
	if p.gen != g {
		p.gen = g
		p.items = nil
	}
	return true
}

// Get returns the most recently Put object of this execution, or New().
func (p *Pool) Get() any {
	if !p.sync() {
		if p.real.New == nil {
			p.real.New = p.New
		}
		return p.real.Get()
	}
	vsched.Point("Pool.Get")
	if n := len(p.items); n > 0 {
		x := p.items[n-1]
		p.items = p.items[:n-1]
		return x
	}
	if p.New != nil {
		return p.New()
	}
	return nil
}

// Put recycles x.
func (p *Pool) Put(x any) {
	if x == nil {
		return
	}
	if !p.sync() {
		p.real.Put(x)
		return
	}
	vsched.Point("Pool.Put")
	p.items = append(p.items, x)
}

// Mutex replaces sync.Mutex.
type Mutex struct {
	locked bool
}

// Lock is a scheduling point; it parks while the mutex is held.
func (m *Mutex) Lock() {
	if vsched.Aborting() {
		return
	}
	vsched.Block(mutexOp{m})
	m.locked = true
}

// TryLock is a scheduling point that never parks.
func (m *Mutex) TryLock() bool {
	vsched.Point("trylock")
	if m.locked {
		return false
	}
	m.locked = true
	return true
}

// Unlock releases the mutex (not a scheduling point: a release only enables others).
func (m *Mutex) Unlock() {
	if vsched.Aborting() {
		m.locked = false
		return
	}
	if !m.locked {
		panic("vsync: unlock of unlocked mutex")
	}
	m.locked = false
	vsched.Progress()
}

type mutexOp struct{ m *Mutex }

func (o mutexOp) Ready(*vsched.Sched) int {
	if o.m.locked {
		return 0
	}
	return 1
}
func (o mutexOp) String() string { return "Mutex.Lock" }

// RWMutex replaces sync.RWMutex (no writer preference is modelled).
type RWMutex struct {
	writer  bool
	readers int
}

type rwOp struct {
	m     *RWMutex
	write bool
}

func (o rwOp) Ready(*vsched.Sched) int {
	if o.write {
		if o.m.writer || o.m.readers > 0 {
			return 0
		}
		return 1
	}
	if o.m.writer {
		return 0
	}
	return 1
}
func (o rwOp) String() string {
	if o.write {
		return "RWMutex.Lock"
	}
	return "RWMutex.RLock"
}

// Lock takes the write lock.
func (m *RWMutex) Lock() {
	if vsched.Aborting() {
		return
	}
	vsched.Block(rwOp{m, true})
	m.writer = true
}

// Unlock releases the write lock.
func (m *RWMutex) Unlock() {
	if vsched.Aborting() {
		m.writer = false
		return
	}
	if !m.writer {
		panic("vsync: unlock of unlocked RWMutex")
	}
	m.writer = false
	vsched.Progress()
}

// RLock takes a read lock.
func (m *RWMutex) RLock() {
	if vsched.Aborting() {
		return
	}
	vsched.Block(rwOp{m, false})
	m.readers++
}

// RUnlock releases a read lock.
func (m *RWMutex) RUnlock() {
	if vsched.Aborting() {
		if m.readers > 0 {
			m.readers--
		}
		return
	}
	if m.readers <= 0 {
		panic("vsync: RUnlock of unlocked RWMutex")
	}
	m.readers--
	vsched.Progress()
}

// TryLock tries the write lock.
func (m *RWMutex) TryLock() bool {
	vsched.Point("trylock")
	if m.writer || m.readers > 0 {
		return false
	}
	m.writer = true
	return true
}

// TryRLock tries a read lock.
func (m *RWMutex) TryRLock() bool {
	vsched.Point("tryrlock")
	if m.writer {
		return false
	}
	m.readers++
	return true
}

// RLocker returns a Locker for the read side.
func (m *RWMutex) RLocker() Locker { return rlocker{m} }

type rlocker struct{ m *RWMutex }

func (r rlocker) Lock()   { r.m.RLock() }
func (r rlocker) Unlock() { r.m.RUnlock() }

// WaitGroup replaces sync.WaitGroup.
type WaitGroup struct {
	n int
}

// Add adds delta.
func (w *WaitGroup) Add(delta int) {
	if delta > 0 {
		// raising the counter can disable a concurrent Wait: its order relative to other
		// threads' operations matters, so it is a scheduling point (Done only enables)
		vsched.Point("WaitGroup.Add")
	}
	w.n += delta
	if w.n < 0 {
		if vsched.Aborting() {
			w.n = 0
			return
		}
		panic("vsync: negative WaitGroup counter")
	}
	if w.n == 0 {
		vsched.Progress()
	}
}

// Done decrements.
func (w *WaitGroup) Done() { w.Add(-1) }

// Wait parks until the counter is zero.
func (w *WaitGroup) Wait() {
	vsched.WaitUntil("WaitGroup.Wait", func() bool { return w.n == 0 })
}

// Go runs f in a managed thread (sync.WaitGroup.Go, Go 1.25).
func (w *WaitGroup) Go(f func()) {
	w.Add(1)
	vsched.Go(func() {
		defer w.Done()
		f()
	})
}

// Once replaces sync.Once.
type Once struct {
	state int // 0 new, 1 running, 2 done
}

// Do runs f once; concurrent callers park until it has finished.
func (o *Once) Do(f func()) {
	if vsched.Aborting() {
		return
	}
	vsched.WaitUntil("Once.Do", func() bool { return o.state != 1 })
	if o.state == 2 {
		return
	}
	o.state = 1
	defer func() {
		o.state = 2
		vsched.Progress()
	}()
	f()
}

// OnceFunc mirrors sync.OnceFunc.
func OnceFunc(f func()) func() {
	var o Once
	return func() { o.Do(f) }
}

// OnceValue mirrors sync.OnceValue.
func OnceValue[T any](f func() T) func() T {
	var o Once
	var v T
	return func() T {
		o.Do(func() { v = f() })
		return v
	}
}

// OnceValues mirrors sync.OnceValues.
func OnceValues[T1, T2 any](f func() (T1, T2)) func() (T1, T2) {
	var o Once
	var a T1
	var b T2
	return func() (T1, T2) {
		o.Do(func() { a, b = f() })
		return a, b
	}
}

// Cond replaces sync.Cond.
type Cond struct {
	L       Locker
	waiters []*condWaiter
}

type condWaiter struct{ signaled bool }

// NewCond mirrors sync.NewCond.
func NewCond(l Locker) *Cond { return &Cond{L: l} }

// Wait releases L, parks until signalled, re-acquires L.
func (c *Cond) Wait() {
	if vsched.Aborting() {
		return
	}
	w := &condWaiter{}
	c.waiters = append(c.waiters, w)
	c.L.Unlock()
	vsched.WaitUntil("Cond.Wait", func() bool { return w.signaled })
	c.L.Lock()
}

// Signal wakes the longest waiter.
func (c *Cond) Signal() {
	if len(c.waiters) > 0 {
		c.waiters[0].signaled = true
		c.waiters = c.waiters[1:]
		vsched.Progress()
	}
}

// Broadcast wakes all waiters.
func (c *Cond) Broadcast() {
	for _, w := range c.waiters {
		w.signaled = true
	}
	c.waiters = nil
	vsched.Progress()
}

// Map wraps sync.Map with a scheduling point before each operation.
type Map struct{ m sync.Map }

func (m *Map) Load(k any) (any, bool)              { vsched.Point("Map.Load"); return m.m.Load(k) }
func (m *Map) Store(k, v any)                      { vsched.Point("Map.Store"); m.m.Store(k, v); vsched.Progress() }
func (m *Map) LoadOrStore(k, v any) (any, bool)    { vsched.Point("Map.LoadOrStore"); defer vsched.Progress(); return m.m.LoadOrStore(k, v) }
func (m *Map) LoadAndDelete(k any) (any, bool)     { vsched.Point("Map.LoadAndDelete"); defer vsched.Progress(); return m.m.LoadAndDelete(k) }
func (m *Map) Delete(k any)                        { vsched.Point("Map.Delete"); m.m.Delete(k); vsched.Progress() }
func (m *Map) Swap(k, v any) (any, bool)           { vsched.Point("Map.Swap"); defer vsched.Progress(); return m.m.Swap(k, v) }
func (m *Map) CompareAndSwap(k, o, n any) bool     { vsched.Point("Map.CAS"); defer vsched.Progress(); return m.m.CompareAndSwap(k, o, n) }
func (m *Map) CompareAndDelete(k, o any) bool      { vsched.Point("Map.CAD"); defer vsched.Progress(); return m.m.CompareAndDelete(k, o) }
func (m *Map) Range(f func(k, v any) bool)         { vsched.Point("Map.Range"); m.m.Range(f) }
func (m *Map) Clear()                              { vsched.Point("Map.Clear"); m.m.Clear(); vsched.Progress() }
