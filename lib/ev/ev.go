// Package ev is the evidence recorder shared by every /verif harness.
//
// A harness test calls ev.Start(t, "Cxx"), records what it explored (model-checking
// statistics, enumeration counts, samples, vacuity guards, violations) and calls
// Finish, which writes one partial-result JSON file to $VERIF_OUT. The /verif/check
// driver merges the partial results of all runs/shards into /verif/evidence/Cxx.json,
// applies /verif/known-findings.json and decides the exit status.
//
// Nothing in here decides a property; it only counts what the deciding code did.
package ev

import (
	"crypto/sha256"
	"encoding/hex"
	"encoding/json"
	"fmt"
	"hash/fnv"
	"os"
	"sort"
	"strconv"
	"strings"
	"sync"
	"testing"
	"time"
)

// Violation is one property violation found on the real code.
type Violation struct {
	// Fingerprint is a short structural classification computed by the harness
	// (never just the property id); known-findings.json matches on it.
	Fingerprint string `json:"fingerprint"`
	Message     string `json:"message"`
	System      string `json:"system"`
	// Replay is everything needed to re-execute the failing case without search.
	Replay any `json:"replay"`
}

// Guard is a vacuity guard: a measured minimum the run must reach to mean anything.
type Guard struct {
	Name   string `json:"name"`
	OK     bool   `json:"ok"`
	Detail string `json:"detail"`
}

// Section is the statistics of one exploration (one system / one enumeration).
type Section struct {
	Name        string         `json:"name"`
	Kind        string         `json:"kind"` // "mc" | "enum" | "sched" | "crash"
	States      int64          `json:"states"`
	Transitions int64          `json:"transitions"`
	Evaluations int64          `json:"evaluations"`
	Distinct    int64          `json:"distinct_nontrivial"`
	Validated   int64          `json:"traces_validated_against_impl"`
	Exhaustive  bool           `json:"exhaustive"`
	Bounds      map[string]any `json:"bounds,omitempty"`
	Outcomes    int64          `json:"distinct_outcomes"`
	Note        string         `json:"note,omitempty"`
	WallS       float64        `json:"wall_s"`
}

// Partial is what one test-binary invocation writes.
type Partial struct {
	Property    string           `json:"property"`
	Tier        string           `json:"tier"`
	Seed        int64            `json:"seed"`
	Shard       string           `json:"shard"`
	Sections    []Section        `json:"sections"`
	Samples     []any            `json:"samples"`
	Violations  []Violation      `json:"violations"`
	Guards      []Guard          `json:"guards"`
	Counters    map[string]int64 `json:"counters"`
	Assumptions []string         `json:"assumptions"`
	HarnessErrs []string         `json:"harness_errors"`
	WallS       float64          `json:"wall_s"`
	ReplayMode  bool             `json:"replay_mode"`
	ReplayHit   bool             `json:"replay_reproduced"`
}

// R is the recorder handed to harness code.
type R struct {
	mu      sync.Mutex
	t       testing.TB
	p       Partial
	start   time.Time
	replay  *ReplayFile
	maxViol int
	done    bool
}

// ReplayFile is the on-disk replay artefact (written by the driver, read here).
type ReplayFile struct {
	Property    string          `json:"property"`
	Run         string          `json:"run"`
	Tier        string          `json:"tier"`
	Seed        int64           `json:"seed"`
	System      string          `json:"system"`
	Fingerprint string          `json:"fingerprint"`
	Message     string          `json:"message"`
	Replay      json.RawMessage `json:"replay"`
}

// Start reads the driver's environment and returns a recorder.
func Start(t testing.TB, property string) *R {
	r := &R{t: t, start: time.Now(), maxViol: 20}
	r.p.Property = property
	r.p.Tier = os.Getenv("VERIF_TIER")
	if r.p.Tier == "" {
		r.p.Tier = "quick"
	}
	if s := os.Getenv("VERIF_SEED"); s != "" {
		r.p.Seed, _ = strconv.ParseInt(s, 10, 64)
	}
	r.p.Shard = os.Getenv("VERIF_SHARD")
	r.p.Counters = map[string]int64{}
	if f := os.Getenv("VERIF_REPLAY"); f != "" {
		b, err := os.ReadFile(f)
		if err != nil {
			t.Fatalf("verif: cannot read replay file: %v", err)
		}
		var rf ReplayFile
		if err := json.Unmarshal(b, &rf); err != nil {
			t.Fatalf("verif: bad replay file: %v", err)
		}
		r.replay = &rf
		r.p.ReplayMode = true
	}
	return r
}

// Tier is "quick" or "thorough".
func (r *R) Tier() string { return r.p.Tier }

// Thorough reports whether the thorough tier was requested.
func (r *R) Thorough() bool { return r.p.Tier == "thorough" }

// Pick returns q in the quick tier and th in the thorough tier.
func Pick[T any](r *R, q, th T) T {
	if r.Thorough() {
		return th
	}
	return q
}

// Seed only permutes exploration order / shard assignment; it never samples.
func (r *R) Seed() int64 { return r.p.Seed }

// Shard returns (index, count); (0,1) when unsharded.
func (r *R) Shard() (int, int) {
	s := r.p.Shard
	if s == "" {
		return 0, 1
	}
	parts := strings.SplitN(s, "/", 2)
	if len(parts) != 2 {
		return 0, 1
	}
	i, _ := strconv.Atoi(parts[0])
	n, _ := strconv.Atoi(parts[1])
	if n <= 0 {
		return 0, 1
	}
	return i, n
}

// Replay returns the replay request, if the driver asked for one.
func (r *R) Replay() *ReplayFile { return r.replay }

// MarkReplayReproduced records that the replayed case failed again.
func (r *R) MarkReplayReproduced() {
	r.mu.Lock()
	r.p.ReplayHit = true
	r.mu.Unlock()
}

// Deadline returns the soft wall-clock budget the driver granted this process
// (VERIF_BUDGET_S); explorations that hit it stop with exhaustive=false and exit 0.
func (r *R) Deadline() time.Time {
	if s := os.Getenv("VERIF_BUDGET_S"); s != "" {
		if v, err := strconv.ParseFloat(s, 64); err == nil && v > 0 {
			return r.start.Add(time.Duration(v * float64(time.Second)))
		}
	}
	return time.Time{}
}

// Section appends the statistics of one exploration.
func (r *R) Section(s Section) {
	r.mu.Lock()
	r.p.Sections = append(r.p.Sections, s)
	r.mu.Unlock()
}

// Sample keeps one written-out explored case (bounded number kept).
func (r *R) Sample(x any) {
	r.mu.Lock()
	if len(r.p.Samples) < 12 {
		r.p.Samples = append(r.p.Samples, x)
	}
	r.mu.Unlock()
}

// Count adds to a named counter.
func (r *R) Count(name string, n int64) {
	r.mu.Lock()
	r.p.Counters[name] += n
	r.mu.Unlock()
}

// Guard records a vacuity guard.
func (r *R) Guard(name string, ok bool, format string, args ...any) {
	r.mu.Lock()
	r.p.Guards = append(r.p.Guards, Guard{Name: name, OK: ok, Detail: fmt.Sprintf(format, args...)})
	r.mu.Unlock()
}

// Assume records a stated assumption / trusted-base item.
func (r *R) Assume(s string) {
	r.mu.Lock()
	for _, a := range r.p.Assumptions {
		if a == s {
			r.mu.Unlock()
			return
		}
	}
	r.p.Assumptions = append(r.p.Assumptions, s)
	r.mu.Unlock()
}

// HarnessError records an infrastructure problem (exit 2, never a VIOLATION).
func (r *R) HarnessError(format string, args ...any) {
	r.mu.Lock()
	if len(r.p.HarnessErrs) < 20 {
		r.p.HarnessErrs = append(r.p.HarnessErrs, fmt.Sprintf(format, args...))
	}
	r.mu.Unlock()
}

// Violation records a violation; returns false once the cap is reached.
func (r *R) Violation(v Violation) bool {
	r.mu.Lock()
	defer r.mu.Unlock()
	for _, o := range r.p.Violations {
		if o.Fingerprint == v.Fingerprint && o.System == v.System {
			r.p.Counters["violations_same_fingerprint_suppressed"]++
			return len(r.p.Violations) < r.maxViol
		}
	}
	if len(r.p.Violations) < r.maxViol {
		r.p.Violations = append(r.p.Violations, v)
	}
	return len(r.p.Violations) < r.maxViol
}

// ViolationCount is the number of distinct violations recorded so far.
func (r *R) ViolationCount() int {
	r.mu.Lock()
	defer r.mu.Unlock()
	return len(r.p.Violations)
}

// Finish writes the partial result.
func (r *R) Finish() {
	r.mu.Lock()
	defer r.mu.Unlock()
	if r.done {
		return
	}
	r.done = true
	r.p.WallS = time.Since(r.start).Seconds()
	sort.SliceStable(r.p.Violations, func(i, j int) bool { return r.p.Violations[i].Fingerprint < r.p.Violations[j].Fingerprint })
	out := os.Getenv("VERIF_OUT")
	b, err := json.MarshalIndent(r.p, "", " ")
	if err != nil {
		r.t.Fatalf("verif: cannot encode partial result: %v", err)
	}
	if out == "" {
		r.t.Logf("verif partial result:\n%s", b)
	} else if err := os.WriteFile(out, b, 0o644); err != nil {
		r.t.Fatalf("verif: cannot write %s: %v", out, err)
	}
	for _, v := range r.p.Violations {
		r.t.Logf("verif violation [%s] %s", v.Fingerprint, v.Message)
	}
}

// ---------------------------------------------------------------- enumeration

// Enum counts the cases of one bounded-exhaustive enumeration.
type Enum struct {
	r        *R
	name     string
	mu       sync.Mutex
	evals    int64
	distinct map[uint64]struct{}
	counted  int64
	outcomes map[string]int64
	start    time.Time
	capHit   bool
}

// NewEnum starts an enumeration section.
func (r *R) NewEnum(name string) *Enum {
	return &Enum{r: r, name: name, distinct: map[uint64]struct{}{}, outcomes: map[string]int64{}, start: time.Now()}
}

// Case records one evaluated case. key is the canonical form of the case; a case is
// counted in distinct_nontrivial when nontrivial is true and its key was not seen before.
func (e *Enum) Case(key string, nontrivial bool, outcome string) {
	h := fnv.New64a()
	h.Write([]byte(key))
	e.CaseHash(h.Sum64(), nontrivial, outcome)
}

// CaseHash is Case with a precomputed 64-bit key hash.
func (e *Enum) CaseHash(k uint64, nontrivial bool, outcome string) {
	e.mu.Lock()
	e.evals++
	if nontrivial {
		if len(e.distinct) < 1<<24 {
			e.distinct[k] = struct{}{}
		} else {
			e.capHit = true
		}
	}
	if outcome != "" {
		e.outcomes[outcome]++
	}
	e.mu.Unlock()
}

// CaseByConstruction records a case of an enumeration that cannot generate the same
// case twice (a product of menus); no key is stored.
func (e *Enum) CaseByConstruction(nontrivial bool, outcome string) {
	e.mu.Lock()
	e.evals++
	if nontrivial {
		e.counted++
	}
	if outcome != "" {
		e.outcomes[outcome]++
	}
	e.mu.Unlock()
}

// Evals returns the number of cases so far.
func (e *Enum) Evals() int64 { e.mu.Lock(); defer e.mu.Unlock(); return e.evals }

// Outcome returns how many cases had the given outcome label.
func (e *Enum) Outcome(label string) int64 { e.mu.Lock(); defer e.mu.Unlock(); return e.outcomes[label] }

// Done closes the section.
func (e *Enum) Done(exhaustive bool, bounds map[string]any, note string) {
	e.mu.Lock()
	defer e.mu.Unlock()
	if e.capHit {
		note += " [distinct-set cap 2^24 reached: distinct_nontrivial is a lower bound]"
	}
	if len(e.outcomes) > 0 {
		if bounds == nil {
			bounds = map[string]any{}
		}
		bounds["outcomes"] = e.outcomes
	}
	e.r.Section(Section{Name: e.name, Kind: "enum", Evaluations: e.evals, Distinct: int64(len(e.distinct)) + e.counted,
		Exhaustive: exhaustive, Bounds: bounds, Outcomes: int64(len(e.outcomes)), Note: note, WallS: time.Since(e.start).Seconds()})
}

// Hash returns a short stable hash for fingerprints / file names.
func Hash(parts ...string) string {
	h := sha256.New()
	for _, p := range parts {
		h.Write([]byte(p))
		h.Write([]byte{0})
	}
	return hex.EncodeToString(h.Sum(nil))[:12]
}

// Recover converts a panic inside f into an error (harnesses report it as a violation
// where "never panics" is part of the property, otherwise as a harness error).
func Recover(f func()) (err error) {
	defer func() {
		if p := recover(); p != nil {
			err = fmt.Errorf("panic: %v", p)
		}
	}()
	f()
	return nil
}
