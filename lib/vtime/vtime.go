// Package vtime replaces "time" in rewritten packages. Types and pure functions are
// aliases of the real package; the clock, timers, tickers and Sleep run on vsched's
// virtual time, where a timer fires only as an explicit scheduler decision.
package vtime

import (
	"time"

	"github.com/WuKongIM/WuKongIM/pkg/zzverif/vsched"
)

type (
	Duration   = time.Duration
	Time       = time.Time
	Month      = time.Month
	Weekday    = time.Weekday
	Location   = time.Location
	ParseError = time.ParseError
)

const (
	Nanosecond  = time.Nanosecond
	Microsecond = time.Microsecond
	Millisecond = time.Millisecond
	Second      = time.Second
	Minute      = time.Minute
	Hour        = time.Hour

	RFC3339     = time.RFC3339
	RFC3339Nano = time.RFC3339Nano
	RFC1123     = time.RFC1123
	DateTime    = time.DateTime
	DateOnly    = time.DateOnly
	TimeOnly    = time.TimeOnly
	Kitchen     = time.Kitchen

	January = time.January
)

var (
	UTC   = time.UTC
	Local = time.Local
)

func Unix(sec, nsec int64) Time                         { return time.Unix(sec, nsec) }
func UnixMilli(ms int64) Time                           { return time.UnixMilli(ms) }
func UnixMicro(us int64) Time                           { return time.UnixMicro(us) }
func Date(y int, m Month, d, h, mi, s, ns int, l *Location) Time { return time.Date(y, m, d, h, mi, s, ns, l) }
func ParseDuration(s string) (Duration, error)          { return time.ParseDuration(s) }
func Parse(layout, value string) (Time, error)          { return time.Parse(layout, value) }
func LoadLocation(name string) (*Location, error)       { return time.LoadLocation(name) }
func FixedZone(name string, off int) *Location          { return time.FixedZone(name, off) }

// Now is the virtual clock inside an execution and the real clock outside.
func Now() Time {
	if vsched.Active() != nil {
		return vsched.Now()
	}
	return time.Now()
}
func Since(t Time) Duration { return Now().Sub(t) }
func Until(t Time) Duration { return t.Sub(Now()) }

// Timer replaces time.Timer.
type Timer struct {
	C  <-chan Time
	c  chan Time
	h  vsched.TimerHandle
	f  func()
	rt *time.Timer
}

func (t *Timer) arm(d Duration) {
	if vsched.Active() == nil {
		// outside an execution: real timer
		if t.f != nil {
			t.rt = time.AfterFunc(d, t.f)
		} else {
			c := t.c
			t.rt = time.AfterFunc(d, func() {
				select {
				case c <- time.Now():
				default:
				}
			})
		}
		return
	}
	t.h = vsched.AddTimer(d, func() {
		if t.f != nil {
			vsched.SpawnFromTimer("AfterFunc", t.f)
			return
		}
		select {
		case t.c <- vsched.Now():
		default:
		}
	})
}

func NewTimer(d Duration) *Timer {
	c := make(chan Time, 1)
	t := &Timer{C: c, c: c}
	t.arm(d)
	return t
}

func AfterFunc(d Duration, f func()) *Timer {
	t := &Timer{f: f}
	t.arm(d)
	return t
}

func After(d Duration) <-chan Time { return NewTimer(d).C }

func (t *Timer) Stop() bool {
	if t.rt != nil {
		return t.rt.Stop()
	}
	return t.h.Stop()
}

func (t *Timer) Reset(d Duration) bool {
	active := t.Stop()
	// Go 1.23+ semantics: Reset discards a stale value
	if t.c != nil {
		select {
		case <-t.c:
		default:
		}
	}
	t.rt = nil
	t.arm(d)
	return active
}

// Sleep parks until the virtual clock has advanced by d.
func Sleep(d Duration) {
	if vsched.Active() == nil {
		time.Sleep(d)
		return
	}
	if vsched.Aborting() {
		return
	}
	fired := false
	vsched.AddTimer(d, func() { fired = true })
	vsched.WaitUntil("Sleep", func() bool { return fired })
}

// Ticker replaces time.Ticker.
type Ticker struct {
	C       <-chan Time
	c       chan Time
	d       Duration
	h       vsched.TimerHandle
	stopped bool
	rt      *time.Ticker
}

func NewTicker(d Duration) *Ticker {
	if d <= 0 {
		panic("non-positive interval for NewTicker")
	}
	if vsched.Active() == nil {
		rt := time.NewTicker(d)
		return &Ticker{C: rt.C, rt: rt, d: d}
	}
	c := make(chan Time, 1)
	t := &Ticker{C: c, c: c, d: d}
	t.arm()
	return t
}

func (t *Ticker) arm() {
	t.h = vsched.AddTimer(t.d, func() {
		if t.stopped {
			return
		}
		select {
		case t.c <- vsched.Now():
		default:
		}
		t.arm()
	})
}

func (t *Ticker) Stop() {
	if t.rt != nil {
		t.rt.Stop()
		return
	}
	t.stopped = true
	t.h.Stop()
}

func (t *Ticker) Reset(d Duration) {
	if t.rt != nil {
		t.rt.Reset(d)
		return
	}
	t.h.Stop()
	t.d = d
	t.stopped = false
	t.arm()
}

func Tick(d Duration) <-chan Time { return NewTicker(d).C }
