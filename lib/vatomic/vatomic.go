// Package vatomic replaces "sync/atomic" in rewritten packages: same API over the real
// atomics, with a scheduling point before every operation.
package vatomic

import (
	"sync/atomic"
	"unsafe"

	"github.com/WuKongIM/WuKongIM/pkg/zzverif/vsched"
)

func pt(s string) { vsched.AtomicPoint(s) }

type Int32 struct{ v atomic.Int32 }

func (a *Int32) Load() int32                    { pt("Int32.Load"); return a.v.Load() }
func (a *Int32) Store(x int32)                  { pt("Int32.Store"); a.v.Store(x) }
func (a *Int32) Swap(x int32) int32             { pt("Int32.Swap"); return a.v.Swap(x) }
func (a *Int32) Add(d int32) int32              { pt("Int32.Add"); return a.v.Add(d) }
func (a *Int32) CompareAndSwap(o, n int32) bool { pt("Int32.CAS"); return a.v.CompareAndSwap(o, n) }
func (a *Int32) And(m int32) int32              { pt("Int32.And"); return a.v.And(m) }
func (a *Int32) Or(m int32) int32               { pt("Int32.Or"); return a.v.Or(m) }

type Int64 struct{ v atomic.Int64 }

func (a *Int64) Load() int64                    { pt("Int64.Load"); return a.v.Load() }
func (a *Int64) Store(x int64)                  { pt("Int64.Store"); a.v.Store(x) }
func (a *Int64) Swap(x int64) int64             { pt("Int64.Swap"); return a.v.Swap(x) }
func (a *Int64) Add(d int64) int64              { pt("Int64.Add"); return a.v.Add(d) }
func (a *Int64) CompareAndSwap(o, n int64) bool { pt("Int64.CAS"); return a.v.CompareAndSwap(o, n) }
func (a *Int64) And(m int64) int64              { pt("Int64.And"); return a.v.And(m) }
func (a *Int64) Or(m int64) int64               { pt("Int64.Or"); return a.v.Or(m) }

type Uint32 struct{ v atomic.Uint32 }

func (a *Uint32) Load() uint32                    { pt("Uint32.Load"); return a.v.Load() }
func (a *Uint32) Store(x uint32)                  { pt("Uint32.Store"); a.v.Store(x) }
func (a *Uint32) Swap(x uint32) uint32            { pt("Uint32.Swap"); return a.v.Swap(x) }
func (a *Uint32) Add(d uint32) uint32             { pt("Uint32.Add"); return a.v.Add(d) }
func (a *Uint32) CompareAndSwap(o, n uint32) bool { pt("Uint32.CAS"); return a.v.CompareAndSwap(o, n) }
func (a *Uint32) And(m uint32) uint32             { pt("Uint32.And"); return a.v.And(m) }
func (a *Uint32) Or(m uint32) uint32              { pt("Uint32.Or"); return a.v.Or(m) }

type Uint64 struct{ v atomic.Uint64 }

func (a *Uint64) Load() uint64                    { pt("Uint64.Load"); return a.v.Load() }
func (a *Uint64) Store(x uint64)                  { pt("Uint64.Store"); a.v.Store(x) }
func (a *Uint64) Swap(x uint64) uint64            { pt("Uint64.Swap"); return a.v.Swap(x) }
func (a *Uint64) Add(d uint64) uint64             { pt("Uint64.Add"); return a.v.Add(d) }
func (a *Uint64) CompareAndSwap(o, n uint64) bool { pt("Uint64.CAS"); return a.v.CompareAndSwap(o, n) }
func (a *Uint64) And(m uint64) uint64             { pt("Uint64.And"); return a.v.And(m) }
func (a *Uint64) Or(m uint64) uint64              { pt("Uint64.Or"); return a.v.Or(m) }

type Uintptr struct{ v atomic.Uintptr }

func (a *Uintptr) Load() uintptr                    { pt("Uintptr.Load"); return a.v.Load() }
func (a *Uintptr) Store(x uintptr)                  { pt("Uintptr.Store"); a.v.Store(x) }
func (a *Uintptr) Swap(x uintptr) uintptr           { pt("Uintptr.Swap"); return a.v.Swap(x) }
func (a *Uintptr) Add(d uintptr) uintptr            { pt("Uintptr.Add"); return a.v.Add(d) }
func (a *Uintptr) CompareAndSwap(o, n uintptr) bool { pt("Uintptr.CAS"); return a.v.CompareAndSwap(o, n) }

type Bool struct{ v atomic.Bool }

func (a *Bool) Load() bool                    { pt("Bool.Load"); return a.v.Load() }
func (a *Bool) Store(x bool)                  { pt("Bool.Store"); a.v.Store(x) }
func (a *Bool) Swap(x bool) bool              { pt("Bool.Swap"); return a.v.Swap(x) }
func (a *Bool) CompareAndSwap(o, n bool) bool { pt("Bool.CAS"); return a.v.CompareAndSwap(o, n) }

type Pointer[T any] struct{ v atomic.Pointer[T] }

func (a *Pointer[T]) Load() *T                    { pt("Pointer.Load"); return a.v.Load() }
func (a *Pointer[T]) Store(x *T)                  { pt("Pointer.Store"); a.v.Store(x) }
func (a *Pointer[T]) Swap(x *T) *T                { pt("Pointer.Swap"); return a.v.Swap(x) }
func (a *Pointer[T]) CompareAndSwap(o, n *T) bool { pt("Pointer.CAS"); return a.v.CompareAndSwap(o, n) }

type Value struct{ v atomic.Value }

func (a *Value) Load() any                    { pt("Value.Load"); return a.v.Load() }
func (a *Value) Store(x any)                  { pt("Value.Store"); a.v.Store(x) }
func (a *Value) Swap(x any) any               { pt("Value.Swap"); return a.v.Swap(x) }
func (a *Value) CompareAndSwap(o, n any) bool { pt("Value.CAS"); return a.v.CompareAndSwap(o, n) }

func AddInt32(p *int32, d int32) int32       { pt("AddInt32"); return atomic.AddInt32(p, d) }
func AddInt64(p *int64, d int64) int64       { pt("AddInt64"); return atomic.AddInt64(p, d) }
func AddUint32(p *uint32, d uint32) uint32   { pt("AddUint32"); return atomic.AddUint32(p, d) }
func AddUint64(p *uint64, d uint64) uint64   { pt("AddUint64"); return atomic.AddUint64(p, d) }
func AddUintptr(p *uintptr, d uintptr) uintptr { pt("AddUintptr"); return atomic.AddUintptr(p, d) }
func LoadInt32(p *int32) int32               { pt("LoadInt32"); return atomic.LoadInt32(p) }
func LoadInt64(p *int64) int64               { pt("LoadInt64"); return atomic.LoadInt64(p) }
func LoadUint32(p *uint32) uint32            { pt("LoadUint32"); return atomic.LoadUint32(p) }
func LoadUint64(p *uint64) uint64            { pt("LoadUint64"); return atomic.LoadUint64(p) }
func LoadUintptr(p *uintptr) uintptr         { pt("LoadUintptr"); return atomic.LoadUintptr(p) }
func LoadPointer(p *unsafe.Pointer) unsafe.Pointer { pt("LoadPointer"); return atomic.LoadPointer(p) }
func StoreInt32(p *int32, v int32)           { pt("StoreInt32"); atomic.StoreInt32(p, v) }
func StoreInt64(p *int64, v int64)           { pt("StoreInt64"); atomic.StoreInt64(p, v) }
func StoreUint32(p *uint32, v uint32)        { pt("StoreUint32"); atomic.StoreUint32(p, v) }
func StoreUint64(p *uint64, v uint64)        { pt("StoreUint64"); atomic.StoreUint64(p, v) }
func StoreUintptr(p *uintptr, v uintptr)     { pt("StoreUintptr"); atomic.StoreUintptr(p, v) }
func StorePointer(p *unsafe.Pointer, v unsafe.Pointer) { pt("StorePointer"); atomic.StorePointer(p, v) }
func SwapInt32(p *int32, v int32) int32      { pt("SwapInt32"); return atomic.SwapInt32(p, v) }
func SwapInt64(p *int64, v int64) int64      { pt("SwapInt64"); return atomic.SwapInt64(p, v) }
func SwapUint32(p *uint32, v uint32) uint32  { pt("SwapUint32"); return atomic.SwapUint32(p, v) }
func SwapUint64(p *uint64, v uint64) uint64  { pt("SwapUint64"); return atomic.SwapUint64(p, v) }
func CompareAndSwapInt32(p *int32, o, n int32) bool    { pt("CASInt32"); return atomic.CompareAndSwapInt32(p, o, n) }
func CompareAndSwapInt64(p *int64, o, n int64) bool    { pt("CASInt64"); return atomic.CompareAndSwapInt64(p, o, n) }
func CompareAndSwapUint32(p *uint32, o, n uint32) bool { pt("CASUint32"); return atomic.CompareAndSwapUint32(p, o, n) }
func CompareAndSwapUint64(p *uint64, o, n uint64) bool { pt("CASUint64"); return atomic.CompareAndSwapUint64(p, o, n) }
func CompareAndSwapPointer(p *unsafe.Pointer, o, n unsafe.Pointer) bool {
	pt("CASPointer")
	return atomic.CompareAndSwapPointer(p, o, n)
}
