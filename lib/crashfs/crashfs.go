// Package crashfs is the crash-point enumeration engine of /verif (engine E4) for the
// Pebble-backed stores.
//
// A Router is a vfs.FS that dispatches by path prefix to Volumes. A Volume wraps Pebble's own
// crashable in-memory filesystem; every MUTATING filesystem call made by the store (create,
// write, sync, rename, remove, link, mkdir, reuse) is a numbered crash point. At each crash
// point (before the call is executed) the volume captures two images of the whole
// filesystem:
//
//	kill  = CrashClone(UnsyncedDataPercent:100): the process was killed, the OS survives,
//	        everything written so far is visible;
//	power = CrashClone(UnsyncedDataPercent:0): power loss, only synced data survives.
//
// Only these two deterministic extremes are used: intermediate percentages are random and
// would be sampling. After the history has run, the harness reopens EVERY image with the
// store's real open/recovery path and compares it with its reference model.
package crashfs

import (
	"io"
	"math/rand/v2"
	"os"
	"strings"
	"sync"

	"github.com/cockroachdb/pebble/v2/vfs"
)

// Image is the filesystem as a crash at point K would leave it.
type Image struct {
	K     int
	Op    string
	Kill  *vfs.MemFS
	Power *vfs.MemFS
	// Meta is whatever the harness's Meta callback returned at capture time (typically the
	// number of mutations acknowledged / started so far).
	Meta any
}

// Volume is one crash-capturing filesystem.
type Volume struct {
	mem     *vfs.MemFS
	mu      sync.Mutex
	n       int
	images  []Image
	capture bool
	every   int
	max     int
	// Meta is called (with the volume lock held) when an image is captured.
	Meta func() any
	// Filter, when set, decides whether the point with this op description is captured.
	Filter func(k int, op string) bool

	holdMatch func(k int, op string) bool
	holdHeld  chan struct{}
	holdGo    chan struct{}
}

// HoldNextSync arranges that the next sync-type call (sync / syncdata / syncto) accepted by
// match PARKS its calling goroutine before the sync executes: held is closed once a
// goroutine is parked, release lets it continue. While it is parked the data written so far
// is visible to readers but not durable, so the harness can run further operations and take
// a Snapshot that shows exactly what a power loss at that instant would leave (a
// deterministic "commit in flight inside its fsync" schedule). Only one hold at a time.
func (v *Volume) HoldNextSync(match func(k int, op string) bool) (held <-chan struct{}, release func()) {
	v.mu.Lock()
	defer v.mu.Unlock()
	v.holdMatch = match
	v.holdHeld = make(chan struct{})
	v.holdGo = make(chan struct{})
	h, g := v.holdHeld, v.holdGo
	var once sync.Once
	return h, func() { once.Do(func() { close(g) }) }
}

func (v *Volume) maybeHold(op string) {
	v.mu.Lock()
	m := v.holdMatch
	if m == nil || !m(v.n, op) {
		v.mu.Unlock()
		return
	}
	v.holdMatch = nil
	h, g := v.holdHeld, v.holdGo
	v.mu.Unlock()
	close(h)
	<-g
}

// NewVolume returns an empty crashable volume. Capturing is off until Start.
func NewVolume() *Volume {
	return &Volume{mem: vfs.NewCrashableMem(), every: 1, max: 100000}
}

// FromImage returns a volume whose contents are a crash image (for reopening; images are
// themselves crashable, so recovery can be crash-tested again).
func FromImage(m *vfs.MemFS) *Volume { return &Volume{mem: m, every: 1, max: 100000} }

// MkdirAllSynced creates dir and makes it (and all its ancestors) durable, the way an
// operator-created data directory is durable before the store first opens in it. Without
// this a power-loss image would lose the whole directory, which is not the store's concern.
func (v *Volume) MkdirAllSynced(dir string) error {
	if err := v.mem.MkdirAll(dir, 0o755); err != nil {
		return err
	}
	p := dir
	for {
		d, err := v.mem.OpenDir(p)
		if err != nil {
			return err
		}
		if err := d.Sync(); err != nil {
			return err
		}
		d.Close()
		parent := v.mem.PathDir(p)
		if parent == p || parent == "." || parent == "" {
			break
		}
		p = parent
	}
	return nil
}

// Mem exposes the underlying MemFS.
func (v *Volume) Mem() *vfs.MemFS { return v.mem }

// Start begins capturing an image at every crash point.
func (v *Volume) Start() { v.mu.Lock(); v.capture = true; v.mu.Unlock() }

// Stop ends capturing.
func (v *Volume) Stop() { v.mu.Lock(); v.capture = false; v.mu.Unlock() }

// Points returns the number of crash points seen so far.
func (v *Volume) Points() int { v.mu.Lock(); defer v.mu.Unlock(); return v.n }

// Images returns the captured images.
func (v *Volume) Images() []Image { v.mu.Lock(); defer v.mu.Unlock(); return append([]Image(nil), v.images...) }

// Snapshot captures an image right now (e.g. after the history: "crash when idle").
func (v *Volume) Snapshot(op string) {
	v.mu.Lock()
	defer v.mu.Unlock()
	v.grab(op)
}

func (v *Volume) grab(op string) {
	img := Image{K: v.n, Op: op}
	img.Kill = v.mem.CrashClone(vfs.CrashCloneCfg{UnsyncedDataPercent: 100, RNG: rand.New(rand.NewPCG(1, 2))})
	img.Power = v.mem.CrashClone(vfs.CrashCloneCfg{UnsyncedDataPercent: 0})
	if v.Meta != nil {
		img.Meta = v.Meta()
	}
	v.images = append(v.images, img)
}

func (v *Volume) point(op string) {
	v.mu.Lock()
	defer v.mu.Unlock()
	v.n++
	if !v.capture || len(v.images) >= v.max {
		return
	}
	if v.Filter != nil && !v.Filter(v.n, op) {
		return
	}
	v.grab(op)
}

func short(name string) string {
	if i := strings.LastIndexByte(name, '/'); i >= 0 {
		return name[i+1:]
	}
	return name
}

// ---- vfs.FS ----

func (v *Volume) Create(name string, c vfs.DiskWriteCategory) (vfs.File, error) {
	v.point("create " + short(name))
	f, err := v.mem.Create(name, c)
	if err != nil {
		return nil, err
	}
	return &file{File: f, v: v, name: short(name)}, nil
}
func (v *Volume) Link(o, n string) error { v.point("link " + short(n)); return v.mem.Link(o, n) }
func (v *Volume) Open(name string, opts ...vfs.OpenOption) (vfs.File, error) {
	return v.mem.Open(name, opts...)
}
func (v *Volume) OpenReadWrite(name string, c vfs.DiskWriteCategory, opts ...vfs.OpenOption) (vfs.File, error) {
	f, err := v.mem.OpenReadWrite(name, c, opts...)
	if err != nil {
		return nil, err
	}
	return &file{File: f, v: v, name: short(name)}, nil
}
func (v *Volume) OpenDir(name string) (vfs.File, error) {
	f, err := v.mem.OpenDir(name)
	if err != nil {
		return nil, err
	}
	return &file{File: f, v: v, name: "dir:" + short(name)}, nil
}
func (v *Volume) Remove(name string) error    { v.point("remove " + short(name)); return v.mem.Remove(name) }
func (v *Volume) RemoveAll(name string) error { v.point("removeall " + short(name)); return v.mem.RemoveAll(name) }
func (v *Volume) Rename(o, n string) error    { v.point("rename " + short(n)); return v.mem.Rename(o, n) }
func (v *Volume) ReuseForWrite(o, n string, c vfs.DiskWriteCategory) (vfs.File, error) {
	v.point("reuse " + short(n))
	f, err := v.mem.ReuseForWrite(o, n, c)
	if err != nil {
		return nil, err
	}
	return &file{File: f, v: v, name: short(n)}, nil
}
func (v *Volume) MkdirAll(dir string, perm os.FileMode) error {
	v.point("mkdir " + short(dir))
	return v.mem.MkdirAll(dir, perm)
}
func (v *Volume) Lock(name string) (io.Closer, error)           { return v.mem.Lock(name) }
func (v *Volume) List(dir string) ([]string, error)             { return v.mem.List(dir) }
func (v *Volume) Stat(name string) (vfs.FileInfo, error)        { return v.mem.Stat(name) }
func (v *Volume) PathBase(p string) string                      { return v.mem.PathBase(p) }
func (v *Volume) PathJoin(e ...string) string                   { return v.mem.PathJoin(e...) }
func (v *Volume) PathDir(p string) string                       { return v.mem.PathDir(p) }
func (v *Volume) GetDiskUsage(p string) (vfs.DiskUsage, error)  { return v.mem.GetDiskUsage(p) }
func (v *Volume) Unwrap() vfs.FS                                { return nil }

type file struct {
	vfs.File
	v    *Volume
	name string
}

func (f *file) Write(p []byte) (int, error) { f.v.point("write " + f.name); return f.File.Write(p) }
func (f *file) WriteAt(p []byte, off int64) (int, error) {
	f.v.point("writeat " + f.name)
	return f.File.WriteAt(p, off)
}
func (f *file) Sync() error {
	f.v.point("sync " + f.name)
	f.v.maybeHold("sync " + f.name)
	return f.File.Sync()
}
func (f *file) SyncData() error {
	f.v.point("syncdata " + f.name)
	f.v.maybeHold("syncdata " + f.name)
	return f.File.SyncData()
}
func (f *file) SyncTo(n int64) (bool, error) {
	f.v.point("syncto " + f.name)
	f.v.maybeHold("syncto " + f.name)
	return f.File.SyncTo(n)
}

// ---- Router ----

// Router dispatches by path prefix, so several databases (one volume each, or images being
// reopened) can be alive in one process behind the single VerifFS hook.
type Router struct {
	mu     sync.RWMutex
	mounts map[string]vfs.FS
}

// NewRouter returns an empty router.
func NewRouter() *Router { return &Router{mounts: map[string]vfs.FS{}} }

// Mount routes every path under prefix to fs.
func (r *Router) Mount(prefix string, fs vfs.FS) {
	r.mu.Lock()
	r.mounts[strings.TrimSuffix(prefix, "/")] = fs
	r.mu.Unlock()
}

// Unmount removes a mount.
func (r *Router) Unmount(prefix string) {
	r.mu.Lock()
	delete(r.mounts, strings.TrimSuffix(prefix, "/"))
	r.mu.Unlock()
}

func (r *Router) fs(p string) vfs.FS {
	r.mu.RLock()
	defer r.mu.RUnlock()
	best := ""
	var out vfs.FS
	for pre, f := range r.mounts {
		if (p == pre || strings.HasPrefix(p, pre+"/")) && len(pre) >= len(best) {
			best, out = pre, f
		}
	}
	if out == nil {
		return vfs.Default
	}
	return out
}

func (r *Router) Create(n string, c vfs.DiskWriteCategory) (vfs.File, error) { return r.fs(n).Create(n, c) }
func (r *Router) Link(o, n string) error                                     { return r.fs(n).Link(o, n) }
func (r *Router) Open(n string, o ...vfs.OpenOption) (vfs.File, error)       { return r.fs(n).Open(n, o...) }
func (r *Router) OpenReadWrite(n string, c vfs.DiskWriteCategory, o ...vfs.OpenOption) (vfs.File, error) {
	return r.fs(n).OpenReadWrite(n, c, o...)
}
func (r *Router) OpenDir(n string) (vfs.File, error) { return r.fs(n).OpenDir(n) }
func (r *Router) Remove(n string) error              { return r.fs(n).Remove(n) }
func (r *Router) RemoveAll(n string) error           { return r.fs(n).RemoveAll(n) }
func (r *Router) Rename(o, n string) error           { return r.fs(n).Rename(o, n) }
func (r *Router) ReuseForWrite(o, n string, c vfs.DiskWriteCategory) (vfs.File, error) {
	return r.fs(n).ReuseForWrite(o, n, c)
}
func (r *Router) MkdirAll(d string, p os.FileMode) error          { return r.fs(d).MkdirAll(d, p) }
func (r *Router) Lock(n string) (io.Closer, error)                { return r.fs(n).Lock(n) }
func (r *Router) List(d string) ([]string, error)                 { return r.fs(d).List(d) }
func (r *Router) Stat(n string) (vfs.FileInfo, error)             { return r.fs(n).Stat(n) }
func (r *Router) PathBase(p string) string                        { return vfs.Default.PathBase(p) }
func (r *Router) PathJoin(e ...string) string                     { return vfs.Default.PathJoin(e...) }
func (r *Router) PathDir(p string) string                         { return vfs.Default.PathDir(p) }
func (r *Router) GetDiskUsage(p string) (vfs.DiskUsage, error)    { return r.fs(p).GetDiskUsage(p) }
func (r *Router) Unwrap() vfs.FS                                  { return nil }
