package vsched

import (
	"encoding/json"
	"fmt"
	"hash/fnv"
	"time"

	"github.com/WuKongIM/WuKongIM/pkg/zzverif/ev"
)

// Scenario is one concurrent harness explored under the controlled scheduler.
type Scenario struct {
	Name string
	// Body runs as thread 0 of a fresh execution: it builds fresh real objects, spawns
	// threads with vsched.Go / the code's own (rewritten) go statements, waits for them
	// and returns. It must be deterministic given the schedule.
	Body func(x *Exec)
	// Check is the oracle for one complete execution (called after Body's execution
	// ended, outside the scheduler). A non-nil error is a property violation.
	Check func(x *Exec) error
	// Bound is the preemption (deviation) bound; all schedules with at most Bound
	// preemptions are explored, iteratively 0..Bound.
	Bound int
	// Horizon is the maximum number of scheduling points per execution.
	Horizon int
	// MaxExecutions caps the run (exhaustive=false when hit).
	MaxExecutions int64
	// QuietAtomics removes scheduling points before atomic operations.
	QuietAtomics bool
	// Delay selects delay bounding instead of preemption bounding (see vsched.Options).
	Delay bool
	// DeadlockOK: a deadlock outcome is not reported as a violation (default: it is).
	DeadlockOK bool
	// Fingerprint prefix for deadlock/livelock reports.
	Property string
	Bounds   map[string]any
	Note     string
}

// Exec carries per-execution harness state (observations recorded by Body).
type Exec struct {
	Out *Outcome
	// Obs is filled by the harness body / fakes (append-only log of observations).
	Obs []string
	// Data is free for the harness.
	Data map[string]any
}

// Log appends an observation (harness code runs one thread at a time: no locking needed).
func (x *Exec) Log(format string, args ...any) {
	x.Obs = append(x.Obs, fmt.Sprintf(format, args...))
}

type replaySched struct {
	Scenario string `json:"scenario"`
	Choices  []int  `json:"choices"`
}

// Stats of an exploration.
type Stats struct {
	Executions int64
	Points     int64
	MaxPoints  int
	Outcomes   int
	Exhaustive bool
	Violations int
	BoundDone  int
}

func runOnce(sc *Scenario, prefix []int, trace bool) *Exec {
	x := &Exec{Data: map[string]any{}}
	x.Out = Run(Options{Prefix: prefix, Horizon: sc.Horizon, Trace: trace, QuietAtomics: sc.QuietAtomics, Delay: sc.Delay}, func() { sc.Body(x) })
	return x
}

func obsKey(x *Exec) uint64 {
	h := fnv.New64a()
	for _, o := range x.Obs {
		h.Write([]byte(o))
		h.Write([]byte{0})
	}
	return h.Sum64()
}

// Explore enumerates every schedule of sc with at most sc.Bound preemptions.
func Explore(r *ev.R, sc Scenario) Stats {
	start := time.Now()
	if rf := r.Replay(); rf != nil {
		var pl replaySched
		if err := json.Unmarshal(rf.Replay, &pl); err != nil || pl.Scenario != sc.Name {
			return Stats{}
		}
		x := runOnce(&sc, pl.Choices, true)
		for _, l := range x.Out.BlockedAt {
			fmt.Println("replay:", l)
		}
		for _, o := range x.Obs {
			fmt.Println("replay obs:", o)
		}
		if err := judge(&sc, x); err != nil {
			fmt.Println("replay VIOLATES:", err)
			r.MarkReplayReproduced()
			r.Violation(ev.Violation{Fingerprint: fpOf(err, sc.Name), Message: err.Error(), System: sc.Name, Replay: pl})
		}
		r.Section(ev.Section{Name: sc.Name, Kind: "sched", States: int64(len(x.Out.Points)) + 1, Transitions: int64(len(x.Out.Points)) + 1, Validated: 1, Note: "replay"})
		return Stats{}
	}

	// self-check: the same schedule twice must give identical observations
	// (one warm-up execution first: process-global lazy initialisation - registries,
	// sync.Once singletons - happens in the very first execution only)
	_ = runOnce(&sc, nil, false)
	a, b := runOnce(&sc, nil, false), runOnce(&sc, nil, false)
	if a.Out.Unsupported != "" {
		r.HarnessError("scenario %s: %s", sc.Name, a.Out.Unsupported)
		return Stats{}
	}
	if obsKey(a) != obsKey(b) || len(a.Out.Choices) != len(b.Out.Choices) {
		r.HarnessError("scenario %s: default schedule is not deterministic (%d vs %d points, obs %v vs %v)", sc.Name, len(a.Out.Choices), len(b.Out.Choices), a.Obs, b.Obs)
		return Stats{}
	}

	deadline := r.Deadline()
	shardI, shardN := r.Shard()
	var st Stats
	st.Exhaustive = true
	outcomes := map[uint64]struct{}{}
	type item struct {
		prefix []int
		cost   int
	}
	stack := []item{{}}
	seq := int64(0)
	sampled := int64(1)
	for len(stack) > 0 {
		it := stack[len(stack)-1]
		stack = stack[:len(stack)-1]
		if sc.MaxExecutions > 0 && st.Executions >= sc.MaxExecutions {
			st.Exhaustive = false
			break
		}
		if !deadline.IsZero() && time.Now().After(deadline) {
			st.Exhaustive = false
			break
		}
		x := runOnce(&sc, it.prefix, false)
		st.Executions++
		st.Points += int64(len(x.Out.Points))
		if len(x.Out.Points) > st.MaxPoints {
			st.MaxPoints = len(x.Out.Points)
		}
		outcomes[obsKey(x)] = struct{}{}
		if x.Out.Diverged != "" {
			r.HarnessError("scenario %s: replay diverged (%s) at prefix %v - nondeterminism escaped the shims", sc.Name, x.Out.Diverged, it.prefix)
			st.Exhaustive = false
			break
		}
		if x.Out.Unsupported != "" {
			r.HarnessError("scenario %s: %s (prefix %v)", sc.Name, x.Out.Unsupported, it.prefix)
			st.Exhaustive = false
			break
		}
		if x.Out.Leaked > 0 {
			r.Count("leaked_threads", int64(x.Out.Leaked))
		}
		if st.Executions >= sampled {
			sampled = sampled*9 + 1
			obs := x.Obs
			if len(obs) > 24 {
				obs = obs[:24]
			}
			r.Sample(map[string]any{"scenario": sc.Name, "schedule": x.Out.Choices, "points": len(x.Out.Points), "observed": obs})
		}
		if err := judge(&sc, x); err != nil {
			// believe it only if it reproduces identically
			y := runOnce(&sc, x.Out.Choices, false)
			err2 := judge(&sc, y)
			if err2 == nil || err2.Error() != err.Error() {
				r.HarnessError("scenario %s: violation %q did not reproduce on replay of %v (got %v)", sc.Name, err, x.Out.Choices, err2)
			} else {
				st.Violations++
				t := runOnce(&sc, x.Out.Choices, true)
				msg := fmt.Sprintf("%s: %v | schedule=%v | obs=%v | trace=%v", sc.Name, err, x.Out.Choices, x.Obs, t.Out.BlockedAt)
				if len(msg) > 6000 {
					msg = msg[:6000]
				}
				if !r.Violation(ev.Violation{Fingerprint: fpOf(err, sc.Name), Message: msg, System: sc.Name, Replay: replaySched{Scenario: sc.Name, Choices: x.Out.Choices}}) {
					break
				}
			}
		}
		// children: every alternative at every point beyond the prefix, within the bound
		cost := it.cost
		var kids []item
		for i := len(it.prefix); i < len(x.Out.Points); i++ {
			p := x.Out.Points[i]
			for alt := 1; alt < p.N; alt++ {
				c := cost + p.AltCost[alt]
				if c > sc.Bound {
					continue
				}
				np := make([]int, i+1)
				copy(np, x.Out.Choices[:i])
				np[i] = alt
				kids = append(kids, item{prefix: np, cost: c})
			}
			cost += p.AltCost[p.Chosen]
		}
		// shard on the children of the root execution
		for k := len(kids) - 1; k >= 0; k-- {
			if len(it.prefix) == 0 && shardN > 1 {
				seq++
				if int((seq+r.Seed())%int64(shardN)) != shardI {
					continue
				}
			}
			stack = append(stack, kids[k])
		}
	}
	st.Outcomes = len(outcomes)
	st.BoundDone = sc.Bound
	bname := "preemption_bound"
	if sc.Delay {
		bname = "delay_bound"
	}
	bounds := map[string]any{bname: sc.Bound, "max_points_in_one_execution": st.MaxPoints, "horizon": sc.Horizon}
	for k, v := range sc.Bounds {
		bounds[k] = v
	}
	note := sc.Note
	if !st.Exhaustive {
		note += " [stopped by cap/deadline: NOT all schedules within the bound were run]"
	}
	r.Section(ev.Section{Name: sc.Name, Kind: "sched", States: st.Points + st.Executions, Transitions: st.Points + st.Executions, Validated: st.Executions,
		Evaluations: st.Executions, Distinct: int64(st.Outcomes), Exhaustive: st.Exhaustive, Bounds: bounds, Outcomes: int64(st.Outcomes), Note: note, WallS: time.Since(start).Seconds()})
	return st
}

func judge(sc *Scenario, x *Exec) error {
	if x.Out.Panic != "" {
		return &fpErr{fp: sc.Property + ":panic-in-thread", msg: x.Out.Panic}
	}
	if x.Out.Deadlock && !sc.DeadlockOK {
		return &fpErr{fp: sc.Property + ":deadlock", msg: fmt.Sprintf("deadlock: %v", x.Out.BlockedAt)}
	}
	if x.Out.Horizon {
		return &fpErr{fp: sc.Property + ":livelock-horizon", msg: fmt.Sprintf("execution exceeded the horizon of %d scheduling points (livelock?)", sc.Horizon)}
	}
	if x.Out.Diverged != "" || x.Out.Unsupported != "" {
		return nil
	}
	if sc.Check != nil {
		return sc.Check(x)
	}
	return nil
}

type fpErr struct{ fp, msg string }

func (e *fpErr) Error() string       { return e.msg }
func (e *fpErr) Fingerprint() string { return e.fp }

// Violatef builds a fingerprinted violation for Scenario.Check.
func Violatef(fp string, format string, args ...any) error {
	return &fpErr{fp: fp, msg: fmt.Sprintf(format, args...)}
}

func fpOf(err error, name string) string {
	if f, ok := err.(interface{ Fingerprint() string }); ok {
		return f.Fingerprint()
	}
	return name + ":" + err.Error()
}
