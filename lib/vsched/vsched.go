// Package vsched is the controlled scheduler of /verif (engine E3).
//
// Code under test is compiled from REWRITTEN copies of the repository's packages
// (tools/vrewrite): `sync`, `sync/atomic`, `time`, `context`, `ants` imports are replaced by
// the shims vsync/vatomic/vtime/vctx/vants, `go` statements by vsched.Go and channel
// operations / select by vsched calls. Every managed goroutine ("thread") is a real
// goroutine, but exactly one runs at a time; it hands control back at each scheduling
// point, where the scheduler decides who continues. The explorer (explore.go) enumerates
// ALL such decisions up to a preemption bound, re-running the harness body from scratch
// for each schedule, so an execution is reproducible from its list of choices.
//
// Only one execution runs per process (the active scheduler is a package global).
package vsched

import (
	"fmt"
	"reflect"
	"runtime"
	"sort"
	"strings"
	"time"
)

// Op is what a parked thread wants to do next.
type Op interface {
	// Ready returns how many alternative ways the operation can proceed right now
	// (0 = blocked). Plain operations return 0 or 1; a select returns one per ready case.
	Ready(s *Sched) int
	String() string
}

type thread struct {
	id      int
	name    string
	gate    chan struct{}
	op      Op
	alt     int // which alternative of op the scheduler chose
	done    bool
	started bool
	exited  chan struct{}
	yieldAt uint64
}

// PointRec records one scheduling decision.
type PointRec struct {
	N       int   // number of alternatives
	Chosen  int   // alternative taken
	AltCost []int // preemption cost of each alternative
	Desc    string
}

// Outcome of one execution.
type Outcome struct {
	Points      []PointRec
	Choices     []int
	Deadlock    bool
	Horizon     bool
	Diverged    string
	Panic       string
	Unsupported string
	Leaked      int
	Steps       int
	BlockedAt   []string
}

// Sched is one execution's scheduler.
type Sched struct {
	threads  []*thread
	cur      *thread
	prefix   []int
	pos      int
	points   []PointRec
	choices  []int
	epoch    uint64
	aborting bool
	endCh    chan struct{}
	out      *Outcome
	horizon  int
	steps    int
	// closed channels, keyed by address; the value pins the channel so that the address
	// cannot be reused by a new channel within the same execution
	closed   map[uintptr]reflect.Value
	timers   []*vtimer
	timerSeq int
	now      int64 // virtual nanoseconds since base
	trace    bool
	tlog     []string
	quietAtomics bool
	delay        bool // delay-bounding cost model (cost = position in the round-robin order)
}

// Base is the virtual epoch.
var Base = time.Date(2024, 1, 1, 0, 0, 0, 0, time.UTC)

// HangTimeout is the real-time watchdog for one execution (never part of an oracle).
var HangTimeout = 3 * time.Minute

var active *Sched

var generation uint64

// Generation identifies the current execution (0 outside); shims use it to reset
// process-global state (e.g. vsync.Pool contents) at the start of every execution.
func Generation() uint64 {
	if active == nil {
		return 0
	}
	return generation
}

// Active returns the running scheduler (nil outside an execution).
func Active() *Sched { return active }

// Aborting reports whether the current execution is being torn down.
func Aborting() bool { return active != nil && active.aborting }

type vtimer struct {
	seq      int
	deadline int64
	fire     func(s *Sched)
	stopped  bool
}

// ------------------------------------------------------------------ running

// Options of one execution.
type Options struct {
	Prefix       []int
	Horizon      int
	Trace        bool
	QuietAtomics bool
	// Delay selects delay bounding (Emmi/Qadeer/Rakamaric 2011): the default scheduler is
	// deterministic round-robin and taking the i-th alternative costs i, also when the
	// running thread is blocked. Default (false) is preemption bounding: only switching
	// away from a runnable thread costs.
	Delay bool
}

// Run executes body as thread 0 under a fresh scheduler and returns the outcome.
func Run(opts Options, body func()) *Outcome {
	if active != nil {
		panic("vsched: nested Run")
	}
	s := &Sched{prefix: opts.Prefix, endCh: make(chan struct{}, 1), out: &Outcome{}, horizon: opts.Horizon,
		closed: map[uintptr]reflect.Value{}, trace: opts.Trace, quietAtomics: opts.QuietAtomics, delay: opts.Delay}
	if s.horizon <= 0 {
		s.horizon = 20000
	}
	generation++
	active = s
	t0 := s.newThread("main", body)
	s.cur = t0
	t0.started = true
	t0.gate <- struct{}{}
	select {
	case <-s.endCh:
		s.teardown()
	case <-time.After(HangTimeout):
		// a managed thread blocked for real (outside the scheduler's control): the
		// execution cannot be continued or unwound; report a harness error
		s.aborting = true
		s.out.Unsupported = "execution hung: a managed thread blocked outside the scheduler (real blocking operation in non-rewritten code, or an unmodelled channel operation)"
	}
	active = nil
	s.out.Points = s.points
	s.out.Choices = s.choices
	s.out.Steps = s.steps
	if s.trace {
		s.out.BlockedAt = append(s.out.BlockedAt, s.tlog...)
	}
	return s.out
}

func (s *Sched) newThread(name string, f func()) *thread {
	t := &thread{id: len(s.threads), name: name, gate: make(chan struct{}, 1), exited: make(chan struct{})}
	s.threads = append(s.threads, t)
	go func() {
		<-t.gate
		defer close(t.exited)
		defer func() {
			r := recover()
			t.done = true
			if s.aborting {
				return
			}
			if r != nil {
				if _, ok := r.(unsupported); ok {
					s.out.Unsupported = fmt.Sprint(r)
				} else {
					buf := make([]byte, 4096)
					buf = buf[:runtime.Stack(buf, false)]
					s.out.Panic = fmt.Sprintf("thread %d (%s): panic: %v\n%s", t.id, t.name, r, buf)
				}
				s.finish()
				return
			}
			s.epoch++
			s.threadExit(t)
		}()
		if s.aborting {
			return
		}
		f()
	}()
	return t
}

type unsupported string

// Unsupported aborts the execution with a harness error (never a violation).
func Unsupported(format string, args ...any) {
	panic(unsupported(fmt.Sprintf(format, args...)))
}

// finish ends the execution (called by the running thread).
func (s *Sched) finish() {
	select {
	case s.endCh <- struct{}{}:
	default:
	}
}

// teardown unwinds every parked thread (runtime.Goexit runs their deferred calls; shims
// are no-ops while aborting).
func (s *Sched) teardown() {
	s.aborting = true
	for _, t := range s.threads {
		if t.done {
			continue
		}
		if !t.started {
			t.started = true
		}
		select {
		case t.gate <- struct{}{}:
		default:
		}
		select {
		case <-t.exited:
		case <-time.After(2 * time.Second):
			s.out.Leaked++
		}
	}
}

// Go starts f as a managed thread (rewritten `go` statements call this).
func Go(f func()) {
	s := active
	if s == nil || s.aborting {
		if s == nil {
			go f()
		}
		return
	}
	t := s.newThread("go", f)
	t.op = readyOp("start")
	s.epoch++
	// the spawner may be preempted right after the spawn
	s.point(readyOp("spawned"))
}

// GoNamed is Go with a thread name for traces.
func GoNamed(name string, f func()) {
	s := active
	if s == nil || s.aborting {
		if s == nil {
			go f()
		}
		return
	}
	t := s.newThread(name, f)
	t.op = readyOp("start")
	s.epoch++
	s.point(readyOp("spawned"))
}

type readyOp string

func (r readyOp) Ready(*Sched) int { return 1 }
func (r readyOp) String() string   { return string(r) }

// Point is a plain scheduling point (always enabled).
func Point(desc string) {
	if s := active; s != nil && !s.aborting {
		s.point(readyOp(desc))
	}
}

// Yield is used for spin/poll loops (runtime.Gosched): the thread stays parked until some
// other thread has made progress, so wait loops do not unroll.
func Yield() {
	s := active
	if s == nil || s.aborting {
		return
	}
	t := s.cur
	t.yieldAt = s.epoch
	s.point(yieldOp{t})
}

type yieldOp struct{ t *thread }

func (y yieldOp) Ready(s *Sched) int {
	if s.epoch != y.t.yieldAt {
		return 1
	}
	return 0
}
func (y yieldOp) String() string { return "yield" }

// Block parks the running thread until op is ready and returns the chosen alternative.
func Block(op Op) int {
	s := active
	if s == nil {
		if op.Ready(nil) == 0 {
			panic("vsched: operation would block outside an execution: " + op.String())
		}
		return 0
	}
	if s.aborting {
		return 0
	}
	return s.point(op)
}

// Progress tells the scheduler that shared state changed (unblocks yielders).
func Progress() {
	if s := active; s != nil {
		s.epoch++
	}
}

type entry struct {
	t    *thread // nil = fire timer
	alt  int
	cost int
}

// point is the heart: park the running thread on op, choose who continues.
func (s *Sched) point(op Op) int {
	t := s.cur
	t.op = op
	s.steps++
	if s.steps > s.horizon {
		s.out.Horizon = true
		s.finish()
		s.parkForever(t)
	}
	next := s.pick()
	if next == nil {
		// deadlock / end: pick already signalled; park until teardown
		s.parkForever(t)
	}
	if next != t {
		s.cur = next
		next.started = true
		next.gate <- struct{}{}
		<-t.gate
		if s.aborting {
			runtime.Goexit()
		}
	}
	t.op = nil
	return t.alt
}

func (s *Sched) parkForever(t *thread) {
	<-t.gate
	runtime.Goexit()
}

// threadExit is called by a finishing thread: someone else must continue.
func (s *Sched) threadExit(t *thread) {
	next := s.pick()
	if next == nil {
		return
	}
	s.cur = next
	next.started = true
	next.gate <- struct{}{}
}

// pick computes the enabled alternatives in canonical order (running thread first if it
// is still enabled, then ascending thread ids, timer firing last), takes the replayed or
// default choice, records the point and returns the thread that continues.
func (s *Sched) pick() *thread {
	for {
		var ents []entry
		cur := s.cur
		curEnabled := false
		if cur != nil && !cur.done && cur.op != nil {
			if n := cur.op.Ready(s); n > 0 {
				curEnabled = true
				for a := 0; a < n; a++ {
					ents = append(ents, entry{t: cur, alt: a})
				}
			}
		}
		// the other threads in round-robin order starting after the running thread
		nth := len(s.threads)
		startID := 0
		if cur != nil {
			startID = cur.id + 1
		}
		for k := 0; k < nth; k++ {
			t := s.threads[(startID+k)%nth]
			if t == cur || t.done || t.op == nil {
				continue
			}
			if n := t.op.Ready(s); n > 0 {
				c := 0
				if curEnabled {
					c = 1
				}
				for a := 0; a < n; a++ {
					ents = append(ents, entry{t: t, alt: a, cost: c})
				}
			}
		}
		if s.delay {
			for i := range ents {
				ents[i].cost = i
			}
		}
		tm := s.earliestTimer()
		if len(ents) == 0 {
			if tm != nil {
				// nobody can run: time passes, deterministically
				s.fireTimer(tm)
				continue
			}
			// quiescent or deadlocked
			if !s.threads[0].done {
				s.out.Deadlock = true
				for _, t := range s.threads {
					if !t.done && t.op != nil {
						s.out.BlockedAt = append(s.out.BlockedAt, fmt.Sprintf("thread %d (%s) blocked at %s", t.id, t.name, t.op.String()))
					}
				}
			}
			s.finish()
			return nil
		}
		if tm != nil {
			// a timer landing before runnable threads proceed is a deviation
			ents = append(ents, entry{t: nil, cost: 1})
		}
		if len(ents) == 1 {
			// forced move: not a decision, not recorded
			e := ents[0]
			e.t.alt = e.alt
			return e.t
		}
		choice := 0
		if s.pos < len(s.prefix) {
			choice = s.prefix[s.pos]
			if choice >= len(ents) {
				s.out.Diverged = fmt.Sprintf("replayed choice %d at point %d but only %d alternatives are enabled", choice, s.pos, len(ents))
				s.finish()
				return nil
			}
		}
		s.pos++
		rec := PointRec{N: len(ents), Chosen: choice, AltCost: make([]int, len(ents))}
		for i, e := range ents {
			rec.AltCost[i] = e.cost
		}
		if s.trace {
			var b strings.Builder
			for i, e := range ents {
				if i > 0 {
					b.WriteString(" | ")
				}
				if e.t == nil {
					b.WriteString("timer")
				} else {
					fmt.Fprintf(&b, "T%d:%s", e.t.id, e.t.op.String())
					if e.alt > 0 {
						fmt.Fprintf(&b, "#%d", e.alt)
					}
				}
			}
			rec.Desc = b.String()
			s.tlog = append(s.tlog, fmt.Sprintf("point %d: choose %d of [%s]", len(s.points), choice, rec.Desc))
		}
		s.points = append(s.points, rec)
		s.choices = append(s.choices, choice)
		e := ents[choice]
		if e.t == nil {
			s.fireTimer(tm)
			continue
		}
		e.t.alt = e.alt
		return e.t
	}
}

// ------------------------------------------------------------------ timers

func (s *Sched) earliestTimer() *vtimer {
	var best *vtimer
	for _, t := range s.timers {
		if t.stopped {
			continue
		}
		if best == nil || t.deadline < best.deadline || (t.deadline == best.deadline && t.seq < best.seq) {
			best = t
		}
	}
	return best
}

func (s *Sched) fireTimer(t *vtimer) {
	t.stopped = true
	if t.deadline > s.now {
		s.now = t.deadline
	}
	s.gcTimers()
	s.epoch++
	t.fire(s)
}

func (s *Sched) gcTimers() {
	kept := s.timers[:0]
	for _, t := range s.timers {
		if !t.stopped {
			kept = append(kept, t)
		}
	}
	s.timers = kept
}

// TimerHandle is used by vtime.
type TimerHandle struct{ t *vtimer }

// AddTimer registers a virtual timer firing after d; fire runs inside the scheduler (it
// must not block; it may make channels ready or spawn threads).
func AddTimer(d time.Duration, fire func()) TimerHandle {
	s := active
	if s == nil {
		return TimerHandle{}
	}
	if d < 0 {
		d = 0
	}
	s.timerSeq++
	t := &vtimer{seq: s.timerSeq, deadline: s.now + int64(d), fire: func(*Sched) { fire() }}
	s.timers = append(s.timers, t)
	return TimerHandle{t}
}

// Stop cancels the timer; reports whether it was still pending.
func (h TimerHandle) Stop() bool {
	if h.t == nil || h.t.stopped {
		return false
	}
	h.t.stopped = true
	if s := active; s != nil {
		s.gcTimers()
	}
	return true
}

// Pending reports whether the timer has neither fired nor been stopped.
func (h TimerHandle) Pending() bool { return h.t != nil && !h.t.stopped }

// Now is the virtual clock.
func Now() time.Time {
	if s := active; s != nil {
		return Base.Add(time.Duration(s.now))
	}
	return Base
}

// SpawnFromTimer starts a thread from a timer callback (no scheduling point).
func SpawnFromTimer(name string, f func()) {
	s := active
	if s == nil || s.aborting {
		return
	}
	t := s.newThread(name, f)
	t.op = readyOp("start")
}

// ------------------------------------------------------------------ channels

func chanValue(c any) reflect.Value {
	v := reflect.ValueOf(c)
	if v.Kind() != reflect.Chan {
		Unsupported("vsched: channel operation on non-channel %T", c)
	}
	return v
}

func (s *Sched) recvReady(v reflect.Value) bool {
	if v.IsNil() {
		return false
	}
	if v.Len() > 0 {
		return true
	}
	if s != nil {
		if _, ok := s.closed[v.Pointer()]; ok {
			return true
		}
	}
	// empty: ready iff closed. A non-blocking receive cannot consume anything because no
	// other managed thread runs now; a value arriving here means an unmanaged sender.
	chosen, _, ok := reflect.Select([]reflect.SelectCase{{Dir: reflect.SelectRecv, Chan: v}, {Dir: reflect.SelectDefault}})
	if chosen == 0 {
		if ok {
			Unsupported("vsched: a value was received while probing an empty channel (unbuffered rendezvous or unmanaged sender) - unsupported")
		}
		if s != nil {
			s.closed[v.Pointer()] = v
		}
		return true
	}
	return false
}

func (s *Sched) sendReady(v reflect.Value) bool {
	if v.IsNil() {
		return false
	}
	if s != nil {
		if _, ok := s.closed[v.Pointer()]; ok {
			return true // will panic, as the real program would
		}
	}
	if v.Cap() == 0 {
		Unsupported("vsched: send on an unbuffered channel is not modelled")
	}
	return v.Len() < v.Cap()
}

type chanOp struct {
	v    reflect.Value
	send bool
}

func (o chanOp) Ready(s *Sched) int {
	if o.send {
		if s.sendReady(o.v) {
			return 1
		}
		return 0
	}
	if s.recvReady(o.v) {
		return 1
	}
	return 0
}
func (o chanOp) String() string {
	// no addresses: messages must be identical across replays
	if o.send {
		return fmt.Sprintf("send(cap %d)", o.v.Cap())
	}
	return fmt.Sprintf("recv(cap %d)", o.v.Cap())
}

// BeforeSend parks until a send on c can proceed; the real `c <- v` follows immediately.
func BeforeSend(c any) {
	s := active
	if s == nil || s.aborting {
		return
	}
	s.point(chanOp{v: chanValue(c), send: true})
	s.epoch++
}

// Recv is `<-c`.
func Recv[T any](c <-chan T) T {
	s := active
	if s == nil {
		return <-c
	}
	if s.aborting {
		var zero T
		select {
		case v := <-c:
			return v
		default:
			return zero
		}
	}
	s.point(chanOp{v: reflect.ValueOf(c)})
	s.epoch++
	return <-c
}

// Recv2 is `v, ok := <-c`.
func Recv2[T any](c <-chan T) (T, bool) {
	s := active
	if s == nil {
		v, ok := <-c
		return v, ok
	}
	if s.aborting {
		var zero T
		select {
		case v, ok := <-c:
			return v, ok
		default:
			return zero, false
		}
	}
	s.point(chanOp{v: reflect.ValueOf(c)})
	s.epoch++
	v, ok := <-c
	return v, ok
}

// Close is `close(c)`.
func Close[T any](c chan<- T) {
	s := active
	if s != nil && !s.aborting {
		s.point(readyOp("close"))
		cv := reflect.ValueOf(c)
		s.closed[cv.Pointer()] = cv
		s.epoch++
	}
	if s != nil && s.aborting {
		defer func() { _ = recover() }()
	}
	close(c)
}

// SelCase is one case of a rewritten select.
type SelCase struct {
	v    reflect.Value
	send bool
}

// R is a receive case, S a send case.
func R(c any) SelCase { return SelCase{v: reflect.ValueOf(c)} }

// S is a send case.
func S(c any) SelCase { return SelCase{v: reflect.ValueOf(c), send: true} }

type selOp struct {
	cases  []SelCase
	def    bool
	readyI []int
}

func (o *selOp) Ready(s *Sched) int {
	o.readyI = o.readyI[:0]
	for i, c := range o.cases {
		if !c.v.IsValid() || c.v.Kind() != reflect.Chan {
			continue
		}
		ok := false
		if c.send {
			ok = s.sendReady(c.v)
		} else {
			ok = s.recvReady(c.v)
		}
		if ok {
			o.readyI = append(o.readyI, i)
		}
	}
	if len(o.readyI) == 0 && o.def {
		return 1
	}
	return len(o.readyI)
}
func (o *selOp) String() string { return fmt.Sprintf("select/%d", len(o.cases)) }

// Select parks until a case is ready (or default) and returns the chosen case index
// (-1 = default). Which ready case fires is a scheduler decision, never Go's random pick.
func Select(hasDefault bool, cases ...SelCase) int {
	s := active
	if s == nil || s.aborting {
		// outside an execution: only non-blocking use is meaningful
		op := &selOp{cases: cases, def: hasDefault}
		if op.Ready(nil) == 0 {
			if s != nil {
				runtime.Goexit()
			}
			panic("vsched: select would block outside an execution")
		}
		if len(op.readyI) == 0 {
			return -1
		}
		return op.readyI[0]
	}
	op := &selOp{cases: cases, def: hasDefault}
	alt := s.point(op)
	s.epoch++
	// re-evaluate: the chosen alternative indexes the ready list at decision time
	op.Ready(s)
	if len(op.readyI) == 0 {
		return -1
	}
	if alt >= len(op.readyI) {
		alt = 0
	}
	return op.readyI[alt]
}

// ------------------------------------------------------------------ helpers for shims

// CondOp is a generic blocking operation defined by a predicate.
type CondOp struct {
	Desc string
	Pred func() bool
}

// Ready implements Op.
func (c CondOp) Ready(*Sched) int {
	if c.Pred() {
		return 1
	}
	return 0
}
func (c CondOp) String() string { return c.Desc }

// WaitUntil parks the running thread until pred holds (a scheduling point).
func WaitUntil(desc string, pred func() bool) {
	s := active
	if s == nil {
		if !pred() {
			panic("vsched: " + desc + " would block outside an execution")
		}
		return
	}
	if s.aborting {
		return
	}
	s.point(CondOp{Desc: desc, Pred: pred})
}

// AtomicPoint is the scheduling point before an atomic operation.
func AtomicPoint(desc string) {
	s := active
	if s == nil || s.aborting || s.quietAtomics {
		return
	}
	s.point(readyOp(desc))
	s.epoch++
}

// ThreadID returns the running thread's id (for harness oracles), -1 outside.
func ThreadID() int {
	if s := active; s != nil && s.cur != nil {
		return s.cur.id
	}
	return -1
}

// SortedKeys is a helper for deterministic iteration in harness code.
func SortedKeys[K ~int | ~int64 | ~uint64 | ~string, V any](m map[K]V) []K {
	ks := make([]K, 0, len(m))
	for k := range m {
		ks = append(ks, k)
	}
	sort.Slice(ks, func(i, j int) bool { return ks[i] < ks[j] })
	return ks
}
