package gateway_test

// C28 (part b) - the real batch SEND handler (internal/access/gateway.Handler.OnSendBatch)
// against a scripted message port: results are emitted in EVERY order (every permutation,
// every proper prefix, duplicates, out-of-range indexes, batch error after partial
// emission) and with every result kind, for batches of <= 4 items over <= 2 sessions that
// are authenticated / unauthenticated / already closed, with and without a request context.
// Observation point: the frames the sessions' WriteFrameFn receives.
//
// Oracle (scoped to the property): every frame written is the SENDACK of a SEND of that
// session (ClientSeq / ClientMsgNo / reply token), no SEND is acknowledged twice, per
// session the acknowledged SENDs are a prefix of the session's SENDs in SEND order, an
// acknowledgement carries the result that was emitted for exactly that SEND, and when
// OnSendBatch returns nil every SEND of the batch has exactly one SENDACK; a well-formed
// result stream with open sessions must make OnSendBatch return nil.

import (
	"context"
	"encoding/json"
	"errors"
	"fmt"
	"strings"
	"testing"

	accessgateway "github.com/WuKongIM/WuKongIM/internal/access/gateway"
	"github.com/WuKongIM/WuKongIM/internal/usecase/message"
	coregateway "github.com/WuKongIM/WuKongIM/pkg/gateway"
	"github.com/WuKongIM/WuKongIM/pkg/gateway/session"
	"github.com/WuKongIM/WuKongIM/pkg/protocol/frame"
	"github.com/WuKongIM/WuKongIM/pkg/zzverif/ev"
)

// session attributes
const (
	c28bAuthOpen = iota
	c28bUnauthOpen
	c28bAuthClosed
	c28bUnauthClosed
)

var c28bAttrName = []string{"auth", "unauth", "auth+closed", "unauth+closed"}

// result kinds emitted by the port
const (
	c28bOK = iota
	c28bReasonOnly
	c28bErrMapped
	c28bErrOther
)

var c28bKindName = []string{"ok", "reason", "err-notfound", "err-other"}

var errC28bBatch = errors.New("c28: message port batch error")

type c28bEmit struct {
	j    int // index into the port's item slice (may be out of range on purpose)
	kind int
}

type c28bWrite struct {
	ack   *frame.SendackPacket
	token string
	other string
}

type c28bCase struct {
	n       int
	sessOf  []int   // item -> session (0|1)
	attr    [2]int  // per session
	noCtx   []bool  // item has no request context
	script  []c28bEmit
	retErr  bool
	wellFormed bool // script is a complete permutation of the valid items and the port returns nil
}

func (c *c28bCase) key() string {
	var b strings.Builder
	fmt.Fprintf(&b, "n%d|", c.n)
	for i := 0; i < c.n; i++ {
		fmt.Fprintf(&b, "%d", c.sessOf[i])
		if c.noCtx[i] {
			b.WriteByte('x')
		}
	}
	used := [2]bool{}
	for i := 0; i < c.n; i++ {
		used[c.sessOf[i]] = true
	}
	for s := 0; s < 2; s++ {
		if used[s] {
			fmt.Fprintf(&b, "|s%d=%s", s, c28bAttrName[c.attr[s]])
		}
	}
	b.WriteString("|")
	for _, e := range c.script {
		fmt.Fprintf(&b, "%d%s,", e.j, c28bKindName[e.kind])
	}
	if c.retErr {
		b.WriteString("|ret=err")
	}
	return b.String()
}

type c28bPort struct {
	c       *c28bCase
	calls   int
	got     []message.SendBatchItem
	emitted []c28bEmit // emissions actually delivered (emit was called)
	emitErr error
}

func c28bResult(origIndex int, kind int) message.SendBatchItemResult {
	// every result carries a message id that identifies the SEND it belongs to, so that a
	// SENDACK built from another SEND's result is recognisable whatever the reason mapping
	id := uint64(1000 + origIndex)
	switch kind {
	case c28bOK:
		return message.SendBatchItemResult{Result: message.SendResult{MessageID: id, MessageSeq: uint64(2000 + origIndex), Reason: message.ReasonSuccess}}
	case c28bReasonOnly:
		return message.SendBatchItemResult{Result: message.SendResult{MessageID: id, Reason: message.ReasonNotAllowSend}}
	case c28bErrMapped:
		return message.SendBatchItemResult{Result: message.SendResult{MessageID: id}, Err: message.ErrChannelNotFound}
	default:
		return message.SendBatchItemResult{Result: message.SendResult{MessageID: id}, Err: errors.New("c28: infrastructure error")}
	}
}

func (p *c28bPort) SendBatchEach(items []message.SendBatchItem, emit func(int, message.SendBatchItemResult) error) error {
	p.calls++
	p.got = items
	for _, e := range p.c.script {
		orig := -1
		if e.j >= 0 && e.j < len(items) {
			// the port's items are the valid items in batch order; ClientSeq is origIndex+1
			orig = int(items[e.j].Command.ClientSeq) - 1
		}
		p.emitted = append(p.emitted, e)
		if err := emit(e.j, c28bResult(orig, e.kind)); err != nil {
			p.emitErr = err
			return err
		}
	}
	if p.c.retErr {
		return errC28bBatch
	}
	return nil
}

type c28bViolation struct{ fp, msg string }

// c28bReplayT is the JSON form of one case (re-executed by ./check C28 --replay FILE).
type c28bReplayT struct {
	N          int      `json:"n"`
	SessOf     []int    `json:"session_of_item"`
	Attr       [2]int   `json:"session_attr"`
	NoCtx      []bool   `json:"no_request_context"`
	Script     [][2]int `json:"port_script_index_kind"`
	RetErr     bool     `json:"port_returns_error"`
	WellFormed bool     `json:"well_formed"`
	Key        string   `json:"key"`
}

func c28bReplay(c *c28bCase) c28bReplayT {
	rp := c28bReplayT{N: c.n, SessOf: append([]int(nil), c.sessOf...), Attr: c.attr, NoCtx: append([]bool(nil), c.noCtx...), RetErr: c.retErr, WellFormed: c.wellFormed, Key: c.key()}
	for _, e := range c.script {
		rp.Script = append(rp.Script, [2]int{e.j, e.kind})
	}
	return rp
}

func jsonUnmarshalC28(raw json.RawMessage, c *c28bCase) error {
	var rp c28bReplayT
	if err := json.Unmarshal(raw, &rp); err != nil {
		return err
	}
	if rp.N <= 0 || len(rp.SessOf) != rp.N || len(rp.NoCtx) != rp.N {
		return errors.New("not a send-batch-handler replay")
	}
	*c = c28bCase{n: rp.N, sessOf: rp.SessOf, attr: rp.Attr, noCtx: rp.NoCtx, retErr: rp.RetErr, wellFormed: rp.WellFormed}
	for _, e := range rp.Script {
		c.script = append(c.script, c28bEmit{j: e[0], kind: e[1]})
	}
	return nil
}

// c28bRun executes one case on a fresh real Handler and judges it.
func c28bRun(c *c28bCase) (outcome string, v *c28bViolation) {
	var writes [2][]c28bWrite
	var sessions [2]session.Session
	for s := 0; s < 2; s++ {
		s := s
		sessions[s] = session.New(session.Config{ID: uint64(s + 1), Listener: "l",
			WriteFrameFn: func(f frame.Frame, meta session.OutboundMeta) error {
				w := c28bWrite{token: meta.ReplyToken}
				if ack, ok := f.(*frame.SendackPacket); ok {
					cp := *ack
					w.ack = &cp
				} else {
					w.other = fmt.Sprintf("%T", f)
				}
				writes[s] = append(writes[s], w)
				return nil
			}})
		if c.attr[s] == c28bAuthOpen || c.attr[s] == c28bAuthClosed {
			sessions[s].SetValue(coregateway.SessionValueUID, fmt.Sprintf("u%d", s+1))
		}
		if c.attr[s] == c28bAuthClosed || c.attr[s] == c28bUnauthClosed {
			_ = sessions[s].Close()
		}
	}
	items := make([]coregateway.SendBatchItem, c.n)
	valid := make([]bool, c.n)
	anyClosed := false
	for i := 0; i < c.n; i++ {
		s := c.sessOf[i]
		ctx := coregateway.Context{Session: sessions[s], Listener: "l"}
		if !c.noCtx[i] {
			ctx.RequestContext = context.Background()
		}
		items[i] = coregateway.SendBatchItem{
			Context:    ctx,
			ReplyToken: fmt.Sprintf("tok%d", i),
			Frame:      &frame.SendPacket{ClientSeq: uint64(i + 1), ClientMsgNo: fmt.Sprintf("m%d", i), ChannelID: "ch", ChannelType: 2, Payload: []byte{byte('a' + i)}},
			Index:      i,
			ByteCount:  1,
		}
		valid[i] = (c.attr[s] == c28bAuthOpen || c.attr[s] == c28bAuthClosed) && !c.noCtx[i]
		if c.attr[s] == c28bAuthClosed || c.attr[s] == c28bUnauthClosed {
			anyClosed = true
		}
	}
	port := &c28bPort{c: c}
	h := accessgateway.New(accessgateway.Options{Messages: port, OwnerNodeID: 7})

	var err error
	if perr := ev.Recover(func() { err = h.OnSendBatch(items) }); perr != nil {
		return "panic", &c28bViolation{"C28:send-batch-handler-panic", fmt.Sprintf("OnSendBatch panicked: %v", perr)}
	}

	// what the port emitted per original item (first emission counts; duplicates are the
	// port's fault and must not produce a second SENDACK)
	emittedKind := map[int]int{}
	if port.calls > 0 {
		for _, e := range port.emitted {
			if e.j < 0 || e.j >= len(port.got) {
				continue
			}
			orig := int(port.got[e.j].Command.ClientSeq) - 1
			if _, dup := emittedKind[orig]; !dup {
				emittedKind[orig] = e.kind
			}
		}
	}

	acked := make([]int, c.n)
	for s := 0; s < 2; s++ {
		// the SENDs of this session in SEND order
		var mine []int
		for i := 0; i < c.n; i++ {
			if c.sessOf[i] == s {
				mine = append(mine, i)
			}
		}
		for k, w := range writes[s] {
			if w.ack == nil {
				return "bad", &c28bViolation{"C28:non-sendack-frame-written", fmt.Sprintf("session %d received a %s", s+1, w.other)}
			}
			i := int(w.ack.ClientSeq) - 1
			if i < 0 || i >= c.n || c.sessOf[i] != s || w.ack.ClientMsgNo != fmt.Sprintf("m%d", i) {
				return "bad", &c28bViolation{"C28:sendack-for-foreign-send", fmt.Sprintf("session %d received SENDACK{seq %d, no %q} which answers none of its SENDs %v", s+1, w.ack.ClientSeq, w.ack.ClientMsgNo, mine)}
			}
			acked[i]++
			if acked[i] > 1 {
				return "bad", &c28bViolation{"C28:send-acknowledged-twice", fmt.Sprintf("session %d: SEND #%d acknowledged %d times", s+1, i, acked[i])}
			}
			if k >= len(mine) || mine[k] != i {
				return "bad", &c28bViolation{"C28:sendack-order-differs-from-send-order", fmt.Sprintf("session %d: SENDACK number %d answers SEND #%d, SEND order is %v", s+1, k, i, mine)}
			}
			if w.token != fmt.Sprintf("tok%d", i) {
				return "bad", &c28bViolation{"C28:sendack-reply-token-of-other-send", fmt.Sprintf("SENDACK of SEND #%d carries reply token %q", i, w.token)}
			}
			if valid[i] {
				kind, ok := emittedKind[i]
				if !ok {
					return "bad", &c28bViolation{"C28:sendack-without-result", fmt.Sprintf("SEND #%d acknowledged although the port never emitted its result", i)}
				}
				if w.ack.MessageID != int64(1000+i) {
					return "bad", &c28bViolation{"C28:sendack-carries-result-of-other-send", fmt.Sprintf("SENDACK of SEND #%d carries message id %d (result of SEND #%d)", i, w.ack.MessageID, w.ack.MessageID-1000)}
				}
				if (w.ack.ReasonCode == frame.ReasonSuccess) != (kind == c28bOK) {
					return "bad", &c28bViolation{"C28:sendack-carries-result-of-other-send", fmt.Sprintf("SENDACK of SEND #%d has reason %v but its result kind was %s", i, w.ack.ReasonCode, c28bKindName[kind])}
				}
			} else {
				if w.ack.ReasonCode == frame.ReasonSuccess || w.ack.MessageID != 0 {
					return "bad", &c28bViolation{"C28:rejected-send-acknowledged-as-success", fmt.Sprintf("SEND #%d (unauthenticated / no request context) got SENDACK %v id %d", i, w.ack.ReasonCode, w.ack.MessageID)}
				}
			}
		}
	}
	all := true
	for i := 0; i < c.n; i++ {
		if acked[i] != 1 {
			all = false
		}
	}
	if err == nil && !all {
		return "bad", &c28bViolation{"C28:batch-returned-nil-with-unacknowledged-send", fmt.Sprintf("OnSendBatch returned nil but SENDACK counts are %v", acked)}
	}
	if c.wellFormed && !anyClosed && err != nil {
		return "bad", &c28bViolation{"C28:batch-failed-on-well-formed-results", fmt.Sprintf("every result was emitted exactly once and every session is open, but OnSendBatch returned %v (SENDACK counts %v)", err, acked)}
	}
	switch {
	case err == nil:
		return "all-acked", nil
	case anyClosed:
		// a write to a closed session aborts the batch; SENDs of OTHER, open sessions may
		// stay unanswered (the gateway then closes those sessions: handler error)
		for i := 0; i < c.n; i++ {
			a := c.attr[c.sessOf[i]]
			if acked[i] == 0 && (a == c28bAuthOpen || a == c28bUnauthOpen) {
				return "aborted-open-session-unanswered", nil
			}
		}
		return "aborted-by-closed-session", nil
	default:
		return "rejected-malformed-results", nil
	}
}

// c28bScripts enumerates the port scripts over v valid items with the kind menu.
func c28bScripts(v int, kinds []int, malformed bool, f func(script []c28bEmit, retErr bool, wellFormed bool)) {
	if v == 0 {
		f(nil, false, true)
		return
	}
	used := make([]bool, v)
	var cur []c28bEmit
	var rec func()
	rec = func() {
		complete := len(cur) == v
		if complete {
			f(cur, false, true)
			if malformed {
				f(cur, true, false)
			}
		} else if malformed {
			f(cur, false, false) // short: the port forgets the remaining results
			f(cur, true, false)  // batch error after a partial emission
		}
		if malformed && len(cur) >= 1 {
			// duplicate of the first emitted index / an out-of-range index, then the rest never comes
			dup := append(append([]c28bEmit(nil), cur...), c28bEmit{j: cur[0].j, kind: kinds[0]})
			f(dup, false, false)
		}
		if malformed {
			oob := append(append([]c28bEmit(nil), cur...), c28bEmit{j: v, kind: kinds[0]})
			f(oob, false, false)
			neg := append(append([]c28bEmit(nil), cur...), c28bEmit{j: -1, kind: kinds[0]})
			f(neg, false, false)
		}
		if complete {
			return
		}
		for j := 0; j < v; j++ {
			if used[j] {
				continue
			}
			used[j] = true
			for _, k := range kinds {
				cur = append(cur, c28bEmit{j: j, kind: k})
				rec()
				cur = cur[:len(cur)-1]
			}
			used[j] = false
		}
	}
	rec()
}

func TestVerifC28Batch(t *testing.T) {
	r := ev.Start(t, "C28")
	defer r.Finish()
	if r.Replay() != nil {
		var c c28bCase
		if err := jsonUnmarshalC28(r.Replay().Replay, &c); err == nil {
			if _, v := c28bRun(&c); v != nil {
				fmt.Println("replay VIOLATES:", v.msg)
				r.MarkReplayReproduced()
				r.Violation(ev.Violation{Fingerprint: v.fp, Message: v.msg, System: "send-batch-handler", Replay: c28bReplay(&c)})
			}
		}
		return
	}
	e := r.NewEnum("send-batch-handler")
	type tierCfg struct {
		n         int
		attrs     []int
		kinds     []int
		ctxMasks  string // "all" | "one" | "none"
		malformed bool
	}
	var plan []tierCfg
	allAttrs := []int{c28bAuthOpen, c28bUnauthOpen, c28bAuthClosed, c28bUnauthClosed}
	allKinds := []int{c28bOK, c28bReasonOnly, c28bErrMapped, c28bErrOther}
	if r.Thorough() {
		plan = []tierCfg{
			{1, allAttrs, allKinds, "all", true}, {2, allAttrs, allKinds, "all", true}, {3, allAttrs, allKinds, "all", true},
			{4, allAttrs, []int{c28bOK, c28bReasonOnly, c28bErrMapped}, "one", true},
		}
	} else {
		plan = []tierCfg{
			{1, allAttrs, allKinds, "all", true}, {2, allAttrs, allKinds, "all", true},
			{3, allAttrs, []int{c28bOK, c28bReasonOnly, c28bErrMapped}, "all", true},
			{4, []int{c28bAuthOpen, c28bUnauthOpen}, []int{c28bOK, c28bErrMapped}, "none", false},
		}
	}
	stop := false
	for _, p := range plan {
		for a := 0; a < 1<<p.n && !stop; a++ {
			sessOf := make([]int, p.n)
			used := [2]bool{}
			for i := 0; i < p.n; i++ {
				sessOf[i] = (a >> i) & 1
				used[sessOf[i]] = true
			}
			for _, a0 := range p.attrs {
				if !used[0] && a0 != p.attrs[0] {
					continue
				}
				for _, a1 := range p.attrs {
					if !used[1] && a1 != p.attrs[0] {
						continue
					}
					for m := 0; m < 1<<p.n && !stop; m++ {
						bits := 0
						for i := 0; i < p.n; i++ {
							bits += (m >> i) & 1
						}
						if (p.ctxMasks == "none" && bits > 0) || (p.ctxMasks == "one" && bits > 1) {
							continue
						}
						noCtx := make([]bool, p.n)
						v := 0
						for i := 0; i < p.n; i++ {
							noCtx[i] = (m>>i)&1 == 1
							at := [2]int{a0, a1}[sessOf[i]]
							if (at == c28bAuthOpen || at == c28bAuthClosed) && !noCtx[i] {
								v++
							}
						}
						// an unauthenticated+closed (or closed, context-less) SEND fails before
						// the port is called: only the empty script is meaningful then, the
						// enumeration still runs every script (the port is simply not called)
						c28bScripts(v, p.kinds, p.malformed, func(script []c28bEmit, retErr, wellFormed bool) {
							if stop {
								return
							}
							c := &c28bCase{n: p.n, sessOf: sessOf, attr: [2]int{a0, a1}, noCtx: noCtx, script: script, retErr: retErr, wellFormed: wellFormed}
							outcome, viol := c28bRun(c)
							shared := false
							for i := 1; i < p.n; i++ {
								for j := 0; j < i; j++ {
									if sessOf[i] == sessOf[j] {
										shared = true
									}
								}
							}
							e.Case(c.key(), shared && v >= 1, outcome)
							if viol != nil {
								if !r.Violation(ev.Violation{Fingerprint: viol.fp, Message: viol.msg + " | case " + c.key(), System: "send-batch-handler", Replay: c28bReplay(c)}) {
									stop = true
								}
							}
						})
					}
				}
			}
		}
	}
	r.Sample(map[string]any{"case": "n=3 sessions 0,1,0 both authenticated, port emits item 2 (ok), item 0 (err-notfound), item 1 (reason)", "expected": "session 1 receives SENDACK m0 then m2 only after m0's result; session 2 receives m1"})
	bounds := map[string]any{"max_batch": 4, "sessions": 2, "session_attributes": c28bAttrName, "result_kinds": c28bKindName,
		"port_scripts": "all permutations of the valid items; every proper prefix (short) ; batch error after any prefix; duplicate index; out-of-range index (quick: n=4 restricted to 2 kinds, open sessions, complete permutations)"}
	e.Done(!stop, bounds, "exhaustive product of the stated menus; keys deduplicated")
	r.Guard("batch_evaluations", e.Evals() >= 10000, "evaluations=%d", e.Evals())
	for _, o := range []string{"all-acked", "rejected-malformed-results", "aborted-by-closed-session", "aborted-open-session-unanswered"} {
		r.Guard("batch_outcome_"+o, e.Outcome(o) >= 1, "%s=%d", o, e.Outcome(o))
	}
	r.Count("batch_open_session_left_unanswered_by_other_sessions_write_error", e.Outcome("aborted-open-session-unanswered"))
}
