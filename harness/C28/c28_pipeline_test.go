package core

// C28 (part a) - Every SEND gets exactly one SENDACK, in order: the gateway's asynchronous
// SEND pipeline under the controlled scheduler (engine E3).
//
// Real code under test (rewritten for vsched): pkg/gateway/core (dispatchInboundFrames ->
// dispatchSendFrameAsync -> asyncRuntime.submitSend -> sendExecutor.submit -> ShardedMailbox
// -> handleMailboxBatch -> dispatchSendBatch -> handler; DrainSends / Stop / drain / stop),
// pkg/workqueue (ShardedMailbox on the vants pool model), pkg/goroutine (spawns),
// pkg/gateway/session (WriteFrame / Close on the session write lock).
//
// Harness side: a literal Server{dispatcher, options, sessions, states} exactly as the
// repository's own drain test builds it, a send-only asyncRuntime, 2 sessions built the way
// Server.onOpen builds them (session.New with WriteFrameFn -> Server.encodeAndWrite), a fake
// protocol adapter, a fake transport connection that records what is written, a fake
// SendBatchHandler (latency = scheduling point, result = enumerated choice) and an observer
// that sees frame-in / admission results.

import (
	"context"
	"errors"
	"fmt"
	"os"
	"runtime"
	"strings"
	"testing"
	"time"

	"github.com/WuKongIM/WuKongIM/pkg/gateway/session"
	goruntimeregistry "github.com/WuKongIM/WuKongIM/pkg/goroutine"
	gatewaytypes "github.com/WuKongIM/WuKongIM/pkg/gateway/types"
	"github.com/WuKongIM/WuKongIM/pkg/protocol/frame"
	"github.com/WuKongIM/WuKongIM/pkg/zzverif/ev"
	"github.com/WuKongIM/WuKongIM/pkg/zzverif/vctx"
	"github.com/WuKongIM/WuKongIM/pkg/zzverif/vsched"
	"github.com/WuKongIM/WuKongIM/pkg/zzverif/vsync"
)

// ---------------------------------------------------------------- harness-side choice point

// c28Choice is an always-enabled operation with n alternatives: an enumerated environment
// answer inside the scheduler's DFS (alternative i costs i deviations under delay bounding).
type c28Choice struct {
	name string
	n    int
}

func (c c28Choice) Ready(*vsched.Sched) int { return c.n }
func (c c28Choice) String() string          { return c.name }

func c28Choose(name string, n int) int {
	if vsched.Active() == nil || vsched.Aborting() {
		return 0
	}
	return vsched.Block(c28Choice{name: name, n: n})
}

// ---------------------------------------------------------------- world

type c28Sess struct {
	id    uint64
	name  string
	state *sessionState

	script    []string       // ClientMsgNo in submission order
	offered   []string       // frames that reached the SEND dispatch step (OnFrameIn)
	admitted  []string       // admission "ok", in submission order
	refused   []string       // admission "full"
	beginSeq  map[string]int // harness clock at OnFrameIn
	afterDrn  map[string]bool
	seen      []string       // handler saw it (in handler order)
	seenCount map[string]int
	doneSeq   map[string]int // harness clock when the handler call that carried it returned
	ctxErrAt  map[string]string
	acks      []string // SENDACK ClientMsgNo written to the fake transport, in order
	ackTried  []string
	otherOut  int
	inFlight  bool
	closedAtEnd bool
}

type c28World struct {
	x        *vsched.Exec
	clock    int
	sess     map[uint64]*c28Sess
	byName   map[string]*c28Sess
	pending  map[int]*c28Sess // thread id -> session whose frame is being submitted
	batches  [][]string
	inHandlerMax, inHandler int

	drainCalled   bool
	drainReturned bool // admission is certainly closed from here on
	drainErr      error
	drainRetSeq   int // harness clock when the drainer's call returned nil (0 = did not)
	drainMode     string
	finalErr      error
	finalSeq      int
	lateDispatch  []string // handler entries after a nil drain return
	concurrent    []string
	indexBad      []string
	failures      int
	protoErr      []string
	accounted     bool
	handled       int // SENDs whose handler call has returned
	clientsDone   int
}

func (w *c28World) tick() int { w.clock++; return w.clock }

// ---------------------------------------------------------------- fakes

type c28Adapter struct{}

func (c28Adapter) Name() string { return "c28" }
func (c28Adapter) Decode(session.Session, []byte) ([]frame.Frame, int, error) {
	return nil, 0, nil
}
func (c28Adapter) Encode(_ session.Session, f frame.Frame, _ session.OutboundMeta) ([]byte, error) {
	if ack, ok := f.(*frame.SendackPacket); ok {
		return []byte("ack:" + ack.ClientMsgNo), nil
	}
	return []byte("other:" + f.GetFrameType().String()), nil
}
func (c28Adapter) OnOpen(session.Session) error  { return nil }
func (c28Adapter) OnClose(session.Session) error { return nil }

type c28Conn struct {
	w      *c28World
	s      *c28Sess
	closed bool
}

func (c *c28Conn) ID() uint64 { return c.s.id }
func (c *c28Conn) Write(b []byte) error {
	// the transport hand-off is a place where the writer can be preempted
	vsched.Point("transport-write")
	if c.closed {
		return errors.New("c28: write on closed connection")
	}
	p := string(b)
	if strings.HasPrefix(p, "ack:") {
		c.s.acks = append(c.s.acks, strings.TrimPrefix(p, "ack:"))
	} else {
		c.s.otherOut++
	}
	return nil
}
func (c *c28Conn) Close() error       { c.closed = true; return nil }
func (c *c28Conn) LocalAddr() string  { return "local" }
func (c *c28Conn) RemoteAddr() string { return "remote" }

// c28Observer implements gatewaytypes.Observer and AsyncSendAdmissionObserver. It is the
// harness's window on the inbound loop: OnFrameIn marks the start of one SEND submission,
// OnAsyncSendAdmission (same thread, right after submit returned) its result.
type c28Observer struct{ w *c28World }

func (o *c28Observer) OnConnectionOpen(gatewaytypes.ConnectionEvent)  {}
func (o *c28Observer) OnConnectionClose(gatewaytypes.ConnectionEvent) {}
func (o *c28Observer) OnAuth(gatewaytypes.AuthEvent)                  {}
func (o *c28Observer) OnFrameOut(gatewaytypes.FrameEvent)             {}
func (o *c28Observer) OnFrameHandled(gatewaytypes.FrameHandleEvent)   {}
func (o *c28Observer) OnFrameIn(e gatewaytypes.FrameEvent) {
	w := o.w
	s := w.byName[e.Listener]
	if s == nil {
		w.protoErr = append(w.protoErr, "frame-in for unknown listener "+e.Listener)
		return
	}
	k := len(s.offered)
	if k >= len(s.script) {
		w.protoErr = append(w.protoErr, "more frame-in events than frames for "+s.name)
		return
	}
	m := s.script[k]
	s.offered = append(s.offered, m)
	s.beginSeq[m] = w.tick()
	s.afterDrn[m] = w.drainReturned
	w.pending[vsched.ThreadID()] = s
}
func (o *c28Observer) OnAsyncSendAdmission(e gatewaytypes.AsyncSendAdmissionEvent) {
	w := o.w
	s := w.pending[vsched.ThreadID()]
	if s == nil {
		w.protoErr = append(w.protoErr, "admission event without a pending frame")
		return
	}
	delete(w.pending, vsched.ThreadID())
	m := s.offered[len(s.offered)-1]
	w.tick()
	if e.Result == "ok" {
		s.admitted = append(s.admitted, m)
	} else {
		s.refused = append(s.refused, m)
	}
}

// c28Handler is the gateway handler; it implements SendBatchHandler. Contract honoured by
// the fake (and checked on the real handler in part b): SENDACKs are written in item order.
type c28Handler struct{ w *c28World }

func (h *c28Handler) OnListenerError(string, error)            {}
func (h *c28Handler) OnSessionOpen(gatewaytypes.Context) error { return nil }
func (h *c28Handler) OnFrame(gatewaytypes.Context, frame.Frame) error {
	h.w.protoErr = append(h.w.protoErr, "OnFrame called although the handler is a SendBatchHandler")
	return nil
}
func (h *c28Handler) OnSessionClose(gatewaytypes.Context) error  { return nil }
func (h *c28Handler) OnSessionError(gatewaytypes.Context, error) {}

func (h *c28Handler) OnSendBatch(items []gatewaytypes.SendBatchItem) error {
	w := h.w
	var batch []string
	var touched []*c28Sess
	for i, it := range items {
		if it.Context.Session == nil || it.Frame == nil {
			w.protoErr = append(w.protoErr, "batch item without session/frame")
			continue
		}
		s := w.sess[it.Context.Session.ID()]
		if s == nil {
			w.protoErr = append(w.protoErr, "batch item of unknown session")
			continue
		}
		m := it.Frame.ClientMsgNo
		if it.Index != i {
			w.indexBad = append(w.indexBad, m)
		}
		batch = append(batch, m)
		s.seen = append(s.seen, m)
		s.seenCount[m]++
		if w.drainRetSeq != 0 {
			w.lateDispatch = append(w.lateDispatch, m)
		}
		if it.Context.RequestContext == nil {
			s.ctxErrAt[m] = "nil-context"
		} else if err := it.Context.RequestContext.Err(); err != nil && !s.state.isClosedForHarness() {
			s.ctxErrAt[m] = err.Error()
		}
		already := false
		for _, t := range touched {
			if t == s {
				already = true
			}
		}
		if !already {
			if s.inFlight {
				w.concurrent = append(w.concurrent, m)
			}
			s.inFlight = true
			touched = append(touched, s)
		}
	}
	w.batches = append(w.batches, batch)
	w.inHandler++
	if w.inHandler > w.inHandlerMax {
		w.inHandlerMax = w.inHandler
	}

	// latency: the handler can be overtaken here by submitters, the drainer, other workers
	vsched.Point("handler-latency")
	fail := c28Choose("handler-result", 2) == 1

	var err error
	if fail {
		w.failures++
		err = errors.New("c28: batch handler failed")
	} else {
		for _, it := range items {
			if it.Context.Session == nil || it.Frame == nil {
				continue
			}
			s := w.sess[it.Context.Session.ID()]
			if s == nil {
				continue
			}
			ctx := it.Context
			s.ackTried = append(s.ackTried, it.Frame.ClientMsgNo)
			_ = ctx.WriteFrame(&frame.SendackPacket{ClientSeq: it.Frame.ClientSeq, ClientMsgNo: it.Frame.ClientMsgNo, ReasonCode: frame.ReasonSuccess})
		}
	}
	w.inHandler--
	done := w.tick()
	for _, it := range items {
		if it.Context.Session == nil || it.Frame == nil {
			continue
		}
		if s := w.sess[it.Context.Session.ID()]; s != nil {
			s.doneSeq[it.Frame.ClientMsgNo] = done
			w.handled++
		}
	}
	for _, s := range touched {
		s.inFlight = false
	}
	return err
}

// isClosedForHarness reads the close flag without a scheduling point (harness-side only).
func (st *sessionState) isClosedForHarness() bool {
	select {
	case <-st.closedCh:
		return true
	default:
	}
	return st.closing
}

// ---------------------------------------------------------------- scenario

type c28Cfg struct {
	name      string
	workers   int
	capacity  int
	maxWait   time.Duration // <0: no batching wait, 0: repository default (1ms)
	maxRecs   int
	sends     []int  // SENDs per session
	drainMode string // "drain", "drain-expired", "drain-timeout", "stop"
	bound     int
	quiet     bool // QuietAtomics: atomic operations are not scheduling points
	paced     bool // clients send one frame per inbound chunk and wait for its fate before the next (else: one burst)
	gate      int  // the drainer starts only after this many SENDs completed their handler call (or all clients finished)
}

func c28Scenario(cfg c28Cfg) vsched.Scenario {
	return vsched.Scenario{
		Name: cfg.name, Property: "C28", Bound: cfg.bound, Horizon: 8000, Delay: true, QuietAtomics: cfg.quiet,
		Bounds: map[string]any{"send_workers": cfg.workers, "send_queue_capacity": cfg.capacity, "sessions": len(cfg.sends),
			"sends_per_session": cfg.sends, "batch_max_records": cfg.maxRecs, "batch_max_wait": cfg.maxWait.String(), "drain_mode": cfg.drainMode, "client": map[bool]string{false: "burst (all SENDs in one inbound chunk)", true: "paced (next SEND after the previous one was answered/refused)"}[cfg.paced], "drainer_starts_after_handled": cfg.gate,
			"handler_results": "ok|error (enumerated choice, error costs 1 deviation)"},
		Body:  func(x *vsched.Exec) { c28Body(x, cfg) },
		Check: c28Check,
	}
}

func c28Body(x *vsched.Exec, cfg c28Cfg) {
	w := &c28World{x: x, sess: map[uint64]*c28Sess{}, byName: map[string]*c28Sess{}, pending: map[int]*c28Sess{}, drainMode: cfg.drainMode}
	x.Data["w"] = w

	server := &Server{
		dispatcher: newDispatcher(&c28Handler{w: w}),
		sessions:   session.NewManager(),
		states:     make(map[connKey]*sessionState),
		options: gatewaytypes.Options{
			Observer: &c28Observer{w: w},
			DefaultSession: gatewaytypes.SessionOptions{
				AsyncSendBatchMaxWait:    cfg.maxWait,
				AsyncSendBatchMaxRecords: cfg.maxRecs,
			},
			Runtime: gatewaytypes.RuntimeOptions{
				// a registry per execution: the process-wide fallback registry would keep every
				// execution's mailbox alive through its pool registration
				Goroutines:              goruntimeregistry.New(),
				AsyncSendWorkers:        cfg.workers,
				AsyncSendQueueCapacity:  cfg.capacity,
				AsyncPoolReleaseTimeout: time.Second,
			},
		},
	}
	server.accepting.Store(true)
	executor, err := newSendExecutor(server, server.options.Runtime)
	if err != nil {
		panic(err)
	}
	server.async.Store(&asyncRuntime{server: server, send: executor})

	var order []*c28Sess
	for i, n := range cfg.sends {
		id := uint64(i + 1)
		s := &c28Sess{id: id, name: fmt.Sprintf("s%d", id), beginSeq: map[string]int{}, afterDrn: map[string]bool{}, seenCount: map[string]int{},
			doneSeq: map[string]int{}, ctxErrAt: map[string]string{}}
		for k := 0; k < n; k++ {
			s.script = append(s.script, fmt.Sprintf("s%d-m%d", id, k+1))
		}
		listener := &listenerRuntime{options: gatewaytypes.ListenerOptions{Name: s.name, Network: "tcp", Protocol: "c28"}, adapter: c28Adapter{}}
		state := &sessionState{server: server, listener: listener, conn: &c28Conn{w: w, s: s},
			key: connKey{listener: s.name, connID: id}, closedCh: make(chan struct{})}
		state.requestContext, state.cancelRequestContext = context.WithCancel(context.Background())
		state.setAuthenticated(true)
		state.session = session.New(session.Config{ID: id, Listener: s.name,
			WriteFrameFn: func(f frame.Frame, meta session.OutboundMeta) error { return server.encodeAndWrite(state, f, meta) }})
		server.registerState(state)
		s.state = state
		w.sess[id] = s
		w.byName[s.name] = s
		order = append(order, s)
	}

	var wg vsync.WaitGroup
	for _, s := range order {
		s := s
		wg.Add(1)
		vsched.GoNamed("inbound-"+s.name, func() {
			defer wg.Done()
			defer func() { w.clientsDone++ }()
			frames := make([]frame.Frame, 0, len(s.script))
			for k, m := range s.script {
				frames = append(frames, &frame.SendPacket{ClientSeq: uint64(k + 1), ClientMsgNo: m, ChannelID: "ch", ChannelType: 2, Payload: []byte("p")})
			}
			// Server.dispatchInboundFrames is the real inbound loop of one connection
			// (Server.onData calls it under the connection's inbound lock)
			if !cfg.paced {
				server.dispatchInboundFrames(s.state.listener, s.state, frames)
				return
			}
			for k, m := range s.script {
				server.dispatchInboundFrames(s.state.listener, s.state, frames[k:k+1])
				if len(s.offered) <= k {
					return // the session was closed before this frame was looked at
				}
				m := m
				vsched.WaitUntil("client-waits-for-answer", func() bool {
					if s.doneSeq[m] != 0 {
						return true
					}
					for _, r := range s.refused {
						if r == m {
							return true
						}
					}
					return false
				})
			}
		})
	}
	wg.Add(1)
	vsched.GoNamed("drainer", func() {
		defer wg.Done()
		if cfg.gate > 0 {
			vsched.WaitUntil("drainer-gate", func() bool { return w.handled >= cfg.gate || w.clientsDone == len(order) })
		}
		w.drainCalled = true
		switch cfg.drainMode {
		case "drain":
			w.drainErr = server.DrainSends(context.Background())
		case "drain-expired":
			ctx, cancel := context.WithCancel(context.Background())
			cancel()
			w.drainErr = server.DrainSends(ctx)
		case "drain-timeout":
			ctx, cancel := vctx.WithTimeout(context.Background(), time.Millisecond)
			w.drainErr = server.DrainSends(ctx)
			cancel()
		case "stop":
			// Server.Stop closes every registered session (iterating a map: the order would
			// not be deterministic) and then stops the async runtime; the harness performs
			// the closes itself in a fixed order, Stop then finds no state left to close.
			for _, s := range order {
				s.state.close(gatewaytypes.CloseReasonServerStop, nil)
			}
			w.drainErr = server.Stop()
		}
		w.drainReturned = true
		if w.drainErr == nil && cfg.drainMode != "stop" {
			w.drainRetSeq = w.tick()
		}
	})
	wg.Wait()

	// every SEND admitted before the fence must still complete: resume the same drain
	w.finalErr = executor.drain(context.Background())
	w.finalSeq = w.tick()

	for _, s := range order {
		s.closedAtEnd = s.state.isClosedForHarness()
		x.Log("%s offered=%v admitted=%v refused=%v seen=%v acks=%v closed=%v", s.name, s.offered, s.admitted, s.refused, s.seen, s.acks, s.closedAtEnd)
	}
	x.Log("batches=%v drain=%v final=%v failures=%d", w.batches, w.drainErr, w.finalErr, w.failures)
}

func c28Eq(a, b []string) bool {
	if len(a) != len(b) {
		return false
	}
	for i := range a {
		if a[i] != b[i] {
			return false
		}
	}
	return true
}

func c28IsPrefix(p, full []string) bool {
	return len(p) <= len(full) && c28Eq(p, full[:len(p)])
}

// c28Stats accumulates vacuity evidence over all executions (single process, one
// execution at a time).
var c28Stats = map[string]int64{}

func c28Account(w *c28World) {
	st := c28Stats
	st["executions"]++
	admitted, refused, acked := 0, 0, 0
	for _, s := range w.sess {
		admitted += len(s.admitted)
		refused += len(s.refused)
		acked += len(s.acks)
		if len(s.acks) < len(s.admitted) {
			st["exec_with_sendack_lost_to_session_close"]++
		}
		for _, m := range s.refused {
			if s.afterDrn[m] {
				st["sends_refused_after_drain_returned"]++
			}
		}
	}
	st["sends_admitted"] += int64(admitted)
	st["sends_refused"] += int64(refused)
	st["sendacks_on_transport"] += int64(acked)
	if refused > 0 {
		st["exec_with_refusal"]++
	}
	if w.failures > 0 {
		st["exec_with_handler_failure"]++
	}
	multi, mixed := false, false
	for _, b := range w.batches {
		if len(b) > 1 {
			multi = true
			for _, m := range b[1:] {
				if m[:2] != b[0][:2] {
					mixed = true
				}
			}
		}
	}
	if multi {
		st["exec_with_multi_item_batch"]++
	}
	if mixed {
		st["exec_with_two_sessions_in_one_batch"]++
	}
	if w.inHandlerMax > 1 {
		st["exec_with_concurrent_handler_calls"]++
	}
	if w.drainErr != nil {
		st["exec_drain_returned_error"]++
		if admitted > 0 {
			st["exec_drain_error_with_admitted_work"]++
		}
	} else if w.drainRetSeq != 0 && admitted > 0 {
		st["exec_drain_nil_with_admitted_work"]++
	}
}

func c28Check(x *vsched.Exec) error {
	w, _ := x.Data["w"].(*c28World)
	if w == nil {
		return nil
	}
	if !w.accounted {
		w.accounted = true
		c28Account(w)
	}
	if len(w.protoErr) > 0 {
		return vsched.Violatef("C28:harness-protocol", "harness protocol broken: %v", w.protoErr)
	}
	if w.finalErr != nil {
		return vsched.Violatef("C28:final-drain-failed", "drain with a background context returned %v", w.finalErr)
	}
	if len(w.indexBad) > 0 {
		return vsched.Violatef("C28:batch-item-index-mismatch", "SendBatchItem.Index differs from the item position for %v", w.indexBad)
	}
	if len(w.concurrent) > 0 {
		return vsched.Violatef("C28:session-dispatched-concurrently", "two handler calls carrying the same session overlapped (second one started with %v)", w.concurrent)
	}
	for _, id := range vsched.SortedKeys(w.sess) {
		s := w.sess[id]
		if !c28IsPrefix(s.offered, s.script) {
			return vsched.Violatef("C28:harness-protocol", "%s offered %v is not a prefix of its script", s.name, s.offered)
		}
		if len(s.admitted)+len(s.refused) != len(s.offered) {
			return vsched.Violatef("C28:harness-protocol", "%s: %d offered but %d admission results", s.name, len(s.offered), len(s.admitted)+len(s.refused))
		}
		for _, m := range s.refused {
			if s.seenCount[m] != 0 {
				return vsched.Violatef("C28:refused-send-dispatched", "%s: SEND %s was refused at admission but reached the handler", s.name, m)
			}
		}
		for _, m := range s.admitted {
			switch n := s.seenCount[m]; {
			case n == 0:
				return vsched.Violatef("C28:admitted-send-never-dispatched", "%s: SEND %s was admitted but never reached the handler (seen=%v, drain mode %s, drain=%v)", s.name, m, s.seen, w.drainMode, w.drainErr)
			case n > 1:
				return vsched.Violatef("C28:admitted-send-dispatched-twice", "%s: SEND %s reached the handler %d times", s.name, m, n)
			}
		}
		if !c28Eq(s.seen, s.admitted) {
			return vsched.Violatef("C28:session-dispatch-order", "%s: handler saw %v, admitted in order %v", s.name, s.seen, s.admitted)
		}
		// after the drainer's call returned, admission is closed for good
		for _, m := range s.admitted {
			if s.afterDrn[m] {
				return vsched.Violatef("C28:send-admitted-after-drain", "%s: SEND %s was submitted after %s returned and was admitted", s.name, m, w.drainMode)
			}
		}
		// a nil drain means every admitted SEND has completed dispatch
		if w.drainRetSeq != 0 {
			for _, m := range s.admitted {
				if d := s.doneSeq[m]; d == 0 || d > w.drainRetSeq {
					return vsched.Violatef("C28:drain-returned-before-admitted-send-completed", "%s: DrainSends returned nil at %d but SEND %s completed at %d", s.name, w.drainRetSeq, m, d)
				}
			}
		}
		for _, m := range s.admitted {
			if d := s.doneSeq[m]; d == 0 || d > w.finalSeq {
				return vsched.Violatef("C28:drain-returned-before-admitted-send-completed", "%s: final drain returned nil but SEND %s had not completed", s.name, m)
			}
		}
		// no drain flavour cancels accepted work: the request context of an item is only
		// ever cancelled by its own session closing
		for _, m := range s.admitted {
			if e := s.ctxErrAt[m]; e != "" {
				return vsched.Violatef("C28:accepted-send-cancelled", "%s: SEND %s reached the handler with request context %q while its session was open", s.name, m, e)
			}
		}
		// SENDACKs on the wire: the fake handler acks in item order, so per session the
		// transport must have received a prefix of the admitted SENDs (all of them unless
		// the session closed first)
		if !c28IsPrefix(s.acks, s.admitted) {
			return vsched.Violatef("C28:sendack-order-on-transport", "%s: transport received SENDACKs %v for admitted SENDs %v", s.name, s.acks, s.admitted)
		}
		if !s.closedAtEnd && w.failures == 0 && !c28Eq(s.acks, s.admitted) {
			return vsched.Violatef("C28:sendack-missing-on-open-session", "%s: session still open, admitted %v but SENDACKs %v", s.name, s.admitted, s.acks)
		}
	}
	if len(w.lateDispatch) > 0 {
		return vsched.Violatef("C28:send-dispatched-after-drain-completed", "handler received %v after DrainSends had returned nil", w.lateDispatch)
	}
	return nil
}

// ---------------------------------------------------------------- test

func TestVerifC28Pipeline(t *testing.T) {
	r := ev.Start(t, "C28")
	defer r.Finish()
	var cfgs []c28Cfg
	// topologies: w1 = one worker, ONE ordering shard of capacity 2 shared by both sessions,
	// repository default batching wait (1ms timer); w2 = two workers, two ordering shards of
	// capacity 1 (one per session), no batching wait. Batches hold at most 2 SENDs.
	add := func(topo string, paced bool, mode string, gate int, sends []int, bound int, quiet bool) {
		c := c28Cfg{workers: 1, capacity: 2, maxWait: 0, maxRecs: 2, sends: sends, drainMode: mode, bound: bound, quiet: quiet, paced: paced, gate: gate}
		if topo == "w2" {
			c.workers, c.maxWait = 2, -1
		}
		client := "burst"
		if paced {
			client = "paced"
		}
		total := 0
		for _, n := range sends {
			total += n
		}
		c.name = fmt.Sprintf("%s-cap2-%s%d-%s-after%d-b%d", topo, client, total, mode, gate, bound)
		if !quiet {
			c.name += "-atomics"
		}
		cfgs = append(cfgs, c)
	}
	if r.Thorough() {
		for _, topo := range []string{"w1", "w2"} {
			for _, paced := range []bool{false, true} {
				for _, mode := range []string{"drain", "drain-expired", "drain-timeout", "stop"} {
					add(topo, paced, mode, 0, []int{2, 2}, 3, true)
					add(topo, paced, mode, 0, []int{2, 2}, 2, false)
					if paced {
						add(topo, paced, mode, 2, []int{2, 2}, 2, true)
					}
				}
			}
			add(topo, false, "drain", 0, []int{3, 2}, 2, true)
			add(topo, true, "drain", 3, []int{3, 2}, 2, true)
		}
	} else {
		add("w1", false, "drain", 0, []int{2, 2}, 2, true)
		add("w1", false, "drain-expired", 0, []int{2, 2}, 2, true)
		add("w1", true, "drain", 0, []int{2, 2}, 2, true)
		add("w1", true, "stop", 2, []int{2, 2}, 2, true)
		add("w2", false, "drain", 0, []int{2, 2}, 2, true)
		add("w2", true, "drain-expired", 1, []int{2, 2}, 2, true)
	}
	if os.Getenv("VERIF_C28_DEBUG") != "" {
		sc := c28Scenario(cfgs[0])
		for _, c := range cfgs {
			if c.name == os.Getenv("VERIF_C28_DEBUG") {
				sc = c28Scenario(c)
			}
		}
		x := &vsched.Exec{Data: map[string]any{}}
		x.Out = vsched.Run(vsched.Options{Horizon: sc.Horizon, Trace: true, Delay: true, QuietAtomics: sc.QuietAtomics}, func() { sc.Body(x) })
		fmt.Println("steps", x.Out.Steps, "points", len(x.Out.Points), "deadlock", x.Out.Deadlock)
		for _, l := range x.Out.BlockedAt {
			fmt.Println(l)
		}
		for _, l := range x.Obs {
			fmt.Println(l)
		}
		return
	}
	var execs int64
	outcomes := 0
	for _, c := range cfgs {
		st := vsched.Explore(r, c28Scenario(c))
		execs += st.Executions
		if st.Outcomes > outcomes {
			outcomes = st.Outcomes
		}
	}
	if r.Replay() != nil {
		return
	}
	if os.Getenv("VERIF_C28_GOROUTINES") != "" {
		var ms runtime.MemStats
		runtime.ReadMemStats(&ms)
		fmt.Println("goroutines at end:", runtime.NumGoroutine(), "heap MB", ms.HeapAlloc>>20, "stack MB", ms.StackInuse>>20, "mallocs", ms.Mallocs, "totalalloc MB", ms.TotalAlloc>>20)
	}
	for _, k := range vsched.SortedKeys(c28Stats) {
		r.Count(k, c28Stats[k])
	}
	r.Assume("the ants worker pool is the vants model (bounded workers, non-blocking submit, worker-not-yet-idle window); data races are invisible to a cooperative scheduler")
	r.Assume("the fake batch handler honours the SendBatchHandler contract checked in part (b): it writes SENDACKs in item order, or fails the whole batch before writing any")
	r.Guard("executions", execs >= 1000, "executions=%d", execs)
	r.Guard("outcomes", outcomes >= 10, "max distinct outcomes in one scenario=%d", outcomes)
	for _, k := range []string{"exec_with_refusal", "exec_with_handler_failure", "exec_with_multi_item_batch", "exec_with_two_sessions_in_one_batch",
		"exec_with_concurrent_handler_calls", "exec_drain_error_with_admitted_work", "exec_drain_nil_with_admitted_work",
		"sends_refused_after_drain_returned", "exec_with_sendack_lost_to_session_close"} {
		r.Guard(k, c28Stats[k] >= 1, "%s=%d", k, c28Stats[k])
	}
}
