package replication

import (
	"os"
	"strconv"

	"github.com/WuKongIM/WuKongIM/pkg/zzverif/ev"
	"github.com/WuKongIM/WuKongIM/pkg/zzverif/mc"
)

func vwBounds(o vwOpts) map[string]any {
	return map[string]any{
		"voters": vwN, "write_quorum": vwQ, "commands": o.cmds, "authority_allocations_after_initial": o.maxInstalls,
		"store_backend":  map[bool]string{false: "channelstore.MemoryFactory", true: "channelstore.MessageDBFactory (pkg/db/message, Pebble on tmpfs)"}[o.backend != nil],
		"crash_restarts": o.maxCrashes, "outages": o.maxOutages, "max_retained_commands": o.retained,
		"events": map[string]bool{
			"commit/exact-retry": true, "conflicting-retry": o.evConflict, "commit-with-previous-authority": o.evPrev,
			"install-next-term": true, "install-same": o.evSame, "install-older": o.evOlder, "install-fence/unfence": o.evFence,
			"install-next-epoch": o.evEpoch, "deliver-trailing": o.evTrailing, "follower-gap-repair": o.evRepair,
			"crash-restart": o.maxCrashes > 0, "down/up": o.maxOutages > 0,
		},
		"env_questions": map[string]bool{
			"probe{ok,drop}": true, "fetch{ok,drop}": true, "replicate{ok,reply-lost,drop}": true,
			"hedge{never,first}": o.evHedge, "local-completion{ok,lost}": o.evLocalLost,
			"local-completion-order{first,after-follower}": o.evOrder, "crash-at-replace{no,before,after}": o.evCrashReplace,
		},
	}
}

func vwAssumptions(r *ev.R) {
	r.Assume("outage budget: at most N-Q = 1 replica is unreachable at any time (Down/Up events); a dropped request models a transient outage and costs one deviation")
	r.Assume("control plane: authorities are allocated by one monotonic source; after a process restart a node is only asked to install the newest authority issued to it or a newer one (the quorumLog keeps no durable authority memory)")
	r.Assume("dispatcher seams (harness code): completions are delivered inline in submission order (optionally local after the first follower); the ReplicateStatus -> durabilityCompletion mapping re-states batchingDurabilityDispatcher.submitReplicaWithMode; follower-repair bookkeeping re-states runtimeRepairOwner")
	r.Assume("a trailing (deferred) follower write that is never delivered within the depth bound models a dropped one; trailing writes of a crashed sender are lost")
}

func vwCounters(r *ev.R, st *vwStats) {
	c := map[string]int64{
		"acks": st.acks.Load(), "exact_retry_identical": st.retryIdentical.Load(), "conflicting_retry_rejected": st.conflictRejected.Load(),
		"conflicting_content_accepted_as_new_unacked": st.conflictAcceptedAsNew.Load(),
		"install_ok_recovering":                       st.installOK.Load(), "install_cached": st.installCached.Load(), "install_failed_closed": st.installFailedClosed.Load(),
		"install_with_barrier": st.installBarrier.Load(), "kf_c01_1_transitions": st.kfHits.Load(), "kf_c01_1_sibling_transitions": st.kfSiblingHits.Load(),
		"paths_ended_silently_at_kf_c01_1": st.kfSilentEnds.Load(), "stale_commit_rejected": st.staleCommitRejected.Load(),
		"not_ready_commit_rejected": st.notReadyCommitRejected.Load(), "fenced_commit_rejected": st.fencedCommitRejected.Load(),
		"older_install_refused": st.olderInstallRefused.Load(), "fenced_install_refused": st.fenceInstallRefused.Load(),
		"retry_reconciled_without_cache": st.reconcileAfterEviction.Load(), "retry_pending_then_acked": st.retryPendingAcked.Load(),
		"need_from_answers": st.needFrom.Load(), "follower_repairs_done": st.repairsDone.Load(), "trailing_delivered": st.trailingDelivered.Load(),
		"replace_calls": st.replaceCalls.Load(), "crash_at_replace": st.crashAtReplace.Load(),
		"observation_ack_by_leader_older_than_installed_elsewhere": st.crossNodeDeposedAck.Load(),
		"retry_refused_under_higher_authority":                     st.retryRefusedHigherAuthority.Load(),
		"committed_pairs_compared":                                 st.committedPairsCompared.Load(), "entry_digests_verified": st.chainEntriesVerified.Load(),
		"observation_rejected_conflicting_retry_left_uncommitted_row_on_non_holder": st.conflictGarbageRow.Load(),
		"server_allocated_proposal_at_follower_frontier":                            st.saAtFrontier.Load(),
		"server_allocated_proposal_at_frontier_of_divergent_equal_length_tail":      st.saAtFrontierDivergentTail.Load(),
		"commit_backpressured": st.commitBackpressured.Load(), "commit_quorum_unavailable": st.commitUnavailable.Load(),
	}
	for k, v := range c {
		r.Count(k+"_executions_incl_replays", v)
	}
}

// vwDebugBounds lets a developer shrink / grow the bounds for experiments
// (VERIF_DEBUG_DEPTH, VERIF_DEBUG_DEVS); the check driver never sets them.
func vwDebugBounds(depth, devs int) (int, int) {
	if v, err := strconv.Atoi(os.Getenv("VERIF_DEBUG_DEPTH")); err == nil && v > 0 {
		depth = v
	}
	if v, err := strconv.Atoi(os.Getenv("VERIF_DEBUG_DEVS")); err == nil && v >= 0 {
		devs = v
	}
	return depth, devs
}

// vwRun explores one (depth, deviations) box of the world.
func vwRun(r *ev.R, name string, o vwOpts, st *vwStats, depth, devs int, note string) mc.Result {
	return vwRunWorkers(r, name, o, st, depth, devs, 0, note)
}

func vwRunWorkers(r *ev.R, name string, o vwOpts, st *vwStats, depth, devs, workers int, note string) mc.Result {
	depth, devs = vwDebugBounds(depth, devs)
	o.noPrune = os.Getenv("VERIF_DEBUG_NOPRUNE") == "1"
	if os.Getenv("VERIF_DEBUG_MINIMAL") == "1" { // experiments: commits + next-term installs + replicate/probe faults only
		o.maxCrashes, o.maxOutages, o.evSame, o.evTrailing, o.evRepair, o.evCrashReplace, o.evHedge, o.evLocalLost, o.evOrder = 0, 0, false, false, false, false, false, false, false
	}
	return mc.Run(r, mc.System{
		Name: name, New: func() mc.Instance { return newVW(o, st) },
		MaxDepth: depth, MaxDeviations: devs, Workers: workers, Bounds: vwBounds(o), Note: note,
	})
}
