package replication

// Shared "replication world" harness for the properties C01..C04 (channel quorum
// replication protocol, pkg/channel/replication).
//
// A world has N=3 nodes and write quorum Q=2 for ONE channel. Every node owns
//   - the REAL storeAdapter over a private channelstore.MemoryFactory (its durable log),
//   - the REAL ExchangeServer for inbound peer work (replicate / probe / fetch),
//   - a REAL quorumLog built with newQuorumLog.
// The harness implements only the dispatcher seams of quorumLogConfig (recovery probe /
// fetch, local + follower durability incl. the hedged and deferred variants, and the
// follower-repair authority owner). A call to a peer is ExchangeServer.Handle on that
// peer, preceded by an environment question (mc.Env.Choose): deliver+reply / deliver but
// lose the reply / drop. Deferred (trailing) follower writes are parked in a harness queue
// and delivered by separate top-level events. No real timer, goroutine or map order decides
// anything: completions are invoked inline, the hedge delay is an environment answer
// (0 = fire at once, 1h = never) and the recovery timeout is one hour.
//
// The dispatchers are modelled on the package's own test double (replicaHarness in
// quorum_log_test.go); the translation of a follower's ReplicateStatus into a
// durabilityCompletion re-states batchingDurabilityDispatcher.submitReplicaWithMode
// (trusted base, see harness.json).

import (
	"context"
	"errors"
	"fmt"
	"sort"
	"strconv"
	"strings"
	"sync/atomic"
	"time"

	ch "github.com/WuKongIM/WuKongIM/pkg/channel"
	channelstore "github.com/WuKongIM/WuKongIM/pkg/channel/store"
	"github.com/WuKongIM/WuKongIM/pkg/quorumlog"
	"github.com/WuKongIM/WuKongIM/pkg/zzverif/mc"
)

const (
	vwN         = 3
	vwQ         = 2
	vwPageBytes = 240 // one proposal per recovery page for the record sizes used below
)

var (
	vwBaseKey = ch.ChannelKey("1:w")
	vwBaseID  = ch.ChannelID{ID: "w", Type: 1}

	errVwUnreachable = errors.New("verif: peer unreachable")
	errVwDropped     = errors.New("verif: request dropped")
	errVwReplyLost   = errors.New("verif: reply lost")
	errVwLocalLost   = errors.New("verif: local durability completion lost")
	errVwCrashed     = errors.New("verif: node crashed")
)

// vwOpts selects the alphabet and the oracle subset of one check entry.
type vwOpts struct {
	prop        string
	cmds        int // command name menu c1..cN (c2 carries two records)
	maxInstalls int // authority allocations (next / fence / unfence / epoch) after the initial one
	maxCrashes  int
	maxOutages  int
	retained    int // MaxRetainedCommands of every quorumLog

	evConflict     bool // commitx: same command id, different payload
	evPrev         bool // commitp: Commit with the previously installed (older) authority as Expected
	evSame         bool // install:n:same
	evOlder        bool // install:n:older-*
	evFence        bool // install:L:fence / unfence
	evEpoch        bool // install:n:epoch
	epochAnyNode   bool // next-epoch installs at every node (otherwise at the current control-plane leader only)
	evTrailing     bool // deliver:<trailing write>
	evRepair       bool // repair:L>F follower gap repair
	evCrashReplace bool // crash before / after a local recovery page (Replace) is an env answer
	evHedge        bool // hedge timer fires first is an env answer
	evLocalLost    bool // local durability completion lost is an env answer
	evOrder        bool // local completion delivered after the first follower's is an env answer

	oC01, oC02, oC03, oC04 bool
	// reportKF: the KF-C01-1 predicate is reported (and the path cut with PruneAfter);
	// otherwise the path silently ends there (counted), so that the consequences of the
	// known C01 defect are not reported again under another property.
	reportKF bool
	// backend, when set, supplies the three nodes' channel-store factories and a fresh
	// channel identity per instance (MessageDB-backed worlds); nil = one private
	// channelstore.MemoryFactory per node and the fixed channel "1:w".
	backend func() *vwBackendLease
	// prefix is applied (default environment answers) on top of the initial install; the
	// state it reaches is the initial state of the exploration.
	prefix []string
	// noPrune (experiments only, VERIF_DEBUG_NOPRUNE=1): keep exploring past a KF-C01-1
	// transition to see which other oracle its consequences reach.
	noPrune bool
}

// vwStats are counters shared by all instances of one exploration (vacuity guards and
// evidence). They count executions including replayed prefixes.
type vwStats struct {
	acks, retryIdentical, conflictRejected, conflictAcceptedAsNew     atomic.Int64
	installOK, installCached, installFailedClosed, installBarrier     atomic.Int64
	kfHits, kfSiblingHits, kfSilentEnds                               atomic.Int64
	staleCommitRejected, notReadyCommitRejected, fencedCommitRejected atomic.Int64
	olderInstallRefused, fenceInstallRefused                          atomic.Int64
	reconcileAfterEviction, retryAfterRestart, retryPendingAcked      atomic.Int64
	needFrom, repairsDone, trailingDelivered, replaceCalls            atomic.Int64
	crashAtReplace, crossNodeDeposedAck, retryRefusedHigherAuthority  atomic.Int64
	committedPairsCompared, chainEntriesVerified                      atomic.Int64
	commitBackpressured, commitUnavailable, conflictGarbageRow        atomic.Int64
	saAtFrontier, saAtFrontierDivergentTail                           atomic.Int64
}

// vwBackendLease is an exclusive lease of three durable stores for one instance.
type vwBackendLease struct {
	factories [vwN]channelstore.Factory
	key       ch.ChannelKey
	id        ch.ChannelID
	release   func()
}

type vwLog struct {
	leo, committed uint64
	ids            []ch.EntryIdentity // ids[i] is the identity at offset i+1
	err            error
}

func (l vwLog) at(seq uint64) (ch.EntryIdentity, bool) {
	if seq == 0 || seq > uint64(len(l.ids)) {
		return ch.EntryIdentity{}, false
	}
	return l.ids[seq-1], true
}

type vwAck struct {
	cmd     int
	variant byte
	receipt Receipt
	ids     []ch.EntryIdentity
	by      ch.NodeID
}

type vwTrailing struct {
	from, to ch.NodeID
	proposal durableProposal
}

type vwControlPlane struct {
	epoch, term, fence uint64
	leader             ch.NodeID
	fenced             bool
}

type vwNode struct {
	id      ch.NodeID
	factory channelstore.Factory
	store   ReplicaStore
	server  *ExchangeServer
	log     *quorumLog
	disp    *vwDisp
	down    bool

	// reference model / oracle bookkeeping for the current quorumLog object
	issued     *Authority    // last authority the control plane issued with Leader == id
	hist       []AuthorityID // authorities accepted by this quorumLog object, oldest first
	fenced     bool          // the newest accepted authority carries a write fence
	writable   bool          // last Install of the newest accepted authority returned success
	mustHold   []int         // indexes into vw.acks this node is obliged to hold while writable
	repairAuth *Authority    // follower-repair authority (InstallAuthority seam)
	repairs    map[ch.NodeID]followerRepair
	crashing   bool
}

// per-event observations made at the dispatcher seam
type vwEventObs struct {
	storeWrites int // local Sync + follower Replicate attempts handed to a store
	replaces    int
	probeOK     map[ch.NodeID]int // successful probe answers per voter in this event
	probeRounds int               // probe rounds of this event (= probes addressed to the local voter)
	probes      int
	heldLocal   func() // local completion parked until the next dispatcher call (evOrder)
	deviated    bool   // a non-default environment answer was given in this event
}

type vw struct {
	o     vwOpts
	st    *vwStats
	key   ch.ChannelKey
	id    ch.ChannelID
	lease *vwBackendLease
	// pointFn, when set (controlled-scheduler runs), is called at the places where the
	// production dispatchers hand work to another goroutine / the network, so that the
	// scheduler can switch threads there.
	pointFn func(string)
	nodes   []*vwNode
	env     *mc.Env
	cp      vwControlPlane

	trailing []vwTrailing
	acks     []vwAck
	ackOf    map[int]int  // command -> index into acks
	proposed map[int]byte // command -> bitmask of variants ever proposed (1='a', 2='x')

	installsUsed, crashesUsed, outagesUsed int
	dead                                   bool // path ended silently at the known C01 defect
	tainted                                bool // noPrune: a KF-C01-1 transition lies on this path
	obs                                    vwEventObs
	snap                                   []vwLog // store snapshot after the last event
	snapOK                                 bool
}

func newVW(o vwOpts, st *vwStats) *vw {
	w := &vw{o: o, st: st, key: vwBaseKey, id: vwBaseID, ackOf: map[int]int{}, proposed: map[int]byte{}}
	if o.backend != nil {
		w.lease = o.backend()
		w.key, w.id = w.lease.key, w.lease.id
	}
	for i := 1; i <= vwN; i++ {
		n := &vwNode{id: ch.NodeID(i), repairs: map[ch.NodeID]followerRepair{}}
		if w.lease != nil {
			n.factory = w.lease.factories[i-1]
		} else {
			n.factory = channelstore.NewMemoryFactory()
		}
		store, err := NewStoreAdapter(StoreAdapterConfig{Factory: n.factory, MaxBatchItems: 4, MaxBatchBytes: 1 << 20})
		if err != nil {
			panic(err)
		}
		n.store = store
		server, err := NewExchangeServer(ExchangeServerConfig{LocalNode: n.id, Store: store, MaxBatchItems: 4, MaxBatchBytes: 1 << 20})
		if err != nil {
			panic(err)
		}
		n.server = server
		n.disp = &vwDisp{w: w, n: n}
		w.nodes = append(w.nodes, n)
	}
	for _, n := range w.nodes {
		w.freshLog(n)
	}
	// Initial state: node 1 installed under the first authority (1,1,1) on the empty
	// world (all environment answers default).
	w.cp = vwControlPlane{epoch: 1, term: 1, fence: 1, leader: 1}
	w.resetObs()
	a := w.authorityFor(1, false)
	w.nodes[0].issued = &a
	if _, err := w.install(w.nodes[0], a); err != nil {
		panic(fmt.Sprintf("verif: initial install failed: %v", err))
	}
	w.snapOK = false
	for _, e := range o.prefix {
		ok := false
		for _, en := range w.Events() {
			ok = ok || en == e
		}
		if !ok {
			panic("verif: prefix event not enabled: " + e)
		}
		if _, err := w.Apply(e, nil); err != nil {
			panic(fmt.Sprintf("verif: prefix event %s violates: %v", e, err))
		}
	}
	return w
}

func (w *vw) node(id ch.NodeID) *vwNode { return w.nodes[int(id)-1] }

// Close returns leased stores (mc.Closer).
func (w *vw) Close() {
	if w.lease != nil && w.lease.release != nil {
		w.lease.release()
		w.lease = nil
	}
}

func (w *vw) freshLog(n *vwNode) {
	log, err := newQuorumLog(quorumLogConfig{
		Local: n.id, Store: &vwStore{w: w, n: n}, Recovery: n.disp, Durability: n.disp, RepairAuthorities: n.disp,
		RecoveryTimeout: time.Hour, RecoveryPageBytes: vwPageBytes,
		MaxChannels: 4, MaxVoters: vwN, MaxProposalRecords: 4, MaxProposalBytes: 4096, MaxRetainedCommands: w.o.retained,
	})
	if err != nil {
		panic(err)
	}
	n.log = log
	n.hist = nil
	n.fenced = false
	n.writable = false
	n.mustHold = nil
	n.repairAuth = nil
	n.repairs = map[ch.NodeID]followerRepair{}
	n.crashing = false
}

func (w *vw) resetObs() {
	w.obs = vwEventObs{probeOK: map[ch.NodeID]int{}}
}

func (w *vw) choose(label string, n int) int {
	if w.env == nil {
		return 0
	}
	c := w.env.Choose(label, n)
	if c != 0 {
		w.obs.deviated = true
	}
	return c
}

func (w *vw) authorityFor(leader ch.NodeID, fenced bool) Authority {
	a := Authority{
		Key: w.key, ChannelID: w.id,
		ID:     AuthorityID{ChannelEpoch: w.cp.epoch, LeaderTerm: w.cp.term, FenceVersion: w.cp.fence},
		Leader: leader, Voters: []ch.NodeID{1, 2, 3}, WriteQuorum: vwQ,
	}
	if fenced {
		a.WriteFence = ch.WriteFence{Token: "transfer", Version: w.cp.fence, Reason: ch.WriteFenceReasonLeaderTransfer}
	}
	return a
}

// ------------------------------------------------------------------ store seam

// vwStore is the ReplicaStore handed to the quorumLog: the node's real adapter, plus the
// "crash before / after this recovery page" environment question on Replace.
type vwStore struct {
	w *vw
	n *vwNode
}

func (s *vwStore) Load(ctx context.Context, b LoadBatch) (LoadBatchResult, error) {
	return s.n.store.Load(ctx, b)
}
func (s *vwStore) Sync(ctx context.Context, m []Mutation) []MutationResult {
	return s.n.store.Sync(ctx, m)
}
func (s *vwStore) Fetch(ctx context.Context, r []FetchRange) []FetchRangeResult {
	return s.n.store.Fetch(ctx, r)
}
func (s *vwStore) LookupCommands(ctx context.Context, l []CommandLookup) []CommandLookupResult {
	return s.n.store.(commandStore).LookupCommands(ctx, l)
}
func (s *vwStore) Replace(ctx context.Context, r []RecoveryReplacement) []RecoveryReplacementResult {
	s.w.obs.replaces++
	s.w.st.replaceCalls.Add(1)
	fail := func() []RecoveryReplacementResult {
		out := make([]RecoveryReplacementResult, len(r))
		for i := range out {
			out[i] = RecoveryReplacementResult{Outcome: ch.AppendOutcomeUnknown, Err: errVwCrashed}
		}
		return out
	}
	if s.n.crashing {
		return fail()
	}
	c := 0
	if s.w.o.evCrashReplace && s.w.crashesUsed < s.w.o.maxCrashes {
		c = s.w.choose("crash-at-replace", 3)
	}
	switch c {
	case 1: // the process dies before the page is applied
		s.n.crashing = true
		return fail()
	case 2: // the page is applied, then the process dies
		_ = s.n.store.Replace(ctx, r)
		s.n.crashing = true
		return fail()
	}
	return s.n.store.Replace(ctx, r)
}

// ------------------------------------------------------------------ dispatcher seams

type vwDisp struct {
	w *vw
	n *vwNode
}

func (d *vwDisp) release() {
	if f := d.w.obs.heldLocal; f != nil {
		d.w.obs.heldLocal = nil
		f()
	}
}

func (d *vwDisp) point(desc string) {
	if d.w.pointFn != nil {
		d.w.pointFn(desc)
	}
}

func (d *vwDisp) reachable(to ch.NodeID) bool {
	return !d.n.down && !d.w.node(to).down && !d.n.crashing
}

func (d *vwDisp) submitRecoveryProbe(_ context.Context, query recoveryProbeQuery, complete func(ProbeResult, error)) error {
	d.w.obs.probes++
	d.point("probe")
	request := ProbeRequest{ChannelKey: query.ChannelKey, ChannelID: query.ChannelID, Leader: query.Leader, Follower: query.Voter,
		Indexes: append([]uint64(nil), query.Indexes...)}
	if query.Voter == d.n.id {
		d.w.obs.probeRounds++
		if d.n.crashing {
			complete(ProbeResult{}, errVwCrashed)
			return nil
		}
		loaded, err := d.n.store.Load(context.Background(), LoadBatch{Items: []LoadRequest{{
			ChannelKey: query.ChannelKey, ChannelID: query.ChannelID, ProbeIndexes: request.Indexes}}})
		if err != nil || len(loaded.Items) != 1 {
			if err == nil {
				err = errInvalidExchangeResult
			}
			complete(ProbeResult{}, err)
			return nil
		}
		result, ok := mapProbeResult(request, loaded.Items[0])
		if !ok {
			complete(ProbeResult{}, errInvalidExchangeResult)
			return nil
		}
		d.w.obs.probeOK[query.Voter]++
		complete(result, nil)
		return nil
	}
	if !d.reachable(query.Voter) {
		complete(ProbeResult{}, errVwUnreachable)
		return nil
	}
	if d.w.choose("probe", 2) == 1 {
		complete(ProbeResult{}, errVwDropped)
		return nil
	}
	resp, err := d.w.node(query.Voter).server.Handle(context.Background(), d.n.id, ExchangeBatch{
		Version: ExchangeVersion, Priority: ExchangePriorityForeground,
		Items: []ExchangeItem{{RequestID: 1, Kind: ExchangeProbe, Probe: &request}}})
	if err != nil {
		complete(ProbeResult{}, err)
		return nil
	}
	if resp.Version != ExchangeVersion || len(resp.Items) != 1 || resp.Items[0].RequestID != 1 ||
		resp.Items[0].Replicate != (ReplicateResult{}) || !zeroFetchResult(resp.Items[0].Fetch) ||
		!validPeerProbeResult(request, resp.Items[0].Probe) {
		complete(ProbeResult{}, errInvalidExchangeResult)
		return nil
	}
	d.w.obs.probeOK[query.Voter]++
	complete(resp.Items[0].Probe, nil)
	return nil
}

func (d *vwDisp) submitRecoveryFetch(_ context.Context, query recoveryFetchQuery, complete func(FetchResult, error)) error {
	request := FetchRequest{
		ChannelKey: query.ChannelKey, ChannelID: query.ChannelID, Leader: query.Leader, Follower: query.Donor,
		Expected: query.Expected, From: query.From, Through: query.Through, Previous: query.Previous, MaxBytes: query.MaxBytes,
	}
	d.point("fetch")
	if query.Donor == d.n.id {
		if d.n.crashing {
			complete(FetchResult{}, errVwCrashed)
			return nil
		}
		fetched := d.n.store.Fetch(context.Background(), []FetchRange{{
			ChannelKey: request.ChannelKey, ChannelID: request.ChannelID, Expected: request.Expected,
			From: request.From, Through: request.Through, Previous: request.Previous, MaxBytes: request.MaxBytes}})
		if len(fetched) != 1 {
			complete(FetchResult{}, errInvalidExchangeResult)
			return nil
		}
		if fetched[0].Err != nil {
			complete(FetchResult{}, fetched[0].Err)
			return nil
		}
		mapped, ok := mapFetchResult(request, fetched[0])
		if !ok {
			complete(FetchResult{}, errInvalidExchangeResult)
			return nil
		}
		complete(mapped, nil)
		return nil
	}
	if !d.reachable(query.Donor) {
		complete(FetchResult{}, errVwUnreachable)
		return nil
	}
	if d.w.choose("fetch", 2) == 1 {
		complete(FetchResult{}, errVwDropped)
		return nil
	}
	resp, err := d.w.node(query.Donor).server.Handle(context.Background(), d.n.id, ExchangeBatch{
		Version: ExchangeVersion, Priority: ExchangePriorityForeground,
		Items: []ExchangeItem{{RequestID: 1, Kind: ExchangeFetch, Fetch: &request}}})
	if err != nil {
		complete(FetchResult{}, err)
		return nil
	}
	if resp.Version != ExchangeVersion || len(resp.Items) != 1 || resp.Items[0].RequestID != 1 ||
		resp.Items[0].Replicate != (ReplicateResult{}) || !zeroProbeResult(resp.Items[0].Probe) ||
		!validPeerFetchResult(request, resp.Items[0].Fetch) {
		complete(FetchResult{}, errInvalidExchangeResult)
		return nil
	}
	complete(resp.Items[0].Fetch, nil)
	return nil
}

func (d *vwDisp) submitLocal(_ context.Context, proposal durableProposal, complete func(durabilityCompletion)) error {
	d.release()
	if d.n.crashing {
		return errVwCrashed
	}
	d.point("local-sync")
	d.w.obs.storeWrites++
	results := d.n.store.Sync(context.Background(), []Mutation{{
		ChannelKey: proposal.channelKey, ChannelID: proposal.channelID,
		Manifest: proposal.manifest, Records: proposal.records, Committed: proposal.committed,
		Class: MutationClassLeaderQuorum, ServerAllocatedMessageIDs: proposal.serverAllocatedMessageIDs,
	}})
	completion := durabilityCompletion{outcome: ch.AppendOutcomeUnknown, err: errInvalidExchangeResult}
	if len(results) == 1 && validLocalDurabilityResult(proposal, results[0]) {
		completion = durabilityCompletion{outcome: results[0].Outcome, err: results[0].Err}
	}
	d.point("local-synced")
	if d.w.o.evLocalLost && d.w.choose("local-completion", 2) == 1 {
		completion = durabilityCompletion{outcome: ch.AppendOutcomeUnknown, err: errVwLocalLost}
	}
	if d.w.o.evOrder && d.w.choose("local-completes-after-follower", 2) == 1 {
		d.w.obs.heldLocal = func() { complete(completion) }
		return nil
	}
	complete(completion)
	return nil
}

// exchangeReplicate sends one ReplicateRequest to a peer's real ExchangeServer and
// validates the answer the way peerBatcher.exchange does.
func (d *vwDisp) exchangeReplicate(to ch.NodeID, proposal durableProposal, background bool, ask bool) (ReplicateResult, error) {
	request := ReplicateRequest{
		ChannelKey: proposal.channelKey, ChannelID: proposal.channelID, Leader: proposal.leader, Follower: to,
		Manifest: proposal.manifest, Records: proposal.records, Committed: proposal.committed,
		ServerAllocatedMessageIDs: proposal.serverAllocatedMessageIDs,
	}
	d.point("replicate-send")
	if !d.reachable(to) {
		return ReplicateResult{Status: ReplicateOutcomeUnknown}, errors.Join(errPeerOutcomeUnknown, errVwUnreachable)
	}
	c := 0
	if ask {
		c = d.w.choose("replicate", 3)
	}
	if c == 2 {
		return ReplicateResult{Status: ReplicateOutcomeUnknown}, errors.Join(errPeerOutcomeUnknown, errVwDropped)
	}
	priority := ExchangePriorityForeground
	if background {
		priority = ExchangePriorityBackground
	}
	d.w.obs.storeWrites++
	if proposal.serverAllocatedMessageIDs && d.w.lease != nil {
		// vacuity counters for the sequenced fast path of the MessageDB exact append
		// (ServerAllocatedMessageIDs and base == follower LEO), in particular with a
		// follower tail that is NOT the proposal's predecessor.
		if l := d.w.readStore(d.w.node(to)); l.err == nil && l.leo == proposal.manifest.BaseOffset {
			d.w.st.saAtFrontier.Add(1)
			if tail, ok := l.at(l.leo); ok && (tail.Digest != proposal.manifest.PreviousDigest || tail.LeaderTerm != proposal.manifest.PreviousTerm) {
				d.w.st.saAtFrontierDivergentTail.Add(1)
			}
		}
	}
	resp, err := d.w.node(to).server.Handle(context.Background(), d.n.id, ExchangeBatch{
		Version: ExchangeVersion, Priority: priority,
		Items: []ExchangeItem{{RequestID: 1, Kind: ExchangeReplicate, Replicate: &request}}})
	d.point("replicate-reply")
	if c == 1 {
		return ReplicateResult{Status: ReplicateOutcomeUnknown}, errors.Join(errPeerOutcomeUnknown, errVwReplyLost)
	}
	if err != nil {
		return ReplicateResult{Status: ReplicateOutcomeUnknown}, errors.Join(errPeerOutcomeUnknown, err)
	}
	if resp.Version != ExchangeVersion || len(resp.Items) != 1 || resp.Items[0].RequestID != 1 ||
		!zeroProbeResult(resp.Items[0].Probe) || !zeroFetchResult(resp.Items[0].Fetch) ||
		!validReplicateResult(request, resp.Items[0].Replicate) {
		return ReplicateResult{Status: ReplicateOutcomeUnknown}, errInvalidExchangeResult
	}
	return resp.Items[0].Replicate, nil
}

// finishReplicate re-states the completion mapping of
// batchingDurabilityDispatcher.submitReplicaWithMode (repairOnFailure = true).
func (d *vwDisp) finishReplicate(follower ch.NodeID, proposal durableProposal, result ReplicateResult, err error, complete func(durabilityCompletion)) {
	if err != nil {
		d.RecordFollowerRepair(followerRepairFor(proposal, follower, proposal.first))
		complete(durabilityCompletion{outcome: ch.AppendOutcomeUnknown, err: err})
		return
	}
	switch result.Status {
	case ReplicateDurable:
		complete(durabilityCompletion{outcome: ch.AppendOutcomeDurable})
	case ReplicateAlreadyDurable:
		complete(durabilityCompletion{outcome: ch.AppendOutcomeAlreadyDurable})
	case ReplicateNeedFrom:
		d.w.st.needFrom.Add(1)
		d.RecordFollowerRepair(followerRepairFor(proposal, follower, result.NeedFrom))
		complete(durabilityCompletion{outcome: ch.AppendOutcomeDefinitelyNotWritten, err: errReplicaNeedsRepair, follower: follower, needFrom: result.NeedFrom})
	case ReplicateStaleFence:
		d.RecordFollowerRepair(followerRepairFor(proposal, follower, proposal.first))
		complete(durabilityCompletion{outcome: ch.AppendOutcomeDefinitelyNotWritten, err: ch.ErrStaleMeta})
	case ReplicateConflict:
		d.RecordFollowerRepair(followerRepairFor(proposal, follower, proposal.first))
		complete(durabilityCompletion{outcome: ch.AppendOutcomeConflict, err: ch.ErrLogConflict})
	case ReplicateBackpressured:
		d.RecordFollowerRepair(followerRepairFor(proposal, follower, proposal.first))
		complete(durabilityCompletion{outcome: ch.AppendOutcomeDefinitelyNotWritten, err: ch.ErrBackpressured})
	default:
		d.RecordFollowerRepair(followerRepairFor(proposal, follower, proposal.first))
		complete(durabilityCompletion{outcome: ch.AppendOutcomeUnknown, err: errPeerOutcomeUnknown})
	}
}

func (d *vwDisp) submitReplica(_ context.Context, follower ch.NodeID, proposal durableProposal, complete func(durabilityCompletion)) error {
	result, err := d.exchangeReplicate(follower, proposal, false, true)
	d.finishReplicate(follower, proposal, result, err, complete)
	d.release()
	return nil
}

func (d *vwDisp) replicaHedgeDelay() time.Duration {
	d.release()
	if d.w.o.evHedge && d.w.choose("hedge-fires-first", 2) == 1 {
		return 0
	}
	return time.Hour
}

func (d *vwDisp) submitReplicaHedged(ctx context.Context, follower ch.NodeID, proposal durableProposal, complete func(durabilityCompletion)) error {
	return d.submitReplica(ctx, follower, proposal, complete)
}

func (d *vwDisp) submitReplicaDeferred(_ context.Context, follower ch.NodeID, proposal durableProposal, _ func(durabilityCompletion)) error {
	d.release()
	d.w.trailing = append(d.w.trailing, vwTrailing{from: d.n.id, to: follower, proposal: proposal.freeze()})
	return nil
}

// InstallAuthority / RecordFollowerRepair re-state the authority fencing of
// runtimeRepairOwner (pending evidence is dropped when the authority advances; evidence
// of another authority or for a non-voter is ignored).
func (d *vwDisp) InstallAuthority(authority Authority) {
	if d.n.repairAuth != nil && compareAuthorityID(authority.ID, d.n.repairAuth.ID) <= 0 {
		return
	}
	a := cloneAuthority(authority)
	d.n.repairAuth = &a
	d.n.repairs = map[ch.NodeID]followerRepair{}
}

func (d *vwDisp) RecordFollowerRepair(repair followerRepair) {
	if !d.w.o.evRepair || !validFollowerRepair(repair) || d.n.repairAuth == nil || d.n.repairAuth.ID != repairAuthorityID(repair) {
		return
	}
	if cur, ok := d.n.repairs[repair.follower]; ok {
		merged, _ := mergeFollowerRepair(cur, repair)
		d.n.repairs[repair.follower] = merged
		return
	}
	d.n.repairs[repair.follower] = repair
}

// ------------------------------------------------------------------ reading state back

func (w *vw) readStore(n *vwNode) vwLog {
	cs, err := n.factory.ChannelStore(w.key, w.id)
	if err != nil {
		return vwLog{err: err}
	}
	defer cs.Close()
	loader := cs.(channelstore.ExactRecoveryStateLoader)
	st, err := loader.LoadExactRecoveryState(context.Background(), nil)
	if err != nil {
		return vwLog{err: err}
	}
	out := vwLog{leo: st.LEO, committed: st.HW}
	if st.LEO == 0 {
		return out
	}
	idx := make([]uint64, st.LEO)
	for i := range idx {
		idx[i] = uint64(i + 1)
	}
	full, err := loader.LoadExactRecoveryState(context.Background(), idx)
	if err != nil {
		return vwLog{leo: st.LEO, committed: st.HW, err: err}
	}
	out.ids = make([]ch.EntryIdentity, st.LEO)
	for i, e := range full.Entries {
		if !e.Present {
			return vwLog{leo: st.LEO, committed: st.HW, err: fmt.Errorf("entry %d missing below LEO", e.Index)}
		}
		out.ids[i] = e.Identity
	}
	return out
}

func (w *vw) snapshot() []vwLog {
	if w.snapOK {
		return w.snap
	}
	s := make([]vwLog, len(w.nodes))
	for i, n := range w.nodes {
		s[i] = w.readStore(n)
	}
	w.snap, w.snapOK = s, true
	return s
}

func (w *vw) chanState(n *vwNode) *quorumChannel {
	return n.log.existingChannel(w.key)
}

// ready reports the real quorumLog's writable flag for the channel.
func (w *vw) ready(n *vwNode) bool {
	st := w.chanState(n)
	return st != nil && st.ready
}

func holds(l vwLog, a vwAck) (present bool, replaced bool) {
	present = true
	for i, id := range a.ids {
		got, ok := l.at(a.receipt.First + uint64(i))
		if !ok {
			present = false
			continue
		}
		if got != id {
			present = false
			replaced = true
		}
	}
	return present, replaced
}

func d8(d ch.EntryDigest) string { return fmt.Sprintf("%x", d[:6]) }

func authStr(a AuthorityID) string {
	return fmt.Sprintf("%d.%d.%d", a.ChannelEpoch, a.LeaderTerm, a.FenceVersion)
}

func nodeSet(m map[ch.NodeID]bool) string {
	var ids []int
	for id, ok := range m {
		if ok {
			ids = append(ids, int(id))
		}
	}
	sort.Ints(ids)
	parts := make([]string, len(ids))
	for i, id := range ids {
		parts[i] = strconv.Itoa(id)
	}
	return "{" + strings.Join(parts, ",") + "}"
}

func errName(err error) string {
	switch {
	case err == nil:
		return "ok"
	case errors.Is(err, ch.ErrStaleMeta):
		return "stale-meta"
	case errors.Is(err, ch.ErrNotReady):
		return "not-ready"
	case errors.Is(err, ch.ErrWriteFenced):
		return "write-fenced"
	case errors.Is(err, ch.ErrLogConflict):
		return "log-conflict"
	case errors.Is(err, ch.ErrBackpressured):
		return "backpressured"
	case errors.Is(err, ch.ErrInvalidConfig):
		return "invalid-config"
	case errors.Is(err, errDurableQuorumUnavailable):
		return "durable-quorum-unavailable"
	case errors.Is(err, errRecoveryQuorumUnavailable):
		return "recovery-quorum-unavailable"
	case errors.Is(err, errRecoveryProbeIncomplete):
		return "recovery-probe-incomplete"
	case errors.Is(err, errVwCrashed):
		return "crashed"
	case errors.Is(err, errVwUnreachable), errors.Is(err, errVwDropped), errors.Is(err, errVwReplyLost):
		return "peer-unreachable"
	default:
		return "other-error"
	}
}

// ------------------------------------------------------------------ commands

func cmdID(k int) ch.CommandID { return ch.CommandID{0: 0xC0, 31: byte(k)} }

func cmdName(id ch.CommandID) string {
	if id[0] == 0xC0 {
		return "c" + strconv.Itoa(int(id[31]))
	}
	return "bar"
}

// cmdServerAllocated: c1 and c2 are proposed with ServerAllocatedMessageIDs=true (the
// sequenced fast path of the MessageDB exact-append mode), c3 without. Its precondition
// (message ids unique per content) is honoured: the conflicting variant carries other ids.
func cmdServerAllocated(k int) bool { return k != 3 }

// cmdRecords is the fixed content of command k in variant 'a' (canonical) or 'x'
// (same command id, same record count and sizes, different payload and message ids).
// c2 carries two records.
func cmdRecords(k int, variant byte, epoch uint64) []ch.Record {
	count, pad := 1, 60
	if k == 2 {
		count, pad = 2, 3
	}
	out := make([]ch.Record, count)
	for i := range out {
		payload := make([]byte, pad)
		payload[0], payload[1], payload[2] = variant, byte(k), byte(i)
		out[i] = ch.Record{
			ID: uint64(1000+10*k+i) + uint64(variant&1)*5, Epoch: epoch, FromUID: "u", ClientMsgNo: fmt.Sprintf("k%d-%d", k, i),
			ServerTimestampMS: int64(1_700_000_000_000 + k), Payload: payload, SizeBytes: len(payload),
		}
	}
	return out
}

// ------------------------------------------------------------------ events

func (w *vw) Events() []string {
	if w.dead {
		return nil
	}
	var evs []string
	for _, n := range w.nodes {
		if len(n.hist) == 0 {
			continue
		}
		for k := 1; k <= w.o.cmds; k++ {
			evs = append(evs, fmt.Sprintf("commit:%d:c%d", n.id, k))
		}
	}
	if w.o.evConflict {
		for _, n := range w.nodes {
			if len(n.hist) == 0 {
				continue
			}
			for k := 1; k <= w.o.cmds; k++ {
				if w.proposed[k] != 0 {
					evs = append(evs, fmt.Sprintf("commitx:%d:c%d", n.id, k))
				}
			}
		}
	}
	if w.o.evPrev {
		for _, n := range w.nodes {
			if len(n.hist) < 2 {
				continue
			}
			for k := 1; k <= w.o.cmds; k++ {
				evs = append(evs, fmt.Sprintf("commitp:%d:c%d", n.id, k))
			}
		}
	}
	if w.o.evSame {
		for _, n := range w.nodes {
			// re-installing the authority a node is already writable under only returns
			// the cached frontier; that no-op is explored by the C04 entry only.
			if n.issued != nil && (w.o.oC04 || !n.writable || len(n.hist) == 0 || n.hist[len(n.hist)-1] != n.issued.ID) {
				evs = append(evs, fmt.Sprintf("install:%d:same", n.id))
			}
		}
	}
	if w.installsUsed < w.o.maxInstalls {
		for _, n := range w.nodes {
			evs = append(evs, fmt.Sprintf("install:%d:next", n.id))
		}
		if w.o.evFence {
			if w.cp.fenced {
				evs = append(evs, fmt.Sprintf("install:%d:unfence", w.cp.leader))
			} else {
				evs = append(evs, fmt.Sprintf("install:%d:fence", w.cp.leader))
			}
		}
		if w.o.evEpoch {
			for _, n := range w.nodes {
				if w.o.epochAnyNode || n.id == w.cp.leader {
					evs = append(evs, fmt.Sprintf("install:%d:epoch", n.id))
				}
			}
		}
	}
	if w.o.evOlder {
		for _, n := range w.nodes {
			if len(n.hist) == 0 {
				continue
			}
			cur := n.hist[len(n.hist)-1]
			if cur.FenceVersion > 1 {
				evs = append(evs, fmt.Sprintf("install:%d:older-fence", n.id))
			}
			if cur.LeaderTerm > 1 {
				evs = append(evs, fmt.Sprintf("install:%d:older-term", n.id))
			}
			if cur.ChannelEpoch > 1 {
				evs = append(evs, fmt.Sprintf("install:%d:older-epoch", n.id))
			}
		}
	}
	if w.o.evTrailing {
		seen := map[string]bool{}
		for _, t := range w.trailing {
			if w.node(t.from).down || w.node(t.to).down {
				continue
			}
			l := "deliver:" + trailingLabel(t)
			if !seen[l] {
				seen[l] = true
				evs = append(evs, l)
			}
		}
	}
	if w.o.evRepair {
		for _, n := range w.nodes {
			for _, f := range []ch.NodeID{1, 2, 3} {
				if _, ok := n.repairs[f]; ok && !n.down && !w.node(f).down {
					evs = append(evs, fmt.Sprintf("repair:%d>%d", n.id, f))
				}
			}
		}
	}
	if w.crashesUsed < w.o.maxCrashes {
		for _, n := range w.nodes {
			if len(n.hist) > 0 || w.hasTrailingFrom(n.id) {
				evs = append(evs, fmt.Sprintf("crash:%d", n.id))
			}
		}
	}
	anyDown := false
	for _, n := range w.nodes {
		if n.down {
			anyDown = true
			evs = append(evs, fmt.Sprintf("up:%d", n.id))
		}
	}
	if !anyDown && w.outagesUsed < w.o.maxOutages { // |down| <= N-Q = 1
		for _, n := range w.nodes {
			evs = append(evs, fmt.Sprintf("down:%d", n.id))
		}
	}
	return evs
}

func trailingLabel(t vwTrailing) string {
	m := t.proposal.manifest
	return fmt.Sprintf("%d>%d:%s@%d/t%d.%d.%d", t.from, t.to, cmdName(m.CommandID), m.BaseOffset, m.ChannelEpoch, m.LeaderTerm, m.FenceVersion)
}

func (w *vw) hasTrailingFrom(id ch.NodeID) bool {
	for _, t := range w.trailing {
		if t.from == id {
			return true
		}
	}
	return false
}

func (w *vw) Apply(event string, env *mc.Env) (obs string, err error) {
	w.env = env
	defer func() { w.env = nil }()
	before := w.snapshot()
	w.snapOK = false
	w.resetObs()
	parts := strings.Split(event, ":")
	defer func() {
		if p := recover(); p != nil {
			obs = "panic"
			err = mc.Violatef(w.o.prop+":panic-in-"+parts[0], "%s panicked: %v", event, p)
		}
	}()
	switch parts[0] {
	case "commit", "commitx", "commitp":
		id, _ := strconv.Atoi(parts[1])
		k, _ := strconv.Atoi(parts[2][1:])
		obs, err = w.applyCommit(w.node(ch.NodeID(id)), k, parts[0], before)
	case "install":
		id, _ := strconv.Atoi(parts[1])
		obs, err = w.applyInstall(w.node(ch.NodeID(id)), parts[2], before)
	case "deliver":
		obs, err = w.applyDeliver(strings.TrimPrefix(event, "deliver:"))
	case "repair":
		var l, f int
		fmt.Sscanf(parts[1], "%d>%d", &l, &f)
		obs = w.applyRepair(w.node(ch.NodeID(l)), ch.NodeID(f))
	case "crash":
		id, _ := strconv.Atoi(parts[1])
		w.crashesUsed++
		w.crash(w.node(ch.NodeID(id)))
		obs = "crashed"
	case "down":
		id, _ := strconv.Atoi(parts[1])
		w.node(ch.NodeID(id)).down = true
		w.outagesUsed++
		obs = "down"
	case "up":
		id, _ := strconv.Atoi(parts[1])
		w.node(ch.NodeID(id)).down = false
		obs = "up"
	default:
		panic("verif: unknown event " + event)
	}
	if w.obs.heldLocal != nil {
		panic("verif: parked local completion was never released")
	}
	if err != nil {
		return obs, err
	}
	if e := w.transitionChecks(event, before); e != nil {
		return obs, e
	}
	return obs, nil
}

func (w *vw) crash(n *vwNode) {
	w.freshLog(n)
	kept := w.trailing[:0]
	for _, t := range w.trailing {
		if t.from != n.id {
			kept = append(kept, t)
		}
	}
	w.trailing = kept
}

// ------------------------------------------------------------------ Install

func (w *vw) install(n *vwNode, a Authority) (Installed, error) {
	// model: which branch of the authority comparison must this call take?
	cmp := 1
	if len(n.hist) > 0 {
		cmp = compareAuthorityID(a.ID, n.hist[len(n.hist)-1])
	}
	wasWritable := n.writable
	res, err := n.log.Install(context.Background(), a)
	if n.crashing {
		w.crashesUsed++
		w.st.crashAtReplace.Add(1)
		w.crash(n)
		return res, errVwCrashed
	}
	switch {
	case cmp > 0:
		n.hist = append(n.hist, a.ID)
		n.fenced = a.WriteFence.Set()
		n.writable = err == nil
		n.mustHold = nil
	case cmp == 0:
		if !wasWritable {
			n.writable = err == nil
		}
	}
	return res, err
}

func (w *vw) applyInstall(n *vwNode, kind string, before []vwLog) (string, error) {
	var a Authority
	allocate := func(leader ch.NodeID, fenced bool) {
		w.installsUsed++
		w.cp.leader, w.cp.fenced = leader, fenced
		a = w.authorityFor(leader, fenced)
		cp := a
		n.issued = &cp
	}
	older := false
	switch kind {
	case "next":
		w.cp.term++
		w.cp.fence++
		allocate(n.id, false)
	case "epoch":
		w.cp.epoch++
		w.cp.term = 1
		w.cp.fence++
		allocate(n.id, false)
	case "fence":
		w.cp.fence++
		allocate(n.id, true)
	case "unfence":
		w.cp.fence++
		allocate(n.id, false)
	case "same":
		a = cloneAuthority(*n.issued)
	case "older-fence", "older-term", "older-epoch":
		older = true
		cur := n.hist[len(n.hist)-1]
		id := cur
		switch kind {
		case "older-fence":
			id.FenceVersion--
		case "older-term":
			id.LeaderTerm--
			id.FenceVersion += 3
		case "older-epoch":
			id.ChannelEpoch--
			id.LeaderTerm += 5
			id.FenceVersion += 5
		}
		a = Authority{Key: w.key, ChannelID: w.id, ID: id, Leader: n.id, Voters: []ch.NodeID{1, 2, 3}, WriteQuorum: vwQ}
	default:
		panic("verif: unknown install kind " + kind)
	}
	cmp := 1
	if len(n.hist) > 0 {
		cmp = compareAuthorityID(a.ID, n.hist[len(n.hist)-1])
	}
	wasReady := w.ready(n)
	stBefore := w.logCanon(n)
	res, err := w.install(n, a)
	after := w.snapshot()
	recoveryRan := w.obs.probes > 0
	obs := "install-" + kind + ":" + errName(err)
	if err == nil {
		obs += fmt.Sprintf(":leo%d", res.LEO)
		if recoveryRan {
			w.st.installOK.Add(1)
			if w.obs.storeWrites > 0 {
				w.st.installBarrier.Add(1)
			}
		} else {
			w.st.installCached.Add(1)
		}
	} else if cmp >= 0 && !a.WriteFence.Set() {
		w.st.installFailedClosed.Add(1)
	}

	// ---- C04: authority ordering and fencing of Install
	if w.o.oC04 {
		if older || cmp < 0 {
			if err == nil {
				return obs, mc.Violatef("C04:older-authority-installed", "Install(%s) at node %d succeeded although %s was installed before",
					authStr(a.ID), n.id, authStr(n.hist[len(n.hist)-1]))
			}
			if w.obs.storeWrites > 0 || w.obs.replaces > 0 || w.obs.probes > 0 || w.logCanon(n) != stBefore || !sameLogs(before, after) {
				return obs, mc.Violatef("C04:refused-older-install-had-effects", "refused Install(%s) at node %d issued %d writes / %d probes or changed state",
					authStr(a.ID), n.id, w.obs.storeWrites, w.obs.probes)
			}
			w.st.olderInstallRefused.Add(1)
		}
		if a.WriteFence.Set() {
			if err == nil {
				return obs, mc.Violatef("C04:fenced-authority-install-succeeded", "Install(%s) with an active write fence at node %d returned %+v", authStr(a.ID), n.id, res)
			}
			if w.ready(n) {
				return obs, mc.Violatef("C04:channel-writable-under-write-fence", "node %d is writable after Install(%s) with an active write fence", n.id, authStr(a.ID))
			}
			if w.obs.storeWrites > 0 || w.obs.replaces > 0 {
				return obs, mc.Violatef("C04:fenced-install-wrote", "Install(%s) with an active write fence at node %d issued %d store writes", authStr(a.ID), n.id, w.obs.storeWrites)
			}
			w.st.fenceInstallRefused.Add(1)
		}
		if err == nil && res.Authority != a.ID {
			return obs, mc.Violatef("C04:installed-authority-mismatch", "Install(%s) at node %d returned authority %s", authStr(a.ID), n.id, authStr(res.Authority))
		}
		if err != nil && (cmp > 0 || (cmp == 0 && !wasReady)) && w.ready(n) {
			return obs, mc.Violatef("C04:channel-writable-after-failed-install", "node %d stays writable although Install(%s) failed with %v", n.id, authStr(a.ID), err)
		}
	}

	// ---- C01: a node that becomes writable holds every acknowledged entry, and the
	// recovery replacement of an Install - also one that fails or crashes afterwards -
	// never removes an acknowledged entry.
	if recoveryRan && (w.o.oC01 || !w.o.reportKF) {
		if e := w.checkInstallAgainstAcks(n, a, res, err == nil, before, after); e != nil {
			return obs, e
		}
		if w.dead {
			return obs, nil
		}
	}
	if err == nil && recoveryRan {
		n.mustHold = n.mustHold[:0]
		for i := range w.acks {
			n.mustHold = append(n.mustHold, i)
		}
	}
	return obs, nil
}

// responders returns the voters that answered every probe round of this event: the
// stable set on which recoverQuorumPrefix based its selection.
func (w *vw) responders() map[ch.NodeID]bool {
	out := map[ch.NodeID]bool{}
	for id, c := range w.obs.probeOK {
		if c >= w.obs.probeRounds && c > 0 {
			out[id] = true
		}
	}
	return out
}

func sameLogs(a, b []vwLog) bool {
	for i := range a {
		if a[i].leo != b[i].leo || a[i].committed != b[i].committed || len(a[i].ids) != len(b[i].ids) {
			return false
		}
		for j := range a[i].ids {
			if a[i].ids[j] != b[i].ids[j] {
				return false
			}
		}
	}
	return true
}

// checkInstallAgainstAcks classifies every acknowledged entry that a freshly installed
// (writable) node does not hold.
func (w *vw) checkInstallAgainstAcks(n *vwNode, a Authority, res Installed, succeeded bool, before, after []vwLog) error {
	ni := int(n.id) - 1
	for _, ack := range w.acks {
		present, replaced := holds(after[ni], ack)
		if present {
			continue
		}
		heldBefore, _ := holds(before[ni], ack)
		if !succeeded && !heldBefore {
			continue // a failed Install at a non-holder is never a violation
		}
		holders := map[ch.NodeID]bool{}
		inter := 0
		resp := w.responders()
		for i := range w.nodes {
			if ok, _ := holds(before[i], ack); ok {
				holders[ch.NodeID(i+1)] = true
				if resp[ch.NodeID(i+1)] {
					inter++
				}
			}
		}
		responders := len(resp)
		kind := "install-writable-without-acked-entry"
		if heldBefore {
			kind = "acked-entry-truncated-by-install"
			if replaced {
				kind = "acked-entry-replaced-by-install"
			}
			if !succeeded {
				// the replacement was applied, then the Install failed (barrier quorum
				// unavailable) or the process died after the page
				kind = "acked-entry-truncated-by-failed-install"
			}
		}
		var rel string
		switch {
		case responders < vwQ:
			rel = "responders-below-quorum"
		case len(holders) < vwQ:
			rel = "holders-below-quorum-before-install"
		case inter < vwQ:
			rel = "holders-intersect-responders-below-quorum"
		default:
			rel = "holders-intersect-responders-at-quorum"
		}
		outcome := fmt.Sprintf("succeeded with LEO %d", res.LEO)
		if !succeeded {
			outcome = "applied its recovery replacement and then failed"
		}
		msg := fmt.Sprintf("Install(%s) at node %d %s; acknowledged %s [%d,%d] (authority %s, holders %s) is not in its log afterwards (held before: %v); probe responders (all rounds) %s, |H∩R|=%d, Q=%d",
			authStr(a.ID), n.id, outcome, "c"+strconv.Itoa(ack.cmd), ack.receipt.First, ack.receipt.Last, authStr(ack.receipt.Authority),
			nodeSet(holders), heldBefore, nodeSet(resp), inter, vwQ)
		known := rel == "holders-intersect-responders-below-quorum" && kind != "acked-entry-replaced-by-install"
		if !known && !w.o.oC01 {
			continue // judged by the C01 entry only
		}
		if known {
			if kind != "install-writable-without-acked-entry" {
				w.st.kfHits.Add(1)
			} else {
				w.st.kfSiblingHits.Add(1)
			}
			if !w.o.reportKF {
				if w.o.noPrune {
					w.tainted = true
					continue
				}
				w.dead = true
				w.st.kfSilentEnds.Add(1)
				return nil
			}
			return mc.PruneAfter(mc.Violatef("C01:"+kind+":"+rel, "%s", msg))
		}
		return mc.Violatef("C01:"+kind+":"+rel, "%s", msg)
	}
	if len(w.acks) > 0 && w.o.oC01 && succeeded {
		maxLast := uint64(0)
		for _, ack := range w.acks {
			if ack.receipt.Last > maxLast {
				maxLast = ack.receipt.Last
			}
		}
		if res.LEO < maxLast {
			return mc.Violatef("C01:installed-leo-below-acknowledged", "Install(%s) at node %d returned LEO %d below the highest acknowledged sequence %d", authStr(a.ID), n.id, res.LEO, maxLast)
		}
	}
	return nil
}

// ------------------------------------------------------------------ Commit

func (w *vw) applyCommit(n *vwNode, k int, kind string, before []vwLog) (string, error) {
	cur := n.hist[len(n.hist)-1]
	expected := cur
	if kind == "commitp" {
		expected = n.hist[len(n.hist)-2]
	}
	variant := byte('a')
	vbit := byte(1)
	if kind == "commitx" {
		variant, vbit = 'x', 2
	}
	records := cmdRecords(k, variant, expected.ChannelEpoch)
	ni := int(n.id) - 1
	wasProposed := w.proposed[k]
	w.proposed[k] |= vbit
	st := w.chanState(n)
	hadPending, pendingSame, inRetained := false, false, false
	if st != nil {
		if st.pending != nil {
			hadPending = true
			pendingSame = st.pending.proposal.manifest.CommandID == cmdID(k)
		}
		_, inRetained = st.retained[cmdID(k)]
	}
	wasWritable := n.writable && !n.fenced
	receipt, err := n.log.Commit(context.Background(), Proposal{Key: w.key, Expected: expected, CommandID: cmdID(k), Records: records,
		ServerAllocatedMessageIDs: cmdServerAllocated(k)})
	after := w.snapshot()
	obs := kind + ":" + errName(err)
	if err == nil {
		obs += fmt.Sprintf(":[%d,%d]", receipt.First, receipt.Last)
	} else if errors.Is(err, ch.ErrBackpressured) {
		w.st.commitBackpressured.Add(1)
	} else if errors.Is(err, errDurableQuorumUnavailable) {
		w.st.commitUnavailable.Add(1)
	}
	wrote := w.obs.storeWrites > 0 || !sameLogs(before, after)

	// ---- C04: deposed / fenced / not-writable authorities admit nothing
	if w.o.oC04 {
		stale := compareAuthorityID(expected, cur) < 0
		switch {
		case stale:
			if err == nil {
				return obs, mc.Violatef("C04:commit-acknowledged-under-older-authority", "Commit(c%d, Expected %s) at node %d returned %+v although %s was installed there", k, authStr(expected), n.id, receipt, authStr(cur))
			}
			if wrote {
				return obs, mc.Violatef("C04:commit-under-older-authority-wrote", "rejected Commit(c%d, Expected %s) at node %d (installed %s) issued %d store writes", k, authStr(expected), n.id, authStr(cur), w.obs.storeWrites)
			}
			w.st.staleCommitRejected.Add(1)
		case n.fenced:
			if err == nil {
				return obs, mc.Violatef("C04:commit-acknowledged-under-write-fence", "Commit(c%d) at node %d returned %+v while the write fence of %s is active", k, n.id, receipt, authStr(cur))
			}
			if wrote {
				return obs, mc.Violatef("C04:commit-admitted-under-write-fence", "Commit(c%d) at node %d issued %d store writes while the write fence of %s is active", k, n.id, w.obs.storeWrites, authStr(cur))
			}
			w.st.fencedCommitRejected.Add(1)
		case !n.writable:
			if err == nil {
				return obs, mc.Violatef("C04:commit-acknowledged-on-unrecovered-authority", "Commit(c%d) at node %d returned %+v although Install(%s) never succeeded there", k, n.id, receipt, authStr(cur))
			}
			if wrote {
				return obs, mc.Violatef("C04:commit-admitted-on-unrecovered-authority", "Commit(c%d) at node %d issued %d store writes although Install(%s) never succeeded there", k, n.id, w.obs.storeWrites, authStr(cur))
			}
			w.st.notReadyCommitRejected.Add(1)
		default:
			if err == nil && receipt.Authority != expected {
				return obs, mc.Violatef("C04:receipt-authority-mismatch", "Commit(c%d, Expected %s) at node %d returned a receipt of authority %s", k, authStr(expected), n.id, authStr(receipt.Authority))
			}
		}
	}
	_ = wasWritable

	if err != nil {
		// ---- C03: an exact retry of an acknowledged command in a fault-free world under
		// the acknowledging authority must not be refused.
		if w.o.oC03 && kind == "commit" {
			if ai, ok := w.ackOf[k]; ok && w.acks[ai].variant == variant {
				ack := w.acks[ai]
				if ack.receipt.Authority == cur && n.writable && !n.fenced && !hadPending && w.noFaultsNow() {
					return obs, mc.Violatef("C03:exact-retry-refused-under-same-authority", "exact retry of acknowledged c%d at node %d under its acknowledging authority %s was refused with %v (no fault in this event, nobody down, nothing pending)", k, n.id, authStr(cur), err)
				}
				if compareAuthorityID(cur, ack.receipt.Authority) > 0 {
					w.st.retryRefusedHigherAuthority.Add(1)
				}
			}
		}
		if w.o.oC03 && kind == "commitx" {
			if ai, ok := w.ackOf[k]; ok && w.acks[ai].variant != variant {
				w.st.conflictRejected.Add(1)
				// "stores nothing": a rejected conflicting retry must not change the log of
				// any replica that holds the acknowledged command. (A replica that never
				// received the command - e.g. a deposed leader deciding on a stale
				// sequencer - may take the rejected proposal as an uncommitted row, which
				// also carries the proposer's committed watermark; counted, see level_note.)
				ack := w.acks[ai]
				for i := range w.nodes {
					held, _ := holds(before[i], ack)
					same := sameLogs(before[i:i+1], after[i:i+1])
					if held && !same {
						return obs, mc.Violatef("C03:conflicting-retry-stored-rows", "rejected conflicting retry of acknowledged c%d at node %d changed the log of node %d, which holds the acknowledged command", k, n.id, i+1)
					}
					if !same {
						w.st.conflictGarbageRow.Add(1)
					}
				}
			}
		}
		return obs, nil
	}

	// ---- success: a receipt was returned
	if receipt.CommandID != cmdID(k) || receipt.Last < receipt.First || receipt.HW < receipt.Last {
		return obs, mc.Violatef(w.o.prop+":malformed-receipt", "Commit(c%d) at node %d returned malformed receipt %+v", k, n.id, receipt)
	}
	ids := make([]ch.EntryIdentity, 0, receipt.Last-receipt.First+1)
	localOK := true
	for s := receipt.First; s <= receipt.Last; s++ {
		id, ok := after[ni].at(s)
		if !ok || id.CommandID != cmdID(k) {
			localOK = false
			break
		}
		ids = append(ids, id)
	}
	if ai, ok := w.ackOf[k]; ok {
		ack := w.acks[ai]
		if ack.variant != variant {
			if w.o.oC03 {
				return obs, mc.Violatef("C03:conflicting-content-acknowledged", "c%d was acknowledged with content %q as [%d,%d]; Commit with content %q at node %d returned %+v", k, ack.variant, ack.receipt.First, ack.receipt.Last, variant, n.id, receipt)
			}
			return obs, nil
		}
		if w.o.oC03 {
			if receipt.First != ack.receipt.First || receipt.Last != ack.receipt.Last {
				return obs, mc.Violatef("C03:retry-returned-different-range", "c%d was acknowledged as [%d,%d] under %s; exact retry at node %d under %s returned [%d,%d]", k, ack.receipt.First, ack.receipt.Last, authStr(ack.receipt.Authority), n.id, authStr(cur), receipt.First, receipt.Last)
			}
			if receipt.Authority == ack.receipt.Authority && receipt != ack.receipt {
				return obs, mc.Violatef("C03:retry-returned-different-receipt", "c%d: first receipt %+v, exact retry under the same authority returned %+v", k, ack.receipt, receipt)
			}
			if !sameLogs(before, after) {
				return obs, mc.Violatef("C03:exact-retry-stored-rows", "exact retry of acknowledged c%d at node %d changed a replica log (logs before/after differ)", k, n.id)
			}
			w.st.retryIdentical.Add(1)
			if !inRetained {
				w.st.reconcileAfterEviction.Add(1)
			}
		}
		return obs, nil
	}

	// first acknowledgement of command k (with this content)
	if wasProposed&^vbit != 0 {
		w.st.conflictAcceptedAsNew.Add(1)
	}
	if !localOK {
		return obs, mc.Violatef(w.o.prop+":receipt-without-local-entry", "Commit(c%d) at node %d returned [%d,%d] but its own log does not hold the command there (LEO %d)", k, n.id, receipt.First, receipt.Last, after[ni].leo)
	}
	ack := vwAck{cmd: k, variant: variant, receipt: receipt, ids: ids, by: n.id}
	holders := map[ch.NodeID]bool{}
	for i := range w.nodes {
		if ok, _ := holds(after[i], ack); ok {
			holders[ch.NodeID(i+1)] = true
		}
	}
	if w.o.oC01 && len(holders) < vwQ {
		return obs, mc.Violatef("C01:acknowledged-with-holders-below-quorum", "Commit(c%d) at node %d acknowledged [%d,%d] while only %s hold the entries (Q=%d)", k, n.id, receipt.First, receipt.Last, nodeSet(holders), vwQ)
	}
	if w.o.oC01 {
		// the acknowledging leader's log must contain every earlier acknowledged entry
		// (entries acknowledged later at higher sequences by a newer leader are not its business)
		for _, old := range w.acks {
			if old.receipt.First > receipt.Last {
				continue
			}
			if ok, replaced := holds(after[ni], old); !ok {
				what := "omits"
				if replaced {
					what = "replaces"
				}
				return obs, mc.Violatef("C01:receipt-issued-on-log-that-"+what+"-acked-entry", "Commit(c%d) at node %d (authority %s) acknowledged [%d,%d] on a log that %s acknowledged c%d [%d,%d]", k, n.id, authStr(cur), receipt.First, receipt.Last, what, old.cmd, old.receipt.First, old.receipt.Last)
			}
		}
	}
	if w.o.oC03 {
		count := uint64(len(records))
		if pendingSame {
			w.st.retryPendingAcked.Add(1)
		}
		if receipt.Last-receipt.First+1 != count {
			return obs, mc.Violatef("C03:receipt-range-length-mismatch", "Commit(c%d) with %d records at node %d returned [%d,%d]", k, count, n.id, receipt.First, receipt.Last)
		}
		// "starting right after the previous log end": when this event stored the command
		// at the acknowledging leader, its log ended at First-1 before the event (a
		// command stored there by an earlier ambiguous attempt is covered by the
		// one-contiguous-range-per-command state invariant).
		if held, _ := before[ni].at(receipt.First); held.CommandID != cmdID(k) && receipt.First != before[ni].leo+1 {
			return obs, mc.Violatef("C03:receipt-not-contiguous-with-log-end", "Commit(c%d) at node %d returned [%d,%d] but its log ended at %d before", k, n.id, receipt.First, receipt.Last, before[ni].leo)
		}
		if v, ok := w.storedVariant(n, receipt.First); !ok || v != variant {
			return obs, mc.Violatef("C03:receipt-for-different-content", "Commit(c%d, content %q) at node %d returned [%d,%d] but the stored rows carry content %q", k, variant, n.id, receipt.First, receipt.Last, v)
		}
		for _, old := range w.acks {
			if receipt.First <= old.receipt.Last && old.receipt.First <= receipt.Last {
				return obs, mc.Violatef("C03:overlapping-receipts", "c%d acknowledged as [%d,%d] overlaps c%d [%d,%d]", k, receipt.First, receipt.Last, old.cmd, old.receipt.First, old.receipt.Last)
			}
		}
	}
	w.acks = append(w.acks, ack)
	w.ackOf[k] = len(w.acks) - 1
	n.mustHold = append(n.mustHold, len(w.acks)-1)
	w.st.acks.Add(1)
	// observation (not an oracle): acknowledged by a leader whose authority is older than
	// an authority already installed (successfully) on another node.
	for _, m := range w.nodes {
		if m != n && m.writable && len(m.hist) > 0 && compareAuthorityID(m.hist[len(m.hist)-1], cur) > 0 {
			w.st.crossNodeDeposedAck.Add(1)
			break
		}
	}
	return obs, nil
}

// noFaultsNow: nobody is down and the environment gave only default answers in this event.
func (w *vw) noFaultsNow() bool {
	for _, n := range w.nodes {
		if n.down {
			return false
		}
	}
	return !w.obs.deviated
}

// ------------------------------------------------------------------ trailing delivery / follower repair

func (w *vw) applyDeliver(label string) (string, error) {
	for i, t := range w.trailing {
		if trailingLabel(t) != label {
			continue
		}
		w.trailing = append(w.trailing[:i:i], w.trailing[i+1:]...)
		from := w.node(t.from)
		result, err := from.disp.exchangeReplicate(t.to, t.proposal, true, false)
		from.disp.finishReplicate(t.to, t.proposal, result, err, func(durabilityCompletion) {})
		w.st.trailingDelivered.Add(1)
		if err != nil {
			return "deliver:" + errName(err), nil
		}
		return fmt.Sprintf("deliver:status%d", result.Status), nil
	}
	panic("verif: trailing write not found: " + label)
}

// applyRepair re-states runtimeRepairOwner.repair / repairFromFrontier: the leader reads
// the missing proposals from its own (real) store and re-sends them through the
// follower's real ExchangeServer as foreground replication.
func (w *vw) applyRepair(leader *vwNode, follower ch.NodeID) string {
	repair := leader.repairs[follower]
	indexes := []uint64(nil)
	if repair.needFrom > 1 {
		indexes = []uint64{repair.needFrom - 1}
	}
	loaded, err := leader.store.Load(context.Background(), LoadBatch{Items: []LoadRequest{{ChannelKey: repair.channelKey, ChannelID: repair.channelID, ProbeIndexes: indexes}}})
	if err != nil || len(loaded.Items) != 1 || loaded.Items[0].Err != nil ||
		loaded.Items[0].State.LEO < repair.manifest.LastOffset || loaded.Items[0].State.LEO < repair.needFrom {
		return "repair:leader-frontier-not-ready"
	}
	state := loaded.Items[0].State
	previous := ch.EntryIdentity{}
	if repair.needFrom > 1 {
		if len(loaded.Items[0].Entries) != 1 || !loaded.Items[0].Entries[0].Present {
			return "repair:no-predecessor"
		}
		previous = loaded.Items[0].Entries[0].Identity
	}
	from, through := repair.needFrom, repair.manifest.LastOffset
	for from <= through {
		pages := leader.store.Fetch(context.Background(), []FetchRange{{
			ChannelKey: repair.channelKey, ChannelID: repair.channelID, Expected: state,
			From: from, Through: through, Previous: previous, MaxBytes: vwPageBytes}})
		if len(pages) != 1 || pages[0].Err != nil || len(pages[0].Proposals) == 0 {
			return "repair:fetch-failed"
		}
		for _, proposal := range pages[0].Proposals {
			p := durableProposal{
				first: proposal.Manifest.BaseOffset + 1, last: proposal.Manifest.LastOffset,
				channelKey: repair.channelKey, channelID: repair.channelID, leader: repair.leader,
				manifest: proposal.Manifest, records: proposal.Records,
				committed: minUint64(state.Committed, proposal.Manifest.LastOffset),
			}
			result, err := leader.disp.exchangeReplicate(follower, p, false, true)
			if err != nil || !result.Status.Durable() {
				return "repair:follower-refused"
			}
			_, entries, ok := ch.SealProposalManifest(proposal.Manifest, proposal.Records)
			if !ok || len(entries) == 0 {
				return "repair:bad-page"
			}
			previous = entries[len(entries)-1]
			from = proposal.Manifest.LastOffset + 1
		}
	}
	delete(leader.repairs, follower)
	w.st.repairsDone.Add(1)
	return "repair:done"
}

// ------------------------------------------------------------------ per-transition and per-state oracles

func (w *vw) transitionChecks(event string, before []vwLog) error {
	after := w.snapshot()
	for i := range after {
		if after[i].err != nil {
			return mc.Violatef(w.o.prop+":store-frontier-unreadable", "after %s the log of node %d cannot be read back: %v", event, i+1, after[i].err)
		}
	}
	if w.o.oC02 {
		for i := range after {
			if after[i].committed < before[i].committed {
				return mc.Violatef("C02:committed-watermark-decreased", "%s moved the committed watermark of node %d from %d to %d", event, i+1, before[i].committed, after[i].committed)
			}
			// nothing at or below a replica's committed watermark may change
			for s := uint64(1); s <= before[i].committed; s++ {
				b, _ := before[i].at(s)
				a, ok := after[i].at(s)
				if !ok || a != b {
					return mc.Violatef("C02:committed-entry-changed", "%s changed the entry at committed offset %d of node %d (committed %d)", event, s, i+1, before[i].committed)
				}
			}
		}
	}
	return nil
}

func (w *vw) Check() error {
	if w.dead {
		return nil
	}
	logs := w.snapshot()
	for i := range logs {
		if logs[i].err != nil {
			return mc.Violatef(w.o.prop+":store-frontier-unreadable", "the log of node %d cannot be read back: %v", i+1, logs[i].err)
		}
	}
	if w.o.oC01 {
		for i, n := range w.nodes {
			if !w.ready(n) {
				continue
			}
			for _, ai := range n.mustHold {
				ack := w.acks[ai]
				if ok, replaced := holds(logs[i], ack); !ok {
					fp := "C01:acked-entry-lost-outside-install"
					if replaced {
						fp = "C01:acked-entry-replaced-in-place"
					}
					return mc.Violatef(fp, "writable node %d (authority %s) no longer holds acknowledged c%d [%d,%d] which it held when it became writable / acknowledged it", n.id, authStr(n.hist[len(n.hist)-1]), ack.cmd, ack.receipt.First, ack.receipt.Last)
				}
			}
		}
	}
	if w.o.oC02 {
		for i := range logs {
			l := logs[i]
			if l.committed > l.leo {
				return mc.Violatef("C02:committed-above-log-end", "node %d: committed %d > LEO %d", i+1, l.committed, l.leo)
			}
			var prev ch.EntryIdentity
			for s, id := range l.ids {
				seq := uint64(s + 1)
				if id.Index != seq || id.PreviousIndex != seq-1 || id.PreviousTerm != prev.LeaderTerm || id.PreviousDigest != prev.Digest {
					return mc.Violatef("C02:predecessor-chain-broken", "node %d: entry %d (cmd %s) does not chain to entry %d", i+1, seq, cmdName(id.CommandID), seq-1)
				}
				prev = id
			}
			if e := w.verifyDigests(w.nodes[i], l); e != nil {
				return e
			}
		}
		for a := 0; a < len(logs); a++ {
			for b := a + 1; b < len(logs); b++ {
				m := logs[a].committed
				if logs[b].committed < m {
					m = logs[b].committed
				}
				for s := uint64(1); s <= m; s++ {
					ia, _ := logs[a].at(s)
					ib, _ := logs[b].at(s)
					w.st.committedPairsCompared.Add(1)
					if ia != ib {
						return mc.Violatef("C02:committed-entries-diverge", "offset %d is committed on node %d (cmd %s, term %d, digest %s) and node %d (cmd %s, term %d, digest %s) with different entries",
							s, a+1, cmdName(ia.CommandID), ia.LeaderTerm, d8(ia.Digest), b+1, cmdName(ib.CommandID), ib.LeaderTerm, d8(ib.Digest))
					}
				}
			}
		}
	}
	if w.o.oC03 {
		for i := range logs {
			// within one replica log a command occupies one contiguous range
			ranges := map[ch.CommandID][2]uint64{}
			for s, id := range logs[i].ids {
				seq := uint64(s + 1)
				r, ok := ranges[id.CommandID]
				if !ok {
					ranges[id.CommandID] = [2]uint64{seq, seq}
					continue
				}
				if seq != r[1]+1 {
					return mc.Violatef("C03:command-stored-twice-in-one-log", "node %d stores command %s at [%d,%d] and again at %d", i+1, cmdName(id.CommandID), r[0], r[1], seq)
				}
				ranges[id.CommandID] = [2]uint64{r[0], seq}
			}
			// a committed copy of an acknowledged command lies exactly in its acknowledged range
			for _, ack := range w.acks {
				r, ok := ranges[cmdID(ack.cmd)]
				if !ok || r[0] > logs[i].committed {
					continue
				}
				if r[0] != ack.receipt.First || (r[1] != ack.receipt.Last && r[1] <= logs[i].committed) {
					return mc.Violatef("C03:second-copy-of-acknowledged-command", "node %d holds a committed copy of c%d at [%d,%d]; it was acknowledged as [%d,%d]", i+1, ack.cmd, r[0], r[1], ack.receipt.First, ack.receipt.Last)
				}
			}
		}
	}
	return nil
}

// storedVariant reads the content variant byte of the row stored at seq on node n.
func (w *vw) storedVariant(n *vwNode, seq uint64) (byte, bool) {
	cs, err := n.factory.ChannelStore(w.key, w.id)
	if err != nil {
		return 0, false
	}
	defer cs.Close()
	read, err := cs.ReadLog(context.Background(), channelstore.ReadLogRequest{FromOffset: seq, MaxOffset: seq, MaxBytes: 1 << 20})
	if err != nil || len(read.Records) != 1 || len(read.Records[0].Payload) == 0 {
		return 0, false
	}
	return read.Records[0].Payload[0], true
}

// verifyDigests recomputes every entry digest from the stored record content.
func (w *vw) verifyDigests(n *vwNode, l vwLog) error {
	if l.leo == 0 {
		return nil
	}
	cs, err := n.factory.ChannelStore(w.key, w.id)
	if err != nil {
		return nil
	}
	defer cs.Close()
	read, err := cs.ReadLog(context.Background(), channelstore.ReadLogRequest{FromOffset: 1, MaxOffset: l.leo, MaxBytes: 1 << 20})
	if err != nil || uint64(len(read.Records)) != l.leo {
		return mc.Violatef("C02:log-rows-missing", "node %d: %d rows readable below LEO %d (%v)", n.id, len(read.Records), l.leo, err)
	}
	for i, rec := range read.Records {
		w.st.chainEntriesVerified.Add(1)
		epoch := rec.Epoch
		if epoch == 0 { // a store that does not persist the row's epoch separately from its identity
			epoch = l.ids[i].ChannelEpoch
		}
		if !quorumlog.VerifyEntry(l.ids[i], quorumlog.Record{
			ID: rec.ID, Index: rec.Index, Epoch: epoch, Setting: rec.Setting, FromUID: rec.FromUID, ClientMsgNo: rec.ClientMsgNo,
			ServerTimestampMS: rec.ServerTimestampMS, SyncOnce: rec.SyncOnce, Payload: rec.Payload}) {
			return mc.Violatef("C02:entry-digest-does-not-match-content", "node %d: the stored row at offset %d does not hash to its entry identity", n.id, i+1)
		}
	}
	return nil
}

// ------------------------------------------------------------------ canonical state

// logCanon renders the quorumLog-visible state of one node's channel.
func (w *vw) logCanon(n *vwNode) string {
	st := w.chanState(n)
	if st == nil {
		return "-"
	}
	var b strings.Builder
	fmt.Fprintf(&b, "A%s/f%v/r%v/F%d.%d.%s/hw%d", authStr(st.authority.ID), st.authority.WriteFence.Set(), st.ready,
		st.frontier.LEO, st.frontier.Committed, d8(st.frontier.TailIdentity.Digest), st.hw)
	if st.pending != nil {
		m := st.pending.proposal.manifest
		fmt.Fprintf(&b, "/P%s@%d-%d:%s", cmdName(m.CommandID), st.pending.proposal.first, st.pending.proposal.last, d8(m.Digest))
	}
	b.WriteString("/R")
	for _, c := range st.order {
		r := st.retained[c]
		fmt.Fprintf(&b, "%s:%v:%d-%d:%s,", cmdName(c), r.durable, r.receipt.First, r.receipt.Last, d8(r.proposal.manifest.Digest))
	}
	if len(st.retained) != len(st.order) {
		fmt.Fprintf(&b, "!retained%d", len(st.retained))
	}
	return b.String()
}

func (w *vw) Canon() string {
	if w.dead {
		return "dead"
	}
	logs := w.snapshot()
	var b strings.Builder
	fmt.Fprintf(&b, "cp%d.%d.%d/L%d/f%v i%d c%d o%d t%v|", w.cp.epoch, w.cp.term, w.cp.fence, w.cp.leader, w.cp.fenced, w.installsUsed, w.crashesUsed, w.outagesUsed, w.tainted)
	for i, n := range w.nodes {
		fmt.Fprintf(&b, "n%d d%v S%d.%d[", n.id, n.down, logs[i].leo, logs[i].committed)
		for _, id := range logs[i].ids {
			b.WriteString(d8(id.Digest))
			b.WriteByte(',')
		}
		b.WriteString("] Q")
		b.WriteString(w.logCanon(n))
		b.WriteString(" M")
		if n.issued != nil {
			fmt.Fprintf(&b, "i%s/%v", authStr(n.issued.ID), n.issued.WriteFence.Set())
		}
		for _, h := range n.hist {
			b.WriteString("h" + authStr(h))
		}
		fmt.Fprintf(&b, "f%vw%v", n.fenced, n.writable)
		if w.ready(n) {
			fmt.Fprintf(&b, "m%v", n.mustHold)
		}
		if n.repairAuth != nil && len(n.repairs) > 0 {
			for _, f := range []ch.NodeID{1, 2, 3} {
				if r, ok := n.repairs[f]; ok {
					fmt.Fprintf(&b, "r%d:%d-%d:%s", f, r.needFrom, r.manifest.LastOffset, d8(r.manifest.Digest))
				}
			}
		}
		b.WriteByte('|')
	}
	tr := make([]string, len(w.trailing))
	for i, t := range w.trailing {
		tr[i] = trailingLabel(t) + ":" + d8(t.proposal.manifest.Digest) + ":" + strconv.FormatUint(t.proposal.committed, 10)
	}
	sort.Strings(tr)
	b.WriteString("T" + strings.Join(tr, ";") + "|K")
	for _, a := range w.acks {
		fmt.Fprintf(&b, "c%d%c:%d-%d:%s:%s;", a.cmd, a.variant, a.receipt.First, a.receipt.Last, authStr(a.receipt.Authority), d8(a.ids[len(a.ids)-1].Digest))
	}
	b.WriteString("|P")
	for k := 1; k <= w.o.cmds; k++ {
		fmt.Fprintf(&b, "%d", w.proposed[k])
	}
	return b.String()
}
