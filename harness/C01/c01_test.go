package replication

// C01 - Acknowledged channel appends survive failover and crashes.
// Entry point of the shared replication world (world_test.go) with the C01 oracle.

import (
	"testing"

	"github.com/WuKongIM/WuKongIM/pkg/zzverif/ev"
	"github.com/WuKongIM/WuKongIM/pkg/zzverif/mc"
)

func TestVerifC01(t *testing.T) {
	r := ev.Start(t, "C01")
	defer r.Finish()
	th := r.Thorough()
	o := vwOpts{
		prop: "C01", cmds: ev.Pick(r, 2, 3), maxInstalls: ev.Pick(r, 2, 3), maxCrashes: ev.Pick(r, 1, 2), maxOutages: ev.Pick(r, 1, 2), retained: 2,
		evSame: true, evTrailing: true, evHedge: true, evLocalLost: true, evOrder: th, evCrashReplace: th, evRepair: th,
		oC01: true, reportKF: true,
	}
	st := &vwStats{}
	depth, devs := vwDebugBounds(ev.Pick(r, 5, 6), ev.Pick(r, 2, 2))
	res := mc.Run(r, mc.System{
		Name: "replication-world/C01", New: func() mc.Instance { return newVW(o, st) },
		MaxDepth: depth, MaxDeviations: devs,
		Bounds: vwBounds(o),
		Note:   "N=3 voters, Q=2, one channel; initial state: node 1 installed under authority (1,1,1) on empty logs; |down| <= N-Q",
	})
	vwAssumptions(r)
	vwCounters(r, st)
	if r.Replay() != nil {
		return
	}
	r.Guard("acknowledged-commits", st.acks.Load() >= 10, "%d acknowledged receipts recorded", st.acks.Load())
	r.Guard("installs-with-recovery", st.installOK.Load() >= 10 && st.installBarrier.Load() >= 1, "%d successful recovering installs, %d with a barrier write", st.installOK.Load(), st.installBarrier.Load())
	r.Guard("installs-failed-closed", st.installFailedClosed.Load() >= 1, "%d installs failed closed", st.installFailedClosed.Load())
	r.Guard("trailing-delivered", st.trailingDelivered.Load() >= 1, "%d trailing writes delivered", st.trailingDelivered.Load())
	r.Guard("states", res.States >= 100, "%d states", res.States)
}
