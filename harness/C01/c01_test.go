package replication

// C01 - Acknowledged channel appends survive failover and crashes.
// Entry point of the shared replication world (world_test.go) with the C01 oracle.

import (
	"testing"

	"github.com/WuKongIM/WuKongIM/pkg/zzverif/ev"
)

func TestVerifC01(t *testing.T) {
	r := ev.Start(t, "C01")
	defer r.Finish()
	th := r.Thorough()
	o := vwOpts{
		prop: "C01", cmds: ev.Pick(r, 2, 3), maxInstalls: ev.Pick(r, 2, 3), maxCrashes: 1, maxOutages: 1, retained: 2,
		evSame: true, evTrailing: true, evHedge: true, evLocalLost: true, evOrder: th, evCrashReplace: th, evRepair: th,
		oC01: true, reportKF: true,
	}
	st := &vwStats{}
	note := "N=3 voters, Q=2, one channel; initial state: node 1 installed under authority (1,1,1) on empty logs; |down| <= N-Q; a path is cut (PruneAfter) at a transition that matches KF-C01-1"
	res := vwRun(r, "replication-world/C01/deep", o, st, ev.Pick(r, 4, 5), ev.Pick(r, 1, 1), note)
	res2 := vwRun(r, "replication-world/C01/faulty", o, st, ev.Pick(r, 3, 4), ev.Pick(r, 2, 2), note)
	res.States += res2.States
	vwAssumptions(r)
	vwCounters(r, st)
	if r.Replay() != nil {
		return
	}
	r.Guard("acknowledged-commits", st.acks.Load() >= 10, "%d acknowledged receipts recorded", st.acks.Load())
	r.Guard("installs-with-recovery", st.installOK.Load() >= 10 && st.installBarrier.Load() >= 1, "%d successful recovering installs, %d with a barrier write", st.installOK.Load(), st.installBarrier.Load())
	r.Guard("installs-failed-closed", st.installFailedClosed.Load() >= 1, "%d installs failed closed", st.installFailedClosed.Load())
	r.Guard("trailing-delivered", st.trailingDelivered.Load() >= 1, "%d trailing writes delivered", st.trailingDelivered.Load())
	r.Guard("states", res.States >= 100, "%d states", res.States)
}
