package replication

// C01 - topology section (strengthening of the replication world).
//
// The shared world (world_test.go) is fixed at N=3 voters / write quorum Q=2. The
// property, however, is stated for "a channel with N voters and write quorum Q", and its
// safety argument needs that any two write quorums intersect (2Q > N): a receipt is
// issued with the entry on Q voters, the tolerated N-Q voters are lost, and the next
// leader's recovery must still see the entry on one of the Q voters it reaches. The only
// place where the code enforces 2Q > N is validateRecoveryTopology (behind
// validAuthority / Install, recoverQuorumPrefix, repairQuorumPrefix and the barrier).
//
// This file adds, WITHOUT touching world_test.go (shared with C02..C04):
//
//   vtWorld  a wrapper around *vw with N nodes / write quorum Q. It re-uses the world's
//            seams unchanged (vwDisp dispatcher, vwStore, readStore/snapshot, install,
//            applyDeliver, Check, Canon, transitionChecks) and re-states, parameterised
//            by (N,Q), only what world_test.go hard-wires to N=3/Q=2: the authority
//            builder, the outage budget |down| <= N-Q, freshLog (MaxVoters) and the C01
//            part of the commit / install oracle (same fingerprints as the world).
//
//   section "topologies" (enumeration): every voter count N in 1..6 (thorough 1..8), every write quorum
//            Q in 0..N+1 and the leader at the first / last voter: the REAL
//            quorumLog.Install on a fresh N-node world. A topology whose write quorums
//            need not intersect (1 <= Q, 2Q <= N) must be refused; if it is accepted the
//            loss is demonstrated on the real code (commit on Q voters, those Q voters
//            down - within the N-Q budget -, next term installed on the disjoint rest).
//            An accepted strict-majority topology must operate (Install, Commit,
//            failover with all voters up, Commit).
//
//   section "topology-failover" (enumeration): for every strict-majority topology with
//            N in 1..6 (thorough 1..7), trailing writes {never delivered, all delivered}, every set D of
//            at most N-Q voters down and every surviving node m: commit c1 at node 1,
//            take D down, install the next term at m, commit c2 at m - judged by the
//            C01 oracle.
//
//   two small mc boxes (N=4,Q=3) and (N=5,Q=3) over the same event alphabet as the world
//            (commit / next-term install / trailing delivery / crash / down / up with
//            deviation-bounded environment answers); quick: depth 3, 1 deviation each;
//            thorough: (4,3) depth 5 / 1 deviation, (5,3) depth 4 / 2 deviations, plus
//            (2,2), (4,4) and (5,4) at depth 4.

import (
	"context"
	"encoding/json"
	"errors"
	"fmt"
	"sort"
	"strconv"
	"strings"
	"testing"
	"time"

	ch "github.com/WuKongIM/WuKongIM/pkg/channel"
	channelstore "github.com/WuKongIM/WuKongIM/pkg/channel/store"
	"github.com/WuKongIM/WuKongIM/pkg/zzverif/ev"
	"github.com/WuKongIM/WuKongIM/pkg/zzverif/mc"
)

const vtMaxVoters = 8 // MaxVoters of every quorumLog: never the reason for a refusal (N <= 6)

// vtWorld is an N-node / quorum-Q world built on the seams of the shared world.
type vtWorld struct {
	*vw
	n, q   int
	voters []ch.NodeID
}

func newVT(o vwOpts, st *vwStats, n, q int) *vtWorld {
	w := &vw{o: o, st: st, key: vwBaseKey, id: vwBaseID, ackOf: map[int]int{}, proposed: map[int]byte{}}
	t := &vtWorld{vw: w, n: n, q: q}
	for i := 1; i <= n; i++ {
		nd := &vwNode{id: ch.NodeID(i), repairs: map[ch.NodeID]followerRepair{}}
		nd.factory = channelstore.NewMemoryFactory()
		store, err := NewStoreAdapter(StoreAdapterConfig{Factory: nd.factory, MaxBatchItems: 4, MaxBatchBytes: 1 << 20})
		if err != nil {
			panic(err)
		}
		nd.store = store
		server, err := NewExchangeServer(ExchangeServerConfig{LocalNode: nd.id, Store: store, MaxBatchItems: 4, MaxBatchBytes: 1 << 20})
		if err != nil {
			panic(err)
		}
		nd.server = server
		nd.disp = &vwDisp{w: w, n: nd}
		w.nodes = append(w.nodes, nd)
		t.voters = append(t.voters, nd.id)
	}
	for _, nd := range w.nodes {
		t.freshLog(nd)
	}
	w.cp = vwControlPlane{epoch: 1, term: 1, fence: 1, leader: 1}
	w.resetObs()
	return t
}

// newVTInstalled is the initial state of an mc box: node 1 installed under (1,1,1).
func newVTInstalled(o vwOpts, st *vwStats, n, q int) *vtWorld {
	t := newVT(o, st, n, q)
	if _, err := t.installInitial(1); err != nil {
		panic(fmt.Sprintf("verif: initial install of the N=%d Q=%d world failed: %v", n, q, err))
	}
	return t
}

// freshLog re-states vw.freshLog with MaxVoters large enough for N voters.
func (t *vtWorld) freshLog(n *vwNode) {
	log, err := newQuorumLog(quorumLogConfig{
		Local: n.id, Store: &vwStore{w: t.vw, n: n}, Recovery: n.disp, Durability: n.disp, RepairAuthorities: n.disp,
		RecoveryTimeout: time.Hour, RecoveryPageBytes: vwPageBytes,
		MaxChannels: 4, MaxVoters: vtMaxVoters, MaxProposalRecords: 4, MaxProposalBytes: 4096, MaxRetainedCommands: t.o.retained,
	})
	if err != nil {
		panic(err)
	}
	n.log = log
	n.hist = nil
	n.fenced = false
	n.writable = false
	n.mustHold = nil
	n.repairAuth = nil
	n.repairs = map[ch.NodeID]followerRepair{}
	n.crashing = false
}

func (t *vtWorld) crash(n *vwNode) {
	t.freshLog(n)
	kept := t.trailing[:0]
	for _, tr := range t.trailing {
		if tr.from != n.id {
			kept = append(kept, tr)
		}
	}
	t.trailing = kept
}

func (t *vtWorld) authority(leader ch.NodeID) Authority {
	return Authority{
		Key: t.key, ChannelID: t.id,
		ID:     AuthorityID{ChannelEpoch: t.cp.epoch, LeaderTerm: t.cp.term, FenceVersion: t.cp.fence},
		Leader: leader, Voters: append([]ch.NodeID(nil), t.voters...), WriteQuorum: t.q,
	}
}

// installInitial installs the first authority (1,1,1) at leader on the empty world.
func (t *vtWorld) installInitial(leader ch.NodeID) (Installed, error) {
	t.cp.leader = leader
	a := t.authority(leader)
	n := t.node(leader)
	cp := a
	n.issued = &cp
	res, err := t.install(n, a)
	t.snapOK = false
	return res, err
}

func (t *vtWorld) downCount() int {
	c := 0
	for _, n := range t.nodes {
		if n.down {
			c++
		}
	}
	return c
}

func (t *vtWorld) Events() []string {
	w := t.vw
	if w.dead {
		return nil
	}
	var evs []string
	for _, n := range w.nodes {
		if len(n.hist) == 0 {
			continue
		}
		for k := 1; k <= w.o.cmds; k++ {
			evs = append(evs, fmt.Sprintf("commit:%d:c%d", n.id, k))
		}
	}
	if w.installsUsed < w.o.maxInstalls {
		for _, n := range w.nodes {
			evs = append(evs, fmt.Sprintf("install:%d:next", n.id))
		}
	}
	if w.o.evTrailing {
		seen := map[string]bool{}
		for _, tr := range w.trailing {
			if w.node(tr.from).down || w.node(tr.to).down {
				continue
			}
			l := "deliver:" + trailingLabel(tr)
			if !seen[l] {
				seen[l] = true
				evs = append(evs, l)
			}
		}
	}
	if w.crashesUsed < w.o.maxCrashes {
		for _, n := range w.nodes {
			if len(n.hist) > 0 || w.hasTrailingFrom(n.id) {
				evs = append(evs, fmt.Sprintf("crash:%d", n.id))
			}
		}
	}
	for _, n := range w.nodes {
		if n.down {
			evs = append(evs, fmt.Sprintf("up:%d", n.id))
		}
	}
	if t.downCount() < t.n-t.q && w.outagesUsed < w.o.maxOutages { // |down| <= N-Q
		for _, n := range w.nodes {
			if !n.down {
				evs = append(evs, fmt.Sprintf("down:%d", n.id))
			}
		}
	}
	return evs
}

func (t *vtWorld) Apply(event string, env *mc.Env) (obs string, err error) {
	w := t.vw
	w.env = env
	defer func() { w.env = nil }()
	before := w.snapshot()
	w.snapOK = false
	w.resetObs()
	parts := strings.Split(event, ":")
	defer func() {
		if p := recover(); p != nil {
			obs = "panic"
			err = mc.Violatef("C01:panic-in-"+parts[0], "%s panicked: %v", event, p)
		}
	}()
	switch parts[0] {
	case "commit":
		id, _ := strconv.Atoi(parts[1])
		k, _ := strconv.Atoi(parts[2][1:])
		obs, err = t.applyCommit(w.node(ch.NodeID(id)), k, before)
	case "install":
		id, _ := strconv.Atoi(parts[1])
		if parts[2] != "next" {
			panic("verif: unknown install kind " + parts[2])
		}
		obs, err = t.applyInstallNext(w.node(ch.NodeID(id)), before)
	case "deliver":
		obs, err = w.applyDeliver(strings.TrimPrefix(event, "deliver:"))
	case "crash":
		id, _ := strconv.Atoi(parts[1])
		w.crashesUsed++
		t.crash(w.node(ch.NodeID(id)))
		obs = "crashed"
	case "down":
		id, _ := strconv.Atoi(parts[1])
		w.node(ch.NodeID(id)).down = true
		w.outagesUsed++
		obs = "down"
	case "up":
		id, _ := strconv.Atoi(parts[1])
		w.node(ch.NodeID(id)).down = false
		obs = "up"
	default:
		panic("verif: unknown event " + event)
	}
	if w.obs.heldLocal != nil {
		panic("verif: parked local completion was never released")
	}
	if err != nil {
		return obs, err
	}
	if e := w.transitionChecks(event, before); e != nil {
		return obs, e
	}
	return obs, nil
}

func (t *vtWorld) Canon() string {
	c := t.vw.Canon()
	if c == "" || c == "dead" {
		return c
	}
	return fmt.Sprintf("N%dQ%d|", t.n, t.q) + c
}

// applyInstallNext re-states the "next" branch of vw.applyInstall with the C01 oracle.
func (t *vtWorld) applyInstallNext(n *vwNode, before []vwLog) (string, error) {
	w := t.vw
	w.cp.term++
	w.cp.fence++
	w.installsUsed++
	w.cp.leader, w.cp.fenced = n.id, false
	a := t.authority(n.id)
	cp := a
	n.issued = &cp
	res, err := w.install(n, a)
	after := w.snapshot()
	recoveryRan := w.obs.probes > 0
	obs := "install-next:" + errName(err)
	if err == nil {
		obs += fmt.Sprintf(":leo%d", res.LEO)
		w.st.installOK.Add(1)
		if w.obs.storeWrites > 0 {
			w.st.installBarrier.Add(1)
		}
	} else {
		w.st.installFailedClosed.Add(1)
	}
	if recoveryRan || err == nil {
		if e := t.checkInstallAgainstAcks(n, a, res, err == nil, before, after); e != nil {
			return obs, e
		}
	}
	if err == nil {
		n.mustHold = n.mustHold[:0]
		for i := range w.acks {
			n.mustHold = append(n.mustHold, i)
		}
	}
	return obs, nil
}

// checkInstallAgainstAcks re-states vw.checkInstallAgainstAcks with the write quorum of
// this world; fingerprints are those of the shared world, plus the relation
// "holders-disjoint-from-responders" (|H|>=Q, |R|>=Q, H∩R empty), which cannot occur when
// write quorums intersect.
func (t *vtWorld) checkInstallAgainstAcks(n *vwNode, a Authority, res Installed, succeeded bool, before, after []vwLog) error {
	w := t.vw
	ni := int(n.id) - 1
	for _, ack := range w.acks {
		present, replaced := holds(after[ni], ack)
		if present {
			continue
		}
		heldBefore, _ := holds(before[ni], ack)
		if !succeeded && !heldBefore {
			continue // a failed Install at a non-holder is never a violation
		}
		holders := map[ch.NodeID]bool{}
		inter := 0
		resp := w.responders()
		for i := range w.nodes {
			if ok, _ := holds(before[i], ack); ok {
				holders[ch.NodeID(i+1)] = true
				if resp[ch.NodeID(i+1)] {
					inter++
				}
			}
		}
		responders := len(resp)
		kind := "install-writable-without-acked-entry"
		if heldBefore {
			kind = "acked-entry-truncated-by-install"
			if replaced {
				kind = "acked-entry-replaced-by-install"
			}
			if !succeeded {
				kind = "acked-entry-truncated-by-failed-install"
			}
		}
		var rel string
		switch {
		case responders < t.q:
			rel = "responders-below-quorum"
		case len(holders) < t.q:
			rel = "holders-below-quorum-before-install"
		case inter == 0:
			rel = "holders-disjoint-from-responders"
		case inter < t.q:
			rel = "holders-intersect-responders-below-quorum"
		default:
			rel = "holders-intersect-responders-at-quorum"
		}
		outcome := fmt.Sprintf("succeeded with LEO %d", res.LEO)
		if !succeeded {
			outcome = "applied its recovery replacement and then failed"
		}
		msg := fmt.Sprintf("N=%d Q=%d: Install(%s) at node %d %s; acknowledged %s [%d,%d] (authority %s, holders %s) is not in its log afterwards (held before: %v); probe responders (all rounds) %s, |H∩R|=%d",
			t.n, t.q, authStr(a.ID), n.id, outcome, "c"+strconv.Itoa(ack.cmd), ack.receipt.First, ack.receipt.Last, authStr(ack.receipt.Authority),
			nodeSet(holders), heldBefore, nodeSet(resp), inter)
		known := rel == "holders-intersect-responders-below-quorum" && kind != "acked-entry-replaced-by-install"
		if known {
			if kind != "install-writable-without-acked-entry" {
				w.st.kfHits.Add(1)
			} else {
				w.st.kfSiblingHits.Add(1)
			}
			return mc.PruneAfter(mc.Violatef("C01:"+kind+":"+rel, "%s", msg))
		}
		return mc.Violatef("C01:"+kind+":"+rel, "%s", msg)
	}
	if len(w.acks) > 0 && succeeded {
		maxLast := uint64(0)
		for _, ack := range w.acks {
			if ack.receipt.Last > maxLast {
				maxLast = ack.receipt.Last
			}
		}
		if res.LEO < maxLast {
			return mc.Violatef("C01:installed-leo-below-acknowledged", "N=%d Q=%d: Install(%s) at node %d returned LEO %d below the highest acknowledged sequence %d", t.n, t.q, authStr(a.ID), n.id, res.LEO, maxLast)
		}
	}
	return nil
}

// applyCommit re-states the C01 part of vw.applyCommit (canonical content only).
func (t *vtWorld) applyCommit(n *vwNode, k int, before []vwLog) (string, error) {
	w := t.vw
	cur := n.hist[len(n.hist)-1]
	records := cmdRecords(k, 'a', cur.ChannelEpoch)
	ni := int(n.id) - 1
	w.proposed[k] |= 1
	receipt, err := n.log.Commit(context.Background(), Proposal{Key: w.key, Expected: cur, CommandID: cmdID(k), Records: records,
		ServerAllocatedMessageIDs: cmdServerAllocated(k)})
	after := w.snapshot()
	obs := "commit:" + errName(err)
	if err != nil {
		if errors.Is(err, ch.ErrBackpressured) {
			w.st.commitBackpressured.Add(1)
		} else if errors.Is(err, errDurableQuorumUnavailable) {
			w.st.commitUnavailable.Add(1)
		}
		return obs, nil
	}
	obs += fmt.Sprintf(":[%d,%d]", receipt.First, receipt.Last)
	if receipt.CommandID != cmdID(k) || receipt.Last < receipt.First || receipt.HW < receipt.Last {
		return obs, mc.Violatef("C01:malformed-receipt", "Commit(c%d) at node %d returned malformed receipt %+v", k, n.id, receipt)
	}
	if _, ok := w.ackOf[k]; ok {
		return obs, nil // exact retry of an acknowledged command: judged by C03 in the N=3 world
	}
	ids := make([]ch.EntryIdentity, 0, receipt.Last-receipt.First+1)
	for s := receipt.First; s <= receipt.Last; s++ {
		id, ok := after[ni].at(s)
		if !ok || id.CommandID != cmdID(k) {
			return obs, mc.Violatef("C01:receipt-without-local-entry", "N=%d Q=%d: Commit(c%d) at node %d returned [%d,%d] but its own log does not hold the command there (LEO %d)", t.n, t.q, k, n.id, receipt.First, receipt.Last, after[ni].leo)
		}
		ids = append(ids, id)
	}
	ack := vwAck{cmd: k, variant: 'a', receipt: receipt, ids: ids, by: n.id}
	holders := map[ch.NodeID]bool{}
	for i := range w.nodes {
		if ok, _ := holds(after[i], ack); ok {
			holders[ch.NodeID(i+1)] = true
		}
	}
	if len(holders) < t.q {
		return obs, mc.Violatef("C01:acknowledged-with-holders-below-quorum", "N=%d Q=%d: Commit(c%d) at node %d acknowledged [%d,%d] while only %s hold the entries", t.n, t.q, k, n.id, receipt.First, receipt.Last, nodeSet(holders))
	}
	for _, old := range w.acks {
		if old.receipt.First > receipt.Last {
			continue
		}
		if ok, replaced := holds(after[ni], old); !ok {
			what := "omits"
			if replaced {
				what = "replaces"
			}
			return obs, mc.Violatef("C01:receipt-issued-on-log-that-"+what+"-acked-entry", "N=%d Q=%d: Commit(c%d) at node %d (authority %s) acknowledged [%d,%d] on a log that %s acknowledged c%d [%d,%d]", t.n, t.q, k, n.id, authStr(cur), receipt.First, receipt.Last, what, old.cmd, old.receipt.First, old.receipt.Last)
		}
	}
	w.acks = append(w.acks, ack)
	w.ackOf[k] = len(w.acks) - 1
	n.mustHold = append(n.mustHold, len(w.acks)-1)
	w.st.acks.Add(1)
	return obs, nil
}

// holdersOf returns the nodes whose durable log holds the acknowledged command k now.
func (t *vtWorld) holdersOf(k int) map[ch.NodeID]bool {
	out := map[ch.NodeID]bool{}
	ai, ok := t.ackOf[k]
	if !ok {
		return out
	}
	logs := t.snapshot()
	for i := range t.nodes {
		if ok, _ := holds(logs[i], t.acks[ai]); ok {
			out[ch.NodeID(i+1)] = true
		}
	}
	return out
}

// ------------------------------------------------------------------ scripted cases (enumerations)

// vtScript is one enumerated case and, at the same time, its replay artefact.
type vtScript struct {
	System string   `json:"system"`
	N      int      `json:"voters"`
	Q      int      `json:"write_quorum"`
	Leader int      `json:"first_leader"`
	Events []string `json:"events"`
}

type vtStep struct {
	Event string `json:"event"`
	Obs   string `json:"observed"`
}

func vtOpts() vwOpts {
	return vwOpts{prop: "C01", cmds: 2, maxInstalls: 2, maxCrashes: 1, maxOutages: 8, retained: 2,
		evTrailing: true, evHedge: true, evLocalLost: true, oC01: true, reportKF: true}
}

func violationOf(err error) (fp, msg string) {
	var v *mc.V
	if errors.As(err, &v) {
		return v.FP, v.Msg
	}
	return "C01:unclassified-oracle-error", err.Error()
}

// step applies one event with default environment answers and evaluates the invariant.
func (t *vtWorld) step(event string) (string, error) {
	obs, err := t.Apply(event, nil)
	if err == nil {
		err = t.Check()
	}
	return obs, err
}

// deliverAll delivers every parked trailing write (labels in Events() order).
func (t *vtWorld) deliverAll(trace *[]vtStep, script *vtScript) error {
	for guard := 0; guard < 64; guard++ {
		next := ""
		for _, e := range t.Events() {
			if strings.HasPrefix(e, "deliver:") {
				next = e
				break
			}
		}
		if next == "" {
			return nil
		}
		obs, err := t.step(next)
		*trace = append(*trace, vtStep{next, obs})
		script.Events = append(script.Events, next)
		if err != nil {
			return err
		}
	}
	panic("verif: trailing writes never drain")
}

func vtMajority(n, q int) bool { return q >= 1 && q <= n && 2*q > n }

type vtEnumStats struct {
	refusedMajority, inoperableMajority []string
	acceptedMajority, refused           int
	failoverCases, failoverInstallOK    int
	failoverKept, failoverKF            int
	failoverFailedClosed                int
}

// vtTopologyCase evaluates one (N, Q, leader) case of section "topologies".
func vtTopologyCase(r *ev.R, e *ev.Enum, es *vtEnumStats, st *vwStats, n, q, leader int) {
	script := vtScript{System: "topologies", N: n, Q: q, Leader: leader}
	var trace []vtStep
	report := func(fp, msg string) {
		r.Violation(ev.Violation{Fingerprint: fp, System: "topologies", Replay: script,
			Message: fmt.Sprintf("topologies: %s | N=%d Q=%d first leader %d, steps %+v", msg, n, q, leader, trace)})
	}
	key := fmt.Sprintf("N%d/Q%d/L%d", n, q, leader)
	majority := vtMajority(n, q)
	t := newVT(vtOpts(), st, n, q)
	var res Installed
	var err error
	if p := ev.Recover(func() { res, err = t.installInitial(ch.NodeID(leader)) }); p != nil {
		report("C01:panic-in-install-of-topology", fmt.Sprintf("Install of voters 1..%d, write quorum %d panicked: %v", n, q, p))
		e.Case(key, true, "install-panicked")
		return
	}
	ln := t.node(ch.NodeID(leader))
	accepted := err == nil || t.ready(ln)
	trace = append(trace, vtStep{fmt.Sprintf("install:%d:first", leader), "install:" + errName(err)})
	if !accepted {
		es.refused++
		if majority {
			es.refusedMajority = append(es.refusedMajority, fmt.Sprintf("%s:%v", key, err))
		}
		if t.obs.storeWrites > 0 || t.obs.replaces > 0 {
			report("C01:refused-topology-install-wrote", fmt.Sprintf("refused Install (voters 1..%d, write quorum %d) issued %d store writes / %d replacements", n, q, t.obs.storeWrites, t.obs.replaces))
		}
		e.Case(key, true, map[bool]string{true: "majority-refused:", false: "refused:"}[majority]+errName(err))
		return
	}
	run := func(event string) (string, error) {
		obs, verr := t.step(event)
		trace = append(trace, vtStep{event, obs})
		script.Events = append(script.Events, event)
		return obs, verr
	}
	c1 := fmt.Sprintf("commit:%d:c1", leader)
	switch {
	case majority:
		// an accepted strict-majority topology must operate with all voters up
		es.acceptedMajority++
		inoperable := func(what string) {
			es.inoperableMajority = append(es.inoperableMajority, key+":"+what)
			e.Case(key, true, "majority-accepted:inoperable:"+what)
		}
		obs, verr := run(c1)
		if verr != nil {
			report(violationOf(verr))
			e.Case(key, true, "majority-accepted:violation")
			return
		}
		if !strings.HasPrefix(obs, "commit:ok") {
			inoperable("first-commit-" + obs)
			return
		}
		holders := t.holdersOf(1)
		// failover with every voter up: to the first non-holder, else to another voter
		m := 0
		for i := 1; i <= n && m == 0; i++ {
			if !holders[ch.NodeID(i)] {
				m = i
			}
		}
		if m == 0 {
			m = leader%n + 1
		}
		obs, verr = run(fmt.Sprintf("install:%d:next", m))
		if verr != nil {
			report(violationOf(verr))
			e.Case(key, true, "majority-accepted:violation")
			return
		}
		if !strings.HasPrefix(obs, "install-next:ok") {
			inoperable("failover-" + obs)
			return
		}
		obs, verr = run(fmt.Sprintf("commit:%d:c2", m))
		if verr != nil {
			report(violationOf(verr))
			e.Case(key, true, "majority-accepted:violation")
			return
		}
		if !strings.HasPrefix(obs, "commit:ok") {
			inoperable("commit-after-failover-" + obs)
			return
		}
		e.Case(key, true, fmt.Sprintf("majority-accepted:operable:holders%d", len(holders)))
		if n >= 4 || (n == 1 && leader == 1) {
			r.Sample(map[string]any{"system": "topologies", "case": key, "steps": trace})
		}
	case q >= 1 && q <= n:
		// 2Q <= N: two write quorums need not intersect. Demonstrate the loss on the real
		// code: acknowledge on Q voters, lose exactly those (Q <= N-Q is within the
		// budget), install the next term on the rest (N-Q >= Q voters answer).
		witness := "no receipt could be obtained for the demonstration"
		obs, verr := run(c1)
		if verr == nil && strings.HasPrefix(obs, "commit:ok") {
			holders := t.holdersOf(1)
			m := 0
			for i := 1; i <= n; i++ {
				if holders[ch.NodeID(i)] {
					if len(holders) <= n-q {
						if _, verr = run(fmt.Sprintf("down:%d", i)); verr != nil {
							break
						}
					}
				} else if m == 0 {
					m = i
				}
			}
			witness = fmt.Sprintf("c1 acknowledged with holders %s", nodeSet(holders))
			if verr == nil && m != 0 && len(holders) <= n-q {
				obs, verr = run(fmt.Sprintf("install:%d:next", m))
				if verr != nil {
					_, msg := violationOf(verr)
					witness += "; holders down, next term at node " + strconv.Itoa(m) + ": " + msg
				} else {
					witness += "; holders down, next term at node " + strconv.Itoa(m) + ": " + obs + " (entry kept or install failed closed)"
				}
			}
		} else if verr != nil {
			_, msg := violationOf(verr)
			witness = "first commit: " + msg
		}
		report("C01:non-intersecting-write-quorum-accepted", fmt.Sprintf("Install accepted %d voters with write quorum %d (2Q <= N: two write quorums need not intersect; the unchanged code answers ErrInvalidConfig). Demonstration: %s", n, q, witness))
		e.Case(key, true, "non-intersecting-accepted")
	default:
		// Q <= 0 or Q > N was accepted: no quorum-durable acknowledgement can exist; only
		// a receipt issued under such an authority contradicts the property.
		obs, verr := run(c1)
		if verr != nil {
			report(violationOf(verr))
		} else if strings.HasPrefix(obs, "commit:ok") {
			report("C01:receipt-issued-under-unsatisfiable-write-quorum", fmt.Sprintf("Commit under an authority of %d voters with write quorum %d returned a receipt (%s)", n, q, obs))
		}
		e.Case(key, true, "unsatisfiable-accepted:"+obs)
	}
	_ = res
}

// vtSubsets lists every subset of {1..n} with at most max elements (ascending members,
// ordered by size, then lexicographically).
func vtSubsets(n, max int) [][]int {
	var out [][]int
	for mask := 0; mask < 1<<n; mask++ {
		var s []int
		for i := 0; i < n; i++ {
			if mask&(1<<i) != 0 {
				s = append(s, i+1)
			}
		}
		if len(s) <= max {
			out = append(out, s)
		}
	}
	sort.SliceStable(out, func(i, j int) bool {
		if len(out[i]) != len(out[j]) {
			return len(out[i]) < len(out[j])
		}
		return fmt.Sprint(out[i]) < fmt.Sprint(out[j])
	})
	return out
}

// vtFailoverCase: commit c1 at node 1 (default answers: the entry is on the leader and its
// Q-1 preferred followers; the other followers get parked trailing writes), optionally
// deliver every trailing write, take the voters in down out (|down| <= N-Q), install the
// next term at m, commit c2 at m.
func vtFailoverCase(r *ev.R, e *ev.Enum, es *vtEnumStats, st *vwStats, n, q int, deliver bool, down []int, m int, replaying bool) {
	script := vtScript{System: "topology-failover", N: n, Q: q, Leader: 1}
	var trace []vtStep
	key := fmt.Sprintf("N%d/Q%d/deliver%v/down%v/install%d", n, q, deliver, down, m)
	t := newVT(vtOpts(), st, n, q)
	if _, err := t.installInitial(1); err != nil {
		es.refusedMajority = append(es.refusedMajority, fmt.Sprintf("%s:%v", key, err))
		e.Case(key, true, "majority-refused:"+errName(err))
		return
	}
	es.failoverCases++
	outcome := ""
	finish := func(verr error) {
		fp, msg := violationOf(verr)
		if strings.HasSuffix(fp, ":holders-intersect-responders-below-quorum") {
			es.failoverKF++
		}
		r.Violation(ev.Violation{Fingerprint: fp, System: "topology-failover", Replay: script,
			Message: fmt.Sprintf("topology-failover: %s | case %s, steps %+v", msg, key, trace)})
		if replaying {
			r.MarkReplayReproduced()
		}
		e.Case(key, true, outcome+"violation:"+strings.TrimPrefix(fp, "C01:"))
	}
	run := func(event string) (string, error) {
		obs, verr := t.step(event)
		trace = append(trace, vtStep{event, obs})
		script.Events = append(script.Events, event)
		return obs, verr
	}
	obs, verr := run("commit:1:c1")
	if verr != nil {
		finish(verr)
		return
	}
	if !strings.HasPrefix(obs, "commit:ok") {
		es.inoperableMajority = append(es.inoperableMajority, key+":first-commit-"+obs)
		e.Case(key, true, "inoperable:first-commit")
		return
	}
	if deliver {
		if verr = t.deliverAll(&trace, &script); verr != nil {
			finish(verr)
			return
		}
	}
	holders := t.holdersOf(1)
	inter := 0
	isDown := map[int]bool{}
	for _, d := range down {
		isDown[d] = true
	}
	for i := 1; i <= n; i++ {
		if holders[ch.NodeID(i)] && !isDown[i] {
			inter++
		}
	}
	outcome = fmt.Sprintf("holders%d/up-holders%s/", len(holders), map[bool]string{true: ">=Q", false: "<Q"}[inter >= q])
	for _, d := range down {
		if _, verr = run(fmt.Sprintf("down:%d", d)); verr != nil {
			finish(verr)
			return
		}
	}
	obs, verr = run(fmt.Sprintf("install:%d:next", m))
	if verr != nil {
		finish(verr)
		return
	}
	if !strings.HasPrefix(obs, "install-next:ok") {
		es.failoverFailedClosed++
		e.Case(key, true, outcome+"install-failed-closed")
		return
	}
	es.failoverInstallOK++
	obs, verr = run(fmt.Sprintf("commit:%d:c2", m))
	if verr != nil {
		finish(verr)
		return
	}
	es.failoverKept++
	e.Case(key, true, outcome+"entry-kept/"+strings.SplitN(obs, ":[", 2)[0])
	if len(down) == n-q && n >= 4 && m == n && inter >= q {
		r.Sample(map[string]any{"system": "topology-failover", "case": key, "steps": trace})
	}
}

func vtReplayScript(r *ev.R, rf *ev.ReplayFile, st *vwStats) {
	var s vtScript
	if err := json.Unmarshal(rf.Replay, &s); err != nil || s.System != rf.System {
		r.HarnessError("replay: cannot decode the %s case: %v", rf.System, err)
		return
	}
	e := r.NewEnum(rf.System)
	es := &vtEnumStats{}
	before := r.ViolationCount()
	switch rf.System {
	case "topologies":
		vtTopologyCase(r, e, es, st, s.N, s.Q, s.Leader)
	case "topology-failover":
		// re-execute the recorded event list literally
		t := newVT(vtOpts(), st, s.N, s.Q)
		if _, err := t.installInitial(ch.NodeID(s.Leader)); err != nil {
			fmt.Printf("replay: initial install refused: %v\n", err)
			break
		}
		for i, event := range s.Events {
			obs, verr := t.step(event)
			fmt.Printf("replay step %d: %s -> %s\n", i, event, obs)
			if verr != nil {
				fp, msg := violationOf(verr)
				fmt.Printf("replay step %d: VIOLATES: %s\n", i, msg)
				r.Violation(ev.Violation{Fingerprint: fp, System: rf.System, Replay: s, Message: msg})
				break
			}
		}
	}
	if r.ViolationCount() > before {
		r.MarkReplayReproduced()
	}
	e.Done(true, nil, "replay")
}

func TestVerifC01Topology(t *testing.T) {
	r := ev.Start(t, "C01")
	defer r.Finish()
	th := r.Thorough()
	r.Assume("topology section: voters are the nodes 1..N of one channel, every voter list is duplicate-free and contains the leader; MaxVoters of every quorumLog is 8, so the voter bound is never the reason for a refusal")
	r.Assume("outage budget of the topology worlds: at most N-Q replicas are unreachable at any time; a trailing (deferred) follower write that is never delivered models a dropped one")

	// ---- mc boxes N=4/Q=3 and N=5/Q=3 over the world's seams
	type box struct {
		n, q, depth, devs int
	}
	boxes := []box{{4, 3, ev.Pick(r, 3, 5), 1}, {5, 3, ev.Pick(r, 3, 4), ev.Pick(r, 1, 2)}}
	if th {
		boxes = append(boxes, box{2, 2, 4, 2}, box{4, 4, 4, 1}, box{5, 4, 4, 1})
	}
	boxStats := &vwStats{}
	var boxStates int64
	for _, b := range boxes {
		b := b
		o := vtOpts()
		o.maxOutages = b.n - b.q
		depth, devs := vwDebugBounds(b.depth, b.devs)
		name := fmt.Sprintf("replication-world/C01/topology-N%dQ%d", b.n, b.q)
		res := mc.Run(r, mc.System{
			Name: name, New: func() mc.Instance { return newVTInstalled(o, boxStats, b.n, b.q) },
			MaxDepth: depth, MaxDeviations: devs,
			Bounds: map[string]any{"voters": b.n, "write_quorum": b.q, "commands": o.cmds, "authority_allocations_after_initial": o.maxInstalls,
				"crash_restarts": o.maxCrashes, "outages": o.maxOutages, "simultaneously_down": b.n - b.q,
				"events":        "commit/exact-retry, install-next-term at every node, deliver-trailing, crash-restart, down/up",
				"env_questions": "probe{ok,drop}, fetch{ok,drop}, replicate{ok,reply-lost,drop}, hedge{never,first}, local-completion{ok,lost}"},
			Note: fmt.Sprintf("N=%d voters, Q=%d, one channel; initial state: node 1 installed under authority (1,1,1) on empty logs; |down| <= N-Q; a path is cut (PruneAfter) at a transition that matches KF-C01-1; same seams and C01 oracle as the N=3 world", b.n, b.q),
		})
		boxStates += res.States
	}
	if rf := r.Replay(); rf != nil {
		if rf.System == "topologies" || rf.System == "topology-failover" {
			vtReplayScript(r, rf, &vwStats{})
		}
		return
	}
	r.Count("topology_boxes_acks_executions_incl_replays", boxStats.acks.Load())
	r.Count("topology_boxes_install_ok_executions_incl_replays", boxStats.installOK.Load())
	r.Count("topology_boxes_install_with_barrier_executions_incl_replays", boxStats.installBarrier.Load())
	r.Count("topology_boxes_install_failed_closed_executions_incl_replays", boxStats.installFailedClosed.Load())
	r.Count("topology_boxes_kf_c01_1_transitions_executions_incl_replays", boxStats.kfHits.Load()+boxStats.kfSiblingHits.Load())
	r.Count("topology_boxes_trailing_delivered_executions_incl_replays", boxStats.trailingDelivered.Load())
	r.Guard("topology-boxes-states", boxStates >= 200, "%d states in the N=4/Q=3 and N=5/Q=3 (thorough: also 2/2, 4/4, 5/4) boxes", boxStates)
	r.Guard("topology-boxes-acknowledged-commits", boxStats.acks.Load() >= 10, "%d acknowledged receipts recorded", boxStats.acks.Load())
	r.Guard("topology-boxes-installs", boxStats.installOK.Load() >= 10 && boxStats.installBarrier.Load() >= 1 && boxStats.installFailedClosed.Load() >= 1,
		"%d successful next-term installs (%d with a barrier write), %d failed closed", boxStats.installOK.Load(), boxStats.installBarrier.Load(), boxStats.installFailedClosed.Load())

	// ---- section "topologies"
	maxN := ev.Pick(r, 6, 8)
	es := &vtEnumStats{}
	enumStats := &vwStats{}
	e := r.NewEnum("topologies")
	type tcase struct{ n, q, leader int }
	var cases []tcase
	for n := 1; n <= maxN; n++ {
		for q := 0; q <= n+1; q++ {
			cases = append(cases, tcase{n, q, 1})
			if n > 1 {
				cases = append(cases, tcase{n, q, n})
			}
		}
	}
	vtPermute(r.Seed(), len(cases), func(i, j int) { cases[i], cases[j] = cases[j], cases[i] })
	for _, c := range cases {
		vtTopologyCase(r, e, es, enumStats, c.n, c.q, c.leader)
	}
	wantMajority := 0
	for _, c := range cases {
		if vtMajority(c.n, c.q) {
			wantMajority++
		}
	}
	e.Done(true, map[string]any{"voters": fmt.Sprintf("1..%d", maxN), "write_quorum": "0..N+1", "first_leader": "first and last voter",
		"oracle": "refused unless 1<=Q<=N and 2Q>N; accepted majority topology: Install, Commit c1, next-term Install on a non-holder with all voters up, Commit c2"},
		"real quorumLog.Install on a fresh N-node world per case; a case is distinct by (N, Q, first leader)")
	r.Guard("topologies-majority-accepted-and-operable", len(es.refusedMajority) == 0 && len(es.inoperableMajority) == 0 && es.acceptedMajority == wantMajority,
		"%d of %d strict-majority topologies accepted; refused: %v; accepted but not operable: %v", es.acceptedMajority, wantMajority, es.refusedMajority, es.inoperableMajority)
	r.Guard("topologies-non-majority-seen", es.refused >= 20 && e.Outcome("refused:invalid-config") >= 20, "%d topologies refused (%d with ErrInvalidConfig)", es.refused, e.Outcome("refused:invalid-config"))

	// ---- section "topology-failover"
	fe := r.NewEnum("topology-failover")
	fs := &vtEnumStats{}
	failN := ev.Pick(r, 6, 7)
	type fcase struct {
		n, q    int
		deliver bool
		down    []int
		m       int
	}
	var fcases []fcase
	for n := 1; n <= failN; n++ {
		for q := 1; q <= n; q++ {
			if !vtMajority(n, q) {
				continue
			}
			for _, deliver := range []bool{false, true} {
				for _, d := range vtSubsets(n, n-q) {
					in := map[int]bool{}
					for _, x := range d {
						in[x] = true
					}
					for m := 1; m <= n; m++ {
						if !in[m] {
							fcases = append(fcases, fcase{n, q, deliver, d, m})
						}
					}
				}
			}
		}
	}
	vtPermute(r.Seed(), len(fcases), func(i, j int) { fcases[i], fcases[j] = fcases[j], fcases[i] })
	for _, c := range fcases {
		vtFailoverCase(r, fe, fs, enumStats, c.n, c.q, c.deliver, c.down, c.m, false)
	}
	fe.Done(true, map[string]any{"voters": fmt.Sprintf("1..%d", failN), "write_quorum": "every Q with 2Q>N", "trailing_writes": "never delivered | all delivered",
		"down": "every set of at most N-Q voters", "install_at": "every node that is up"},
		"commit c1 at node 1 (default answers); optional delivery of all trailing writes; down set; next-term Install; commit c2 at the new leader; C01 oracle of the world (KF-C01-1 transitions keep their fingerprint)")
	r.Count("topology_failover_cases", int64(fs.failoverCases))
	r.Count("topology_failover_install_ok_entry_kept", int64(fs.failoverKept))
	r.Count("topology_failover_install_failed_closed", int64(fs.failoverFailedClosed))
	r.Count("topology_failover_kf_c01_1_cases", int64(fs.failoverKF))
	r.Guard("topology-failover-cases", fs.failoverCases >= 300 && len(fs.refusedMajority) == 0 && len(fs.inoperableMajority) == 0,
		"%d failover cases; refused: %v; inoperable: %v", fs.failoverCases, fs.refusedMajority, fs.inoperableMajority)
	r.Guard("topology-failover-entry-kept", fs.failoverKept >= 100, "%d failovers became writable with the acknowledged entry and acknowledged c2", fs.failoverKept)
}

// vtPermute applies a seed-determined permutation (order only; the case set is fixed).
func vtPermute(seed int64, n int, swap func(i, j int)) {
	if seed == 0 {
		return
	}
	x := uint64(seed)*0x9E3779B97F4A7C15 + 1
	for i := n - 1; i > 0; i-- {
		x ^= x << 13
		x ^= x >> 7
		x ^= x << 17
		swap(i, int(x%uint64(i+1)))
	}
}
