package codec

// C22 history section: short call SEQUENCES through one codec on one goroutine.
//
// The five input-domain sections evaluate every (frame, version) on a state that only ever
// saw successful calls, so a breakage that lives in state carried from one call to the next
// (a pooled scratch buffer / encoder / decoder that a failing call hands back half-written, a
// result that still aliases pooled memory) is invisible to them. This section enumerates
// every ordered sequence of 2 (and, over a reduced menu, 3) calls from a menu that contains
//   - every frame type encoded successfully (minimal / rich / large body), through
//     EncodeFrame and through WriteFrame, and decoded successfully,
//   - every FAILING encode the encoder has: SEND payload above PayloadMaxSize (rejected before
//     a byte is written), RECV / SENDACK / RECVACK with MessageSeq above 2^32-1 at a legacy
//     version (rejected after the header and part of the body were written), a string field
//     above 32767 bytes in every frame type that carries one (panic after part of the body was
//     written), a frame value of the wrong Go type, a nil frame, an unknown frame type,
//   - every odd decode: empty input, unknown type byte, truncated frame, header only, body too
//     short for its fields, length above MaxRemaingLength, overlong varint, SENDACK with
//     trailing junk, negative string length,
// and judges every in-limits call of the sequence against the result the same call produced
// on the fresh process state (which the full single-call oracle c22CheckCase accepted):
// identical bytes / identical decoded frame and consumed length, whatever ran before; results
// obtained earlier in the sequence must still be intact after the later calls (no aliasing of
// recycled memory). Every sequence ends with a fixed drain encode+decode that is judged too,
// so state left behind by a sequence is attributed to that sequence and not to the next one.
//
// Determinism: the section runs on ONE goroutine with GOMAXPROCS pinned to 1 for its
// duration. A sync.Pool hands an object put by a goroutine back to the next Get on the same P
// (per-P private slot; a GC between the two calls moves it to the victim cache, which Get still
// consults), so with a single P the hand-over from call i to call i+1 is deterministic. The
// oracle never depends on that: on a tree without pooled state every call is a pure function.

import (
	"bytes"
	"fmt"
	"runtime"
	"strings"

	"github.com/WuKongIM/WuKongIM/pkg/protocol/frame"
	"github.com/WuKongIM/WuKongIM/pkg/zzverif/ev"
)

const (
	c22OpEnc = iota
	c22OpWrite
	c22OpDec
)

type c22Op struct {
	name   string
	kind   int
	v      uint8
	f      frame.Frame // enc / write
	in     []byte      // dec (cap == len, never written by the harness)
	src    frame.Frame // dec of a valid encoding: the frame that was encoded
	judged bool        // in-limits call: its result must not depend on the history
	core   bool        // member of the reduced menu used for triples
	t      frame.FrameType // frame type the call is about (UNKNOWN: none)
	ref    c22OpRes    // result on the fresh process state (judged ops only)
}

type c22OpRes struct {
	class string // enc-ok enc-err enc-panic write-ok write-err write-panic dec-ok dec-needmore dec-err dec-panic
	wire  []byte
	got   frame.Frame
	n     int
	err   string
}

type c22OpRef struct {
	Version uint8  `json:"version"`
	Name    string `json:"op"`
}

// c22Run executes one call on the real codec.
func (o *c22Op) run(p *WKProto) (res c22OpRes) {
	switch o.kind {
	case c22OpEnc:
		var err error
		if perr := ev.Recover(func() { res.wire, err = p.EncodeFrame(o.f, o.v) }); perr != nil {
			res.class, res.err, res.wire = "enc-panic", perr.Error(), nil
		} else if err != nil {
			res.class, res.err = "enc-err", err.Error()
		} else {
			res.class = "enc-ok"
		}
	case c22OpWrite:
		buf := new(bytes.Buffer)
		var err error
		if perr := ev.Recover(func() { err = p.WriteFrame(buf, o.f, o.v) }); perr != nil {
			res.class, res.err = "write-panic", perr.Error()
		} else if err != nil {
			res.class, res.err = "write-err", err.Error()
		} else {
			res.class, res.wire = "write-ok", buf.Bytes()
		}
	case c22OpDec:
		var err error
		if perr := ev.Recover(func() { res.got, res.n, err = p.DecodeFrame(o.in, o.v) }); perr != nil {
			res.class, res.err, res.got = "dec-panic", perr.Error(), nil
		} else if err != nil {
			res.class, res.err = "dec-err", err.Error()
		} else if res.got == nil {
			res.class = "dec-needmore"
		} else {
			res.class = "dec-ok"
		}
	}
	return res
}

// c22Large is the rich baseline with long strings and a large body (so that a frame can be
// longer as well as shorter than whatever an earlier call left behind).
func c22Large(t frame.FrameType, v uint8) frame.Frame {
	f := c22Baseline(t, true, v)
	const sl, pl = 150, 3000
	switch p := f.(type) {
	case *frame.ConnectPacket:
		p.DeviceID, p.UID, p.Token, p.ClientKey = c22S('d', sl), c22S('u', sl), c22S('t', sl), c22S('k', sl)
	case *frame.ConnackPacket:
		p.ServerKey, p.Salt = c22S('S', sl), c22S('s', sl)
	case *frame.SendPacket:
		p.MsgKey, p.ClientMsgNo, p.StreamNo, p.ChannelID, p.Topic, p.Payload = c22S('m', sl), c22S('c', sl), c22S('n', sl), c22S('I', sl), c22S('T', sl), c22B('P', pl)
	case *frame.SendackPacket:
		p.ClientMsgNo = c22S('c', sl)
	case *frame.RecvPacket:
		p.MsgKey, p.ClientMsgNo, p.StreamNo, p.ChannelID, p.Topic, p.FromUID, p.Payload = c22S('m', sl), c22S('c', sl), c22S('n', sl), c22S('I', sl), c22S('T', sl), c22S('f', sl), c22B('P', pl)
	case *frame.DisconnectPacket:
		p.Reason = c22S('r', sl)
	case *frame.SubPacket:
		p.SubNo, p.ChannelID, p.Param = c22S('q', sl), c22S('I', sl), c22S('p', sl)
	case *frame.SubackPacket:
		p.SubNo, p.ChannelID = c22S('q', sl), c22S('I', sl)
	case *frame.EventPacket:
		p.Id, p.Type, p.Data = c22S('y', sl), c22S('g', sl), c22B('D', pl)
	}
	return f
}

// c22HistoryOps builds the call menu of one protocol version. Encodings used as decoder input
// are produced by a private codec on the (still fresh) process state.
func c22HistoryOps(v uint8) ([]*c22Op, error) {
	var ops []*c22Op
	enc := New()
	add := func(o *c22Op) { o.v = v; ops = append(ops, o) }
	tooLong := string(c22Pool['r'][:c22MaxStr+1])

	// ---- in-limits calls (judged)
	for _, t := range c22AllTypes {
		variants := []string{"min", "S", "L"}
		if t == frame.PING || t == frame.PONG {
			variants = variants[:1]
		}
		for _, vn := range variants {
			var f frame.Frame
			switch vn {
			case "min":
				f = c22Baseline(t, false, v)
			case "S":
				f = c22Baseline(t, true, v)
				c22Flags(c22Framer(f), 0x15)
			case "L":
				f = c22Large(t, v)
				c22Flags(c22Framer(f), 0x0A)
			}
			add(&c22Op{t: t, name: "enc:" + t.String() + "/" + vn, kind: c22OpEnc, f: f, judged: true, core: vn == "S" || vn == "min" && len(variants) == 1})
			if vn != "L" {
				add(&c22Op{t: t, name: "write:" + t.String() + "/" + vn, kind: c22OpWrite, f: f, judged: true, core: vn == "S" && t == frame.RECV})
			}
			wire, err := enc.EncodeFrame(f, v)
			if err != nil {
				return nil, fmt.Errorf("v%d %s/%s: %v", v, t, vn, err)
			}
			coreDec := vn == "S" && (t == frame.SEND || t == frame.RECV || t == frame.SENDACK || t == frame.CONNACK)
			wire = append(make([]byte, 0, len(wire)), wire...) // own copy, cap == len
			add(&c22Op{t: t, name: "dec:" + t.String() + "/" + vn, kind: c22OpDec, in: wire, src: f, judged: true, core: coreDec})
		}
	}

	// ---- failing / odd encodes (history only)
	x := func(name string, kind int, f frame.Frame) {
		o := &c22Op{name: name, kind: kind, f: f, core: true}
		if f != nil {
			o.t = f.GetFrameType()
		}
		add(o)
	}
	x("enc-x:SEND.payload-too-large", c22OpEnc, &frame.SendPacket{ClientMsgNo: "c", ChannelID: "ch", ChannelType: 2, Payload: c22Pool['P'][:PayloadMaxSize+1]})
	seqRecv := c22Baseline(frame.RECV, true, 6).(*frame.RecvPacket)
	seqRecv.MessageSeq = 1 << 32
	x("enc-x:RECV.seq-2^32", c22OpEnc, seqRecv)
	x("write-x:RECV.seq-2^32", c22OpWrite, seqRecv)
	seqRecvL := c22Large(frame.RECV, 6).(*frame.RecvPacket)
	seqRecvL.MessageSeq = 1<<64 - 1
	x("enc-x:RECV.seq-max/L", c22OpEnc, seqRecvL)
	seqAck := c22Baseline(frame.SENDACK, true, 6).(*frame.SendackPacket)
	seqAck.MessageSeq = 1 << 32
	x("enc-x:SENDACK.seq-2^32", c22OpEnc, seqAck)
	x("enc-x:RECVACK.seq-max", c22OpEnc, &frame.RecvackPacket{MessageID: 7, MessageSeq: 1<<64 - 1})
	long := func(t frame.FrameType, field string, set func(f frame.Frame)) {
		f := c22Baseline(t, true, v)
		set(f)
		x("enc-x:"+t.String()+"."+field+"-too-long", c22OpEnc, f)
	}
	long(frame.CONNECT, "UID", func(f frame.Frame) { f.(*frame.ConnectPacket).UID = tooLong })
	long(frame.CONNECT, "ClientKey", func(f frame.Frame) { f.(*frame.ConnectPacket).ClientKey = tooLong })
	long(frame.CONNACK, "Salt", func(f frame.Frame) { f.(*frame.ConnackPacket).Salt = tooLong })
	long(frame.SEND, "ChannelID", func(f frame.Frame) { f.(*frame.SendPacket).ChannelID = tooLong })
	long(frame.SEND, "MsgKey", func(f frame.Frame) { f.(*frame.SendPacket).MsgKey = tooLong })
	long(frame.SENDACK, "ClientMsgNo", func(f frame.Frame) { f.(*frame.SendackPacket).ClientMsgNo = tooLong })
	long(frame.RECV, "FromUID", func(f frame.Frame) { f.(*frame.RecvPacket).FromUID = tooLong })
	long(frame.RECV, "Topic", func(f frame.Frame) { f.(*frame.RecvPacket).Topic = tooLong })
	long(frame.DISCONNECT, "Reason", func(f frame.Frame) { f.(*frame.DisconnectPacket).Reason = tooLong })
	long(frame.SUB, "Param", func(f frame.Frame) { f.(*frame.SubPacket).Param = tooLong })
	long(frame.SUBACK, "ChannelID", func(f frame.Frame) { f.(*frame.SubackPacket).ChannelID = tooLong })
	long(frame.EVENT, "Type", func(f frame.Frame) { f.(*frame.EventPacket).Type = tooLong })
	x("enc-x:wrong-go-type", c22OpEnc, frame.Framer{FrameType: frame.SEND, DUP: true})
	x("enc-x:nil-frame", c22OpEnc, nil)
	x("enc-x:unknown-type", c22OpEnc, frame.Framer{FrameType: frame.UNKNOWN})

	// ---- odd decodes (history only)
	d := func(name string, in []byte) {
		in = append(make([]byte, 0, len(in)), in...) // own copy, cap == len
		o := &c22Op{name: name, kind: c22OpDec, in: in, core: true}
		if len(in) > 0 {
			o.t = frame.FrameType(in[0] >> 4)
		}
		add(o)
	}
	recvWire, err := enc.EncodeFrame(c22Baseline(frame.RECV, true, v), v)
	if err != nil {
		return nil, err
	}
	ackWire, err := enc.EncodeFrame(c22Baseline(frame.SENDACK, true, v), v)
	if err != nil {
		return nil, err
	}
	d("dec-x:empty", []byte{})
	d("dec-x:unknown-type-byte", []byte{0x00, 0x02, 0x01, 0x02})
	d("dec-x:RECV-truncated", append([]byte(nil), recvWire[:len(recvWire)-3]...))
	d("dec-x:RECV-header-only", []byte{byte(frame.RECV) << 4})
	d("dec-x:RECV-short-body", []byte{byte(frame.RECV) << 4, 0x02, 0xFF, 0x00})
	d("dec-x:length-above-limit", []byte{byte(frame.SEND) << 4, 0x81, 0x80, 0x40, 0x00})
	d("dec-x:overlong-varint", []byte{byte(frame.EVENT) << 4, 0xFF, 0xFF, 0xFF, 0xFF, 0xFF, 0x01})
	junk := append([]byte(nil), ackWire...)
	junk[1] += 2 // body two bytes longer than the SENDACK fields
	d("dec-x:SENDACK-trailing-junk", append(junk, 0xEE, 0xEE))
	// a body that is cut inside its last string field (length byte adjusted): the field
	// decoder fails late, after most fields of the frame struct were filled in
	for _, t := range []frame.FrameType{frame.RECV, frame.SEND} {
		w, err := enc.EncodeFrame(c22Baseline(t, true, v), v)
		if err != nil || len(w) < 12 || len(w)-2 >= 128 {
			return nil, fmt.Errorf("v%d %s: unexpected baseline encoding (%d bytes, %v)", v, t, len(w), err)
		}
		cut := append([]byte(nil), w[:len(w)-8]...) // drops the 5 payload bytes and 3 bytes of Topic
		cut[1] -= 8
		d("dec-x:"+t.String()+"-cut-in-topic", cut)
	}
	d("dec-x:DISCONNECT-negative-string-len", []byte{byte(frame.DISCONNECT) << 4, 0x03, 0x01, 0xFF, 0xFF})
	return ops, nil
}

type c22History struct {
	r      *ev.R
	p      *WKProto
	e      *ev.Enum
	drainE *c22Op
	drainD *c22Op
	// per frame type: a valid encode and decode of that type (latest version), run after every
	// sequence that touched the type, so that per-type recycled state surfaces in its sequence
	typeDrain map[frame.FrameType][2]*c22Op
	stop   bool
	first  map[string]int64 // sequences by class of their first call
}

func c22Short(s string) string {
	if len(s) > 160 {
		return s[:160] + "..."
	}
	return s
}

// c22DescribeWire says what the decoder makes of a (wrong) encoding: diagnostic text only.
func (h *c22History) describeWire(wire []byte, v uint8) string {
	if len(wire) == 0 {
		return "no bytes"
	}
	var got frame.Frame
	var n int
	var err error
	if perr := ev.Recover(func() { got, n, err = New().DecodeFrame(wire[:len(wire):len(wire)], v) }); perr != nil {
		return "DecodeFrame panics on it: " + c22Short(perr.Error())
	}
	if err != nil {
		return "DecodeFrame rejects it: " + c22Short(err.Error())
	}
	if got == nil {
		return "DecodeFrame asks for more bytes"
	}
	return fmt.Sprintf("DecodeFrame consumes %d of %d bytes and yields %s", n, len(wire), c22Short(c22Describe(got)))
}

// judge compares the result of an in-limits call with the fresh-state reference.
// what is "" for a call of the sequence proper, "drain call " for the fixed epilogue (message only).
func (h *c22History) judge(o *c22Op, res c22OpRes, hist []string, what string) *c22Viol {
	after := strings.Join(hist, ">")
	if after == "" {
		after = "nothing"
	}
	// the fingerprint names the most recent preceding call that did not succeed (one defect,
	// one fingerprint, however many successful calls surround it)
	culprit, sameSide := "successful-calls", false
	for _, c := range hist {
		if strings.HasSuffix(c, "-ok") {
			continue
		}
		// prefer a failed call of the judged call's own direction (encode/write vs decode)
		side := strings.HasPrefix(c, "dec-") == (o.kind == c22OpDec)
		if side || !sameSide {
			culprit, sameSide = c, side || sameSide
		}
	}
	switch o.kind {
	case c22OpEnc, c22OpWrite:
		verb := "encode"
		if o.kind == c22OpWrite {
			verb = "write"
		}
		if res.class != o.ref.class {
			return c22V("history:valid-"+verb+"-fails-after-"+culprit, "%s%s v%d gives %s (%s) after the calls [%s]; on the fresh state it succeeds", what, o.name, o.v, res.class, c22Short(res.err), after)
		}
		if !bytes.Equal(res.wire, o.ref.wire) {
			return c22V("history:"+verb+"d-bytes-differ-after-"+culprit, "%s%s v%d produced %d bytes after the calls [%s] but %d bytes (encodedFrameSize=%d) on the fresh state; got %s; %s; want %s",
				what, o.name, o.v, len(res.wire), after, len(o.ref.wire), encodedFrameSize(o.f, o.v), c22Hex(res.wire), h.describeWire(res.wire, o.v), c22Hex(o.ref.wire))
		}
	case c22OpDec:
		if res.class != o.ref.class {
			return c22V("history:valid-decode-fails-after-"+culprit, "%s%s v%d gives %s (%s) after the calls [%s]; on the fresh state it decodes", what, o.name, o.v, res.class, c22Short(res.err), after)
		}
		if res.n != len(o.in) {
			return c22V("history:decode-consumed-differs-after-"+culprit, "%s%s v%d consumed %d of %d bytes after the calls [%s]", what, o.name, o.v, res.n, len(o.in), after)
		}
		if fld, det := c22Diff(c22Expected(o.src, o.v), res.got); fld != "" {
			return c22V("history:decoded-frame-differs-after-"+culprit, "%s%s v%d: field %s differs after the calls [%s]: %s", what, o.name, o.v, fld, after, det)
		}
	}
	return nil
}

// retained re-examines a result obtained earlier in the sequence after later calls ran.
func (h *c22History) retained(o *c22Op, res c22OpRes, later []string) *c22Viol {
	by := strings.Join(later, ">")
	kind := later[len(later)-1]
	if i := strings.IndexByte(kind, '-'); i > 0 {
		kind = kind[:i] // enc / write / dec / drain
	}
	switch o.kind {
	case c22OpEnc, c22OpWrite:
		if !bytes.Equal(res.wire, o.ref.wire) {
			return c22V("history:returned-bytes-changed-by-later-"+kind+"-call", "the bytes returned by %s v%d were correct when returned and differ after the later calls [%s]: now %s, returned %s", o.name, o.v, by, c22Hex(res.wire), c22Hex(o.ref.wire))
		}
	case c22OpDec:
		if fld, det := c22Diff(c22Expected(o.src, o.v), res.got); fld != "" {
			return c22V("history:decoded-frame-changed-by-later-"+kind+"-call", "the frame returned by %s v%d was correct when returned; after the later calls [%s] field %s differs: %s", o.name, o.v, by, fld, det)
		}
	}
	return nil
}

func c22SeqRefs(seq []*c22Op) []c22OpRef {
	out := make([]c22OpRef, len(seq))
	for i, o := range seq {
		out[i] = c22OpRef{Version: o.v, Name: o.name}
	}
	return out
}

// sequence runs one call sequence plus the drain and reports the first violation.
func (h *c22History) sequence(seq []*c22Op, count bool) *c22Viol {
	var resv [4]c22OpRes
	var histv [12]string
	hist := histv[:0]
	var viol *c22Viol
	failedBefore := false
	for i, o := range seq {
		res := o.run(h.p)
		resv[i] = res
		if viol == nil && o.judged {
			viol = h.judge(o, res, hist, "")
		}
		if i < len(seq)-1 && !strings.HasSuffix(res.class, "-ok") {
			failedBefore = true
		}
		hist = append(hist, res.class)
	}
	// results handed out earlier must have survived the later calls
	for i := 0; viol == nil && i < len(seq)-1; i++ {
		if seq[i].judged {
			viol = h.retained(seq[i], resv[i], hist[i+1:len(seq)])
		}
	}
	// drain: a fixed valid encode and decode; whatever the sequence left behind surfaces here
	dres := h.drainE.run(h.p)
	if viol == nil {
		viol = h.judge(h.drainE, dres, hist, "drain call ")
	}
	hist = append(hist, dres.class)
	dres2 := h.drainD.run(h.p)
	if viol == nil {
		viol = h.judge(h.drainD, dres2, hist, "drain call ")
	}
	hist = append(hist, dres2.class)
	for i, o := range seq {
		td, ok := h.typeDrain[o.t]
		if !ok || i > 0 && seq[0].t == o.t || i > 1 && seq[1].t == o.t {
			continue
		}
		for _, dop := range td {
			if dop == h.drainE || dop == h.drainD {
				continue
			}
			dr := dop.run(h.p)
			if viol == nil {
				viol = h.judge(dop, dr, hist, "drain call ")
			}
			hist = append(hist, dr.class)
		}
	}
	if viol == nil && seq[len(seq)-1].judged {
		viol = h.retained(seq[len(seq)-1], resv[len(seq)-1], []string{"drain"})
	}
	if count {
		last := seq[len(seq)-1]
		label := histv[len(seq)-1] + " after clean history"
		if failedBefore {
			label = histv[len(seq)-1] + " after failed call(s)"
		}
		if viol != nil {
			label = "VIOLATION"
		}
		h.e.CaseByConstruction(last.judged, label)
		h.first[histv[0]]++
	}
	if viol != nil {
		names := make([]string, len(seq))
		for i, o := range seq {
			names[i] = fmt.Sprintf("%s@v%d", o.name, o.v)
		}
		viol.msg = "sequence [" + strings.Join(names, ", ") + "] + drain: " + viol.msg
		pl := c22Replay{Space: "history", Ops: c22SeqRefs(seq)}
		h.r.Violation(ev.Violation{Fingerprint: viol.fp, Message: viol.msg, System: "history", Replay: pl})
		// state carried between calls is broken: everything after this point would re-report the
		// same defect under other surroundings, so the section ends at its first counterexample
		h.stop = true
	}
	return viol
}

// c22HistoryPrepare builds the menus of all versions and takes the fresh-state references:
// every judged call runs once, on a state that has only seen successful calls, and every
// encode reference additionally passes the complete single-call oracle.
func c22HistoryPrepare(r *ev.R, p *WKProto) (map[uint8][]*c22Op, *c22History, bool) {
	all := map[uint8][]*c22Op{}
	for v := uint8(0); v <= frame.LatestVersion; v++ {
		ops, err := c22HistoryOps(v)
		if err != nil {
			r.HarnessError("history: cannot build the call menu: %v", err)
			return nil, nil, false
		}
		all[v] = ops
	}
	ok := true
	var scratch []byte
	for v := uint8(0); v <= frame.LatestVersion; v++ {
		for _, o := range all[v] {
			if !o.judged {
				continue
			}
			if o.kind == c22OpEnc {
				if res := c22CheckCase(p, o.f, o.v, &scratch); res.viol != nil {
					r.Violation(ev.Violation{Fingerprint: res.viol.fp, Message: "history reference pass: " + res.viol.msg, System: "history", Replay: c22Replay{Space: "history", Ops: c22SeqRefs([]*c22Op{o})}})
					ok = false
					continue
				}
			}
			o.ref = o.run(p)
			o.ref.wire = append([]byte(nil), o.ref.wire...) // the reference is a copy taken at return time
			if !strings.HasSuffix(o.ref.class, "-ok") {
				r.Violation(ev.Violation{Fingerprint: "C22:history:in-limit-call-fails-on-fresh-state", Message: fmt.Sprintf("%s v%d on the fresh state: %s %s", o.name, o.v, o.ref.class, c22Short(o.ref.err)), System: "history", Replay: c22Replay{Space: "history", Ops: c22SeqRefs([]*c22Op{o})}})
				ok = false
				continue
			}
			if o.kind == c22OpDec {
				if fld, det := c22Diff(c22Expected(o.src, o.v), o.ref.got); fld != "" || o.ref.n != len(o.in) {
					r.Violation(ev.Violation{Fingerprint: "C22:history:fresh-state-decode-differs", Message: fmt.Sprintf("%s v%d on the fresh state: consumed %d of %d, field %s %s", o.name, o.v, o.ref.n, len(o.in), fld, det), System: "history", Replay: c22Replay{Space: "history", Ops: c22SeqRefs([]*c22Op{o})}})
					ok = false
				}
			}
		}
	}
	h := &c22History{r: r, p: p, first: map[string]int64{}}
	for _, o := range all[frame.LatestVersion] {
		if o.name == "enc:DISCONNECT/S" {
			h.drainE = o
		}
		if o.name == "dec:SENDACK/S" {
			h.drainD = o
		}
	}
	h.typeDrain = map[frame.FrameType][2]*c22Op{}
	for _, t := range c22AllTypes {
		vn := "/S"
		if t == frame.PING || t == frame.PONG {
			vn = "/min"
		}
		e, d := c22FindOp(all, c22OpRef{frame.LatestVersion, "enc:" + t.String() + vn}), c22FindOp(all, c22OpRef{frame.LatestVersion, "dec:" + t.String() + vn})
		if e == nil || d == nil {
			h.drainE = nil
			break
		}
		h.typeDrain[t] = [2]*c22Op{e, d}
	}
	if h.drainE == nil || h.drainD == nil {
		r.HarnessError("history: drain calls missing from the menu")
		return nil, nil, false
	}
	return all, h, ok
}

func c22FindOp(all map[uint8][]*c22Op, ref c22OpRef) *c22Op {
	for _, o := range all[ref.Version] {
		if o.name == ref.Name {
			return o
		}
	}
	return nil
}

// c22HistoryReplay re-executes one recorded sequence on a fresh process.
func c22HistoryReplay(r *ev.R, pl c22Replay) {
	prev := runtime.GOMAXPROCS(1)
	defer runtime.GOMAXPROCS(prev)
	all, h, ok := c22HistoryPrepare(r, New())
	if all == nil {
		return
	}
	h.e = r.NewEnum("history")
	var seq []*c22Op
	for _, ref := range pl.Ops {
		o := c22FindOp(all, ref)
		if o == nil {
			r.HarnessError("replay: unknown call %q v%d", ref.Name, ref.Version)
			return
		}
		seq = append(seq, o)
	}
	if !ok {
		r.MarkReplayReproduced() // the reference pass itself reported the violation
	} else if len(seq) > 0 && len(seq) <= 3 {
		if v := h.sequence(seq, true); v != nil {
			fmt.Printf("replay history %v\n VIOLATES: [%s] %s\n", pl.Ops, v.fp, v.msg)
			r.MarkReplayReproduced()
		} else {
			fmt.Printf("replay history %v\n holds\n", pl.Ops)
		}
	}
	h.e.Done(true, nil, "replay")
}

// c22HistorySection enumerates the call sequences. Shard 0 only (the section is small).
func c22HistorySection(r *ev.R) {
	if shard, _ := r.Shard(); shard != 0 {
		return
	}
	prev := runtime.GOMAXPROCS(1)
	defer runtime.GOMAXPROCS(prev)
	th := r.Thorough()
	all, h, ok := c22HistoryPrepare(r, New())
	if all == nil || !ok {
		return
	}
	h.e = r.NewEnum("history")

	var menu, judgedAll []*c22Op
	for v := uint8(0); v <= frame.LatestVersion; v++ {
		menu = append(menu, all[v]...)
	}
	for _, o := range menu {
		if o.judged {
			judgedAll = append(judgedAll, o)
		}
	}
	// VERIF_SEED only rotates the order in which first calls are taken.
	rot := 0
	if len(menu) > 0 {
		rot = int(uint64(r.Seed()) * 7919 % uint64(len(menu)))
	}
	order := append(append([]*c22Op(nil), menu[rot:]...), menu[:rot]...)

	// ---- all ordered pairs over the full menu (every version x every call)
	var pairs, triples int64
	seq := make([]*c22Op, 0, 3)
	for _, a := range order {
		for _, b := range menu {
			if h.stop {
				break
			}
			seq = append(seq[:0], a, b)
			h.sequence(seq, true)
			pairs++
		}
	}
	// ---- triples: first and middle call from the reduced menu at the versions on both sides
	// of the message-seq format change, last call judged
	tv := ev.Pick(r, []uint8{5}, []uint8{2, 5, 6})
	var coreOps, lastOps []*c22Op
	for _, v := range tv {
		for _, o := range all[v] {
			if o.core {
				coreOps = append(coreOps, o)
			}
		}
	}
	if th {
		lastOps = judgedAll
	} else {
		for _, v := range []uint8{5, 6} {
			for _, o := range all[v] {
				if o.core && o.judged {
					lastOps = append(lastOps, o)
				}
			}
		}
	}
	for _, a := range coreOps {
		for _, b := range coreOps {
			for _, c := range lastOps {
				if h.stop {
					break
				}
				seq = append(seq[:0], a, b, c)
				h.sequence(seq, true)
				triples++
			}
		}
	}

	perVersion := len(all[frame.LatestVersion])
	var nJudged, nFailEnc int
	for _, o := range all[frame.LegacyMessageSeqVersion] {
		if o.judged {
			nJudged++
		}
	}
	for k, n := range h.first {
		r.Count("history/first_call/"+k, n)
		if k == "enc-err" || k == "write-err" {
			nFailEnc += int(n)
		}
	}
	complete := !h.stop
	h.e.Done(complete, map[string]any{
		"versions":                  "0.." + fmt.Sprint(frame.LatestVersion),
		"calls_per_version":         perVersion,
		"judged_calls_per_version":  nJudged,
		"pairs":                     pairs,
		"triples":                   triples,
		"triple_first_middle_calls": len(coreOps),
		"triple_last_calls":         len(lastOps),
		"triple_versions":           fmt.Sprint(tv),
		"gomaxprocs":                1,
	}, "every ordered pair of calls of the full menu (all versions) and every triple (reduced menu) x judged last call, each followed by a judged drain encode+decode, on one codec and one goroutine with one P; distinct_nontrivial = sequences whose last call is an in-limits call judged against its fresh-state result")
	classes := []string{"enc-ok", "enc-err", "enc-panic", "write-ok", "write-err", "dec-ok", "dec-needmore", "dec-err", "dec-panic"}
	var missing []string
	for _, c := range classes {
		if h.first[c] == 0 {
			missing = append(missing, c)
		}
	}
	r.Guard("history/first-call-classes", len(missing) == 0 || !complete, "first-call outcome classes missing: %v", missing)
	// at every legacy version 4 encodes + 1 write fail after part of the frame was written
	// (message seq overflow) and 1 before (payload too large)
	wantFail := int64(len(menu)) * int64(5*6+1+6)
	r.Guard("history/failing-encodes-as-first-call", int64(nFailEnc) >= wantFail || !complete, "sequences that start with a failing encode/write: %d (want >= %d)", nFailEnc, wantFail)
	r.Guard("history/panicking-encodes-as-first-call", h.first["enc-panic"] >= int64(len(menu))*14*7 || !complete, "sequences that start with a panicking encode: %d", h.first["enc-panic"])
	r.Sample(map[string]any{"space": "history", "sequence": []string{"enc-x:RECV.seq-2^32@v5 (enc-err after header+body prefix)", "enc:SEND/S@v6"}, "drain": []string{"enc:DISCONNECT/S@v6", "dec:SENDACK/S@v6"},
		"outcome": "second encode byte-identical to its fresh-state encoding (" + fmt.Sprint(len(c22FindOp(all, c22OpRef{6, "enc:SEND/S"}).ref.wire)) + " bytes)"})
	r.Assume("history section: a sync.Pool hands an object back to the next Get on the same P; the section runs on one goroutine with GOMAXPROCS=1, so hand-over of pooled state between consecutive calls is deterministic (a GC only moves it to the victim cache, which Get consults). Failing / panicking calls are history only; only in-limits calls are judged, against the result the identical call gave on the fresh process state")
}
