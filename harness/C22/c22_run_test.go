package codec

import (
	"encoding/hex"
	"encoding/json"
	"fmt"
	"reflect"
	"runtime"
	"slices"
	"strings"
	"sync"
	"sync/atomic"
	"testing"
	"time"

	"github.com/WuKongIM/WuKongIM/pkg/protocol/frame"
	"github.com/WuKongIM/WuKongIM/pkg/zzverif/ev"
)

type c22Replay struct {
	Space    string   `json:"space"`
	Thorough bool     `json:"thorough_menus"`
	Version  uint8    `json:"version"`
	Index    int64    `json:"index"`
	Dims     []int    `json:"dims,omitempty"`
	Names    []string `json:"dim_names,omitempty"`
	Frame    string   `json:"frame,omitempty"`
	// history section: the call sequence (see c22_history_test.go)
	Ops []c22OpRef `json:"ops,omitempty"`
}

type c22Unit struct {
	sec    int
	space  *c22Space
	v      uint8
	lo, hi int64
}

type c22Stat struct {
	evals, nontrivial int64
	outcomes          map[string]int64
	buckets           [256][]uint64
}

func c22Hash(v uint8, b []byte) uint64 {
	h := uint64(14695981039346656037)
	h = (h ^ uint64(v)) * 1099511628211
	i := 0
	for ; i+8 <= len(b); i += 8 {
		w := uint64(b[i]) | uint64(b[i+1])<<8 | uint64(b[i+2])<<16 | uint64(b[i+3])<<24 | uint64(b[i+4])<<32 | uint64(b[i+5])<<40 | uint64(b[i+6])<<48 | uint64(b[i+7])<<56
		h = (h ^ w) * 1099511628211
		h ^= h >> 29
	}
	for ; i < len(b); i++ {
		h = (h ^ uint64(b[i])) * 1099511628211
	}
	h ^= h >> 32
	h *= 0x9E3779B97F4A7C15
	h ^= h >> 29
	return h
}

// c22Distinct counts the distinct hashes gathered by all workers (exact set cardinality
// of the 64-bit wire-image hashes: sort + unique per top-byte bucket, in parallel).
func c22Distinct(stats []*c22Stat) int64 {
	var total int64
	var wg sync.WaitGroup
	sem := make(chan struct{}, runtime.GOMAXPROCS(0))
	for b := 0; b < 256; b++ {
		wg.Add(1)
		sem <- struct{}{}
		go func(b int) {
			defer wg.Done()
			defer func() { <-sem }()
			n := 0
			for _, s := range stats {
				n += len(s.buckets[b])
			}
			all := make([]uint64, 0, n)
			for _, s := range stats {
				all = append(all, s.buckets[b]...)
				s.buckets[b] = nil
			}
			slices.Sort(all)
			var d int64
			for i := range all {
				if i == 0 || all[i] != all[i-1] {
					d++
				}
			}
			atomic.AddInt64(&total, d)
		}(b)
	}
	wg.Wait()
	return total
}

func c22Describe(f frame.Frame) string {
	rv := reflect.ValueOf(f)
	if rv.Kind() != reflect.Pointer || rv.Elem().Kind() != reflect.Struct {
		return fmt.Sprintf("%T", f)
	}
	var sb strings.Builder
	sb.WriteString(rv.Elem().Type().Name() + "{")
	var walk func(v reflect.Value)
	walk = func(v reflect.Value) {
		for i := 0; i < v.NumField(); i++ {
			fv, name := v.Field(i), v.Type().Field(i).Name
			switch {
			case name == "Framer":
				fr := fv.Interface().(frame.Framer)
				fmt.Fprintf(&sb, "flags[NoPersist=%v RedDot=%v SyncOnce=%v DUP=%v HasServerVersion=%v End=%v] ", fr.NoPersist, fr.RedDot, fr.SyncOnce, fr.DUP, fr.HasServerVersion, fr.End)
			case fv.Kind() == reflect.String:
				x := fv.String()
				if len(x) > 12 {
					fmt.Fprintf(&sb, "%s=%q..(len %d) ", name, x[:8], len(x))
				} else {
					fmt.Fprintf(&sb, "%s=%q ", name, x)
				}
			case fv.Kind() == reflect.Slice:
				x := fv.Bytes()
				if len(x) > 12 {
					fmt.Fprintf(&sb, "%s=%x..(len %d) ", name, x[:8], len(x))
				} else {
					fmt.Fprintf(&sb, "%s=%x ", name, x)
				}
			case fv.CanInt():
				fmt.Fprintf(&sb, "%s=%d ", name, fv.Int())
			case fv.CanUint():
				fmt.Fprintf(&sb, "%s=%d ", name, fv.Uint())
			default:
				fmt.Fprintf(&sb, "%s=%v ", name, fv.Interface())
			}
		}
	}
	walk(rv.Elem())
	return strings.TrimSpace(sb.String()) + "}"
}

func c22FindSpace(name string, thorough bool) *c22Space {
	all := append(c22Products(thorough), c22Sweeps(thorough)...)
	all = append(all, c22Sizes(thorough)...)
	all = append(all, c22Header(), c22Limits())
	for _, s := range all {
		if s.name == name {
			return s
		}
	}
	return nil
}

func TestVerifC22(t *testing.T) {
	r := ev.Start(t, "C22")
	defer r.Finish()
	th := r.Thorough()

	if rf := r.Replay(); rf != nil {
		var pl c22Replay
		if err := json.Unmarshal(rf.Replay, &pl); err != nil {
			r.HarnessError("replay: bad payload: %v", err)
			return
		}
		if pl.Space == "history" {
			c22HistoryReplay(r, pl)
			return
		}
		sp := c22FindSpace(pl.Space, pl.Thorough)
		if sp == nil || pl.Index < 0 || pl.Index >= sp.size() {
			r.HarnessError("replay: unknown space %q / index %d", pl.Space, pl.Index)
			return
		}
		ix := sp.index(pl.Index, nil)
		f := sp.build(ix, pl.Version)
		res := c22CheckCase(New(), f, pl.Version, new([]byte))
		fmt.Printf("replay %s v%d index %d %v\n frame: %s\n wire(%d): %s\n", pl.Space, pl.Version, pl.Index, ix, c22Describe(f), len(res.wire), c22Hex(res.wire))
		if res.viol != nil {
			fmt.Printf(" VIOLATES: [%s] %s\n", res.viol.fp, res.viol.msg)
			r.MarkReplayReproduced()
			r.Violation(ev.Violation{Fingerprint: res.viol.fp, Message: res.viol.msg, System: sectionOf(pl.Space), Replay: pl})
		} else {
			fmt.Printf(" holds: %s\n", res.outcome)
		}
		r.Section(ev.Section{Name: sectionOf(pl.Space), Kind: "enum", Evaluations: 1, Note: "replay"})
		return
	}

	// call sequences first: their references are taken on the fresh process state
	c22HistorySection(r)

	secNames := []string{"product", "sweep", "sizes", "header", "limits"}
	spaces := [][]*c22Space{c22Products(th), c22Sweeps(th), c22Sizes(th), {c22Header()}, {c22Limits()}}
	const nVersions = int(frame.LatestVersion) + 1
	const block = 2048
	var units []c22Unit
	expected := make([]int64, len(secNames))
	for si, list := range spaces {
		for _, sp := range list {
			n := sp.size()
			for v := 0; v < nVersions; v++ {
				blk := int64(block)
				if secNames[si] == "limits" {
					blk = 1
				} else if secNames[si] == "sizes" {
					blk = 64
				}
				for lo := int64(0); lo < n; lo += blk {
					hi := lo + blk
					if hi > n {
						hi = n
					}
					units = append(units, c22Unit{sec: si, space: sp, v: uint8(v), lo: lo, hi: hi})
				}
			}
		}
	}
	// VERIF_SEED only permutes the order of the work units; shards take units i mod N.
	c22Permute(units, r.Seed())
	shard, nshards := r.Shard()
	var mine []c22Unit
	for i, u := range units {
		if i%nshards == shard {
			mine = append(mine, u)
			expected[u.sec] += u.hi - u.lo
		}
	}

	workers := runtime.GOMAXPROCS(0)
	stats := make([][]*c22Stat, len(secNames))
	for si := range stats {
		stats[si] = make([]*c22Stat, workers)
		for w := range stats[si] {
			stats[si][w] = &c22Stat{outcomes: map[string]int64{}}
		}
	}
	secWall := make([]int64, len(secNames))
	var next int64
	var stop int32
	var wg sync.WaitGroup
	var sampleMu sync.Mutex
	sampled := map[string]bool{}
	for w := 0; w < workers; w++ {
		wg.Add(1)
		go func(w int) {
			defer wg.Done()
			p := New()
			var ix []int
			var scratch []byte
			for atomic.LoadInt32(&stop) == 0 {
				k := atomic.AddInt64(&next, 1) - 1
				if k >= int64(len(mine)) {
					return
				}
				u := mine[k]
				st := stats[u.sec][w]
				t0 := time.Now()
				for lin := u.lo; lin < u.hi; lin++ {
					ix = u.space.index(lin, ix)
					f := u.space.build(ix, u.v)
					res := c22CheckCase(p, f, u.v, &scratch)
					st.evals++
					if res.viol != nil {
						pl := c22Replay{Space: u.space.name, Thorough: th, Version: u.v, Index: lin, Dims: u.space.dims, Names: u.space.names, Frame: c22Describe(f)}
						msg := res.viol.msg + fmt.Sprintf(" | case: space=%s index=%v wire(%d)=%s", u.space.name, append([]int(nil), ix...), len(res.wire), c22Hex(res.wire))
						if !r.Violation(ev.Violation{Fingerprint: res.viol.fp, Message: msg, System: secNames[u.sec], Replay: pl}) {
							atomic.StoreInt32(&stop, 1)
						}
						st.outcomes["VIOLATION"]++
						continue
					}
					st.outcomes[res.outcome]++
					ft := f.GetFrameType()
					if ft != frame.PING && ft != frame.PONG { // non-trivial: the frame has a body
						h := c22Hash(u.v, res.wire)
						st.buckets[h>>56] = append(st.buckets[h>>56], h)
						st.nontrivial++
					}
					if lin == u.lo+(u.hi-u.lo)/2 {
						key := u.space.name
						sampleMu.Lock()
						if !sampled[key] && len(sampled) < 12 && (u.v == 3 || u.v == 6) {
							sampled[key] = true
							r.Sample(map[string]any{"space": u.space.name, "version": u.v, "index": lin, "menu_index": append([]int(nil), ix...),
								"frame": c22Describe(f), "wire_len": len(res.wire), "wire_prefix_hex": c22Hex(res.wire), "outcome": res.outcome})
						}
						sampleMu.Unlock()
					}
				}
				atomic.AddInt64(&secWall[u.sec], int64(time.Since(t0)))
			}
		}(w)
	}
	wg.Wait()

	allOutcomes := map[string]bool{}
	for si, name := range secNames {
		var evals int64
		outs := map[string]int64{}
		for _, s := range stats[si] {
			evals += s.evals
			for k, n := range s.outcomes {
				outs[k] += n
				allOutcomes[k] = true
			}
		}
		distinct := c22Distinct(stats[si])
		complete := evals == expected[si] && atomic.LoadInt32(&stop) == 0
		var dims []string
		for _, sp := range spaces[si] {
			dims = append(dims, fmt.Sprintf("%s%v", strings.TrimPrefix(sp.name, name+"/"), sp.dims))
		}
		r.Section(ev.Section{Name: name, Kind: "enum", Evaluations: evals, Distinct: distinct, Exhaustive: complete, Outcomes: int64(len(outs)),
			Bounds: map[string]any{"versions": "0.." + fmt.Sprint(frame.LatestVersion), "spaces(menu sizes per dimension)": dims, "outcomes": outs},
			Note:   "every (version, menu index vector) of every space is built, encoded and decoded by the real codec; distinct_nontrivial = number of distinct (version, wire image) pairs of frames with a body (64-bit hash set)",
			WallS:  float64(secWall[si]) / 1e9 / float64(workers)})
		r.Guard("complete/"+name, complete || nshards > 1 && evals == expected[si], "evaluated %d of %d cases", evals, expected[si])
		r.Guard("distinct/"+name, distinct*10 >= evals || name == "header", "distinct wire images %d of %d evaluations", distinct, evals)
	}
	if nshards == 1 {
		need := []string{"SEND+stream+expire+topic/len1", "SEND/len1", "SEND+expire/len2", "RECV+stream+expire+topic/len1", "RECV+expire+topic+seq64/len1",
			"RECV/len1", "SENDACK+msgno+seq64/len1", "SENDACK/len1", "CONNACK+srvver+nodeid/len1", "CONNACK/len1", "RECVACK+seq64/len1", "RECVACK/len1",
			"PING/len0", "PONG/len0", "RECV+expire+topic+seq64/len3", "RECV+stream+expire+topic/len3", "SEND+expire+topic/len3", "SEND+stream+expire+topic/len3", "EVENT/len3", "CONNECT/len3", "DISCONNECT/len3", "SUB/len3", "SUBACK/len3", "SENDACK+msgno/len3", "CONNACK+srvver+nodeid/len3", "CONNECT/len2", "DISCONNECT/len2", "SUB/len2", "SUBACK/len2"}
		var missing []string
		for _, k := range need {
			if !allOutcomes[k] {
				missing = append(missing, k)
			}
		}
		r.Guard("gating-classes-seen", len(missing) == 0, "missing outcome classes: %v (seen %d classes)", missing, len(allOutcomes))
	}
	c22LimitProbes(r)
	r.Assume("equality is over the fields the wire format of (frame type, version) carries: fields a version does not carry (SEND/RECV stream fields outside 2<=v<5 or without the Stream setting bit, Expire for v<3, Topic without the Topic bit, CONNACK NodeId for v<4 and ServerVersion without HasServerVersion, RECV.ClientSeq) must decode to their zero value; Framer.RemainingLength/FrameSize/End are decoder bookkeeping and not compared; nil and empty payloads are the same payload")
	r.Assume("header flags: CONNACK's flag nibble carries HasServerVersion only (decoded NoPersist aliases that bit), PING/PONG are encoded as type<<4 and carry no flags; DUP/SyncOnce/RedDot/NoPersist are compared for every other type")
	r.Assume("protocol limits taken from the encoder/decoder: strings and binary fields <= 32767 bytes (Encoder.WriteString panics above), SEND payload <= PayloadMaxSize, ClientSeq <= 2^32-1 (encoded as uint32), MessageSeq <= 2^32-1 for versions <= 5, body <= MaxRemaingLength (1 MiB)")
}

func sectionOf(space string) string {
	if i := strings.IndexByte(space, '/'); i > 0 {
		return space[:i]
	}
	return space
}

func c22Hex(b []byte) string {
	if len(b) > 96 {
		return hex.EncodeToString(b[:96]) + fmt.Sprintf("...(+%d bytes)", len(b)-96)
	}
	return hex.EncodeToString(b)
}

// c22Permute is a deterministic Fisher-Yates shuffle driven by the seed (order only).
func c22Permute(u []c22Unit, seed int64) {
	if seed == 0 {
		return
	}
	x := uint64(seed)*0x9E3779B97F4A7C15 + 1
	for i := len(u) - 1; i > 0; i-- {
		x ^= x << 13
		x ^= x >> 7
		x ^= x << 17
		j := int(x % uint64(i+1))
		u[i], u[j] = u[j], u[i]
	}
}

// c22LimitProbes records (as counters, not as an oracle) that the limits the menus respect
// are the ones the real encoder/decoder enforce.
func c22LimitProbes(r *ev.R) {
	p := New()
	probe := func(name string, f func() error) {
		var err error
		if perr := ev.Recover(func() { err = f() }); perr != nil {
			r.Count("limit_probe/"+name+"/panics", 1)
			return
		}
		if err != nil {
			r.Count("limit_probe/"+name+"/rejected", 1)
		} else {
			r.Count("limit_probe/"+name+"/accepted", 1)
		}
	}
	probe("string-32768", func() error {
		_, err := p.EncodeFrame(&frame.DisconnectPacket{Reason: string(c22Pool['r'][:c22MaxStr+1])}, frame.LatestVersion)
		return err
	})
	probe("send-payload-32768", func() error {
		_, err := p.EncodeFrame(&frame.SendPacket{Payload: c22Pool['P'][:PayloadMaxSize+1]}, frame.LatestVersion)
		return err
	})
	probe("legacy-messageseq-2^32", func() error {
		_, err := p.EncodeFrame(&frame.RecvackPacket{MessageSeq: 1 << 32}, frame.LegacyMessageSeqVersion)
		return err
	})
	probe("body-1MiB+1-decode", func() error {
		ep := &frame.EventPacket{Data: c22Pool['D'][:int(MaxRemaingLength)+1-12]}
		b, err := p.EncodeFrame(ep, frame.LatestVersion)
		if err != nil {
			return nil
		}
		_, _, err = p.DecodeFrame(b, frame.LatestVersion)
		return err
	})
}
