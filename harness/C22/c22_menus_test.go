package codec

// C22 case spaces: finite menus per frame field; every space is enumerated completely
// (mixed-radix index over its dimensions) for every protocol version 0..LatestVersion.

import (
	"math"

	"github.com/WuKongIM/WuKongIM/pkg/protocol/frame"
)

// c22Space is one finite product of menus. build must be a pure function of (ix, v).
type c22Space struct {
	name  string
	dims  []int
	names []string
	build func(ix []int, v uint8) frame.Frame
}

func (s *c22Space) size() int64 {
	n := int64(1)
	for _, d := range s.dims {
		n *= int64(d)
	}
	return n
}

func (s *c22Space) index(lin int64, ix []int) []int {
	ix = ix[:0]
	for _, d := range s.dims {
		ix = append(ix, int(lin%int64(d)))
		lin /= int64(d)
	}
	return ix
}

// ---- value pools (shared, read-only) -------------------------------------------------

const c22MaxStr = math.MaxInt16 // Encoder.WriteString / WriteBinary panic above this length

var c22Pool = func() map[byte][]byte {
	m := map[byte][]byte{}
	for _, tag := range []byte("dutkSsmcnTrfpgIyPDq") {
		b := make([]byte, 1<<20+64)
		for i := range b {
			b[i] = tag + byte(i*31) + byte(i>>8) // first byte = tag; covers 0x00, 0x80, 0xFF
		}
		m[tag] = b
	}
	return m
}()

var c22StrPool = func() map[byte]string {
	m := map[byte]string{}
	for k, v := range c22Pool {
		m[k] = string(v[:c22MaxStr])
	}
	return m
}()

func c22S(tag byte, n int) string { return c22StrPool[tag][:n] }
func c22B(tag byte, n int) []byte {
	if n == 0 {
		return nil
	}
	return c22Pool[tag][:n:n]
}

func c22Flags(fr *frame.Framer, bits int) {
	fr.NoPersist = bits&1 != 0
	fr.RedDot = bits&2 != 0
	fr.SyncOnce = bits&4 != 0
	fr.DUP = bits&8 != 0
	fr.HasServerVersion = bits&16 != 0
	fr.End = bits&32 != 0
}

var (
	c22Flags4    = []int{0, 0xF, 0x5, 0xA}
	c22Settings8 = []frame.Setting{0x00, 0x02, 0x08, 0x0A, 0xF5, 0xF7, 0xFD, 0xFF}
	c22Settings4 = []frame.Setting{0x00, 0x02, 0x08, 0x0A}
	c22U64B      = []uint64{0, 1, 127, 128, 255, 256, 65535, 65536, 1<<31 - 1, 1 << 31, 1<<32 - 1, 1 << 32, 1<<63 - 1, 1 << 63, math.MaxUint64, 0x0102030405060708, 0xF1E2D3C4B5A69788}
	c22U32B      = []uint32{0, 1, 127, 128, 255, 256, 65535, 65536, 1<<31 - 1, 1 << 31, math.MaxUint32, 0x01020304, 0xF1E2D3C4}
	c22I64B      = []int64{0, 1, -1, 127, 128, -128, 255, 256, 1<<31 - 1, -(1 << 31), 1 << 32, math.MaxInt64, math.MinInt64, 0x0102030405060708, -0x0102030405060708}
	c22I32B      = []int32{0, 1, -1, 127, 128, 255, 256, 65535, math.MaxInt32, math.MinInt32, 0x01020304, -0x01020304}
	c22U64x2     = []uint64{0, 0xF1E2D3C4B5A69788}
	c22U64x3     = []uint64{0, 0x0102030405060708, math.MaxUint64}
	c22U32x2     = []uint32{0, 0xF1E2D3C4}
	c22U32x3     = []uint32{0, 0x01020304, math.MaxUint32}
	c22I64x2     = []int64{0, -0x0102030405060708}
	c22I64x3     = []int64{0, math.MaxInt64, -0x0102030405060708}
	c22I32x2     = []int32{0, -0x01020304}
	c22U8x2      = []uint8{0, 0xA5}
	c22U8x3      = []uint8{0, 1, 255}
)

// c22Seq keeps a message sequence inside the version's limit: the legacy encoding
// (version <= LegacyMessageSeqVersion) carries 32 bits and the encoder rejects more.
func c22Seq(x uint64, v uint8) uint64 {
	if v <= frame.LegacyMessageSeqVersion {
		return uint64(uint32(x))
	}
	return x
}

// ---- product spaces ------------------------------------------------------------------

// c22Products returns, per frame type, the full cartesian product of (reduced) field menus.
func c22Products(thorough bool) []*c22Space {
	sl := []int{0, 1, 128}
	slRecv := []int{0, 3}
	pl := []int{0, 1, 128}
	plRecv := []int{0, 128}
	flRecv := []int{0, 0xF}
	if thorough {
		sl = []int{0, 1, 127, 128}
		slRecv = []int{0, 1, 128}
		plRecv = pl
		flRecv = c22Flags4
	}
	n := len(sl)
	var out []*c22Space

	out = append(out, &c22Space{name: "product/CONNECT",
		names: []string{"flags", "Version", "DeviceFlag", "DeviceID", "UID", "Token", "ClientTimestamp", "ClientKey"},
		dims:  []int{4, 2, 2, n, n, n, 2, n},
		build: func(ix []int, v uint8) frame.Frame {
			p := &frame.ConnectPacket{Version: c22U8x2[ix[1]], DeviceFlag: frame.DeviceFlag([]uint8{0, 99}[ix[2]]),
				DeviceID: c22S('d', sl[ix[3]]), UID: c22S('u', sl[ix[4]]), Token: c22S('t', sl[ix[5]]),
				ClientTimestamp: c22I64x2[ix[6]], ClientKey: c22S('k', sl[ix[7]])}
			c22Flags(&p.Framer, c22Flags4[ix[0]])
			return p
		}})

	out = append(out, &c22Space{name: "product/CONNACK",
		names: []string{"flags(incl HasServerVersion)", "ServerVersion", "TimeDiff", "ReasonCode", "ServerKey", "Salt", "NodeId"},
		dims:  []int{4, 2, 2, 3, n, n, 2},
		build: func(ix []int, v uint8) frame.Frame {
			p := &frame.ConnackPacket{ServerVersion: c22U8x2[ix[1]], TimeDiff: c22I64x2[ix[2]], ReasonCode: frame.ReasonCode(c22U8x3[ix[3]]),
				ServerKey: c22S('S', sl[ix[4]]), Salt: c22S('s', sl[ix[5]]), NodeId: c22U64x2[ix[6]]}
			c22Flags(&p.Framer, []int{0, 16, 0xF, 16 | 0xF}[ix[0]])
			return p
		}})

	out = append(out, &c22Space{name: "product/SEND",
		names: []string{"flags", "Setting", "MsgKey", "Expire", "ClientSeq", "ClientMsgNo", "StreamNo", "ChannelID", "ChannelType", "Topic", "Payload"},
		dims:  []int{4, 8, n, 2, 2, n, n, n, 2, n, len(pl)},
		build: func(ix []int, v uint8) frame.Frame {
			p := &frame.SendPacket{Setting: c22Settings8[ix[1]], MsgKey: c22S('m', sl[ix[2]]), Expire: c22U32x2[ix[3]],
				ClientSeq: uint64(c22U32x2[ix[4]]), ClientMsgNo: c22S('c', sl[ix[5]]), StreamNo: c22S('n', sl[ix[6]]),
				ChannelID: c22S('I', sl[ix[7]]), ChannelType: c22U8x2[ix[8]], Topic: c22S('T', sl[ix[9]]), Payload: c22B('P', pl[ix[10]])}
			c22Flags(&p.Framer, c22Flags4[ix[0]])
			return p
		}})

	out = append(out, &c22Space{name: "product/SENDACK",
		names: []string{"flags", "MessageID", "MessageSeq", "ClientSeq", "ClientMsgNo", "ReasonCode"},
		dims:  []int{4, 3, 3, 3, n + 1, 3},
		build: func(ix []int, v uint8) frame.Frame {
			lens := append(append([]int{}, sl...), 2)
			p := &frame.SendackPacket{MessageID: c22I64x3[ix[1]], MessageSeq: c22Seq(c22U64x3[ix[2]], v), ClientSeq: uint64(c22U32x3[ix[3]]),
				ClientMsgNo: c22S('c', lens[ix[4]]), ReasonCode: frame.ReasonCode(c22U8x3[ix[5]])}
			c22Flags(&p.Framer, c22Flags4[ix[0]])
			return p
		}})

	nr := len(slRecv)
	out = append(out, &c22Space{name: "product/RECV",
		names: []string{"flags", "Setting", "MsgKey", "FromUID", "ChannelID", "ClientMsgNo", "StreamNo", "Topic", "ChannelType+Expire", "StreamFlag+StreamId", "MessageID+MessageSeq", "Timestamp+ClientSeq", "Payload"},
		dims:  []int{len(flRecv), 8, nr, nr, nr, nr, nr, nr, 2, 2, 2, 2, len(plRecv)},
		build: func(ix []int, v uint8) frame.Frame {
			p := &frame.RecvPacket{Setting: c22Settings8[ix[1]], MsgKey: c22S('m', slRecv[ix[2]]), FromUID: c22S('f', slRecv[ix[3]]),
				ChannelID: c22S('I', slRecv[ix[4]]), ClientMsgNo: c22S('c', slRecv[ix[5]]), StreamNo: c22S('n', slRecv[ix[6]]), Topic: c22S('T', slRecv[ix[7]]),
				ChannelType: c22U8x2[ix[8]], Expire: c22U32x2[ix[8]], StreamFlag: frame.StreamFlag(c22U8x2[ix[9]]), StreamId: c22U64x2[ix[9]],
				MessageID: c22I64x2[ix[10]], MessageSeq: c22Seq(c22U64x2[ix[10]], v), Timestamp: c22I32x2[ix[11]], ClientSeq: uint64(ix[11] * 7),
				Payload: c22B('P', plRecv[ix[12]])}
			c22Flags(&p.Framer, flRecv[ix[0]])
			return p
		}})

	out = append(out, &c22Space{name: "product/RECVACK",
		names: []string{"flags", "MessageID", "MessageSeq"},
		dims:  []int{16, len(c22I64B), len(c22U64B)},
		build: func(ix []int, v uint8) frame.Frame {
			p := &frame.RecvackPacket{MessageID: c22I64B[ix[1]], MessageSeq: c22Seq(c22U64B[ix[2]], v)}
			c22Flags(&p.Framer, ix[0])
			return p
		}})

	out = append(out, &c22Space{name: "product/DISCONNECT",
		names: []string{"flags", "ReasonCode", "Reason"},
		dims:  []int{16, 256, n},
		build: func(ix []int, v uint8) frame.Frame {
			p := &frame.DisconnectPacket{ReasonCode: frame.ReasonCode(ix[1]), Reason: c22S('r', sl[ix[2]])}
			c22Flags(&p.Framer, ix[0])
			return p
		}})

	out = append(out, &c22Space{name: "product/SUB",
		names: []string{"flags", "Setting", "SubNo", "ChannelID", "ChannelType", "Action", "Param"},
		dims:  []int{4, 8, n, n, 2, 3, n},
		build: func(ix []int, v uint8) frame.Frame {
			p := &frame.SubPacket{Setting: c22Settings8[ix[1]], SubNo: c22S('q', sl[ix[2]]), ChannelID: c22S('I', sl[ix[3]]),
				ChannelType: c22U8x2[ix[4]], Action: frame.Action(c22U8x3[ix[5]]), Param: c22S('p', sl[ix[6]])}
			c22Flags(&p.Framer, c22Flags4[ix[0]])
			return p
		}})

	out = append(out, &c22Space{name: "product/SUBACK",
		names: []string{"flags", "SubNo", "ChannelID", "ChannelType", "Action", "ReasonCode"},
		dims:  []int{4, n, n, 2, 3, 3},
		build: func(ix []int, v uint8) frame.Frame {
			p := &frame.SubackPacket{SubNo: c22S('q', sl[ix[1]]), ChannelID: c22S('I', sl[ix[2]]), ChannelType: c22U8x2[ix[3]],
				Action: frame.Action(c22U8x3[ix[4]]), ReasonCode: frame.ReasonCode(c22U8x3[ix[5]])}
			c22Flags(&p.Framer, c22Flags4[ix[0]])
			return p
		}})

	out = append(out, &c22Space{name: "product/EVENT",
		names: []string{"flags", "Id", "Type", "Timestamp", "Data"},
		dims:  []int{4, n, n, 3, len(pl)},
		build: func(ix []int, v uint8) frame.Frame {
			p := &frame.EventPacket{Id: c22S('y', sl[ix[1]]), Type: c22S('g', sl[ix[2]]), Timestamp: c22I64x3[ix[3]], Data: c22B('D', pl[ix[4]])}
			c22Flags(&p.Framer, c22Flags4[ix[0]])
			return p
		}})
	return out
}

// ---- baselines ("rich" = every optional field present and non-zero) --------------------

func c22Baseline(t frame.FrameType, rich bool, v uint8) frame.Frame {
	l := 0
	if rich {
		l = 5
	}
	var u8 uint8
	var u32 uint32
	var u64 uint64
	var i64 int64
	var i32 int32
	if rich {
		u8, u32, u64, i64, i32 = 0xA5, 0xF1E2D3C4, 0xF1E2D3C4B5A69788, -0x0102030405060708, -0x01020304
	}
	switch t {
	case frame.CONNECT:
		return &frame.ConnectPacket{Version: u8, DeviceFlag: frame.DeviceFlag(u8), DeviceID: c22S('d', l), UID: c22S('u', l), Token: c22S('t', l), ClientTimestamp: i64, ClientKey: c22S('k', l)}
	case frame.CONNACK:
		return &frame.ConnackPacket{ServerVersion: u8, TimeDiff: i64, ReasonCode: frame.ReasonCode(u8), ServerKey: c22S('S', l), Salt: c22S('s', l), NodeId: u64}
	case frame.SEND:
		p := &frame.SendPacket{MsgKey: c22S('m', l), Expire: u32, ClientSeq: uint64(u32), ClientMsgNo: c22S('c', l), StreamNo: c22S('n', l), ChannelID: c22S('I', l), ChannelType: u8, Topic: c22S('T', l), Payload: c22B('P', l)}
		if rich {
			p.Setting = 0xFF
		}
		return p
	case frame.SENDACK:
		return &frame.SendackPacket{MessageID: i64, MessageSeq: c22Seq(u64, v), ClientSeq: uint64(u32), ClientMsgNo: c22S('c', l), ReasonCode: frame.ReasonCode(u8)}
	case frame.RECV:
		p := &frame.RecvPacket{MsgKey: c22S('m', l), Expire: u32, MessageID: i64, MessageSeq: c22Seq(u64, v), ClientMsgNo: c22S('c', l), StreamNo: c22S('n', l), StreamId: u64,
			StreamFlag: frame.StreamFlag(u8), Timestamp: i32, ChannelID: c22S('I', l), ChannelType: u8, Topic: c22S('T', l), FromUID: c22S('f', l), Payload: c22B('P', l), ClientSeq: uint64(u8)}
		if rich {
			p.Setting = 0xFF
		}
		return p
	case frame.RECVACK:
		return &frame.RecvackPacket{MessageID: i64, MessageSeq: c22Seq(u64, v)}
	case frame.DISCONNECT:
		return &frame.DisconnectPacket{ReasonCode: frame.ReasonCode(u8), Reason: c22S('r', l)}
	case frame.SUB:
		return &frame.SubPacket{Setting: frame.Setting(u8), SubNo: c22S('q', l), ChannelID: c22S('I', l), ChannelType: u8, Action: frame.Action(u8), Param: c22S('p', l)}
	case frame.SUBACK:
		return &frame.SubackPacket{SubNo: c22S('q', l), ChannelID: c22S('I', l), ChannelType: u8, Action: frame.Action(u8), ReasonCode: frame.ReasonCode(u8)}
	case frame.EVENT:
		return &frame.EventPacket{Id: c22S('y', l), Type: c22S('g', l), Timestamp: i64, Data: c22B('D', l)}
	case frame.PING:
		return &frame.PingPacket{}
	case frame.PONG:
		return &frame.PongPacket{}
	}
	return nil
}

func c22Framer(f frame.Frame) *frame.Framer {
	switch p := f.(type) {
	case *frame.ConnectPacket:
		return &p.Framer
	case *frame.ConnackPacket:
		return &p.Framer
	case *frame.SendPacket:
		return &p.Framer
	case *frame.SendackPacket:
		return &p.Framer
	case *frame.RecvPacket:
		return &p.Framer
	case *frame.RecvackPacket:
		return &p.Framer
	case *frame.DisconnectPacket:
		return &p.Framer
	case *frame.SubPacket:
		return &p.Framer
	case *frame.SubackPacket:
		return &p.Framer
	case *frame.EventPacket:
		return &p.Framer
	case *frame.PingPacket:
		return &p.Framer
	case *frame.PongPacket:
		return &p.Framer
	}
	return nil
}

var c22AllTypes = []frame.FrameType{frame.CONNECT, frame.CONNACK, frame.SEND, frame.SENDACK, frame.RECV, frame.RECVACK,
	frame.PING, frame.PONG, frame.DISCONNECT, frame.SUB, frame.SUBACK, frame.EVENT}

// c22Header: every frame type x all 64 Framer bit combinations x {minimal, rich} body.
func c22Header() *c22Space {
	return &c22Space{name: "header/all-types",
		names: []string{"type", "framer bits (NoPersist,RedDot,SyncOnce,DUP,HasServerVersion,End)", "body(min|rich)"},
		dims:  []int{len(c22AllTypes), 64, 2},
		build: func(ix []int, v uint8) frame.Frame {
			f := c22Baseline(c22AllTypes[ix[0]], ix[2] == 1, v)
			c22Flags(c22Framer(f), ix[1])
			return f
		}}
}

// ---- single-field sweeps -----------------------------------------------------------------

type c22Var struct {
	field string
	n     int
	set   func(f frame.Frame, i int, v uint8)
}

func c22Lens(thorough bool) []int {
	n := 300
	if thorough {
		n = 2100
	}
	l := make([]int, 0, n+1)
	for i := 0; i <= n; i++ {
		l = append(l, i)
	}
	return l
}

// c22Sizes: large field lengths. Per frame type one designated variable-length field runs over
// a dense range of lengths (quick: 16184..16394 and 32727..32767, so that the body size crosses
// the 2->3 byte varint edge 16383/16384 for every type and version and reaches the 32767 string
// limit; thorough: every length 0..32767) and every other string field takes {16384, 32766, 32767}.
func c22Sizes(thorough bool) []*c22Space {
	var dense []int
	add := func(a, b int) {
		for i := a; i <= b; i++ {
			dense = append(dense, i)
		}
	}
	if thorough {
		add(0, c22MaxStr)
	} else {
		add(16184, 16394)
		add(c22MaxStr-40, c22MaxStr)
	}
	few := []int{16384, c22MaxStr - 1, c22MaxStr}
	type fld struct {
		name string
		set  func(f frame.Frame, n int)
	}
	fields := map[frame.FrameType][]fld{ // first entry = designated dense field
		frame.CONNECT: {
			{"Token", func(f frame.Frame, n int) { f.(*frame.ConnectPacket).Token = c22S('t', n) }},
			{"DeviceID", func(f frame.Frame, n int) { f.(*frame.ConnectPacket).DeviceID = c22S('d', n) }},
			{"UID", func(f frame.Frame, n int) { f.(*frame.ConnectPacket).UID = c22S('u', n) }},
			{"ClientKey", func(f frame.Frame, n int) { f.(*frame.ConnectPacket).ClientKey = c22S('k', n) }},
		},
		frame.CONNACK: {
			{"Salt", func(f frame.Frame, n int) { f.(*frame.ConnackPacket).Salt = c22S('s', n) }},
			{"ServerKey", func(f frame.Frame, n int) { f.(*frame.ConnackPacket).ServerKey = c22S('S', n) }},
		},
		frame.SEND: {
			{"Payload", func(f frame.Frame, n int) { f.(*frame.SendPacket).Payload = c22B('P', n) }},
			{"MsgKey", func(f frame.Frame, n int) { f.(*frame.SendPacket).MsgKey = c22S('m', n) }},
			{"ClientMsgNo", func(f frame.Frame, n int) { f.(*frame.SendPacket).ClientMsgNo = c22S('c', n) }},
			{"StreamNo", func(f frame.Frame, n int) { f.(*frame.SendPacket).StreamNo = c22S('n', n) }},
			{"ChannelID", func(f frame.Frame, n int) { f.(*frame.SendPacket).ChannelID = c22S('I', n) }},
			{"Topic", func(f frame.Frame, n int) { f.(*frame.SendPacket).Topic = c22S('T', n) }},
		},
		frame.SENDACK: {
			{"ClientMsgNo", func(f frame.Frame, n int) { f.(*frame.SendackPacket).ClientMsgNo = c22S('c', n) }},
		},
		frame.RECV: {
			{"Payload", func(f frame.Frame, n int) { f.(*frame.RecvPacket).Payload = c22B('P', n) }},
			{"MsgKey", func(f frame.Frame, n int) { f.(*frame.RecvPacket).MsgKey = c22S('m', n) }},
			{"FromUID", func(f frame.Frame, n int) { f.(*frame.RecvPacket).FromUID = c22S('f', n) }},
			{"ChannelID", func(f frame.Frame, n int) { f.(*frame.RecvPacket).ChannelID = c22S('I', n) }},
			{"ClientMsgNo", func(f frame.Frame, n int) { f.(*frame.RecvPacket).ClientMsgNo = c22S('c', n) }},
			{"StreamNo", func(f frame.Frame, n int) { f.(*frame.RecvPacket).StreamNo = c22S('n', n) }},
			{"Topic", func(f frame.Frame, n int) { f.(*frame.RecvPacket).Topic = c22S('T', n) }},
		},
		frame.DISCONNECT: {
			{"Reason", func(f frame.Frame, n int) { f.(*frame.DisconnectPacket).Reason = c22S('r', n) }},
		},
		frame.SUB: {
			{"Param", func(f frame.Frame, n int) { f.(*frame.SubPacket).Param = c22S('p', n) }},
			{"SubNo", func(f frame.Frame, n int) { f.(*frame.SubPacket).SubNo = c22S('q', n) }},
			{"ChannelID", func(f frame.Frame, n int) { f.(*frame.SubPacket).ChannelID = c22S('I', n) }},
		},
		frame.SUBACK: {
			{"SubNo", func(f frame.Frame, n int) { f.(*frame.SubackPacket).SubNo = c22S('q', n) }},
			{"ChannelID", func(f frame.Frame, n int) { f.(*frame.SubackPacket).ChannelID = c22S('I', n) }},
		},
		frame.EVENT: {
			{"Data", func(f frame.Frame, n int) { f.(*frame.EventPacket).Data = c22B('D', n) }},
			{"Id", func(f frame.Frame, n int) { f.(*frame.EventPacket).Id = c22S('y', n) }},
			{"Type", func(f frame.Frame, n int) { f.(*frame.EventPacket).Type = c22S('g', n) }},
		},
	}
	var out []*c22Space
	for _, t := range c22AllTypes {
		fs := fields[t]
		if len(fs) == 0 {
			continue
		}
		t := t
		total := len(dense) + (len(fs)-1)*len(few)
		out = append(out, &c22Space{name: "sizes/" + t.String(),
			names: []string{"large length of one field (" + fs[0].name + " dense, others {16384,32766,32767})", "flags"},
			dims:  []int{total, 2},
			build: func(ix []int, v uint8) frame.Frame {
				f := c22Baseline(t, true, v)
				if i := ix[0]; i < len(dense) {
					fs[0].set(f, dense[i])
				} else {
					i -= len(dense)
					fs[1+i/len(few)].set(f, few[i%len(few)])
				}
				c22Flags(c22Framer(f), []int{0xA, 0x15}[ix[1]])
				return f
			}})
	}
	return out
}

// c22Sweeps: for every field of every frame type a large boundary menu, the other fields at
// the rich baseline; crossed with the header-flag nibbles {0,F,5,A} (thorough: all 16) (x HasServerVersion for CONNACK)
// and, for frames with a Setting byte that gates fields, with the 4 gate combinations.
func c22Sweeps(thorough bool) []*c22Space {
	lens := c22Lens(thorough)
	str := func(name string, set func(f frame.Frame, s string), tag byte) c22Var {
		return c22Var{name, len(lens), func(f frame.Frame, i int, v uint8) { set(f, c22S(tag, lens[i])) }}
	}
	bin := func(name string, set func(f frame.Frame, b []byte), tag byte) c22Var {
		return c22Var{name, len(lens), func(f frame.Frame, i int, v uint8) { set(f, c22B(tag, lens[i])) }}
	}
	u8 := func(name string, set func(f frame.Frame, x uint8)) c22Var {
		return c22Var{name, 256, func(f frame.Frame, i int, v uint8) { set(f, uint8(i)) }}
	}
	u32 := func(name string, set func(f frame.Frame, x uint32)) c22Var {
		return c22Var{name, len(c22U32B), func(f frame.Frame, i int, v uint8) { set(f, c22U32B[i]) }}
	}
	u64 := func(name string, set func(f frame.Frame, x uint64, v uint8)) c22Var {
		return c22Var{name, len(c22U64B), func(f frame.Frame, i int, v uint8) { set(f, c22U64B[i], v) }}
	}
	i64 := func(name string, set func(f frame.Frame, x int64)) c22Var {
		return c22Var{name, len(c22I64B), func(f frame.Frame, i int, v uint8) { set(f, c22I64B[i]) }}
	}
	i32 := func(name string, set func(f frame.Frame, x int32)) c22Var {
		return c22Var{name, len(c22I32B), func(f frame.Frame, i int, v uint8) { set(f, c22I32B[i]) }}
	}
	vars := map[frame.FrameType][]c22Var{
		frame.CONNECT: {
			u8("Version", func(f frame.Frame, x uint8) { f.(*frame.ConnectPacket).Version = x }),
			u8("DeviceFlag", func(f frame.Frame, x uint8) { f.(*frame.ConnectPacket).DeviceFlag = frame.DeviceFlag(x) }),
			str("DeviceID", func(f frame.Frame, s string) { f.(*frame.ConnectPacket).DeviceID = s }, 'd'),
			str("UID", func(f frame.Frame, s string) { f.(*frame.ConnectPacket).UID = s }, 'u'),
			str("Token", func(f frame.Frame, s string) { f.(*frame.ConnectPacket).Token = s }, 't'),
			i64("ClientTimestamp", func(f frame.Frame, x int64) { f.(*frame.ConnectPacket).ClientTimestamp = x }),
			str("ClientKey", func(f frame.Frame, s string) { f.(*frame.ConnectPacket).ClientKey = s }, 'k'),
		},
		frame.CONNACK: {
			u8("ServerVersion", func(f frame.Frame, x uint8) { f.(*frame.ConnackPacket).ServerVersion = x }),
			i64("TimeDiff", func(f frame.Frame, x int64) { f.(*frame.ConnackPacket).TimeDiff = x }),
			u8("ReasonCode", func(f frame.Frame, x uint8) { f.(*frame.ConnackPacket).ReasonCode = frame.ReasonCode(x) }),
			str("ServerKey", func(f frame.Frame, s string) { f.(*frame.ConnackPacket).ServerKey = s }, 'S'),
			str("Salt", func(f frame.Frame, s string) { f.(*frame.ConnackPacket).Salt = s }, 's'),
			u64("NodeId", func(f frame.Frame, x uint64, v uint8) { f.(*frame.ConnackPacket).NodeId = x }),
		},
		frame.SEND: {
			u8("Setting", func(f frame.Frame, x uint8) { f.(*frame.SendPacket).Setting = frame.Setting(x) }),
			str("MsgKey", func(f frame.Frame, s string) { f.(*frame.SendPacket).MsgKey = s }, 'm'),
			u32("Expire", func(f frame.Frame, x uint32) { f.(*frame.SendPacket).Expire = x }),
			u32("ClientSeq", func(f frame.Frame, x uint32) { f.(*frame.SendPacket).ClientSeq = uint64(x) }),
			str("ClientMsgNo", func(f frame.Frame, s string) { f.(*frame.SendPacket).ClientMsgNo = s }, 'c'),
			str("StreamNo", func(f frame.Frame, s string) { f.(*frame.SendPacket).StreamNo = s }, 'n'),
			str("ChannelID", func(f frame.Frame, s string) { f.(*frame.SendPacket).ChannelID = s }, 'I'),
			u8("ChannelType", func(f frame.Frame, x uint8) { f.(*frame.SendPacket).ChannelType = x }),
			str("Topic", func(f frame.Frame, s string) { f.(*frame.SendPacket).Topic = s }, 'T'),
			bin("Payload", func(f frame.Frame, b []byte) { f.(*frame.SendPacket).Payload = b }, 'P'),
		},
		frame.SENDACK: {
			i64("MessageID", func(f frame.Frame, x int64) { f.(*frame.SendackPacket).MessageID = x }),
			u64("MessageSeq", func(f frame.Frame, x uint64, v uint8) { f.(*frame.SendackPacket).MessageSeq = c22Seq(x, v) }),
			u32("ClientSeq", func(f frame.Frame, x uint32) { f.(*frame.SendackPacket).ClientSeq = uint64(x) }),
			str("ClientMsgNo", func(f frame.Frame, s string) { f.(*frame.SendackPacket).ClientMsgNo = s }, 'c'),
			u8("ReasonCode", func(f frame.Frame, x uint8) { f.(*frame.SendackPacket).ReasonCode = frame.ReasonCode(x) }),
		},
		frame.RECV: {
			u8("Setting", func(f frame.Frame, x uint8) { f.(*frame.RecvPacket).Setting = frame.Setting(x) }),
			str("MsgKey", func(f frame.Frame, s string) { f.(*frame.RecvPacket).MsgKey = s }, 'm'),
			str("FromUID", func(f frame.Frame, s string) { f.(*frame.RecvPacket).FromUID = s }, 'f'),
			str("ChannelID", func(f frame.Frame, s string) { f.(*frame.RecvPacket).ChannelID = s }, 'I'),
			u8("ChannelType", func(f frame.Frame, x uint8) { f.(*frame.RecvPacket).ChannelType = x }),
			u32("Expire", func(f frame.Frame, x uint32) { f.(*frame.RecvPacket).Expire = x }),
			str("ClientMsgNo", func(f frame.Frame, s string) { f.(*frame.RecvPacket).ClientMsgNo = s }, 'c'),
			u8("StreamFlag", func(f frame.Frame, x uint8) { f.(*frame.RecvPacket).StreamFlag = frame.StreamFlag(x) }),
			str("StreamNo", func(f frame.Frame, s string) { f.(*frame.RecvPacket).StreamNo = s }, 'n'),
			u64("StreamId", func(f frame.Frame, x uint64, v uint8) { f.(*frame.RecvPacket).StreamId = x }),
			i64("MessageID", func(f frame.Frame, x int64) { f.(*frame.RecvPacket).MessageID = x }),
			u64("MessageSeq", func(f frame.Frame, x uint64, v uint8) { f.(*frame.RecvPacket).MessageSeq = c22Seq(x, v) }),
			i32("Timestamp", func(f frame.Frame, x int32) { f.(*frame.RecvPacket).Timestamp = x }),
			str("Topic", func(f frame.Frame, s string) { f.(*frame.RecvPacket).Topic = s }, 'T'),
			bin("Payload", func(f frame.Frame, b []byte) { f.(*frame.RecvPacket).Payload = b }, 'P'),
			u64("ClientSeq(not encoded)", func(f frame.Frame, x uint64, v uint8) { f.(*frame.RecvPacket).ClientSeq = x }),
		},
		frame.RECVACK: {
			i64("MessageID", func(f frame.Frame, x int64) { f.(*frame.RecvackPacket).MessageID = x }),
			u64("MessageSeq", func(f frame.Frame, x uint64, v uint8) { f.(*frame.RecvackPacket).MessageSeq = c22Seq(x, v) }),
		},
		frame.DISCONNECT: {
			u8("ReasonCode", func(f frame.Frame, x uint8) { f.(*frame.DisconnectPacket).ReasonCode = frame.ReasonCode(x) }),
			str("Reason", func(f frame.Frame, s string) { f.(*frame.DisconnectPacket).Reason = s }, 'r'),
		},
		frame.SUB: {
			u8("Setting", func(f frame.Frame, x uint8) { f.(*frame.SubPacket).Setting = frame.Setting(x) }),
			str("SubNo", func(f frame.Frame, s string) { f.(*frame.SubPacket).SubNo = s }, 'q'),
			str("ChannelID", func(f frame.Frame, s string) { f.(*frame.SubPacket).ChannelID = s }, 'I'),
			u8("ChannelType", func(f frame.Frame, x uint8) { f.(*frame.SubPacket).ChannelType = x }),
			u8("Action", func(f frame.Frame, x uint8) { f.(*frame.SubPacket).Action = frame.Action(x) }),
			str("Param", func(f frame.Frame, s string) { f.(*frame.SubPacket).Param = s }, 'p'),
		},
		frame.SUBACK: {
			str("SubNo", func(f frame.Frame, s string) { f.(*frame.SubackPacket).SubNo = s }, 'q'),
			str("ChannelID", func(f frame.Frame, s string) { f.(*frame.SubackPacket).ChannelID = s }, 'I'),
			u8("ChannelType", func(f frame.Frame, x uint8) { f.(*frame.SubackPacket).ChannelType = x }),
			u8("Action", func(f frame.Frame, x uint8) { f.(*frame.SubackPacket).Action = frame.Action(x) }),
			u8("ReasonCode", func(f frame.Frame, x uint8) { f.(*frame.SubackPacket).ReasonCode = frame.ReasonCode(x) }),
		},
		frame.EVENT: {
			str("Id", func(f frame.Frame, s string) { f.(*frame.EventPacket).Id = s }, 'y'),
			str("Type", func(f frame.Frame, s string) { f.(*frame.EventPacket).Type = s }, 'g'),
			i64("Timestamp", func(f frame.Frame, x int64) { f.(*frame.EventPacket).Timestamp = x }),
			bin("Data", func(f frame.Frame, b []byte) { f.(*frame.EventPacket).Data = b }, 'D'),
		},
	}
	var out []*c22Space
	for _, t := range c22AllTypes {
		vs := vars[t]
		if len(vs) == 0 {
			continue
		}
		t := t
		total := 0
		for _, x := range vs {
			total += x.n
		}
		// flag menu: thorough = all 16 nibbles (x HasServerVersion for CONNACK); quick = 4 nibbles
		// {0,F,5,A} (x HasServerVersion); the header section always covers all 64 Framer combinations
		flagMenu := []int{0, 0xF, 0x5, 0xA}
		if thorough {
			flagMenu = flagMenu[:0]
			for i := 0; i < 16; i++ {
				flagMenu = append(flagMenu, i)
			}
		}
		if t == frame.CONNACK {
			for _, b := range append([]int(nil), flagMenu...) {
				flagMenu = append(flagMenu, b|16)
			}
		}
		nflags, ngate := len(flagMenu), 1
		if t == frame.SEND || t == frame.RECV {
			ngate = 4
		}
		out = append(out, &c22Space{name: "sweep/" + t.String(),
			names: []string{"field-variation (one field over its boundary menu)", "flags", "setting gate bits (Stream,Topic)"},
			dims:  []int{total, nflags, ngate},
			build: func(ix []int, v uint8) frame.Frame {
				f := c22Baseline(t, true, v)
				// gate bits first, so that a Setting sweep overrides them
				if ngate == 4 {
					g := c22Settings4[ix[2]] | 0xF5
					switch p := f.(type) {
					case *frame.SendPacket:
						p.Setting = g
					case *frame.RecvPacket:
						p.Setting = g
					}
				}
				i := ix[0]
				for _, x := range vs {
					if i < x.n {
						x.set(f, i, v)
						break
					}
					i -= x.n
				}
				c22Flags(c22Framer(f), flagMenu[ix[1]])
				return f
			}})
	}
	return out
}

// ---- limit cases ----------------------------------------------------------------------

// c22Limits: frames at the protocol's size limits: all strings at 32767 bytes, SEND payload at
// PayloadMaxSize, and RECV/EVENT bodies of exactly MaxRemaingLength-1 / MaxRemaingLength bytes
// (the decoder accepts RemainingLength <= MaxRemaingLength) and the 2-/3-byte varint edges.
func c22Limits() *c22Space {
	bodyTargets := []int{127, 128, 129, 16383, 16384, 16385, int(MaxRemaingLength) - 1, int(MaxRemaingLength)}
	return &c22Space{name: "limits/max-sizes",
		names: []string{"case", "flags"},
		dims:  []int{4 + 2*len(bodyTargets), 2},
		build: func(ix []int, v uint8) frame.Frame {
			M := c22MaxStr
			var f frame.Frame
			switch {
			case ix[0] == 0:
				f = &frame.ConnectPacket{Version: 255, DeviceFlag: 255, DeviceID: c22S('d', M), UID: c22S('u', M), Token: c22S('t', M), ClientTimestamp: math.MinInt64, ClientKey: c22S('k', M)}
			case ix[0] == 1:
				f = &frame.SendPacket{Setting: 0xFF, MsgKey: c22S('m', M), Expire: math.MaxUint32, ClientSeq: math.MaxUint32, ClientMsgNo: c22S('c', M), StreamNo: c22S('n', M),
					ChannelID: c22S('I', M), ChannelType: 255, Topic: c22S('T', M), Payload: c22B('P', PayloadMaxSize)}
			case ix[0] == 2:
				f = &frame.RecvPacket{Setting: 0xFF, MsgKey: c22S('m', M), FromUID: c22S('f', M), ChannelID: c22S('I', M), ClientMsgNo: c22S('c', M), StreamNo: c22S('n', M), Topic: c22S('T', M),
					ChannelType: 255, Expire: math.MaxUint32, StreamFlag: 255, StreamId: math.MaxUint64, MessageID: math.MinInt64, MessageSeq: c22Seq(math.MaxUint64, v), Timestamp: math.MinInt32,
					Payload: c22B('P', c22MaxStr)}
			case ix[0] == 3:
				f = &frame.ConnackPacket{ServerVersion: 255, TimeDiff: math.MinInt64, ReasonCode: 255, ServerKey: c22S('S', M), Salt: c22S('s', M), NodeId: math.MaxUint64}
				f.(*frame.ConnackPacket).HasServerVersion = true
			default:
				k := ix[0] - 4
				target := bodyTargets[k/2]
				if k%2 == 0 {
					p := c22Baseline(frame.RECV, true, v).(*frame.RecvPacket)
					p.Payload = nil
					base := encodeRecvSizeViaPublic(p, v)
					p.Payload = c22B('P', target-base)
					f = p
				} else {
					p := c22Baseline(frame.EVENT, true, v).(*frame.EventPacket)
					p.Data = nil
					base := encodeRecvSizeViaPublic(p, v)
					p.Data = c22B('D', target-base)
					f = p
				}
			}
			if ix[1] == 1 {
				c22Flags(c22Framer(f), 0xF)
			}
			return f
		}}
}

// encodeRecvSizeViaPublic measures the body size of f by encoding it with the real encoder
// (harness-side measurement, independent of encodedFrameSize): total - 1 - varint bytes.
func encodeRecvSizeViaPublic(f frame.Frame, v uint8) int {
	b, err := New().EncodeFrame(f, v)
	if err != nil {
		panic(err)
	}
	n := len(b) - 1
	switch {
	case n-1 < 128:
		return n - 1
	case n-2 < 16384:
		return n - 2
	default:
		return n - 3
	}
}
