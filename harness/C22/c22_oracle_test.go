package codec

// C22 oracle: one (frame, version) case is encoded and decoded by the real WKProto codec and
// compared field by field. Only encodedFrameSize is an unexported identifier of the package.

import (
	"bytes"
	"fmt"

	"github.com/WuKongIM/WuKongIM/pkg/protocol/frame"
)

// c22Viol is a property violation found for one case.
type c22Viol struct {
	fp  string
	msg string
}

func c22V(fp, format string, args ...any) *c22Viol {
	return &c22Viol{fp: "C22:" + fp, msg: fmt.Sprintf(format, args...)}
}

func c22TypeName(f frame.Frame) string { return f.GetFrameType().String() }

// c22StreamCarried mirrors the version gate documented in send.go / recv.go:
// stream fields exist only for 2 <= version < 5 and only when the Stream setting bit is set.
func c22StreamCarried(s frame.Setting, v uint8) bool {
	return v >= 2 && v < 5 && s.IsSet(frame.SettingStream)
}

// c22Expected returns a copy of f in which every field that version v does not carry on
// the wire is reset to its zero value (what a fresh decoder struct holds), and the
// header flags are reduced to those the frame type's fixed header carries.
func c22Expected(f frame.Frame, v uint8) frame.Frame {
	keepFlags := func(fr frame.Framer) frame.Framer {
		return frame.Framer{NoPersist: fr.NoPersist, RedDot: fr.RedDot, SyncOnce: fr.SyncOnce, DUP: fr.DUP}
	}
	switch p := f.(type) {
	case *frame.PingPacket:
		return &frame.PingPacket{} // PING/PONG are encoded as type<<4: no flag is carried
	case *frame.PongPacket:
		return &frame.PongPacket{}
	case *frame.ConnectPacket:
		c := *p
		c.Framer = keepFlags(p.Framer)
		return &c
	case *frame.ConnackPacket:
		c := *p
		// CONNACK's flag nibble carries HasServerVersion only (ToFixHeaderUint8)
		c.Framer = frame.Framer{HasServerVersion: p.HasServerVersion}
		if !p.HasServerVersion {
			c.ServerVersion = 0
		}
		if v < 4 {
			c.NodeId = 0
		}
		return &c
	case *frame.SendPacket:
		c := *p
		c.Framer = keepFlags(p.Framer)
		if !c22StreamCarried(p.Setting, v) {
			c.StreamNo = ""
		}
		if v < 3 {
			c.Expire = 0
		}
		if !p.Setting.IsSet(frame.SettingTopic) {
			c.Topic = ""
		}
		return &c
	case *frame.SendackPacket:
		c := *p
		c.Framer = keepFlags(p.Framer)
		return &c
	case *frame.RecvPacket:
		c := *p
		c.Framer = keepFlags(p.Framer)
		if !c22StreamCarried(p.Setting, v) {
			c.StreamNo, c.StreamId, c.StreamFlag = "", 0, 0
		}
		if v < 3 {
			c.Expire = 0
		}
		if !p.Setting.IsSet(frame.SettingTopic) {
			c.Topic = ""
		}
		c.ClientSeq = 0 // documented as "not part of the encoding"
		return &c
	case *frame.RecvackPacket:
		c := *p
		c.Framer = keepFlags(p.Framer)
		return &c
	case *frame.DisconnectPacket:
		c := *p
		c.Framer = keepFlags(p.Framer)
		return &c
	case *frame.SubPacket:
		c := *p
		c.Framer = keepFlags(p.Framer)
		return &c
	case *frame.SubackPacket:
		c := *p
		c.Framer = keepFlags(p.Framer)
		return &c
	case *frame.EventPacket:
		c := *p
		c.Framer = keepFlags(p.Framer)
		return &c
	}
	return nil
}

// c22Diff compares the decoded frame with the expected (normalised) frame and returns the
// name of the first differing field ("" when equal).
func c22Diff(want, got frame.Frame) (string, string) {
	if got == nil {
		return "frame", "decoded frame is nil"
	}
	if want.GetFrameType() != got.GetFrameType() {
		return "FrameType", fmt.Sprintf("want %s got %s", want.GetFrameType(), got.GetFrameType())
	}
	d := &c22Differ{}
	flags := func(w, g frame.Framer) {
		c22Eq(d, "DUP", w.DUP, g.DUP)
		c22Eq(d, "SyncOnce", w.SyncOnce, g.SyncOnce)
		c22Eq(d, "RedDot", w.RedDot, g.RedDot)
		c22Eq(d, "NoPersist", w.NoPersist, g.NoPersist)
	}
	switch w := want.(type) {
	case *frame.PingPacket:
		if _, ok := got.(*frame.PingPacket); !ok {
			return "GoType", fmt.Sprintf("got %T", got)
		}
	case *frame.PongPacket:
		if _, ok := got.(*frame.PongPacket); !ok {
			return "GoType", fmt.Sprintf("got %T", got)
		}
	case *frame.ConnectPacket:
		g, ok := got.(*frame.ConnectPacket)
		if !ok {
			return "GoType", fmt.Sprintf("got %T", got)
		}
		flags(w.Framer, g.Framer)
		c22Eq(d, "Version", w.Version, g.Version)
		c22Eq(d, "DeviceFlag", w.DeviceFlag, g.DeviceFlag)
		c22Eq(d, "DeviceID", w.DeviceID, g.DeviceID)
		c22Eq(d, "UID", w.UID, g.UID)
		c22Eq(d, "Token", w.Token, g.Token)
		c22Eq(d, "ClientTimestamp", w.ClientTimestamp, g.ClientTimestamp)
		c22Eq(d, "ClientKey", w.ClientKey, g.ClientKey)
	case *frame.ConnackPacket:
		g, ok := got.(*frame.ConnackPacket)
		if !ok {
			return "GoType", fmt.Sprintf("got %T", got)
		}
		c22Eq(d, "HasServerVersion", w.HasServerVersion, g.HasServerVersion)
		c22Eq(d, "ServerVersion", w.ServerVersion, g.ServerVersion)
		c22Eq(d, "TimeDiff", w.TimeDiff, g.TimeDiff)
		c22Eq(d, "ReasonCode", w.ReasonCode, g.ReasonCode)
		c22Eq(d, "ServerKey", w.ServerKey, g.ServerKey)
		c22Eq(d, "Salt", w.Salt, g.Salt)
		c22Eq(d, "NodeId", w.NodeId, g.NodeId)
	case *frame.SendPacket:
		g, ok := got.(*frame.SendPacket)
		if !ok {
			return "GoType", fmt.Sprintf("got %T", got)
		}
		flags(w.Framer, g.Framer)
		c22Eq(d, "Setting", w.Setting, g.Setting)
		c22Eq(d, "MsgKey", w.MsgKey, g.MsgKey)
		c22Eq(d, "Expire", w.Expire, g.Expire)
		c22Eq(d, "ClientSeq", w.ClientSeq, g.ClientSeq)
		c22Eq(d, "ClientMsgNo", w.ClientMsgNo, g.ClientMsgNo)
		c22Eq(d, "StreamNo", w.StreamNo, g.StreamNo)
		c22Eq(d, "ChannelID", w.ChannelID, g.ChannelID)
		c22Eq(d, "ChannelType", w.ChannelType, g.ChannelType)
		c22Eq(d, "Topic", w.Topic, g.Topic)
		d.bytes("Payload", w.Payload, g.Payload)
	case *frame.SendackPacket:
		g, ok := got.(*frame.SendackPacket)
		if !ok {
			return "GoType", fmt.Sprintf("got %T", got)
		}
		flags(w.Framer, g.Framer)
		c22Eq(d, "MessageID", w.MessageID, g.MessageID)
		c22Eq(d, "MessageSeq", w.MessageSeq, g.MessageSeq)
		c22Eq(d, "ClientSeq", w.ClientSeq, g.ClientSeq)
		c22Eq(d, "ClientMsgNo", w.ClientMsgNo, g.ClientMsgNo)
		c22Eq(d, "ReasonCode", w.ReasonCode, g.ReasonCode)
	case *frame.RecvPacket:
		g, ok := got.(*frame.RecvPacket)
		if !ok {
			return "GoType", fmt.Sprintf("got %T", got)
		}
		flags(w.Framer, g.Framer)
		c22Eq(d, "Setting", w.Setting, g.Setting)
		c22Eq(d, "MsgKey", w.MsgKey, g.MsgKey)
		c22Eq(d, "Expire", w.Expire, g.Expire)
		c22Eq(d, "MessageID", w.MessageID, g.MessageID)
		c22Eq(d, "MessageSeq", w.MessageSeq, g.MessageSeq)
		c22Eq(d, "ClientMsgNo", w.ClientMsgNo, g.ClientMsgNo)
		c22Eq(d, "StreamNo", w.StreamNo, g.StreamNo)
		c22Eq(d, "StreamId", w.StreamId, g.StreamId)
		c22Eq(d, "StreamFlag", w.StreamFlag, g.StreamFlag)
		c22Eq(d, "Timestamp", w.Timestamp, g.Timestamp)
		c22Eq(d, "ChannelID", w.ChannelID, g.ChannelID)
		c22Eq(d, "ChannelType", w.ChannelType, g.ChannelType)
		c22Eq(d, "Topic", w.Topic, g.Topic)
		c22Eq(d, "FromUID", w.FromUID, g.FromUID)
		d.bytes("Payload", w.Payload, g.Payload)
		c22Eq(d, "ClientSeq", w.ClientSeq, g.ClientSeq)
	case *frame.RecvackPacket:
		g, ok := got.(*frame.RecvackPacket)
		if !ok {
			return "GoType", fmt.Sprintf("got %T", got)
		}
		flags(w.Framer, g.Framer)
		c22Eq(d, "MessageID", w.MessageID, g.MessageID)
		c22Eq(d, "MessageSeq", w.MessageSeq, g.MessageSeq)
	case *frame.DisconnectPacket:
		g, ok := got.(*frame.DisconnectPacket)
		if !ok {
			return "GoType", fmt.Sprintf("got %T", got)
		}
		flags(w.Framer, g.Framer)
		c22Eq(d, "ReasonCode", w.ReasonCode, g.ReasonCode)
		c22Eq(d, "Reason", w.Reason, g.Reason)
	case *frame.SubPacket:
		g, ok := got.(*frame.SubPacket)
		if !ok {
			return "GoType", fmt.Sprintf("got %T", got)
		}
		flags(w.Framer, g.Framer)
		c22Eq(d, "Setting", w.Setting, g.Setting)
		c22Eq(d, "SubNo", w.SubNo, g.SubNo)
		c22Eq(d, "ChannelID", w.ChannelID, g.ChannelID)
		c22Eq(d, "ChannelType", w.ChannelType, g.ChannelType)
		c22Eq(d, "Action", w.Action, g.Action)
		c22Eq(d, "Param", w.Param, g.Param)
	case *frame.SubackPacket:
		g, ok := got.(*frame.SubackPacket)
		if !ok {
			return "GoType", fmt.Sprintf("got %T", got)
		}
		flags(w.Framer, g.Framer)
		c22Eq(d, "SubNo", w.SubNo, g.SubNo)
		c22Eq(d, "ChannelID", w.ChannelID, g.ChannelID)
		c22Eq(d, "ChannelType", w.ChannelType, g.ChannelType)
		c22Eq(d, "Action", w.Action, g.Action)
		c22Eq(d, "ReasonCode", w.ReasonCode, g.ReasonCode)
	case *frame.EventPacket:
		g, ok := got.(*frame.EventPacket)
		if !ok {
			return "GoType", fmt.Sprintf("got %T", got)
		}
		flags(w.Framer, g.Framer)
		c22Eq(d, "Id", w.Id, g.Id)
		c22Eq(d, "Type", w.Type, g.Type)
		c22Eq(d, "Timestamp", w.Timestamp, g.Timestamp)
		d.bytes("Data", w.Data, g.Data)
	default:
		return "GoType", fmt.Sprintf("unexpected original %T", want)
	}
	return d.field, d.detail
}

type c22Differ struct {
	field, detail string
}

func c22Eq[T comparable](d *c22Differ, name string, w, g T) {
	if d.field != "" || w == g {
		return
	}
	d.field = name
	ws, gs := fmt.Sprintf("%v", w), fmt.Sprintf("%v", g)
	if len(ws) > 48 {
		ws = fmt.Sprintf("%q.. (len %d)", ws[:24], len(ws))
	}
	if len(gs) > 48 {
		gs = fmt.Sprintf("%q.. (len %d)", gs[:24], len(gs))
	}
	d.detail = fmt.Sprintf("want %s got %s", ws, gs)
}

func (d *c22Differ) bytes(name string, w, g []byte) {
	if d.field != "" || bytes.Equal(w, g) { // nil and empty are the same payload
		return
	}
	d.field = name
	d.detail = fmt.Sprintf("want len %d got len %d", len(w), len(g))
	if len(w) == len(g) {
		for i := range w {
			if w[i] != g[i] {
				d.detail += fmt.Sprintf(", first difference at byte %d: want %#02x got %#02x", i, w[i], g[i])
				break
			}
		}
	}
}

var c22Tail = []byte{0xFF, 0x00, 0x7F}

// c22Result is what one case produced.
type c22Result struct {
	wire    []byte // encoded bytes (nil when encoding failed)
	outcome string
	viol    *c22Viol
}

// c22CheckCase runs the full C22 oracle on one in-limits (frame, version) case.
func c22CheckCase(p *WKProto, f frame.Frame, v uint8, scratch *[]byte) (res c22Result) {
	stage := "size"
	defer func() {
		if x := recover(); x != nil {
			res.viol = c22V("panic-in-"+stage, "%s v%d: panic during %s: %v", c22TypeName(f), v, stage, x)
		}
	}()
	size := encodedFrameSize(f, v)
	stage = "encode"
	wire, err := p.EncodeFrame(f, v)
	if err != nil {
		res.viol = c22V("encoder-rejects-in-limit-frame", "%s v%d: EncodeFrame error: %v", c22TypeName(f), v, err)
		return
	}
	res.wire = wire
	if size != len(wire) {
		res.viol = c22V("precomputed-size-mismatch:"+c22TypeName(f), "%s v%d: encodedFrameSize=%d but EncodeFrame produced %d bytes", c22TypeName(f), v, size, len(wire))
		return
	}
	stage = "decode"
	// cap == len: a decoder re-slice past the frame faults
	got, n, err := p.DecodeFrame(wire[:len(wire):len(wire)], v)
	if err != nil {
		res.viol = c22V("decode-error", "%s v%d: DecodeFrame error on own encoding (%d bytes): %v", c22TypeName(f), v, len(wire), err)
		return
	}
	if got == nil {
		res.viol = c22V("decode-incomplete", "%s v%d: DecodeFrame returned no frame for a complete encoding (%d bytes, n=%d)", c22TypeName(f), v, len(wire), n)
		return
	}
	if n != len(wire) {
		res.viol = c22V("consumed-mismatch", "%s v%d: DecodeFrame consumed %d of %d encoded bytes", c22TypeName(f), v, n, len(wire))
		return
	}
	want := c22Expected(f, v)
	if fld, det := c22Diff(want, got); fld != "" {
		res.viol = c22V("field-mismatch:"+c22TypeName(f)+"."+fld, "%s v%d: field %s differs after round trip: %s", c22TypeName(f), v, fld, det)
		return
	}
	// the same encoding followed by unrelated bytes: same frame, same consumed length
	stage = "decode-with-tail"
	withTail := append(append((*scratch)[:0], wire...), c22Tail...)
	*scratch = withTail
	got2, n2, err := p.DecodeFrame(withTail, v)
	if err != nil || got2 == nil || n2 != len(wire) {
		res.viol = c22V("decode-depends-on-trailing-bytes", "%s v%d: with 3 trailing bytes DecodeFrame gave frame=%v n=%d err=%v (encoded length %d)", c22TypeName(f), v, got2 != nil, n2, err, len(wire))
		return
	}
	if fld, det := c22Diff(want, got2); fld != "" {
		res.viol = c22V("decode-depends-on-trailing-bytes", "%s v%d: with 3 trailing bytes field %s differs: %s", c22TypeName(f), v, fld, det)
		return
	}
	res.outcome = c22Outcome(f, v, len(wire))
	return
}

// c22Outcome classifies a passing case by what the wire image contains.
func c22Outcome(f frame.Frame, v uint8, n int) string {
	o := c22TypeName(f)
	switch p := f.(type) {
	case *frame.SendPacket:
		if c22StreamCarried(p.Setting, v) {
			o += "+stream"
		}
		if v >= 3 {
			o += "+expire"
		}
		if p.Setting.IsSet(frame.SettingTopic) {
			o += "+topic"
		}
	case *frame.RecvPacket:
		if c22StreamCarried(p.Setting, v) {
			o += "+stream"
		}
		if v >= 3 {
			o += "+expire"
		}
		if p.Setting.IsSet(frame.SettingTopic) {
			o += "+topic"
		}
		if v > frame.LegacyMessageSeqVersion {
			o += "+seq64"
		}
	case *frame.SendackPacket:
		if p.ClientMsgNo != "" {
			o += "+msgno"
		}
		if v > frame.LegacyMessageSeqVersion {
			o += "+seq64"
		}
	case *frame.RecvackPacket:
		if v > frame.LegacyMessageSeqVersion {
			o += "+seq64"
		}
	case *frame.ConnackPacket:
		if p.HasServerVersion {
			o += "+srvver"
		}
		if v >= 4 {
			o += "+nodeid"
		}
	}
	switch {
	case n == 1:
		o += "/len0"
	case n-2 < 128:
		o += "/len1"
	case n-3 < 16384:
		o += "/len2"
	default:
		o += "/len3"
	}
	return o
}
