package meta_test

// C16 (extension) - two concurrent writers on ONE membership row.
//
// The sequential systems of c16_membership_test.go apply one operation at a time, so they
// cannot see a read-modify-write that is not atomic with respect to the other writers of the
// same hash slot (a row read outside the hash-slot lock, a lock released before the write, a
// fast path decided on an unlocked snapshot). Such a defect moves a cursor backwards or
// revives a tombstoned binding only under a goroutine interleaving.
//
// Engine E3 (vsched, delay bounding). pkg/db/meta is rewritten (sync -> vsync in every file
// that imports it: MetaDB.mu and the per-hash-slot locks taken by Shard.lock /
// MetaDB.lockHashSlots / Batch.Commit become scheduling points), pkg/db/internal/commit (the
// group-commit coordinator behind Batch.Commit) completely, pkg/goroutine at spawn level.
// Pebble is not rewritten: a read or a committed write is one atomic step.
//
// One execution = fresh DB on an in-memory vfs, seed rows written by the main thread, then
// thread A performs ONE Shard-level read-modify-write of the row while thread B performs one
// conflicting operation on the same row (a second Shard call, a WriteBatch commit, or a slot
// FSM ApplyBatch). Every schedule within the delay bound is executed.
//
// Oracle per complete execution (differential, the references are sequential executions of
// the same code): (result of A, result of B, final row) equals that of A;B or that of B;A.
// A row that matches neither order is classified structurally: a cursor (ack / read /
// delete-to / source version) below its value in BOTH orders, a binding that is tombstoned in
// both orders but live, or any other non-serializable row. In addition the directory of the
// uid is walked with page sizes 1..3 after the race: every live row exactly once, no row
// twice, listed row == row by key, strict (activation desc, channel id, channel type) order.

import (
	"context"
	"errors"
	"fmt"
	"os"
	"strings"
	"testing"
	"time"

	"github.com/cockroachdb/pebble/v2"
	"github.com/cockroachdb/pebble/v2/vfs"

	"github.com/WuKongIM/WuKongIM/pkg/db/internal/engine"
	metadb "github.com/WuKongIM/WuKongIM/pkg/db/meta"
	"github.com/WuKongIM/WuKongIM/pkg/protocol/channelid"
	"github.com/WuKongIM/WuKongIM/pkg/slot/fsm"
	"github.com/WuKongIM/WuKongIM/pkg/slot/multiraft"
	"github.com/WuKongIM/WuKongIM/pkg/zzverif/ev"
	"github.com/WuKongIM/WuKongIM/pkg/zzverif/vsched"
	"github.com/WuKongIM/WuKongIM/pkg/zzverif/vsync"
)

const (
	c16xHS     = uint16(7)
	c16xSlot   = uint64(8)
	c16xUID    = "u1"
	c16xType   = int64(1) // person channels: the slot FSM's ensure command accepts nothing else
	c16xCmd    = "u1____cmd"
	c16xCmdTyp = int64(1)

	c16xReportCap = 2
)

var (
	c16xCtx = context.Background()
	// the contended membership row and a bystander row of the same uid (never written during the race)
	c16xChan   = channelid.EncodePersonChannel(c16xUID, "p1")
	c16xChanBy = channelid.EncodePersonChannel(c16xUID, "p0")
)

// ---------------------------------------------------------------- operations

type c16xOp struct {
	label string
	kind  string // cu ca ct | up en rd hd ac
	m     metadb.UserChannelMembership
	cm    metadb.UserCMDChannelMembership
}

func (o c16xOp) cmd() bool { return o.kind[0] == 'c' }

func c16xM(join, read, del uint64, act int64, tomb bool, tombAt int64, sv uint64, upd int64) metadb.UserChannelMembership {
	return metadb.UserChannelMembership{UID: c16xUID, ChannelID: c16xChan, ChannelType: c16xType, JoinSeq: join, ReadSeq: read, DeletedToSeq: del,
		ActivatedAt: act, Tombstone: tomb, TombstoneAt: tombAt, SourceVersion: sv, UpdatedAt: upd}
}

func c16xC(start, ack uint64, tomb bool, tombAt, upd int64) metadb.UserCMDChannelMembership {
	return metadb.UserCMDChannelMembership{UID: c16xUID, CommandChannelID: c16xCmd, ChannelType: c16xCmdTyp, StartSeq: start, AckSeq: ack,
		Tombstone: tomb, TombstoneAt: tombAt, UpdatedAt: upd}
}

// c16xOps is the menu. Values collide on purpose: every pair below addresses the same row and
// (except for the controls) the two serial orders and the lost-update outcome differ.
var c16xOps = map[string]c16xOp{
	// command-channel table
	"cu:s1a4": {kind: "cu", cm: c16xC(1, 4, false, 0, 10)}, // seed
	"cu:s1a2": {kind: "cu", cm: c16xC(1, 2, false, 0, 12)},
	"cu:s3a7": {kind: "cu", cm: c16xC(3, 7, false, 0, 20)},
	"cu:s5a9": {kind: "cu", cm: c16xC(5, 9, false, 0, 30)},
	"ca:7":    {kind: "ca", cm: c16xC(0, 7, false, 0, 20)},
	"ca:9":    {kind: "ca", cm: c16xC(0, 9, false, 0, 30)},
	"ct:40":   {kind: "ct", cm: c16xC(0, 0, true, 40, 40)},
	"ct:45":   {kind: "ct", cm: c16xC(0, 0, true, 45, 45)},
	"cu:s6a0": {kind: "cu", cm: c16xC(6, 0, false, 0, 50)}, // rebind after a tombstone
	// membership table
	"up:v0":  {kind: "up", m: c16xM(1, 4, 2, 5, false, 0, 0, 10)}, // seed without a source fence
	"up:v1":  {kind: "up", m: c16xM(1, 4, 2, 5, false, 0, 1, 10)}, // seed
	"up:v2":  {kind: "up", m: c16xM(9, 0, 0, 7, false, 0, 2, 22)}, // fence bump, live
	"up:v2T": {kind: "up", m: c16xM(0, 0, 0, 0, true, 33, 2, 33)}, // removal with a newer source version
	"up:v3T": {kind: "up", m: c16xM(0, 0, 0, 0, true, 35, 3, 35)},
	"en:v1":  {kind: "en", m: c16xM(2, 6, 3, 0, false, 0, 1, 24)}, // first import over an unfenced row: max
	"en:v2":  {kind: "en", m: c16xM(2, 6, 3, 0, false, 0, 2, 24)},
	"en:v3":  {kind: "en", m: c16xM(3, 1, 1, 0, false, 0, 3, 26)},
	"rd:7":   {kind: "rd", m: c16xM(0, 7, 0, 0, false, 0, 0, 20)},
	"rd:9":   {kind: "rd", m: c16xM(0, 9, 0, 0, false, 0, 0, 30)},
	"hd:6":   {kind: "hd", m: c16xM(0, 0, 6, 0, false, 0, 0, 25)},
	"hd:8":   {kind: "hd", m: c16xM(0, 0, 8, 0, false, 0, 0, 31)},
	"ac:8":   {kind: "ac", m: c16xM(0, 0, 0, 8, false, 0, 0, 28)},
	"ac:9":   {kind: "ac", m: c16xM(0, 0, 0, 9, false, 0, 0, 29)},
	"up:by":  {kind: "up", m: metadb.UserChannelMembership{UID: c16xUID, ChannelID: c16xChanBy, ChannelType: c16xType, JoinSeq: 1, ReadSeq: 1, ActivatedAt: 5, SourceVersion: 1, UpdatedAt: 9}},
}

func c16xGet(name string) c16xOp {
	o, ok := c16xOps[name]
	if !ok {
		panic("c16x: unknown op " + name)
	}
	o.label = name
	return o
}

func c16xClass(err error) string {
	switch {
	case err == nil:
		return "ok"
	case errors.Is(err, metadb.ErrNotFound):
		return "notfound"
	}
	return "ERR(" + err.Error() + ")"
}

// c16xShard runs op through the Shard-level entry point (the read-modify-write under test).
func c16xShard(db *metadb.DB, o c16xOp) string {
	sh := db.MetaDB().HashSlot(c16xHS)
	key := metadb.ChannelKey{ChannelID: o.m.ChannelID, ChannelType: o.m.ChannelType}
	switch o.kind {
	case "cu":
		return c16xClass(sh.UpsertUserCMDChannelMembership(c16xCtx, o.cm))
	case "ca":
		return c16xClass(sh.AdvanceUserCMDChannelMembershipAckSeq(c16xCtx, o.cm.UID, o.cm.CommandChannelID, o.cm.ChannelType, o.cm.AckSeq, o.cm.UpdatedAt))
	case "ct":
		return c16xClass(sh.TombstoneUserCMDChannelMembership(c16xCtx, o.cm.UID, o.cm.CommandChannelID, o.cm.ChannelType, o.cm.TombstoneAt))
	case "up":
		return c16xClass(sh.UpsertUserChannelMembership(c16xCtx, o.m))
	case "en":
		return c16xClass(sh.EnsureUserChannelMembership(c16xCtx, o.m))
	case "rd":
		return c16xClass(sh.AdvanceUserChannelMembershipReadSeq(c16xCtx, o.m.UID, key, o.m.ReadSeq, o.m.UpdatedAt))
	case "hd":
		return c16xClass(sh.HideUserChannelMembership(c16xCtx, o.m.UID, key, o.m.DeletedToSeq, o.m.UpdatedAt))
	case "ac":
		return c16xClass(sh.SetUserChannelMembershipActivatedAt(c16xCtx, o.m.UID, key, o.m.ActivatedAt, o.m.UpdatedAt))
	}
	panic("c16x: unknown kind " + o.kind)
}

// c16xBatch commits op as a one-operation WriteBatch (hash-slot lock held across the group commit).
func c16xBatch(db *metadb.DB, o c16xOp) string {
	wb := db.NewWriteBatch()
	defer wb.Close()
	key := metadb.ChannelKey{ChannelID: o.m.ChannelID, ChannelType: o.m.ChannelType}
	var err error
	switch o.kind {
	case "cu":
		err = wb.UpsertUserCMDChannelMembership(c16xHS, o.cm)
	case "ca":
		err = wb.AdvanceUserCMDChannelMembershipAckSeq(c16xHS, o.cm)
	case "ct":
		err = wb.TombstoneUserCMDChannelMembership(c16xHS, o.cm)
	case "up":
		err = wb.UpsertUserChannelMembership(c16xHS, o.m)
	case "en":
		err = wb.EnsureUserChannelMembership(c16xHS, o.m)
	case "rd":
		err = wb.AdvanceUserChannelMembershipReadSeq(c16xHS, o.m.UID, key, o.m.ReadSeq, o.m.UpdatedAt)
	case "hd":
		err = wb.HideUserChannelMembership(c16xHS, o.m.UID, key, o.m.DeletedToSeq, o.m.UpdatedAt)
	case "ac":
		err = wb.ActivateUserChannelMembership(c16xHS, o.m.UID, key, o.m.ActivatedAt, o.m.UpdatedAt)
	default:
		panic("c16x: unknown kind " + o.kind)
	}
	if err != nil {
		return "STAGE-ERR(" + err.Error() + ")"
	}
	return c16xClass(wb.Commit())
}

// c16xFSM applies op as one encoded slot FSM command.
func c16xFSM(sm multiraft.BatchStateMachine, o c16xOp, index uint64) string {
	one := []metadb.UserChannelMembership{o.m}
	cone := []metadb.UserCMDChannelMembership{o.cm}
	var data []byte
	switch o.kind {
	case "cu":
		data = fsm.EncodeUpsertUserCMDChannelMembershipsCommand(cone)
	case "ca":
		data = fsm.EncodeAdvanceUserCMDChannelMembershipAcksCommand(cone)
	case "ct":
		data = fsm.EncodeTombstoneUserCMDChannelMembershipsCommand(cone)
	case "up":
		if o.m.Tombstone {
			data = fsm.EncodeDeleteUserChannelMembershipsCommand(one)
		} else {
			data = fsm.EncodeUpsertUserChannelMembershipsCommand(one)
		}
	case "en":
		var err error
		if data, err = fsm.EncodeEnsureUserChannelMembershipBatchCommandChecked([]fsm.UserChannelMembershipBatchItem{{HashSlot: c16xHS, Membership: o.m}}); err != nil {
			return "ENCODE-ERR(" + err.Error() + ")"
		}
	case "rd":
		data = fsm.EncodeAdvanceUserChannelMembershipReadSeqCommand(one)
	case "hd":
		data = fsm.EncodeHideUserChannelMembershipCommand(one)
	case "ac":
		data = fsm.EncodeActivateUserChannelMembershipCommand(one)
	default:
		panic("c16x: unknown kind " + o.kind)
	}
	res, err := sm.ApplyBatch(c16xCtx, []multiraft.Command{{SlotID: multiraft.SlotID(c16xSlot), HashSlot: c16xHS, Index: index, Term: 1, Data: data}})
	if err != nil {
		return "ERR(" + err.Error() + ")"
	}
	switch string(res[0]) {
	case fsm.ApplyResultOK:
		return "ok"
	case fsm.ApplyResultStaleMeta:
		return "notfound"
	}
	return fmt.Sprintf("RESULT(%q)", res[0])
}

// ---------------------------------------------------------------- one execution

type c16xSpec struct {
	Name  string
	Seed  []string // ops written by the main thread (through the Shard API) before the race
	A     string   // always through the Shard-level entry point
	B     string
	Via   string // transport of B: shard | batch | fsm
	Order string // spawn order: AB | BA
	Bound int
	// Control marks pairs whose lost-update outcome is itself one of the serial outcomes
	// (kept for coverage of the entry point, excluded from the "orders differ" guard).
	Control bool
}

type c16xObs struct {
	resA, resB string
	ranA, ranB bool
	row        string // the contended row, all fields
	cm         metadb.UserCMDChannelMembership
	m          metadb.UserChannelMembership
	exists     bool
	dirErr     string // first directory defect ("" = consistent)
	infra      string
}

func (o *c16xObs) triple() string { return o.resA + " | " + o.resB + " | " + o.row }

func c16xMRow(m metadb.UserChannelMembership, ex bool) string {
	if !ex {
		return "absent"
	}
	return fmt.Sprintf("{join %d read %d del %d act %d tomb %v@%d sv %d upd %d}", m.JoinSeq, m.ReadSeq, m.DeletedToSeq, m.ActivatedAt, m.Tombstone, m.TombstoneAt, m.SourceVersion, m.UpdatedAt)
}

func c16xCRow(m metadb.UserCMDChannelMembership, ex bool) string {
	if !ex {
		return "absent"
	}
	return fmt.Sprintf("{start %d ack %d tomb %v@%d upd %d}", m.StartSeq, m.AckSeq, m.Tombstone, m.TombstoneAt, m.UpdatedAt)
}

// c16xWalk lists the uid's directory with one page size and judges it against the rows by key.
func c16xWalk(sh *metadb.Shard, page int) string {
	var listed []metadb.UserChannelMembership
	cur := metadb.UserChannelMembershipCursor{}
	for pages := 0; ; pages++ {
		if pages > 8 {
			return fmt.Sprintf("page size %d: walk does not terminate", page)
		}
		rows, next, done, err := sh.ListUserChannelMembershipPage(c16xCtx, c16xUID, cur, page)
		if err != nil {
			return fmt.Sprintf("page size %d: list error %v", page, err)
		}
		listed = append(listed, rows...)
		if done {
			break
		}
		cur = next
	}
	seen := map[string]bool{}
	for i, l := range listed {
		k := fmt.Sprintf("%s/%d", l.ChannelID, l.ChannelType)
		if seen[k] {
			return fmt.Sprintf("page size %d: row %s listed twice (listing %s)", page, k, c16xListing(listed))
		}
		seen[k] = true
		got, ex, err := sh.GetUserChannelMembership(c16xCtx, c16xUID, l.ChannelID, l.ChannelType)
		if err != nil || !ex || got != l {
			return fmt.Sprintf("page size %d: listed row %s %s differs from the row by key %s (err %v)", page, k, c16xMRow(l, true), c16xMRow(got, ex), err)
		}
		if i > 0 {
			p := listed[i-1]
			inOrder := p.ActivatedAt > l.ActivatedAt || p.ActivatedAt == l.ActivatedAt && (p.ChannelID < l.ChannelID || p.ChannelID == l.ChannelID && p.ChannelType < l.ChannelType)
			if !inOrder {
				return fmt.Sprintf("page size %d: listing out of (activation desc, channel) order: %s", page, c16xListing(listed))
			}
		}
	}
	for _, ch := range []string{c16xChanBy, c16xChan} {
		got, ex, err := sh.GetUserChannelMembership(c16xCtx, c16xUID, ch, c16xType)
		if err != nil {
			return "get: " + err.Error()
		}
		if ex && !got.Tombstone && !seen[fmt.Sprintf("%s/%d", ch, c16xType)] {
			return fmt.Sprintf("page size %d: live row %s %s is not listed (listing %s)", page, ch, c16xMRow(got, true), c16xListing(listed))
		}
	}
	return ""
}

func c16xListing(rows []metadb.UserChannelMembership) string {
	var s []string
	for _, l := range rows {
		s = append(s, fmt.Sprintf("%s@%d", l.ChannelID, l.ActivatedAt))
	}
	return "[" + strings.Join(s, " ") + "]"
}

// c16xExecute is the body of one execution; mode "race" | "AB" | "BA" (sequential references).
func c16xExecute(s c16xSpec, mode string) *c16xObs {
	o := &c16xObs{}
	engine.VerifFS = vfs.NewMem()
	db, err := metadb.Open("/c16x/db")
	if err != nil {
		o.infra = "open: " + err.Error()
		return o
	}
	defer func() {
		if err := db.Close(); err != nil && o.infra == "" && !vsched.Aborting() {
			o.infra = "close: " + err.Error()
		}
	}()
	var sm multiraft.BatchStateMachine
	if s.Via == "fsm" {
		m, err := fsm.NewStateMachineWithHashSlots(db, c16xSlot, []uint16{c16xHS})
		if err != nil {
			o.infra = "state machine: " + err.Error()
			return o
		}
		b, ok := m.(multiraft.BatchStateMachine)
		if !ok {
			o.infra = "state machine without ApplyBatch"
			return o
		}
		sm = b
	}
	opA, opB := c16xGet(s.A), c16xGet(s.B)
	seeds := append([]string{}, s.Seed...)
	if !opA.cmd() {
		seeds = append(seeds, "up:by")
	}
	for _, name := range seeds {
		if res := c16xShard(db, c16xGet(name)); res != "ok" {
			o.infra = "seed " + name + ": " + res
			return o
		}
	}
	runA := func() { o.resA, o.ranA = c16xShard(db, opA), true }
	runB := func() {
		switch s.Via {
		case "shard":
			o.resB = c16xShard(db, opB)
		case "batch":
			o.resB = c16xBatch(db, opB)
		case "fsm":
			o.resB = c16xFSM(sm, opB, 1)
		default:
			panic("c16x: unknown transport " + s.Via)
		}
		o.ranB = true
	}
	switch mode {
	case "race":
		var wg vsync.WaitGroup
		for _, c := range s.Order {
			wg.Add(1)
			if c == 'A' {
				vsched.GoNamed("shard-writer-A", func() { defer wg.Done(); runA() })
			} else {
				vsched.GoNamed("writer-B-"+s.Via, func() { defer wg.Done(); runB() })
			}
		}
		wg.Wait()
	case "AB":
		runA()
		runB()
	case "BA":
		runB()
		runA()
	}
	sh := db.MetaDB().HashSlot(c16xHS)
	if opA.cmd() {
		o.cm, o.exists, err = sh.GetUserCMDChannelMembership(c16xCtx, c16xUID, c16xCmd, c16xCmdTyp)
		o.row = c16xCRow(o.cm, o.exists)
	} else {
		o.m, o.exists, err = sh.GetUserChannelMembership(c16xCtx, c16xUID, c16xChan, c16xType)
		o.row = c16xMRow(o.m, o.exists)
		for page := 1; page <= 3 && o.dirErr == ""; page++ {
			o.dirErr = c16xWalk(sh, page)
		}
	}
	if err != nil {
		o.infra = "read back: " + err.Error()
	}
	return o
}

func c16xSequential(s c16xSpec, mode string) (*c16xObs, error) {
	var o *c16xObs
	out := vsched.Run(vsched.Options{Delay: true, Horizon: 4000}, func() { o = c16xExecute(s, mode) })
	switch {
	case out.Panic != "":
		return nil, fmt.Errorf("panic: %s", out.Panic)
	case out.Deadlock:
		return nil, fmt.Errorf("deadlock: %v", out.BlockedAt)
	case out.Horizon:
		return nil, fmt.Errorf("horizon exceeded")
	case out.Unsupported != "":
		return nil, fmt.Errorf("unsupported: %s", out.Unsupported)
	case o == nil:
		return nil, fmt.Errorf("no observation")
	case o.infra != "":
		return nil, fmt.Errorf("%s", o.infra)
	case o.dirErr != "":
		return nil, fmt.Errorf("directory inconsistent after a SEQUENTIAL history (judged by the mc systems): %s", o.dirErr)
	case !o.ranA || !o.ranB:
		return nil, fmt.Errorf("a side did not return")
	}
	return o, nil
}

// ---------------------------------------------------------------- oracle

var (
	c16xSeen     = map[string]int64{}
	c16xReported = map[string]int{}
	c16xRepSched = map[string]bool{}
	c16xRepeats  int64
	c16xInfra    string
)

type c16xRef struct{ ab, ba *c16xObs }

func c16xMin(a, b uint64) uint64 {
	if a < b {
		return a
	}
	return b
}

func c16xJudge(s c16xSpec, ref *c16xRef, o *c16xObs, sched string, replay bool) error {
	if o == nil {
		return nil
	}
	if o.infra != "" {
		if c16xInfra == "" {
			c16xInfra = s.Name + ": " + o.infra
		}
		return nil
	}
	what := fmt.Sprintf("seed %v; thread A: Shard %s  ||  thread B: %s %s on row (%s)", s.Seed, s.A, s.Via, s.B, c16xUID)
	serial := fmt.Sprintf("A;B -> (%s)   B;A -> (%s)", ref.ab.triple(), ref.ba.triple())
	var errs []error
	bad := func(fp, format string, args ...any) {
		errs = append(errs, vsched.Violatef("C16:concurrent-writers-"+fp, "%s: %s [sequential orders: %s]", what, fmt.Sprintf(format, args...), serial))
	}
	switch {
	case !o.ranA || !o.ranB:
		bad("call-never-returned", "A returned %v, B returned %v", o.ranA, o.ranB)
	case o.triple() == ref.ab.triple() && o.triple() == ref.ba.triple():
		c16xSeen["as-both-orders"]++
	case o.triple() == ref.ab.triple():
		c16xSeen["as-A-then-B"]++
	case o.triple() == ref.ba.triple():
		c16xSeen["as-B-then-A"]++
	case o.row == ref.ab.row || o.row == ref.ba.row:
		bad("call-result-inconsistent-with-row-order", "results A=%s B=%s with final row %s match no single order", o.resA, o.resB, o.row)
	default:
		// structural classification of the non-serializable row
		a, b := ref.ab, ref.ba
		switch {
		case c16xGet(s.A).cmd():
			switch {
			case o.exists && a.exists && b.exists && a.cm.Tombstone && b.cm.Tombstone && !o.cm.Tombstone:
				bad("tombstoned-binding-revived", "final row %s is live", o.row)
			case o.exists && a.exists && b.exists && o.cm.AckSeq < c16xMin(a.cm.AckSeq, b.cm.AckSeq):
				bad("cursor-moved-backwards", "final row %s: ack seq %d below every order (%d / %d): an acknowledged advance was overwritten from a stale snapshot", o.row, o.cm.AckSeq, a.cm.AckSeq, b.cm.AckSeq)
			default:
				bad("row-not-serializable", "final row %s", o.row)
			}
		default:
			switch {
			case o.exists && a.exists && b.exists && a.m.Tombstone && b.m.Tombstone && !o.m.Tombstone:
				bad("tombstoned-binding-revived", "final row %s is live", o.row)
			case o.exists && a.exists && b.exists && (o.m.ReadSeq < c16xMin(a.m.ReadSeq, b.m.ReadSeq) || o.m.DeletedToSeq < c16xMin(a.m.DeletedToSeq, b.m.DeletedToSeq) || o.m.SourceVersion < c16xMin(a.m.SourceVersion, b.m.SourceVersion)):
				bad("cursor-moved-backwards", "final row %s: read / delete-to / source version below every order: an acknowledged advance was overwritten from a stale snapshot", o.row)
			default:
				bad("row-not-serializable", "final row %s", o.row)
			}
		}
	}
	if o.dirErr != "" {
		bad("directory-inconsistent", "after results A=%s B=%s, row %s: %s", o.resA, o.resB, o.row, o.dirErr)
	}
	for _, err := range errs {
		fp := err.(interface{ Fingerprint() string }).Fingerprint()
		key := fp + "|" + s.Name + "|" + sched
		if replay || c16xRepSched[key] {
			return err // --replay, or the engine's confirming re-execution
		}
		c16xSeen["violating-executions"]++
		if c16xReported[fp+"|"+s.Name] < c16xReportCap {
			c16xReported[fp+"|"+s.Name]++
			c16xRepSched[key] = true
			return err
		}
		c16xRepeats++
	}
	return nil
}

func c16xScenario(s c16xSpec, ref *c16xRef, replay bool) vsched.Scenario {
	return vsched.Scenario{
		Name: s.Name, Property: "C16", Bound: s.Bound, Horizon: 4000, Delay: true,
		Bounds: map[string]any{"threads": "main + group-commit coordinator + Shard writer A + writer B", "seed": strings.Join(s.Seed, ","), "A": "shard " + s.A, "B": s.Via + " " + s.B,
			"spawn_order": s.Order, "rows": "one contended row + one bystander row of the same uid"},
		Note: "two writers race one operation each on ONE membership row of one hash slot (real rewritten hash-slot locks and group-commit coordinator, real Pebble on an in-memory vfs); oracle per complete execution: (results, final row) equal a sequential order; directory of the uid consistent",
		Body: func(x *vsched.Exec) {
			o := c16xExecute(s, "race")
			x.Data["obs"] = o
			x.Log("A=%s B=%s row=%s dir=%q infra=%q", o.resA, o.resB, o.row, o.dirErr, o.infra)
		},
		Check: func(x *vsched.Exec) error {
			o, _ := x.Data["obs"].(*c16xObs)
			return c16xJudge(s, ref, o, fmt.Sprint(x.Out.Choices), replay)
		},
	}
}

// ---------------------------------------------------------------- scenarios

// c16xPairs: {seed, A, B, control}. A is the Shard-level read-modify-write under test; every
// Shard entry point of the two tables appears as A (cu ca ct | up en rd hd ac).
var c16xPairs = []struct {
	seed    string
	a, b    string
	control bool
}{
	// command-channel table: AdvanceUserCMDChannelMembershipAckSeq
	{"cu:s1a4", "ca:7", "ca:9", false},
	{"cu:s1a4", "ca:7", "ct:40", false},
	{"cu:s1a4", "ca:7", "cu:s5a9", false},
	// TombstoneUserCMDChannelMembership (vs ack: the lost update equals order ct;ca -> control)
	{"cu:s1a4", "ct:40", "cu:s5a9", false},
	{"cu:s1a4", "ct:40", "ca:9", true},
	{"cu:s1a4", "ct:40", "ct:45", false},
	// UpsertUserCMDChannelMembership (existing row, absent row, tombstoned row)
	{"cu:s1a4", "cu:s3a7", "ca:9", false},
	{"cu:s1a4", "cu:s3a7", "ct:40", false},
	{"", "cu:s1a2", "cu:s5a9", false},
	{"cu:s1a4,ct:40", "cu:s6a0", "cu:s5a9", false},
	// membership table: AdvanceUserChannelMembershipReadSeq
	{"up:v1", "rd:7", "rd:9", false},
	{"up:v1", "rd:7", "up:v2T", false},
	{"up:v1", "rd:7", "hd:6", false},
	{"up:v1", "rd:7", "en:v2", false},
	// HideUserChannelMembership
	{"up:v1", "hd:6", "hd:8", false},
	{"up:v1", "hd:6", "rd:9", false},
	{"up:v1", "hd:6", "ac:8", false},
	{"up:v1", "hd:6", "up:v2T", false},
	// SetUserChannelMembershipActivatedAt
	{"up:v1", "ac:8", "rd:9", false},
	{"up:v1", "ac:8", "hd:6", false},
	{"up:v1", "ac:8", "ac:9", false},
	{"up:v1", "ac:8", "up:v2T", false},
	// UpsertUserChannelMembership (fence bump / removal / first write)
	{"up:v1", "up:v2", "rd:9", false},
	{"up:v1", "up:v2", "up:v3T", false},
	{"up:v1", "up:v2T", "hd:6", true},
	{"", "up:v1", "up:v2", false},
	// EnsureUserChannelMembership (new incarnation / first import over an unfenced row)
	{"up:v1", "en:v2", "en:v3", false},
	{"up:v1", "en:v2", "up:v3T", false},
	{"up:v0", "en:v1", "rd:9", false},
	{"up:v0", "en:v1", "hd:8", false},
}

func c16xSpecs(r *ev.R) []c16xSpec {
	var specs []c16xSpec
	thorough := r.Thorough()
	for _, p := range c16xPairs {
		var seed []string
		if p.seed != "" {
			seed = strings.Split(p.seed, ",")
		}
		add := func(via, order string, bound int) {
			specs = append(specs, c16xSpec{Name: fmt.Sprintf("race-%s-vs-%s-%s-%s-%s", strings.ReplaceAll(p.a, ":", "."), via, strings.ReplaceAll(p.b, ":", "."), strings.ReplaceAll(p.seed, ":", "."), order),
				Seed: seed, A: p.a, B: p.b, Via: via, Order: order, Bound: bound, Control: p.control})
		}
		if thorough {
			for _, via := range []string{"shard", "batch"} {
				add(via, "AB", 3)
				add(via, "BA", 3)
			}
			add("fsm", "AB", 3)
			continue
		}
		add("shard", "AB", 2)
		add("batch", "AB", 2)
	}
	if !thorough {
		// the slot FSM as the second writer: one pair per Shard mutate helper / upsert path
		for _, p := range [][3]string{{"cu:s1a4", "ca:7", "ca:9"}, {"cu:s1a4", "ca:7", "ct:40"}, {"up:v1", "rd:7", "rd:9"}, {"up:v1", "hd:6", "up:v2T"}, {"up:v1", "rd:7", "en:v2"}} {
			specs = append(specs, c16xSpec{Name: fmt.Sprintf("race-%s-vs-fsm-%s-%s-BA", strings.ReplaceAll(p[1], ":", "."), strings.ReplaceAll(p[2], ":", "."), strings.ReplaceAll(p[0], ":", ".")),
				Seed: []string{p[0]}, A: p[1], B: p[2], Via: "fsm", Order: "BA", Bound: 2})
		}
	}
	return specs
}

type c16xQuiet struct{}

func (c16xQuiet) Infof(string, ...interface{})  {}
func (c16xQuiet) Errorf(string, ...interface{}) {}
func (c16xQuiet) Fatalf(format string, args ...interface{}) {
	panic("pebble fatal: " + fmt.Sprintf(format, args...))
}

func TestVerifC16Concurrent(t *testing.T) {
	r := ev.Start(t, "C16")
	defer r.Finish()
	engine.VerifTweak = func(o *pebble.Options) {
		o.MemTableSize = 256 << 10
		o.CacheSize = 1 << 20
		o.Logger = c16xQuiet{}
	}
	r.Assume("concurrent: Pebble is not rewritten (real goroutines, in-memory vfs): one engine read and one committed engine batch are atomic steps, so a read-modify-write with NO synchronisation operation between its read and its write is executed atomically (a missing lock is invisible; a lock taken at the wrong place is visible)")
	r.Assume("concurrent: every pkg/db/meta file importing sync is rewritten to vsync (today db.go: MetaDB.mu and the per-hash-slot locks), pkg/db/internal/commit completely (its 500us flush window runs on virtual time), pkg/goroutine at spawn level; pkg/slot/fsm is not rewritten (one state machine, used by one thread)")
	r.Assume("concurrent: oracle = serializability of two operations on one row, references computed by sequential executions of the same code (sequential correctness is judged by the mc systems of this check)")
	specs := c16xSpecs(r)
	if n := len(specs); n > 0 { // VERIF_SEED only rotates the scenario order
		k := int(r.Seed() % int64(n))
		specs = append(append([]c16xSpec{}, specs[k:]...), specs[:k]...)
	}
	only := os.Getenv("C16X_ONLY")
	_, shardN := r.Shard()
	var execs int64
	explored, cut, differ, entry := 0, 0, 0, map[string]bool{}
	for _, s := range specs {
		if only != "" && !strings.Contains(s.Name, only) {
			continue
		}
		var ref c16xRef
		var err error
		if ref.ab, err = c16xSequential(s, "AB"); err == nil {
			ref.ba, err = c16xSequential(s, "BA")
		}
		if err != nil {
			r.HarnessError("scenario %s: sequential reference failed: %v", s.Name, err)
			continue
		}
		if r.Replay() == nil {
			r.Guard("reference-"+s.Name, ref.ab.resA == "ok" && ref.ba.resB == "ok", "first operation of each order must be accepted: A;B -> (%s), B;A -> (%s)", ref.ab.triple(), ref.ba.triple())
		}
		if ref.ab.triple() != ref.ba.triple() {
			differ++
		}
		entry[c16xGet(s.A).kind] = true
		t0 := time.Now()
		st := vsched.Explore(r, c16xScenario(s, &ref, r.Replay() != nil))
		if os.Getenv("C16X_VERBOSE") != "" {
			fmt.Printf("c16x: %-58s bound=%d executions=%d outcomes=%d maxpoints=%d exhaustive=%v violations=%d %.2fs\n", s.Name, s.Bound, st.Executions, st.Outcomes, st.MaxPoints, st.Exhaustive, st.Violations, time.Since(t0).Seconds())
		}
		if c16xInfra != "" {
			r.HarnessError("infrastructure failure inside an execution: %s", c16xInfra)
			c16xInfra = ""
		}
		execs += st.Executions
		explored++
		if !st.Exhaustive {
			cut++
		}
	}
	if r.Replay() != nil {
		return
	}
	for k, v := range c16xSeen {
		r.Count("concurrent_seen_"+k, v)
	}
	r.Count("concurrent_violating_executions_counted_but_not_reported_again", c16xRepeats)
	r.Count("concurrent_scenarios", int64(explored))
	if cut > 0 || only != "" {
		return
	}
	minExec := int64(20 * explored)
	if shardN > 1 {
		minExec = int64(2 * explored)
	}
	r.Guard("concurrent-executions", execs >= minExec, "executions=%d over %d scenarios", execs, explored)
	r.Guard("concurrent-entry-points", len(entry) == 8, "Shard-level read-modify-write entry points raced as thread A: %d of 8 (cu ca ct up en rd hd ac)", len(entry))
	r.Guard("concurrent-orders-differ", differ*2 >= explored, "scenarios whose two sequential orders differ in results or final row: %d of %d", differ, explored)
	r.Guard("concurrent-both-orders-reached", c16xSeen["as-A-then-B"] > 0 && c16xSeen["as-B-then-A"] > 0, "executions equal to A;B only: %d, to B;A only: %d, to both: %d", c16xSeen["as-A-then-B"], c16xSeen["as-B-then-A"], c16xSeen["as-both-orders"])
}
