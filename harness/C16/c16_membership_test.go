package meta_test

// C16 - Per-user conversation cursors are monotonic.
//
// Explicit-state exploration of the real user_channel_membership and
// user_cmd_channel_membership tables. Every live instance owns one meta DB from a pool
// (tmpfs) and works on fresh uids, so "fresh instance + replay of the path" is a few point
// writes. The tables keep no per-key cache (every read goes to the engine), so the rows
// read back through the API are the whole state and states are merged on them.
//
// Systems (each once through the direct Shard/WriteBatch API and once through encoded slot
// FSM commands applied by stateMachine.ApplyBatch):
//   - membership-row-*: one (uid, channel) row, rich field menus, explored to closure or to
//     the depth bound: read cursor / delete-to monotonicity, source-version fencing;
//   - cmd-row-*: one command-channel row: ack sequence monotonicity;
//   - directory-*: 2 uids (one a prefix of the other) x 2-3 channels: after EVERY state a
//     directory walk with every page size 1..n+1 per uid, and during every write a walk of
//     the other uid with the write executed between the first and the second page.
//
// The oracle is evaluated on every transition (old rows, write, result, new rows).

import (
	"context"
	"errors"
	"fmt"
	"os"
	"sort"
	"strconv"
	"strings"
	"sync/atomic"
	"testing"

	meta "github.com/WuKongIM/WuKongIM/pkg/db/meta"
	"github.com/WuKongIM/WuKongIM/pkg/protocol/channelid"
	"github.com/WuKongIM/WuKongIM/pkg/slot/fsm"
	"github.com/WuKongIM/WuKongIM/pkg/slot/multiraft"
	"github.com/WuKongIM/WuKongIM/pkg/zzverif/ev"
	"github.com/WuKongIM/WuKongIM/pkg/zzverif/mc"
)

const (
	c16PoolSize = 48
	c16HashSlot = uint16(7)
	c16SlotID   = uint64(8)
)

// ---------------------------------------------------------------- DB pool

// One meta DB per live instance: MetaDB's group-commit coordinator fails ALL requests grouped
// into one physical commit when one of them fails to build, so instances sharing a DB would
// observe each other's ErrNotFound / conflicts (see the C15 harness).
type c16DB struct {
	db  *meta.DB
	dir string
	sm  multiraft.BatchStateMachine
}

type c16Env struct {
	r      *ev.R
	pool   chan *c16DB
	all    []*c16DB
	nextID atomic.Uint64
	// vacuity counters
	nRefusedOlder, nNewIncarnation, nCursorAdvance, nNoopMutation, nNotFound atomic.Int64
	nWalks, nInterleaved, nMultiPage, nTombListed, nTies, nAckAdvance, nRebind atomic.Int64
	nTombIgnored, nOpPairs                                                   atomic.Int64
}

func c16Open(r *ev.R, n int) (*c16Env, error) {
	e := &c16Env{r: r, pool: make(chan *c16DB, n)}
	for i := 0; i < n; i++ {
		dir, err := os.MkdirTemp("/dev/shm", "verif-c16-")
		if err != nil {
			e.close()
			return nil, err
		}
		d := &c16DB{dir: dir}
		e.all = append(e.all, d)
		if d.db, err = meta.Open(dir); err != nil {
			e.close()
			return nil, err
		}
		sm, err := fsm.NewStateMachineWithHashSlots(d.db, c16SlotID, []uint16{c16HashSlot})
		if err != nil {
			e.close()
			return nil, err
		}
		bsm, ok := sm.(multiraft.BatchStateMachine)
		if !ok {
			e.close()
			return nil, errors.New("slot state machine does not implement ApplyBatch")
		}
		d.sm = bsm
		e.pool <- d
	}
	return e, nil
}

func (e *c16Env) close() {
	for _, d := range e.all {
		if d.db != nil {
			d.db.Close()
		}
		os.RemoveAll(d.dir)
	}
}

// ---------------------------------------------------------------- menus

// c16Var is one full-row candidate of an upsert / ensure.
type c16Var struct {
	name                   string
	join, read, del        uint64
	act                    int64
	tomb                   bool
	tombAt                 int64
	sv                     uint64
	upd                    int64
}

var c16UpsertVars = []c16Var{
	{name: "s0live", sv: 0, upd: 10},
	{name: "s0liveR5D3A20", sv: 0, read: 5, del: 3, act: 20, join: 1, upd: 10},
	{name: "s1liveR2D1A10", sv: 1, read: 2, del: 1, act: 10, join: 2, upd: 10},
	{name: "s1tomb", sv: 1, tomb: true, tombAt: 20, upd: 20},
	{name: "s2liveA30", sv: 2, act: 30, join: 3, upd: 10},
	{name: "s2tomb", sv: 2, tomb: true, tombAt: 20, upd: 20},
	{name: "s0tomb", sv: 0, tomb: true, tombAt: 20, upd: 20},
}

var c16EnsureVars = []c16Var{
	{name: "s0", sv: 0, upd: 10},
	{name: "s1R4D4", sv: 1, read: 4, del: 4, join: 2, upd: 10},
	{name: "s1R1A15", sv: 1, read: 1, act: 15, join: 2, upd: 10},
	{name: "s2", sv: 2, join: 3, upd: 10},
	{name: "s2R6D6", sv: 2, read: 6, del: 6, join: 3, upd: 10},
}

// same-row two-upsert atomic batches (none of them hides a tombstone->live step inside)
var c16RowPairs = [][2]string{
	{"s1liveR2D1A10", "s0liveR5D3A20"}, {"s0liveR5D3A20", "s1liveR2D1A10"}, {"s1tomb", "s1liveR2D1A10"},
	{"s2liveA30", "s1tomb"}, {"s1liveR2D1A10", "s1liveR2D1A10"},
}

func c16FindVar(vs []c16Var, name string) c16Var {
	for _, v := range vs {
		if v.name == name {
			return v
		}
	}
	panic("unknown variant " + name)
}

type c16CmdVar struct {
	name       string
	start, ack uint64
	tomb       bool
	tombAt     int64
	upd        int64
}

var c16CmdVars = []c16CmdVar{
	{name: "liveA0", start: 1, upd: 10},
	{name: "liveA5", start: 1, ack: 5, upd: 20},
	{name: "liveA2S9", start: 9, ack: 2, upd: 5},
	{name: "tombA0", start: 1, tomb: true, tombAt: 20, upd: 20},
}

// c16Config selects rows and alphabet of one system.
type c16Config struct {
	name     string
	uids     int // 1 or 2
	chans    int // membership channels per uid (0..3); slot 2 = same channel id as slot 0, channel type 2
	cmdChans int // command channels per uid
	upserts  []string
	ensures  []string
	reads    []uint64
	hides    []uint64
	acts     []int64
	pairs    bool // same-row two-upsert batches
	pairAll  []string // variants upserted on ALL channels of one uid in one batch
	cmdVars  []string
	acks     []uint64
	walks    bool
	// shadow systems: every event is ALSO applied to a shadow uid with each operation in its own
	// batch; atomic multi-operation batches must leave the same row as sequential application
	shadow  bool
	ops     []string    // single-operation batches, e.g. "u=s1tomb" "e=s1R4D4" "r=7" "h=6" "a=40" "c=liveA5" "k=8" "t=30"
	opPairs [][2]string // two operations on the SAME row in ONE atomic batch (fsm: two commands in one ApplyBatch)
}

func (c *c16Config) events() []string {
	var evs []string
	for u := 0; u < c.uids; u++ {
		for ch := 0; ch < c.chans; ch++ {
			for _, v := range c.upserts {
				evs = append(evs, fmt.Sprintf("up:%d:%d:%s", u, ch, v))
			}
			if ch < 2 { // the FSM ensure command only accepts person channels (channel type 1)
				for _, v := range c.ensures {
					evs = append(evs, fmt.Sprintf("en:%d:%d:%s", u, ch, v))
				}
			}
			for _, s := range c.reads {
				evs = append(evs, fmt.Sprintf("rd:%d:%d:%d", u, ch, s))
			}
			for _, s := range c.hides {
				evs = append(evs, fmt.Sprintf("hd:%d:%d:%d", u, ch, s))
			}
			for _, a := range c.acts {
				evs = append(evs, fmt.Sprintf("ac:%d:%d:%d", u, ch, a))
			}
			if c.pairs {
				for _, p := range c16RowPairs {
					evs = append(evs, fmt.Sprintf("bu:%d:%d:%s+%s", u, ch, p[0], p[1]))
				}
			}
		}
		for _, v := range c.pairAll {
			evs = append(evs, fmt.Sprintf("ba:%d:%s", u, v))
		}
		for k := 0; k < c.cmdChans; k++ {
			for _, v := range c.cmdVars {
				evs = append(evs, fmt.Sprintf("cu:%d:%d:%s", u, k, v))
			}
			for _, a := range c.acks {
				evs = append(evs, fmt.Sprintf("ca:%d:%d:%d", u, k, a))
			}
			if len(c.cmdVars) > 0 {
				evs = append(evs, fmt.Sprintf("ct:%d:%d:30", u, k))
			}
		}
	}
	for _, o := range c.ops {
		evs = append(evs, "p1:0:"+o)
	}
	for _, p := range c.opPairs {
		evs = append(evs, "pp:0:"+p[0]+"+"+p[1])
	}
	return evs
}

// ---------------------------------------------------------------- drivers

type c16Driver interface {
	upsert(in *c16Inst, ms ...meta.UserChannelMembership) (string, error) // one atomic write
	ensure(in *c16Inst, m meta.UserChannelMembership) (string, error)
	read(in *c16Inst, m meta.UserChannelMembership) (string, error)
	hide(in *c16Inst, m meta.UserChannelMembership) (string, error)
	activate(in *c16Inst, m meta.UserChannelMembership) (string, error)
	cmdUpsert(in *c16Inst, m meta.UserCMDChannelMembership) (string, error)
	cmdAck(in *c16Inst, m meta.UserCMDChannelMembership) (string, error)
	cmdTomb(in *c16Inst, m meta.UserCMDChannelMembership) (string, error)
	// batch stages all operations into ONE atomic write batch (fsm: one ApplyBatch call)
	batch(in *c16Inst, ops []c16Op) (string, error)
	// failsAtomically: a missing row fails the whole batch (direct WriteBatch); the FSM re-applies
	// the commands one by one after a stale commit
	failsAtomically() bool
}

// c16Op is one staged operation of a multi-operation batch.
type c16Op struct {
	kind string // up en rd hd ac cu ca ct
	m    meta.UserChannelMembership
	cm   meta.UserCMDChannelMembership
}

func c16Class(err error) (string, error) {
	switch {
	case err == nil:
		return "ok", nil
	case errors.Is(err, meta.ErrNotFound):
		return "notfound", nil
	}
	return "", err
}

type c16Direct struct{}

func (c16Direct) upsert(in *c16Inst, ms ...meta.UserChannelMembership) (string, error) {
	if len(ms) == 1 {
		return c16Class(in.shard().UpsertUserChannelMembership(context.Background(), ms[0]))
	}
	wb := in.d.db.NewWriteBatch()
	defer wb.Close()
	for _, m := range ms {
		if err := wb.UpsertUserChannelMembership(c16HashSlot, m); err != nil {
			return "", err
		}
	}
	return c16Class(wb.Commit())
}
func (c16Direct) ensure(in *c16Inst, m meta.UserChannelMembership) (string, error) {
	return c16Class(in.shard().EnsureUserChannelMembership(context.Background(), m))
}
func (c16Direct) read(in *c16Inst, m meta.UserChannelMembership) (string, error) {
	return c16Class(in.shard().AdvanceUserChannelMembershipReadSeq(context.Background(), m.UID, meta.ChannelKey{ChannelID: m.ChannelID, ChannelType: m.ChannelType}, m.ReadSeq, m.UpdatedAt))
}
func (c16Direct) hide(in *c16Inst, m meta.UserChannelMembership) (string, error) {
	return c16Class(in.shard().HideUserChannelMembership(context.Background(), m.UID, meta.ChannelKey{ChannelID: m.ChannelID, ChannelType: m.ChannelType}, m.DeletedToSeq, m.UpdatedAt))
}
func (c16Direct) activate(in *c16Inst, m meta.UserChannelMembership) (string, error) {
	return c16Class(in.shard().SetUserChannelMembershipActivatedAt(context.Background(), m.UID, meta.ChannelKey{ChannelID: m.ChannelID, ChannelType: m.ChannelType}, m.ActivatedAt, m.UpdatedAt))
}
func (c16Direct) cmdUpsert(in *c16Inst, m meta.UserCMDChannelMembership) (string, error) {
	return c16Class(in.shard().UpsertUserCMDChannelMembership(context.Background(), m))
}
func (c16Direct) cmdAck(in *c16Inst, m meta.UserCMDChannelMembership) (string, error) {
	return c16Class(in.shard().AdvanceUserCMDChannelMembershipAckSeq(context.Background(), m.UID, m.CommandChannelID, m.ChannelType, m.AckSeq, m.UpdatedAt))
}
func (c16Direct) cmdTomb(in *c16Inst, m meta.UserCMDChannelMembership) (string, error) {
	return c16Class(in.shard().TombstoneUserCMDChannelMembership(context.Background(), m.UID, m.CommandChannelID, m.ChannelType, m.TombstoneAt))
}

func (c16Direct) failsAtomically() bool { return true }
func (c16Direct) batch(in *c16Inst, ops []c16Op) (string, error) {
	wb := in.d.db.NewWriteBatch()
	defer wb.Close()
	for _, o := range ops {
		var err error
		key := meta.ChannelKey{ChannelID: o.m.ChannelID, ChannelType: o.m.ChannelType}
		switch o.kind {
		case "up":
			err = wb.UpsertUserChannelMembership(c16HashSlot, o.m)
		case "en":
			err = wb.EnsureUserChannelMembership(c16HashSlot, o.m)
		case "rd":
			err = wb.AdvanceUserChannelMembershipReadSeq(c16HashSlot, o.m.UID, key, o.m.ReadSeq, o.m.UpdatedAt)
		case "hd":
			err = wb.HideUserChannelMembership(c16HashSlot, o.m.UID, key, o.m.DeletedToSeq, o.m.UpdatedAt)
		case "ac":
			err = wb.ActivateUserChannelMembership(c16HashSlot, o.m.UID, key, o.m.ActivatedAt, o.m.UpdatedAt)
		case "cu":
			err = wb.UpsertUserCMDChannelMembership(c16HashSlot, o.cm)
		case "ca":
			err = wb.AdvanceUserCMDChannelMembershipAckSeq(c16HashSlot, o.cm)
		case "ct":
			err = wb.TombstoneUserCMDChannelMembership(c16HashSlot, o.cm)
		default:
			panic("unknown op " + o.kind)
		}
		if err != nil {
			return "", err
		}
	}
	return c16Class(wb.Commit())
}

type c16FSM struct{}

func (c16FSM) failsAtomically() bool { return false }
func (c16FSM) batch(in *c16Inst, ops []c16Op) (string, error) {
	cmds := make([]multiraft.Command, len(ops))
	for i, o := range ops {
		var data []byte
		one := []meta.UserChannelMembership{o.m}
		cone := []meta.UserCMDChannelMembership{o.cm}
		switch o.kind {
		case "up":
			if o.m.Tombstone {
				data = fsm.EncodeDeleteUserChannelMembershipsCommand(one)
			} else {
				data = fsm.EncodeUpsertUserChannelMembershipsCommand(one)
			}
		case "en":
			var err error
			if data, err = fsm.EncodeEnsureUserChannelMembershipBatchCommandChecked([]fsm.UserChannelMembershipBatchItem{{HashSlot: c16HashSlot, Membership: o.m}}); err != nil {
				return "", err
			}
		case "rd":
			data = fsm.EncodeAdvanceUserChannelMembershipReadSeqCommand(one)
		case "hd":
			data = fsm.EncodeHideUserChannelMembershipCommand(one)
		case "ac":
			data = fsm.EncodeActivateUserChannelMembershipCommand(one)
		case "cu":
			data = fsm.EncodeUpsertUserCMDChannelMembershipsCommand(cone)
		case "ca":
			data = fsm.EncodeAdvanceUserCMDChannelMembershipAcksCommand(cone)
		case "ct":
			data = fsm.EncodeTombstoneUserCMDChannelMembershipsCommand(cone)
		default:
			panic("unknown op " + o.kind)
		}
		cmds[i] = multiraft.Command{SlotID: multiraft.SlotID(c16SlotID), HashSlot: c16HashSlot, Data: data}
	}
	res, err := in.d.sm.ApplyBatch(context.Background(), cmds)
	if err != nil {
		return "", err
	}
	out := "ok"
	for _, b := range res {
		switch string(b) {
		case fsm.ApplyResultOK:
		case fsm.ApplyResultStaleMeta:
			out = "notfound"
		default:
			return "", fmt.Errorf("command result %q", b)
		}
	}
	return out, nil
}

func (c16FSM) apply(in *c16Inst, data []byte) (string, error) {
	res, err := in.d.sm.ApplyBatch(context.Background(), []multiraft.Command{{SlotID: multiraft.SlotID(c16SlotID), HashSlot: c16HashSlot, Data: data}})
	if err != nil {
		return "", err
	}
	switch string(res[0]) {
	case fsm.ApplyResultOK:
		return "ok", nil
	case fsm.ApplyResultStaleMeta:
		return "notfound", nil // a mutation of a missing row fails the commit with ErrNotFound -> stale_meta
	}
	return "", fmt.Errorf("command result %q", res[0])
}
func (d c16FSM) upsert(in *c16Inst, ms ...meta.UserChannelMembership) (string, error) {
	allTomb := true
	for _, m := range ms {
		allTomb = allTomb && m.Tombstone
	}
	if allTomb { // removals are proposed as command 45
		return d.apply(in, fsm.EncodeDeleteUserChannelMembershipsCommand(ms))
	}
	return d.apply(in, fsm.EncodeUpsertUserChannelMembershipsCommand(ms))
}
func (d c16FSM) ensure(in *c16Inst, m meta.UserChannelMembership) (string, error) {
	data, err := fsm.EncodeEnsureUserChannelMembershipBatchCommandChecked([]fsm.UserChannelMembershipBatchItem{{HashSlot: c16HashSlot, Membership: m}})
	if err != nil {
		return "", err
	}
	return d.apply(in, data)
}
func (d c16FSM) read(in *c16Inst, m meta.UserChannelMembership) (string, error) {
	return d.apply(in, fsm.EncodeAdvanceUserChannelMembershipReadSeqCommand([]meta.UserChannelMembership{m}))
}
func (d c16FSM) hide(in *c16Inst, m meta.UserChannelMembership) (string, error) {
	return d.apply(in, fsm.EncodeHideUserChannelMembershipCommand([]meta.UserChannelMembership{m}))
}
func (d c16FSM) activate(in *c16Inst, m meta.UserChannelMembership) (string, error) {
	return d.apply(in, fsm.EncodeActivateUserChannelMembershipCommand([]meta.UserChannelMembership{m}))
}
func (d c16FSM) cmdUpsert(in *c16Inst, m meta.UserCMDChannelMembership) (string, error) {
	return d.apply(in, fsm.EncodeUpsertUserCMDChannelMembershipsCommand([]meta.UserCMDChannelMembership{m}))
}
func (d c16FSM) cmdAck(in *c16Inst, m meta.UserCMDChannelMembership) (string, error) {
	return d.apply(in, fsm.EncodeAdvanceUserCMDChannelMembershipAcksCommand([]meta.UserCMDChannelMembership{m}))
}
func (d c16FSM) cmdTomb(in *c16Inst, m meta.UserCMDChannelMembership) (string, error) {
	return d.apply(in, fsm.EncodeTombstoneUserCMDChannelMembershipsCommand([]meta.UserCMDChannelMembership{m}))
}

// ---------------------------------------------------------------- instance

type c16Chan struct {
	id  string
	typ int64
}

type c16Inst struct {
	env   *c16Env
	cfg   *c16Config
	evs   []string
	d     *c16DB
	drv   c16Driver
	uids  []string
	chans [][]c16Chan // per uid, membership channels in index order (slot order == key order)
	cmds  [][]c16Chan
	// last read-back
	rows    [][]meta.UserChannelMembership
	rowsEx  [][]bool
	crows   [][]meta.UserCMDChannelMembership
	crowsEx [][]bool
	dirty   bool
}

func (e *c16Env) newInst(cfg *c16Config, evs []string, drv c16Driver) *c16Inst {
	id := e.nextID.Add(1)
	in := &c16Inst{env: e, cfg: cfg, evs: evs, d: <-e.pool, drv: drv}
	base := fmt.Sprintf("u%08d", id)
	// the second uid extends the first one: index / primary prefix scans must not leak across
	names := []string{base + "a", base + "ab"}
	nu := cfg.uids
	if cfg.shadow {
		nu = 2 // uid#1 is the shadow of uid#0; no event addresses it
	}
	for u := 0; u < nu; u++ {
		uid := names[u]
		in.uids = append(in.uids, uid)
		var chs []c16Chan
		if cfg.chans > 0 {
			ids := []string{channelid.EncodePersonChannel(uid, "p1"), channelid.EncodePersonChannel(uid, "p2")}
			sort.Strings(ids) // slot 0 sorts before slot 1 in every instance
			chs = []c16Chan{{ids[0], 1}, {ids[1], 1}, {ids[0], 2}}[:cfg.chans]
		}
		in.chans = append(in.chans, chs)
		var cs []c16Chan
		for k := 0; k < cfg.cmdChans; k++ {
			cs = append(cs, c16Chan{fmt.Sprintf("%s____cmd%d", uid, k), 1})
		}
		in.cmds = append(in.cmds, cs)
		in.rows = append(in.rows, make([]meta.UserChannelMembership, len(chs)))
		in.rowsEx = append(in.rowsEx, make([]bool, len(chs)))
		in.crows = append(in.crows, make([]meta.UserCMDChannelMembership, len(cs)))
		in.crowsEx = append(in.crowsEx, make([]bool, len(cs)))
	}
	return in
}

func (in *c16Inst) shard() *meta.Shard { return in.d.db.MetaDB().HashSlot(c16HashSlot) }

func (in *c16Inst) Events() []string { return in.evs }

func (in *c16Inst) Close() {
	if in.d == nil {
		return
	}
	if in.dirty {
		for u, uid := range in.uids {
			for _, ch := range in.chans[u] {
				_ = in.shard().DeleteUserChannelMembership(context.Background(), uid, meta.ChannelKey{ChannelID: ch.id, ChannelType: ch.typ})
			}
		}
	}
	in.env.pool <- in.d
	in.d = nil
}

func c16Row(m meta.UserChannelMembership, ex bool) string {
	if !ex {
		return "absent"
	}
	return fmt.Sprintf("join=%d read=%d del=%d act=%d tomb=%v/%d sv=%d upd=%d", m.JoinSeq, m.ReadSeq, m.DeletedToSeq, m.ActivatedAt, m.Tombstone, m.TombstoneAt, m.SourceVersion, m.UpdatedAt)
}

func c16CRow(m meta.UserCMDChannelMembership, ex bool) string {
	if !ex {
		return "absent"
	}
	return fmt.Sprintf("start=%d ack=%d tomb=%v/%d upd=%d", m.StartSeq, m.AckSeq, m.Tombstone, m.TombstoneAt, m.UpdatedAt)
}

func (in *c16Inst) readAll() error {
	ctx := context.Background()
	for u, uid := range in.uids {
		for c, ch := range in.chans[u] {
			m, ok, err := in.shard().GetUserChannelMembership(ctx, uid, ch.id, ch.typ)
			if err != nil {
				return err
			}
			if ok && (m.UID != uid || m.ChannelID != ch.id || m.ChannelType != ch.typ) {
				return fmt.Errorf("Get returned a row with a different identity")
			}
			in.rows[u][c], in.rowsEx[u][c] = m, ok
		}
		for k, ch := range in.cmds[u] {
			m, ok, err := in.shard().GetUserCMDChannelMembership(ctx, uid, ch.id, ch.typ)
			if err != nil {
				return err
			}
			in.crows[u][k], in.crowsEx[u][k] = m, ok
		}
	}
	return nil
}

func (in *c16Inst) Canon() string {
	var b strings.Builder
	for u := range in.uids {
		for c := range in.chans[u] {
			fmt.Fprintf(&b, "m%d.%d{%s}", u, c, c16Row(in.rows[u][c], in.rowsEx[u][c]))
		}
		for k := range in.cmds[u] {
			fmt.Fprintf(&b, "c%d.%d{%s}", u, k, c16CRow(in.crows[u][k], in.crowsEx[u][k]))
		}
	}
	return b.String()
}

func (in *c16Inst) infra(evl string, err error) (string, error) {
	in.env.r.HarnessError("C16 %s %s: unexpected error: %v", in.cfg.name, evl, err)
	return "infra-error", nil
}

func (in *c16Inst) member(u, c int, v c16Var) meta.UserChannelMembership {
	ch := in.chans[u][c]
	return meta.UserChannelMembership{UID: in.uids[u], ChannelID: ch.id, ChannelType: ch.typ, JoinSeq: v.join, ReadSeq: v.read,
		DeletedToSeq: v.del, ActivatedAt: v.act, Tombstone: v.tomb, TombstoneAt: v.tombAt, SourceVersion: v.sv, UpdatedAt: v.upd}
}

// op builds one staged operation on membership channel 0 / command channel 0 of uid#u.
func (in *c16Inst) op(u int, tok string) c16Op {
	kv := strings.SplitN(tok, "=", 2)
	num, _ := strconv.ParseUint(kv[1], 10, 64)
	var o c16Op
	if len(in.chans[u]) > 0 {
		ch := in.chans[u][0]
		o.m = meta.UserChannelMembership{UID: in.uids[u], ChannelID: ch.id, ChannelType: ch.typ, UpdatedAt: 20}
	}
	if len(in.cmds[u]) > 0 {
		ch := in.cmds[u][0]
		o.cm = meta.UserCMDChannelMembership{UID: in.uids[u], CommandChannelID: ch.id, ChannelType: ch.typ}
	}
	switch kv[0] {
	case "u":
		o.kind, o.m = "up", in.member(u, 0, c16FindVar(c16UpsertVars, kv[1]))
	case "e":
		o.kind, o.m = "en", in.member(u, 0, c16FindVar(c16EnsureVars, kv[1]))
	case "r":
		o.kind, o.m.ReadSeq = "rd", num
	case "h":
		o.kind, o.m.DeletedToSeq = "hd", num
	case "a":
		o.kind, o.m.ActivatedAt = "ac", int64(num)
	case "c":
		o.kind = "cu"
		for _, v := range c16CmdVars {
			if v.name == kv[1] {
				o.cm.StartSeq, o.cm.AckSeq, o.cm.Tombstone, o.cm.TombstoneAt, o.cm.UpdatedAt = v.start, v.ack, v.tomb, v.tombAt, v.upd
			}
		}
	case "k":
		o.kind, o.cm.AckSeq, o.cm.UpdatedAt = "ca", num, 20
	case "t":
		o.kind, o.cm.TombstoneAt, o.cm.UpdatedAt = "ct", int64(num), int64(num)
	default:
		panic("unknown op token " + tok)
	}
	return o
}

// ---------------------------------------------------------------- directory walks

type c16Walk struct {
	uid    int
	ps     int
	cursor meta.UserChannelMembershipCursor
	got    []meta.UserChannelMembership
	done   bool
	pages  int
}

func (in *c16Inst) walkStep(w *c16Walk) error {
	rows, next, done, err := in.shard().ListUserChannelMembershipPage(context.Background(), in.uids[w.uid], w.cursor, w.ps)
	if err != nil {
		return mc.Violatef("C16:directory-page-error", "directory walk of uid#%d with page size %d failed on page %d: %v", w.uid, w.ps, w.pages+1, err)
	}
	if len(rows) > w.ps {
		return mc.Violatef("C16:directory-page-too-large", "directory page of uid#%d holds %d rows for page size %d", w.uid, len(rows), w.ps)
	}
	w.got = append(w.got, rows...)
	w.cursor, w.done = next, done
	w.pages++
	return nil
}

func (in *c16Inst) walkFinish(w *c16Walk, when string) error {
	limit := len(in.chans[w.uid]) + 3
	for !w.done {
		if w.pages > limit {
			return mc.Violatef("C16:directory-walk-does-not-terminate", "%s: directory walk of uid#%d with page size %d is not done after %d pages", when, w.uid, w.ps, w.pages)
		}
		if err := in.walkStep(w); err != nil {
			return err
		}
	}
	return in.walkJudge(w, when)
}

// walkJudge compares one finished walk with the rows read back through Get.
func (in *c16Inst) walkJudge(w *c16Walk, when string) error {
	u := w.uid
	slotOf := func(m meta.UserChannelMembership) int {
		for c, ch := range in.chans[u] {
			if ch.id == m.ChannelID && ch.typ == m.ChannelType && m.UID == in.uids[u] {
				return c
			}
		}
		return -1
	}
	desc := func() string {
		var parts []string
		for _, m := range w.got {
			parts = append(parts, fmt.Sprintf("ch%d(act=%d tomb=%v)", slotOf(m), m.ActivatedAt, m.Tombstone))
		}
		var st []string
		for c := range in.chans[u] {
			st = append(st, fmt.Sprintf("ch%d{%s}", c, c16Row(in.rows[u][c], in.rowsEx[u][c])))
		}
		return fmt.Sprintf("%s: uid#%d page size %d listed [%s]; stored %s", when, u, w.ps, strings.Join(parts, " "), strings.Join(st, " "))
	}
	seen := map[int]int{}
	for i, m := range w.got {
		c := slotOf(m)
		if c < 0 {
			return mc.Violatef("C16:directory-lists-foreign-row", "a row of another user or channel was listed; %s", desc())
		}
		seen[c]++
		if seen[c] > 1 {
			return mc.Violatef("C16:directory-lists-membership-twice", "a membership was listed more than once in one pass; %s", desc())
		}
		if !in.rowsEx[u][c] || c16Row(m, true) != c16Row(in.rows[u][c], true) {
			return mc.Violatef("C16:directory-row-differs-from-stored-row", "a listed row differs from the row read back by key; %s", desc())
		}
		if m.Tombstone {
			in.env.nTombListed.Add(1)
		}
		if i > 0 {
			p := w.got[i-1]
			if p.ActivatedAt == m.ActivatedAt {
				in.env.nTies.Add(1)
			}
			inOrder := p.ActivatedAt > m.ActivatedAt || (p.ActivatedAt == m.ActivatedAt && (p.ChannelID < m.ChannelID || (p.ChannelID == m.ChannelID && p.ChannelType < m.ChannelType)))
			if !inOrder {
				return mc.Violatef("C16:directory-order", "rows are not in (activation time descending, channel) order; %s", desc())
			}
		}
	}
	for c := range in.chans[u] {
		if in.rowsEx[u][c] && !in.rows[u][c].Tombstone && seen[c] != 1 {
			return mc.Violatef("C16:directory-misses-live-membership", "a live membership was not listed; %s", desc())
		}
	}
	in.env.nWalks.Add(1)
	if w.pages > 1 {
		in.env.nMultiPage.Add(1)
	}
	return nil
}

func (in *c16Inst) Check() error {
	if !in.cfg.walks {
		return nil
	}
	for u := range in.uids {
		for ps := 1; ps <= len(in.chans[u])+1; ps++ {
			w := &c16Walk{uid: u, ps: ps}
			if err := in.walkFinish(w, "after the write"); err != nil {
				return err
			}
		}
	}
	return nil
}

// ---------------------------------------------------------------- transitions

func (in *c16Inst) Apply(evl string, _ *mc.Env) (string, error) {
	f := strings.Split(evl, ":")
	u, _ := strconv.Atoi(f[1])
	// snapshot of the rows before the write (kept from the last read-back)
	oldRows := make([][]meta.UserChannelMembership, len(in.rows))
	oldEx := make([][]bool, len(in.rows))
	oldC := make([][]meta.UserCMDChannelMembership, len(in.rows))
	oldCEx := make([][]bool, len(in.rows))
	for i := range in.rows {
		oldRows[i] = append([]meta.UserChannelMembership(nil), in.rows[i]...)
		oldEx[i] = append([]bool(nil), in.rowsEx[i]...)
		oldC[i] = append([]meta.UserCMDChannelMembership(nil), in.crows[i]...)
		oldCEx[i] = append([]bool(nil), in.crowsEx[i]...)
	}
	in.dirty = true

	// walks of the OTHER uid that this write is interleaved into (first page before the write)
	var walks []*c16Walk
	if in.cfg.walks && len(in.uids) == 2 {
		o := 1 - u
		for ps := 1; ps <= len(in.chans[o])+1; ps++ {
			w := &c16Walk{uid: o, ps: ps}
			if err := in.walkStep(w); err != nil {
				return "", err
			}
			walks = append(walks, w)
		}
	}

	var (
		res     string
		err     error
		targets = map[[2]int]bool{} // membership rows the write addresses
		ctarget = -1
		incoming []meta.UserChannelMembership
		pairOps  []c16Op
	)
	switch f[0] {
	case "up":
		c, _ := strconv.Atoi(f[2])
		m := in.member(u, c, c16FindVar(c16UpsertVars, f[3]))
		targets[[2]int{u, c}] = true
		incoming = []meta.UserChannelMembership{m}
		res, err = in.drv.upsert(in, m)
	case "bu":
		c, _ := strconv.Atoi(f[2])
		ab := strings.Split(f[3], "+")
		m1 := in.member(u, c, c16FindVar(c16UpsertVars, ab[0]))
		m2 := in.member(u, c, c16FindVar(c16UpsertVars, ab[1]))
		targets[[2]int{u, c}] = true
		incoming = []meta.UserChannelMembership{m1, m2}
		res, err = in.drv.upsert(in, m1, m2)
	case "ba":
		var ms []meta.UserChannelMembership
		for c := range in.chans[u] {
			ms = append(ms, in.member(u, c, c16FindVar(c16UpsertVars, f[2])))
			targets[[2]int{u, c}] = true
		}
		incoming = ms[:1]
		res, err = in.drv.upsert(in, ms...)
	case "en":
		c, _ := strconv.Atoi(f[2])
		m := in.member(u, c, c16FindVar(c16EnsureVars, f[3]))
		targets[[2]int{u, c}] = true
		incoming = []meta.UserChannelMembership{m}
		res, err = in.drv.ensure(in, m)
	case "rd", "hd", "ac":
		c, _ := strconv.Atoi(f[2])
		val, _ := strconv.ParseUint(f[3], 10, 64)
		ch := in.chans[u][c]
		m := meta.UserChannelMembership{UID: in.uids[u], ChannelID: ch.id, ChannelType: ch.typ, UpdatedAt: 20}
		targets[[2]int{u, c}] = true
		switch f[0] {
		case "rd":
			m.ReadSeq = val
			res, err = in.drv.read(in, m)
		case "hd":
			m.DeletedToSeq = val
			res, err = in.drv.hide(in, m)
		case "ac":
			m.ActivatedAt = int64(val)
			res, err = in.drv.activate(in, m)
		}
	case "cu", "ca", "ct":
		k, _ := strconv.Atoi(f[2])
		ch := in.cmds[u][k]
		ctarget = k
		m := meta.UserCMDChannelMembership{UID: in.uids[u], CommandChannelID: ch.id, ChannelType: ch.typ}
		switch f[0] {
		case "cu":
			var v c16CmdVar
			for _, x := range c16CmdVars {
				if x.name == f[3] {
					v = x
				}
			}
			m.StartSeq, m.AckSeq, m.Tombstone, m.TombstoneAt, m.UpdatedAt = v.start, v.ack, v.tomb, v.tombAt, v.upd
			res, err = in.drv.cmdUpsert(in, m)
		case "ca":
			a, _ := strconv.ParseUint(f[3], 10, 64)
			m.AckSeq, m.UpdatedAt = a, 20
			res, err = in.drv.cmdAck(in, m)
		case "ct":
			at, _ := strconv.ParseInt(f[3], 10, 64)
			m.TombstoneAt, m.UpdatedAt = at, at
			res, err = in.drv.cmdTomb(in, m)
		}
	case "p1", "pp":
		toks := strings.Split(f[2], "+")
		var ops, sops []c16Op
		for _, tk := range toks {
			ops = append(ops, in.op(0, tk))
			sops = append(sops, in.op(1, tk))
		}
		pairOps = ops
		if len(in.chans[0]) > 0 && ops[0].kind != "cu" && ops[0].kind != "ca" && ops[0].kind != "ct" {
			targets[[2]int{0, 0}] = true
		} else {
			ctarget = 0
		}
		res, err = in.drv.batch(in, ops)
		if err == nil && !(in.drv.failsAtomically() && res == "notfound") {
			// reference: the same operations, one after the other, each in its own batch
			for _, so := range sops {
				if _, serr := in.drv.batch(in, []c16Op{so}); serr != nil {
					err = serr
				}
			}
		}
		if len(ops) > 1 {
			in.env.nOpPairs.Add(1)
		}
	default:
		panic("unknown event " + evl)
	}
	if err != nil {
		return in.infra(evl, err)
	}
	if err := in.readAll(); err != nil {
		return in.infra(evl, err)
	}
	obs := f[0] + "-" + res
	if res == "notfound" {
		in.env.nNotFound.Add(1)
	}

	// ---- oracle over every row
	changed := false
	for uu := range in.uids {
		if in.cfg.shadow && uu == 1 {
			continue // the shadow rows are judged by comparison below
		}
		for c := range in.chans[uu] {
			o, oex, n, nex := oldRows[uu][c], oldEx[uu][c], in.rows[uu][c], in.rowsEx[uu][c]
			same := c16Row(o, oex) == c16Row(n, nex)
			if !targets[[2]int{uu, c}] {
				if !same {
					return obs, mc.Violatef("C16:write-changed-unrelated-row", "%s changed membership row uid#%d/ch%d it does not address: {%s} -> {%s}", evl, uu, c, c16Row(o, oex), c16Row(n, nex))
				}
				continue
			}
			if !same {
				changed = true
			}
			if !oex {
				continue // first incarnation of this row
			}
			tr := fmt.Sprintf("%s on uid#%d/ch%d: {%s} -> {%s}", evl, uu, c, c16Row(o, oex), c16Row(n, nex))
			if !nex {
				return obs, mc.Violatef("C16:membership-row-vanished", "a stored membership row disappeared; %s", tr)
			}
			// "subscriber-derived writes carrying an older source version are refused"
			if f[0] == "up" || f[0] == "bu" || f[0] == "ba" || f[0] == "en" {
				older := true
				srcs := incoming
				if f[0] == "ba" {
					srcs = incoming[:1] // same variant on every channel
				}
				for _, m := range srcs {
					older = older && m.SourceVersion < o.SourceVersion
				}
				if older {
					in.env.nRefusedOlder.Add(1)
					if !same {
						return obs, mc.Violatef("C16:older-source-version-write-applied", "a write carrying an older source version changed the row; %s", tr)
					}
				}
			}
			// cursor monotonicity within one incarnation
			newInc := false
			switch f[0] {
			case "up", "bu", "ba":
				// a newer join over a tombstone starts a new membership incarnation
				newInc = o.Tombstone && !n.Tombstone && n.SourceVersion > o.SourceVersion
			case "en":
				// resolveEnsuredUserChannelMembership: a later source generation over an already
				// fenced row is a delete/recreate boundary (DESIGN appendix D); the first import
				// (stored source version 0) must not regress
				newInc = incoming[0].SourceVersion > o.SourceVersion && o.SourceVersion != 0
			case "p1", "pp":
				newInc = o.Tombstone && !n.Tombstone && n.SourceVersion > o.SourceVersion
				for _, po := range pairOps {
					if po.kind == "en" && po.m.SourceVersion > o.SourceVersion && o.SourceVersion != 0 {
						newInc = true
					}
				}
			}
			if newInc {
				in.env.nNewIncarnation.Add(1)
			} else {
				if n.ReadSeq < o.ReadSeq {
					return obs, mc.Violatef("C16:read-seq-decreased", "the read cursor moved backwards; %s", tr)
				}
				if n.DeletedToSeq < o.DeletedToSeq {
					return obs, mc.Violatef("C16:deleted-to-seq-decreased", "the delete-to boundary moved backwards; %s", tr)
				}
			}
			if n.ReadSeq > o.ReadSeq || n.DeletedToSeq > o.DeletedToSeq {
				in.env.nCursorAdvance.Add(1)
			}
			if o.Tombstone && same && (f[0] == "rd" || f[0] == "hd" || f[0] == "ac") {
				in.env.nTombIgnored.Add(1)
			}
			if same && !o.Tombstone && (f[0] == "rd" || f[0] == "hd" || f[0] == "ac") {
				in.env.nNoopMutation.Add(1)
			}
		}
		for k := range in.cmds[uu] {
			o, oex, n, nex := oldC[uu][k], oldCEx[uu][k], in.crows[uu][k], in.crowsEx[uu][k]
			same := c16CRow(o, oex) == c16CRow(n, nex)
			if uu != u || k != ctarget {
				if !same {
					return obs, mc.Violatef("C16:write-changed-unrelated-row", "%s changed command-channel row uid#%d/cmd%d it does not address: {%s} -> {%s}", evl, uu, k, c16CRow(o, oex), c16CRow(n, nex))
				}
				continue
			}
			if !same {
				changed = true
			}
			if !oex {
				continue
			}
			tr := fmt.Sprintf("%s on uid#%d/cmd%d: {%s} -> {%s}", evl, uu, k, c16CRow(o, oex), c16CRow(n, nex))
			if !nex {
				return obs, mc.Violatef("C16:cmd-row-vanished", "a stored command-channel row disappeared; %s", tr)
			}
			// UpsertUserCMDChannelMembership: "Rebinding a tombstoned row resets its start and
			// acknowledgement boundaries" - tombstone -> live starts a new incarnation
			rebind := o.Tombstone && !n.Tombstone
			tomb := o.Tombstone // a tombstone (stored or staged earlier in the batch) followed by a live rebind
			for _, po := range pairOps {
				switch {
				case po.kind == "ct":
					tomb = true
				case po.kind == "cu" && !po.cm.Tombstone && tomb:
					rebind, tomb = true, false
				}
			}
			if rebind {
				in.env.nRebind.Add(1)
			} else if n.AckSeq < o.AckSeq {
				return obs, mc.Violatef("C16:cmd-ack-seq-decreased", "the command-channel ack sequence moved backwards; %s", tr)
			}
			if n.AckSeq > o.AckSeq {
				in.env.nAckAdvance.Add(1)
			}
		}
	}
	// ---- differential: atomic batch == the same operations applied one after the other
	if in.cfg.shadow {
		for c := range in.chans[0] {
			a, b := c16Row(in.rows[0][c], in.rowsEx[0][c]), c16Row(in.rows[1][c], in.rowsEx[1][c])
			if a != b {
				return obs, mc.Violatef("C16:atomic-batch-differs-from-sequential-application", "%s: membership row after the atomic batch {%s} differs from the row after applying the same operations in separate batches {%s} (before: {%s})", evl, a, b, c16Row(oldRows[0][c], oldEx[0][c]))
			}
		}
		for k := range in.cmds[0] {
			a, b := c16CRow(in.crows[0][k], in.crowsEx[0][k]), c16CRow(in.crows[1][k], in.crowsEx[1][k])
			if a != b {
				return obs, mc.Violatef("C16:atomic-batch-differs-from-sequential-application", "%s: command-channel row after the atomic batch {%s} differs from the row after applying the same operations in separate batches {%s} (before: {%s})", evl, a, b, c16CRow(oldC[0][k], oldCEx[0][k]))
			}
		}
	}
	// ---- finish the interleaved walks of the other uid (its rows were not touched)
	for _, w := range walks {
		if !w.done {
			in.env.nInterleaved.Add(1)
		}
		if err := in.walkFinish(w, "write "+evl+" executed between the first and the second page"); err != nil {
			return obs, err
		}
	}
	if changed {
		obs += "/changed"
	} else {
		obs += "/unchanged"
	}
	return obs, nil
}

// ---------------------------------------------------------------- test

func TestVerifC16(t *testing.T) {
	r := ev.Start(t, "C16")
	defer r.Finish()
	env, err := c16Open(r, c16PoolSize)
	if err != nil {
		r.HarnessError("cannot open meta dbs on /dev/shm: %v", err)
		return
	}
	defer env.close()
	th := r.Thorough()

	var upAll, enAll, cmdAll []string
	for _, v := range c16UpsertVars {
		upAll = append(upAll, v.name)
	}
	for _, v := range c16EnsureVars {
		enAll = append(enAll, v.name)
	}
	for _, v := range c16CmdVars {
		cmdAll = append(cmdAll, v.name)
	}
	rowCfg := &c16Config{name: "membership-row", uids: 1, chans: 1, upserts: upAll, ensures: enAll,
		reads: []uint64{1, 4, 7}, hides: []uint64{0, 2, 6}, acts: []int64{5, 25, 40}, pairs: true}
	cmdCfg := &c16Config{name: "cmd-row", uids: 1, cmdChans: 2, cmdVars: cmdAll, acks: []uint64{1, 3, 8}}
	// same-row operation pairs inside one atomic batch, with a sequentially written shadow row
	muts := []string{"r=7", "h=6", "a=40", "h=0", "a=5"}
	var mpairs [][2]string
	for _, a := range muts {
		for _, b := range muts {
			mpairs = append(mpairs, [2]string{a, b})
		}
	}
	for _, w := range []string{"u=s1liveR2D1A10", "u=s1tomb", "u=s2liveA30", "e=s1R4D4"} {
		for _, m := range []string{"r=7", "h=6", "a=40"} {
			mpairs = append(mpairs, [2]string{w, m}, [2]string{m, w})
		}
	}
	mpCfg := &c16Config{name: "membership-pairs", uids: 1, chans: 1, shadow: true,
		ops:     []string{"u=s0liveR5D3A20", "u=s1liveR2D1A10", "u=s1tomb", "u=s2liveA30", "e=s1R4D4", "r=4", "h=2", "a=25"},
		opPairs: mpairs}
	cops := []string{"k=8", "k=3", "t=30", "c=liveA5", "c=liveA0"}
	var cpairs [][2]string
	for _, a := range cops {
		for _, b := range cops {
			cpairs = append(cpairs, [2]string{a, b})
		}
	}
	cpCfg := &c16Config{name: "cmd-pairs", uids: 1, cmdChans: 1, shadow: true,
		ops: []string{"c=liveA0", "c=liveA5", "c=liveA2S9", "c=tombA0", "k=1", "t=30"}, opPairs: cpairs}
	// quick: the writes that move rows in the activation index; thorough adds ensure / read advance
	dirCfg := &c16Config{name: "directory", uids: 2, chans: 2, walks: true,
		upserts: []string{"s0live", "s1liveR2D1A10", "s1tomb", "s2liveA30"},
		hides:   []uint64{2}, acts: []int64{25, 40}, pairAll: []string{"s0live", "s1tomb"}}
	if th {
		dirCfg.ensures = []string{"s1R1A15"}
		dirCfg.reads = []uint64{4}
	}
	// third channel slot = channel id of slot 0 with channel type 2 (collides on the id column)
	dir3Cfg := &c16Config{name: "directory3", uids: 2, chans: 3, walks: true,
		upserts: []string{"s0live", "s1liveR2D1A10", "s1tomb", "s2liveA30"},
		hides:   []uint64{2}, acts: []int64{25, 40}, pairAll: []string{"s0live", "s1tomb"}}

	type sysDef struct {
		cfg     *c16Config
		drv     c16Driver
		suffix  string
		depth   int
		workers int
		max     int64
	}
	defs := []sysDef{
		{rowCfg, c16Direct{}, "direct", ev.Pick(r, 8, 12), 0, ev.Pick(r, int64(60000), int64(400000))},
		{rowCfg, c16FSM{}, "fsm", ev.Pick(r, 3, 8), 32, ev.Pick(r, int64(20000), int64(80000))},
		{cmdCfg, c16Direct{}, "direct", ev.Pick(r, 6, 10), 0, ev.Pick(r, int64(60000), int64(400000))},
		{cmdCfg, c16FSM{}, "fsm", ev.Pick(r, 3, 6), 32, ev.Pick(r, int64(20000), int64(80000))},
		{dirCfg, c16Direct{}, "direct", ev.Pick(r, 4, 5), 0, ev.Pick(r, int64(60000), int64(800000))},
		{dirCfg, c16FSM{}, "fsm", ev.Pick(r, 3, 3), 32, ev.Pick(r, int64(20000), int64(80000))},
	}
	defs = append(defs,
		sysDef{mpCfg, c16Direct{}, "direct", ev.Pick(r, 3, 6), 0, 400000},
		sysDef{mpCfg, c16FSM{}, "fsm", ev.Pick(r, 3, 4), 32, 80000},
		sysDef{cpCfg, c16Direct{}, "direct", ev.Pick(r, 3, 6), 0, 400000},
		sysDef{cpCfg, c16FSM{}, "fsm", ev.Pick(r, 3, 4), 32, 80000})
	if th {
		defs = append(defs, sysDef{dir3Cfg, c16Direct{}, "direct", 4, 0, 800000})
	}
	res := map[string]mc.Result{}
	for _, d := range defs {
		d := d
		evs := d.cfg.events()
		name := d.cfg.name + "-" + d.suffix
		res[name] = mc.Run(r, mc.System{
			Name:      name,
			New:       func() mc.Instance { return env.newInst(d.cfg, evs, d.drv) },
			MaxDepth:  d.depth,
			Workers:   d.workers,
			MaxStates: d.max,
			Bounds: map[string]any{"events": len(evs), "uids": d.cfg.uids, "membership_channels_per_uid": d.cfg.chans, "cmd_channels_per_uid": d.cfg.cmdChans,
				"upsert_variants": d.cfg.upserts, "ensure_variants": d.cfg.ensures, "read_seqs": d.cfg.reads, "hide_seqs": d.cfg.hides, "activations": d.cfg.acts,
				"cmd_variants": d.cfg.cmdVars, "ack_seqs": d.cfg.acks, "page_sizes": "1..channels+1, after every state and interleaved with every write"},
			Note: "state = all membership / command-channel rows read back by key (fresh uids per path, one DB per live instance); exact replays are ordinary repeated events; oracle on every transition",
		})
	}
	if r.Replay() != nil {
		return
	}
	r.Count("older_source_version_writes", env.nRefusedOlder.Load())
	r.Count("new_incarnation_transitions", env.nNewIncarnation.Load())
	r.Count("cursor_advances", env.nCursorAdvance.Load())
	r.Count("non_advancing_personal_mutations", env.nNoopMutation.Load())
	r.Count("personal_mutations_ignored_by_tombstone", env.nTombIgnored.Load())
	r.Count("mutations_of_missing_rows", env.nNotFound.Load())
	r.Count("directory_walks_judged", env.nWalks.Load())
	r.Count("directory_walks_with_several_pages", env.nMultiPage.Load())
	r.Count("directory_walks_with_interleaved_write", env.nInterleaved.Load())
	r.Count("tombstoned_rows_listed", env.nTombListed.Load())
	r.Count("activation_ties_in_listing", env.nTies.Load())
	r.Count("cmd_ack_advances", env.nAckAdvance.Load())
	r.Count("cmd_rebinds_after_tombstone", env.nRebind.Load())
	r.Guard("older-source-version-writes-seen", env.nRefusedOlder.Load() >= 100, "n=%d", env.nRefusedOlder.Load())
	r.Guard("regressing-and-advancing-cursor-writes-seen", env.nCursorAdvance.Load() >= 100 && env.nNoopMutation.Load() >= 100, "advances=%d non-advancing=%d", env.nCursorAdvance.Load(), env.nNoopMutation.Load())
	r.Guard("incarnation-boundaries-seen", env.nNewIncarnation.Load() >= 10 && env.nRebind.Load() >= 10, "membership=%d cmd rebinds=%d", env.nNewIncarnation.Load(), env.nRebind.Load())
	r.Guard("tombstones-exercised", env.nTombIgnored.Load() >= 10 && env.nTombListed.Load() >= 10, "ignored mutations=%d listed tombstones=%d", env.nTombIgnored.Load(), env.nTombListed.Load())
	r.Guard("directory-walks-nontrivial", env.nMultiPage.Load() >= 1000 && env.nInterleaved.Load() >= 1000 && env.nTies.Load() >= 100, "multi-page=%d interleaved=%d ties=%d", env.nMultiPage.Load(), env.nInterleaved.Load(), env.nTies.Load())
	r.Count("same_row_operation_pairs_in_one_batch", env.nOpPairs.Load())
	r.Guard("same-row-operation-pairs-seen", env.nOpPairs.Load() >= 1000, "n=%d", env.nOpPairs.Load())
	r.Guard("cmd-acks-seen", env.nAckAdvance.Load() >= 100, "n=%d", env.nAckAdvance.Load())
	r.Guard("state-spaces-nontrivial", res["membership-row-direct"].States >= 500 && res["directory-direct"].States >= 1000 && res["cmd-row-direct"].States >= 50,
		"row=%d directory=%d cmd=%d", res["membership-row-direct"].States, res["directory-direct"].States, res["cmd-row-direct"].States)
	r.Assume("tombstone -> live with a strictly newer source version starts a new membership incarnation; rebinding a tombstoned command-channel row resets its ack (documented on UpsertUserCMDChannelMembership); an ensure with a newer source generation over an already fenced row is a delete/recreate boundary (DESIGN appendix D)")
	r.Assume("directory interleaving uses writes to the OTHER user's rows (the statement says: mutations that do not touch the scanned rows)")
	r.Assume("activation timestamps are non-negative (validateUserChannelMembershipCursor rejects negative cursors)")
}
