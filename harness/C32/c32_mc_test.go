package delivery_test

// C32 - Receive-acknowledgement tracking is exact (run 1, engine E1).
//
// Black-box explicit-state exploration of the real delivery.AckTracker with an injected
// clock: every sequence, up to the depth bound, of bind (reserve), compatibility bind,
// batch bind, finish, batch finish, cancel/rollback (own, consumed, stale and foreign-key
// tokens), ack, session close, expire(ttl), clock tick and reset over 2 sessions x 2
// messages, compared step by step with the map model of c32_model_test.go. Behind every
// executed transition Check additionally runs destructive probe suffixes on twins of the
// state (c32_probe_test.go): the tracker's per-session index cannot be read, only asked.

import (
	"fmt"
	"strconv"
	"strings"
	"sync/atomic"
	"testing"
	"time"

	"github.com/WuKongIM/WuKongIM/internal/runtime/delivery"
	"github.com/WuKongIM/WuKongIM/pkg/zzverif/ev"
	"github.com/WuKongIM/WuKongIM/pkg/zzverif/mc"
)

type c32Cfg struct {
	name   string
	shards int
	limit  int
	sess   [2]c32Sess
	// ttls is the Expire menu in milliseconds (0 = disabled ttl); ageCap is the largest ttl
	// in whole seconds (ages beyond it are indistinguishable to Expire).
	ttls   []int
	ageCap int64
	// depth bounds (merged exploration) per tier
	depthQ, depthT int
}

const c32Clock0 = 1000

type c32Tok struct {
	key  c32Key
	id   int
	tok  delivery.AckBindToken
	pend delivery.PendingRecvAck
	dead byte // 0 while the model still has the attempt; else F(inished) C(anceled) R(emoved with its identity)
}

type c32Inst struct {
	cfg    c32Cfg
	tr     *delivery.AckTracker
	now    int64
	model  *c32Model
	held   map[c32Key][]*c32Tok
	nextID int
	batch  []*c32Tok // last batch, input aligned (nil = item had no token)
	batchP []delivery.PendingRecvAck
	batchT []delivery.AckBindToken
	// path is every event applied so far: Check rebuilds twins of this state from it for
	// the destructive probes (the real tracker cannot be cloned or read).
	path []string
	// history facts about this path (vacuity guards only, never part of the oracle)
	rebindCommitted    bool // a re-delivery bind of an identity with a finished delivery
	cancelOnlyAttemptC bool // ... rolled back while it was the identity's only in-flight attempt
	counted            bool // plain (unmerged) instance: feeds the guard counters
	quiet              bool // probe twin: observation strings are not needed
	indexProbesOnly    bool // run only the probes that read the session index (see c32_probe_test.go)
}

// obsf formats an observation label (skipped on probe twins, where nobody reads it).
func (in *c32Inst) obsf(format string, args ...any) string {
	if in.quiet {
		return ""
	}
	return fmt.Sprintf(format, args...)
}

// guard counters (unmerged systems only, where the set of executed paths is fixed)
var c32StatesAfterRebindCommitted, c32StatesAfterCancelOnlyC, c32ProbeRuns, c32ProbeSteps atomic.Int64

func newC32Inst(cfg c32Cfg) *c32Inst {
	in := &c32Inst{cfg: cfg, now: c32Clock0, model: newC32Model(cfg.limit), held: map[c32Key][]*c32Tok{}}
	in.tr = delivery.NewAckTracker(delivery.AckTrackerOptions{ShardCount: cfg.shards, MaxPendingPerSession: cfg.limit, Now: func() int64 { return in.now }})
	return in
}

func (in *c32Inst) key(s, m int) c32Key {
	return c32Key{uid: in.cfg.sess[s].uid, sid: in.cfg.sess[s].sid, mid: uint64(m + 1)}
}

func (in *c32Inst) keys() []c32Key {
	return []c32Key{in.key(0, 0), in.key(0, 1), in.key(1, 0), in.key(1, 1)}
}

func c32SM(s, m int) string { return string(rune('A'+s)) + strconv.Itoa(m+1) }

func c32ParseSM(x string) (int, int) { return int(x[0] - 'A'), int(x[1] - '1') }

var c32Batches = map[string][]string{
	"A1,B1":        {"A1", "B1"},              // two sessions (two shards when ShardCount=2)
	"A1,A1":        {"A1", "A1"},              // the same identity twice in one batch
	"B2,inv,A1,A2": {"B2", "inv", "A1", "A2"}, // shard grouping reorders processing, tokens stay input aligned; an invalid row keeps a zero token
}

var c32BatchOrder = []string{"A1,B1", "A1,A1", "B2,inv,A1,A2"}

func (in *c32Inst) Events() []string {
	evs := make([]string, 0, 64)
	for s := 0; s < 2; s++ {
		for m := 0; m < 2; m++ {
			evs = append(evs, "bind:"+c32SM(s, m))
		}
	}
	for s := 0; s < 2; s++ {
		for m := 0; m < 2; m++ {
			evs = append(evs, "bindc:"+c32SM(s, m))
		}
	}
	for s := 0; s < 2; s++ {
		for m := 0; m < 2; m++ {
			evs = append(evs, "ack:"+c32SM(s, m))
		}
	}
	evs = append(evs, "close:A", "close:B", "tick")
	for _, ttl := range in.cfg.ttls {
		if ttl > 0 {
			evs = append(evs, fmt.Sprintf("expire:%d", ttl))
		}
	}
	evs = append(evs, "reset")
	for _, b := range c32BatchOrder {
		evs = append(evs, "batch:"+b)
	}
	if in.batch != nil {
		evs = append(evs, "finishbatch:all", "finishbatch:first+oob")
	}
	evs = append(evs, "bindold:A1", "bindold:B1", "bindinv", "ackx:uid:A1", "ackx:sid:A1", "closex", "expire:0", "drain")
	for s := 0; s < 2; s++ {
		for m := 0; m < 2; m++ {
			live, dead := in.tokens(in.key(s, m))
			// every in-flight token (by position among the identity's attempts), and the
			// most recent consumed/stale one (all dead tokens of one identity are the same
			// question to the tracker)
			for i := range live {
				evs = append(evs, fmt.Sprintf("finish:%s:a%d", c32SM(s, m), i), fmt.Sprintf("cancel:%s:a%d", c32SM(s, m), i))
			}
			if dead != nil {
				evs = append(evs, fmt.Sprintf("finish:%s:dead", c32SM(s, m)), fmt.Sprintf("cancel:%s:dead", c32SM(s, m)))
			}
			// a token presented for the session's other message: the newest in-flight one,
			// else the newest dead one
			if len(live) > 0 || dead != nil {
				evs = append(evs, "xcancel:"+c32SM(s, m))
			}
		}
	}
	return evs
}

// tokens returns the in-flight tokens of k in bind order and its newest dead token.
func (in *c32Inst) tokens(k c32Key) (live []*c32Tok, dead *c32Tok) {
	for _, h := range in.held[k] {
		if h.dead != 0 {
			dead = h
		} else {
			live = append(live, h)
		}
	}
	return live, dead
}

// pick resolves the token selector of an event label (aN = N-th in-flight, dead, "" = newest).
func (in *c32Inst) pick(k c32Key, sel string) *c32Tok {
	live, dead := in.tokens(k)
	switch {
	case sel == "dead":
		return dead
	case sel == "":
		if len(live) > 0 {
			return live[len(live)-1]
		}
		return dead
	default:
		i, _ := strconv.Atoi(sel[1:])
		return live[i]
	}
}

// sweep marks held tokens whose attempt left the model.
func (in *c32Inst) sweep(kind byte) {
	for k, hs := range in.held {
		for _, h := range hs {
			if h.dead == 0 && in.model.attemptIndex(k, h.id) < 0 {
				h.dead = kind
			}
		}
	}
}

func (in *c32Inst) pending(k c32Key, at int64) (delivery.PendingRecvAck, int) {
	in.nextID++
	id := in.nextID
	return delivery.PendingRecvAck{UID: k.uid, SessionID: k.sid, MessageID: k.mid, MessageSeq: uint64(id), ChannelID: "ch", ChannelType: 2, DeliveredAt: at}, id
}

func (in *c32Inst) count(evl string) error {
	if got, want := in.tr.PendingCount(), in.model.size(); got != want {
		return mc.Violatef("C32:pending-count-differs-from-outstanding-identities", "%s: PendingCount()=%d but %d distinct (session,message) deliveries are outstanding [%s]", evl, got, want, in.model.canon(in.now, 1<<40))
	}
	return nil
}

func (in *c32Inst) Apply(evl string, _ *mc.Env) (string, error) {
	in.path = append(in.path, evl)
	parts := strings.Split(evl, ":")
	obs := parts[0]
	switch parts[0] {
	case "bind", "bindold":
		s, m := c32ParseSM(parts[1])
		k := in.key(s, m)
		at := int64(0)
		wantAt := in.now
		if parts[0] == "bindold" {
			at = in.now - in.cfg.ageCap
			wantAt = at
		}
		p, id := in.pending(k, at)
		res := in.tr.BindResult(p)
		if e := in.model.m[k]; e != nil && e.committed {
			in.rebindCommitted = true
		}
		bound, added := in.model.bind(k, id, wantAt, p.MessageSeq)
		if res.Bound != bound || res.Added != added || res.Token.Valid() != bound {
			return "", mc.Violatef("C32:bind-result-differs-from-model", "%s: BindResult Bound=%v Added=%v tokenValid=%v, model bound=%v added=%v", evl, res.Bound, res.Added, res.Token.Valid(), bound, added)
		}
		if res.PendingCount != in.model.size() {
			return "", mc.Violatef("C32:bind-result-count-differs-from-model", "%s: BindResult.PendingCount=%d, model %d", evl, res.PendingCount, in.model.size())
		}
		if bound {
			for _, hs := range in.held {
				for _, h := range hs {
					if h.tok == res.Token {
						return "", mc.Violatef("C32:bind-token-reused", "%s: token equals the token of an earlier bind (%s)", evl, h.key)
					}
				}
			}
			p.DeliveredAt = wantAt
			in.held[k] = append(in.held[k], &c32Tok{key: k, id: id, tok: res.Token, pend: p})
		}
		obs = in.obsf("%s:bound=%v:added=%v", parts[0], bound, added)
	case "bindc":
		s, m := c32ParseSM(parts[1])
		k := in.key(s, m)
		p, id := in.pending(k, 0)
		ok := in.tr.Bind(p)
		bound, added := in.model.bind(k, id, in.now, p.MessageSeq)
		if bound {
			in.model.finish(k, id)
		}
		if ok != bound {
			return "", mc.Violatef("C32:bind-result-differs-from-model", "%s: Bind()=%v, model bound=%v", evl, ok, bound)
		}
		obs = in.obsf("bindc:bound=%v:added=%v", bound, added)
	case "bindinv":
		res := in.tr.BindResult(delivery.PendingRecvAck{UID: in.cfg.sess[0].uid, SessionID: 0, MessageID: 1})
		if res.Bound || res.Added || res.Token.Valid() {
			return "", mc.Violatef("C32:invalid-bind-accepted", "%s: a bind without session id was accepted", evl)
		}
	case "batch":
		items := c32Batches[parts[1]]
		ps := make([]delivery.PendingRecvAck, len(items))
		ids := make([]int, len(items))
		wantBound, wantAdded := 0, 0
		wantTok := make([]bool, len(items))
		for i, it := range items {
			if it == "inv" {
				ps[i] = delivery.PendingRecvAck{UID: in.cfg.sess[0].uid, SessionID: in.cfg.sess[0].sid, MessageID: 0}
				ids[i] = -1
				continue
			}
			s, m := c32ParseSM(it)
			ps[i], ids[i] = in.pending(in.key(s, m), 0)
			if e := in.model.m[in.key(s, m)]; e != nil && e.committed {
				in.rebindCommitted = true
			}
			b, a := in.model.bind(in.key(s, m), ids[i], in.now, ps[i].MessageSeq)
			wantTok[i] = b
			if b {
				wantBound++
			}
			if a {
				wantAdded++
			}
		}
		res := in.tr.BindBatch(ps)
		if len(res.Tokens) != len(items) {
			return "", mc.Violatef("C32:batch-tokens-not-input-aligned", "%s: %d tokens for %d items", evl, len(res.Tokens), len(items))
		}
		in.batch = make([]*c32Tok, len(items))
		for i := range items {
			if res.Tokens[i].Valid() != wantTok[i] {
				return "", mc.Violatef("C32:batch-token-differs-from-model", "%s: item %d tokenValid=%v, model bound=%v", evl, i, res.Tokens[i].Valid(), wantTok[i])
			}
			if !wantTok[i] {
				continue
			}
			for _, hs := range in.held {
				for _, h := range hs {
					if h.tok == res.Tokens[i] {
						return "", mc.Violatef("C32:bind-token-reused", "%s: item %d token equals the token of an earlier bind (%s)", evl, i, h.key)
					}
				}
			}
			k := c32KeyOf(ps[i])
			p := ps[i]
			p.DeliveredAt = in.now
			h := &c32Tok{key: k, id: ids[i], tok: res.Tokens[i], pend: p}
			in.held[k] = append(in.held[k], h)
			in.batch[i] = h
		}
		if res.Bound != wantBound || res.Added != wantAdded {
			return "", mc.Violatef("C32:batch-result-differs-from-model", "%s: Bound=%d Added=%d, model bound=%d added=%d", evl, res.Bound, res.Added, wantBound, wantAdded)
		}
		if res.PendingCount != in.model.size() {
			return "", mc.Violatef("C32:bind-result-count-differs-from-model", "%s: BindBatch.PendingCount=%d, model %d", evl, res.PendingCount, in.model.size())
		}
		in.batchP, in.batchT = ps, res.Tokens
		obs = in.obsf("batch:bound=%d:added=%d", wantBound, wantAdded)
	case "finishbatch":
		idx := []int{}
		if parts[1] == "all" {
			for i := range in.batchP {
				idx = append(idx, i)
			}
		} else {
			idx = []int{0, len(in.batchP) + 3, -1}
		}
		want := 0
		for _, i := range idx {
			if i < 0 || i >= len(in.batch) || in.batch[i] == nil {
				continue
			}
			if in.model.finish(in.batch[i].key, in.batch[i].id) {
				want++
			}
		}
		got := in.tr.FinishBindBatch(in.batchP, in.batchT, idx)
		if got != want {
			return "", mc.Violatef("C32:finish-result-differs-from-model", "%s: FinishBindBatch=%d, model %d", evl, got, want)
		}
		in.sweep('F')
		obs = in.obsf("finishbatch:%d", want)
	case "finish", "cancel", "xcancel":
		s, m := c32ParseSM(parts[1])
		sel := ""
		if len(parts) > 2 {
			sel = parts[2]
		}
		h := in.pick(in.key(s, m), sel)
		switch parts[0] {
		case "finish":
			got := in.tr.FinishBind(h.pend, h.tok)
			want := in.model.finish(h.key, h.id)
			if got != want {
				return "", mc.Violatef("C32:finish-result-differs-from-model", "%s: FinishBind=%v, model %v (token state %q)", evl, got, want, string(h.dead))
			}
			in.sweep('F')
			obs = in.obsf("finish:%v", want)
		case "cancel":
			got := in.tr.CancelBind(h.pend, h.tok)
			c, r := in.model.cancel(h.key, h.id)
			if e := in.model.m[h.key]; c && e != nil && e.committed && len(e.attempts) == 0 {
				in.cancelOnlyAttemptC = true
			}
			if got.Canceled != c || got.Removed != r {
				return "", mc.Violatef("C32:cancel-result-differs-from-model", "%s: CancelBind Canceled=%v Removed=%v, model canceled=%v removed=%v (token state %q)", evl, got.Canceled, got.Removed, c, r, string(h.dead))
			}
			if got.PendingCount != in.model.size() {
				return "", mc.Violatef("C32:cancel-result-count-differs-from-model", "%s: CancelBind.PendingCount=%d, model %d", evl, got.PendingCount, in.model.size())
			}
			in.sweep('C')
			obs = in.obsf("cancel:%v:%v", c, r)
		case "xcancel":
			// the token of (s,m) presented for the session's OTHER message: never matches
			other := h.pend
			other.MessageID = uint64(2 - m)
			got := in.tr.CancelBind(other, h.tok)
			if got.Canceled || got.Removed {
				return "", mc.Violatef("C32:cancel-with-foreign-token-removed-something", "%s: CancelBind for %s with a token bound for %s reported Canceled=%v Removed=%v", evl, c32KeyOf(other), h.key, got.Canceled, got.Removed)
			}
		}
	case "ack":
		s, m := c32ParseSM(parts[1])
		k := in.key(s, m)
		p, ok := in.tr.Ack(delivery.Recvack{UID: k.uid, SessionID: k.sid, MessageID: k.mid})
		e, want := in.model.ack(k)
		if ok != want {
			return "", mc.Violatef("C32:ack-hit-differs-from-model", "%s: Ack hit=%v, model %v", evl, ok, want)
		}
		if ok {
			if err := c32RemovedOK(evl, "ack", []delivery.PendingRecvAck{p}, map[c32Key]*c32Entry{k: e}); err != nil {
				return "", err
			}
		}
		in.sweep('R')
		obs = in.obsf("ack:%v", want)
	case "ackx":
		k := in.key(0, 0)
		a := delivery.Recvack{UID: k.uid, SessionID: k.sid, MessageID: k.mid}
		if parts[1] == "uid" {
			a.UID = "nobody"
		} else {
			a.SessionID = 77
		}
		if _, ok := in.tr.Ack(a); ok {
			return "", mc.Violatef("C32:ack-of-other-identity-removed-something", "%s: an ack for a different uid/session was a hit", evl)
		}
	case "close", "closex":
		var se c32Sess
		switch {
		case parts[0] == "closex":
			se = c32Sess{uid: "nobody", sid: in.cfg.sess[0].sid}
		default:
			se = in.cfg.sess[int(parts[1][0]-'A')]
		}
		got := in.tr.SessionClosed(se.uid, se.sid)
		want := in.model.closeSession(se.uid, se.sid)
		if err := c32RemovedOK(evl, "close", got, want); err != nil {
			return "", err
		}
		in.sweep('R')
		obs = in.obsf("%s:%d", parts[0], len(want))
	case "tick":
		in.now++
	case "expire":
		ttl, _ := strconv.Atoi(parts[1])
		got := in.tr.Expire(time.Duration(ttl) * time.Millisecond)
		want := map[c32Key]*c32Entry{}
		if ttl > 0 {
			want = in.model.expire(in.now-int64((ttl+999)/1000), nil) // ttl rounded up to whole seconds
		}
		if err := c32RemovedOK(evl, "expire", got, want); err != nil {
			return "", err
		}
		in.sweep('R')
		obs = in.obsf("expire:%d", len(want))
	case "reset":
		in.tr.Reset()
		in.model.reset()
		in.sweep('R')
	case "drain":
		// close every session: what comes back must be exactly the model's content
		n := 0
		for _, se := range in.cfg.sess {
			got := in.tr.SessionClosed(se.uid, se.sid)
			want := in.model.closeSession(se.uid, se.sid)
			n += len(want)
			if err := c32RemovedOK(evl, "close", got, want); err != nil {
				return "", err
			}
		}
		in.sweep('R')
		obs = in.obsf("drain:%d", n)
	default:
		panic("unknown event " + evl)
	}
	if err := in.count(evl); err != nil {
		return "", err
	}
	return obs, nil
}

// Check is evaluated by the explorer on EVERY executed transition, before the state is
// merged. Besides the counter it runs the destructive probes of c32_probe_test.go on twins
// of this state, so that what SessionClosed / Ack / Expire / the per-session limit would
// answer NOW is judged against the model in every state - also in states that are merged
// into an observably equal one reached by a shorter path, and in states at the depth bound.
func (in *c32Inst) Check() error {
	if err := in.count("state"); err != nil {
		return err
	}
	if in.counted {
		if in.rebindCommitted {
			c32StatesAfterRebindCommitted.Add(1)
		}
		if in.cancelOnlyAttemptC {
			c32StatesAfterCancelOnlyC.Add(1)
		}
	}
	return in.probes()
}

func (in *c32Inst) Canon() string {
	var b strings.Builder
	fmt.Fprintf(&b, "n=%d|%s|", in.tr.PendingCount(), in.model.canon(in.now, in.cfg.ageCap))
	for _, k := range in.keys() {
		// whether a consumed/stale token of this identity is available to be tried
		dead := byte('-')
		for _, h := range in.held[k] {
			if h.dead != 0 {
				dead = 'd'
			}
		}
		b.WriteByte(dead)
	}
	b.WriteByte('|')
	for _, h := range in.batch {
		switch {
		case h == nil:
			b.WriteByte('-')
		case h.dead != 0:
			fmt.Fprintf(&b, "%s:d ", h.key)
		default:
			fmt.Fprintf(&b, "%s:a%d ", h.key, in.model.attemptIndex(h.key, h.id))
		}
	}
	return b.String()
}

func c32Configs(thorough bool) []c32Cfg {
	cs := []c32Cfg{
		{name: "tracker-shards1", shards: 1, sess: [2]c32Sess{{"u1", 1}, {"u1", 2}}, depthQ: 4, depthT: 6},
		{name: "tracker-shards2", shards: 2, sess: [2]c32Sess{{"u1", 1}, {"u1", 2}}, depthQ: 4, depthT: 6},
		// same session id under two uids (one shard, two session keys) + the per-session limit
		{name: "tracker-shards2-limit1-same-sid", shards: 2, limit: 1, sess: [2]c32Sess{{"u1", 1}, {"u2", 1}}, depthQ: 4, depthT: 6},
	}
	for i := range cs {
		if thorough {
			cs[i].ttls, cs[i].ageCap = []int{0, 400, 1200}, 2 // ttl is rounded UP to whole seconds: 400ms -> 1s, 1200ms -> 2s
		} else {
			cs[i].ttls, cs[i].ageCap = []int{0, 400}, 1
		}
	}
	return cs
}

func TestVerifC32(t *testing.T) {
	r := ev.Start(t, "C32")
	defer r.Finish()
	plainDepth := ev.Pick(r, 3, 4)
	indexOnly := ev.Pick(r, true, false) // merged systems, quick tier: close-all + rollback-all only
	var states, trans int64
	outcomes := 0
	for _, cfg := range c32Configs(r.Thorough()) {
		cfg := cfg
		res := mc.Run(r, mc.System{
			Name: cfg.name, New: func() mc.Instance { in := newC32Inst(cfg); in.indexProbesOnly = indexOnly; return in }, MaxDepth: ev.Pick(r, cfg.depthQ, cfg.depthT),
			Bounds: map[string]any{"sessions": 2, "messages": 2, "shard_count": cfg.shards, "max_pending_per_session": cfg.limit, "ttl_menu_ms": cfg.ttls, "probe_suffixes": ev.Pick(r, "close-all, rollback-all", "all five")},
			Note:   "merged on PendingCount + map model (delivery ages capped at the largest ttl) + dead-token kinds + last-batch token states; every transition additionally runs destructive probe suffixes on twins rebuilt from the path, before merging (quick: close-all + rollback-all; thorough: also admit-then-ack, age-out, finish-all)",
		})
		states += res.States
		trans += res.Transitions
		outcomes += res.Outcomes
		// the same alphabet with no merging at all (plain enumeration of every sequence)
		plain := mc.Run(r, mc.System{
			Name: cfg.name + "-unmerged", New: func() mc.Instance { in := newC32Inst(cfg); in.counted = true; return &c32Plain{in} }, MaxDepth: plainDepth,
			Bounds: map[string]any{"shard_count": cfg.shards, "max_pending_per_session": cfg.limit, "probe_suffixes": "all five"},
			Note:   "no state merging: every event sequence up to the depth bound, each followed by the probe suffixes close-all, admit-then-ack, age-out and, with attempts in flight, rollback-all, finish-all",
		})
		trans += plain.Transitions
	}
	if r.Replay() != nil {
		return
	}
	r.Guard("states", states >= 1000, "merged states=%d", states)
	r.Guard("transitions", trans >= 20000, "transitions=%d", trans)
	r.Guard("outcomes", outcomes >= 30, "distinct observations=%d", outcomes)
	// the class "re-delivery of a finished identity, rolled back as its only in-flight attempt"
	// is reached and probed (counted over the unmerged systems, whose path set is fixed)
	r.Guard("rebind-of-committed-identity", c32StatesAfterRebindCommitted.Load() >= 50, "unmerged states after a re-delivery bind of a finished identity=%d", c32StatesAfterRebindCommitted.Load())
	r.Guard("cancel-of-only-attempt-of-committed-identity", c32StatesAfterCancelOnlyC.Load() >= 10, "unmerged states after such a rollback (each probed with close/ack/expire/limit)=%d", c32StatesAfterCancelOnlyC.Load())
	r.Guard("probes", c32ProbeRuns.Load() >= trans, "probe suffixes executed=%d (>=1 behind each of %d transitions), probe events=%d", c32ProbeRuns.Load(), trans, c32ProbeSteps.Load())
	r.Count("probe_suffixes_executed", c32ProbeRuns.Load())
	r.Count("probe_events_executed", c32ProbeSteps.Load())
	r.Assume("the tracker is translation invariant in time: merged states keep delivery ages (capped at the largest ttl of the menu), not absolute seconds")
	r.Assume("probe twins are rebuilt by re-applying the recorded path to a fresh tracker: the tracker is deterministic given the injected clock (a twin whose replay reports a violation the original did not is a harness error and panics)")
	r.Assume("expiry boundary follows the code: an identity whose newest candidate has age >= ttl (whole seconds, ttl rounded up) is expired")
}

// c32Plain disables merging.
type c32Plain struct{ *c32Inst }

func (p *c32Plain) Canon() string { return "" }
