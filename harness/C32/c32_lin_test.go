package delivery_test

// C32 - Receive-acknowledgement tracking is exact (run 2, engine E3).
//
// The delivery package is compiled from vrewrite'd sources (sync -> vsync, sync/atomic ->
// vatomic), so every shard-mutex acquisition and every atomic operation on the derived
// pending counter / token allocator of the real AckTracker is a scheduling point. Three
// threads run two tracker operations each; every interleaving within the preemption bound
// is executed. The call/return history of each execution (a total order, because the
// scheduler is cooperative) is checked for linearizability (exhaustive search over all admissible orders) against the same
// map model as run 1, and the derived counter is compared with the drained content at
// quiescence.
//
// Sequential specification used for linearizability: single-identity operations are
// atomic; BindBatch / FinishBindBatch / Expire are atomic PER SESSION (the tracker locks
// one session shard at a time and the property does not ask for cross-session atomicity),
// their aggregate results (Added, finished count) are checked over the whole call.

import (
	"fmt"
	"sort"
	"strings"
	"testing"
	"time"

	"github.com/WuKongIM/WuKongIM/internal/runtime/delivery"
	"github.com/WuKongIM/WuKongIM/pkg/zzverif/ev"
	"github.com/WuKongIM/WuKongIM/pkg/zzverif/vsched"
	"github.com/WuKongIM/WuKongIM/pkg/zzverif/vsync"
)

const c32LinClock = 1000

type c32LinItem struct {
	key  c32Key
	id   int
	at   int64
	mark uint64
}

// c32LinIn is one (sub-)operation of the history.
type c32LinIn struct {
	kind   string // bind bindgroup finish finishgroup cancel ack close expire count
	items  []c32LinItem
	sess   c32Sess
	cutoff int64
	// multi-part calls: call is the call's ordinal, parts the number of per-session parts
	call, parts int
}

type c32LinOut struct {
	valid    []bool // bind/bindgroup: token validity per item
	bound    bool
	added    bool
	ok       bool // finish / ack hit
	canceled bool
	removed  bool
	count    int
	hasCount bool
	rows     []delivery.PendingRecvAck
	total    int // aggregate of a multi-part call (Added / finished)
}

type c32LinState struct {
	md  *c32Model
	acc map[int][2]int // call ordinal -> {parts linearized, aggregate so far}
}

func (s *c32LinState) key() string {
	var b strings.Builder
	b.WriteString(s.md.exact())
	ks := make([]int, 0, len(s.acc))
	for k := range s.acc {
		ks = append(ks, k)
	}
	sort.Ints(ks)
	for _, k := range ks {
		fmt.Fprintf(&b, "|%d:%d:%d", k, s.acc[k][0], s.acc[k][1])
	}
	return b.String()
}

// c32Op is one recorded (sub-)operation: closed interval [call, ret] in the total order of
// call/return events of one execution.
type c32Op struct {
	client    int
	in        c32LinIn
	out       c32LinOut
	call, ret int64
}

type c32Spec struct {
	init func() *c32LinState
	step func(old *c32LinState, in c32LinIn, out c32LinOut) (bool, *c32LinState)
}

// c32Linearizable decides, by exhaustive search (Wing & Gong with memoisation on the pair
// {set of linearized operations, model state}), whether some total order of ops that
// respects real-time precedence (a.ret < b.call => a before b) is accepted by the
// sequential specification.
func c32Linearizable(spec c32Spec, ops []c32Op) bool {
	n := len(ops)
	if n > 62 {
		panic("history too long for the bitset")
	}
	seen := map[string]bool{}
	var dfs func(done uint64, st *c32LinState) bool
	dfs = func(done uint64, st *c32LinState) bool {
		if done == (uint64(1)<<uint(n))-1 {
			return true
		}
		memo := fmt.Sprintf("%x|%s", done, st.key())
		if seen[memo] {
			return false
		}
		seen[memo] = true
		// the earliest return among pending operations bounds which calls may go next
		minRet := int64(1) << 62
		for i := 0; i < n; i++ {
			if done&(1<<uint(i)) == 0 && ops[i].ret < minRet {
				minRet = ops[i].ret
			}
		}
		for i := 0; i < n; i++ {
			if done&(1<<uint(i)) != 0 || ops[i].call > minRet {
				continue
			}
			if ok, next := spec.step(st, ops[i].in, ops[i].out); ok && dfs(done|1<<uint(i), next) {
				return true
			}
		}
		return false
	}
	return dfs(0, spec.init())
}

func c32LinModel(limit int) c32Spec {
	return c32Spec{
		init: func() *c32LinState { return &c32LinState{md: newC32Model(limit), acc: map[int][2]int{}} },
		step: func(old *c32LinState, in c32LinIn, out c32LinOut) (bool, *c32LinState) {
			st := &c32LinState{md: old.md.clone(), acc: make(map[int][2]int, len(old.acc))}
			for k, v := range old.acc {
				st.acc[k] = v
			}
			md := st.md
			aggregate := func(n int) bool {
				a := st.acc[in.call]
				a[0]++
				a[1] += n
				if a[0] < in.parts {
					st.acc[in.call] = a
					return true
				}
				delete(st.acc, in.call)
				return a[1] == out.total
			}
			switch in.kind {
			case "bind":
				it := in.items[0]
				b, a := md.bind(it.key, it.id, it.at, it.mark)
				return out.bound == b && out.added == a && out.valid[0] == b && out.count == md.size(), st
			case "bindgroup":
				added := 0
				for i, it := range in.items {
					b, a := md.bind(it.key, it.id, it.at, it.mark)
					if out.valid[i] != b {
						return false, st
					}
					if a {
						added++
					}
				}
				return aggregate(added), st
			case "finish":
				return md.finish(in.items[0].key, in.items[0].id) == out.ok, st
			case "finishgroup":
				n := 0
				for _, it := range in.items {
					if md.finish(it.key, it.id) {
						n++
					}
				}
				return aggregate(n), st
			case "cancel":
				c, r := md.cancel(in.items[0].key, in.items[0].id)
				return out.canceled == c && out.removed == r && out.count == md.size(), st
			case "ack":
				e, hit := md.ack(in.items[0].key)
				if hit != out.ok {
					return false, st
				}
				return !hit || e.accepts(out.rows[0]), st
			case "close":
				return c32RemovedOK("", "close", out.rows, md.closeSession(in.sess.uid, in.sess.sid)) == nil, st
			case "expire":
				se := in.sess
				return c32RemovedOK("", "expire", out.rows, md.expire(in.cutoff, &se)) == nil, st
			case "count":
				return out.count == md.size(), st
			}
			panic("unknown op " + in.kind)
		},
	}
}

func c32Describe(in c32LinIn, out c32LinOut) string {
	var b strings.Builder
	b.WriteString(in.kind)
	for _, it := range in.items {
		fmt.Fprintf(&b, " %s#%d", it.key, it.id)
	}
	if in.kind == "close" || in.kind == "expire" {
		fmt.Fprintf(&b, " %s/%d", in.sess.uid, in.sess.sid)
	}
	if in.parts > 1 {
		fmt.Fprintf(&b, " (part of call %d, total=%d)", in.call, out.total)
	}
	b.WriteString(" ->")
	switch in.kind {
	case "bind":
		fmt.Fprintf(&b, " bound=%v added=%v count=%d", out.bound, out.added, out.count)
	case "bindgroup":
		fmt.Fprintf(&b, " tokens=%v", out.valid)
	case "finish", "ack":
		fmt.Fprintf(&b, " %v", out.ok)
	case "cancel":
		fmt.Fprintf(&b, " canceled=%v removed=%v count=%d", out.canceled, out.removed, out.count)
	case "close", "expire":
		ks := []string{}
		for _, p := range out.rows {
			ks = append(ks, c32KeyOf(p).String())
		}
		sort.Strings(ks)
		fmt.Fprintf(&b, " removed=%v", ks)
	case "count":
		fmt.Fprintf(&b, " %d", out.count)
	}
	return b.String()
}

// c32Hist drives the real tracker and records the history.
type c32Hist struct {
	tr     *delivery.AckTracker
	ts     int64
	nextID int
	calls  int
	ops    []c32Op
	log    map[int][]string // per client, in program order
	// quiescence
	finalCount int
	drainHits  int
	afterDrain int
}

type c32LTok struct {
	item c32LinItem
	pend delivery.PendingRecvAck
	tok  delivery.AckBindToken
}

func (h *c32Hist) tick() int64 { h.ts++; return h.ts }

func (h *c32Hist) rec(client int, in c32LinIn, out c32LinOut, call, ret int64) {
	h.ops = append(h.ops, c32Op{client: client, in: in, out: out, call: call, ret: ret})
	h.log[client] = append(h.log[client], c32Describe(in, out))
}

func (h *c32Hist) newItem(k c32Key, at int64) (c32LinItem, delivery.PendingRecvAck) {
	h.nextID++
	it := c32LinItem{key: k, id: h.nextID, at: at, mark: uint64(h.nextID)}
	if at == 0 {
		it.at = c32LinClock // the tracker stamps the injected clock
	}
	return it, delivery.PendingRecvAck{UID: k.uid, SessionID: k.sid, MessageID: k.mid, MessageSeq: it.mark, ChannelID: "ch", ChannelType: 2, DeliveredAt: at}
}

func (h *c32Hist) bind(client int, k c32Key, at int64) *c32LTok {
	it, p := h.newItem(k, at)
	c := h.tick()
	res := h.tr.BindResult(p)
	r := h.tick()
	h.rec(client, c32LinIn{kind: "bind", items: []c32LinItem{it}}, c32LinOut{valid: []bool{res.Token.Valid()}, bound: res.Bound, added: res.Added, count: res.PendingCount}, c, r)
	return &c32LTok{item: it, pend: p, tok: res.Token}
}

func (h *c32Hist) groupBySession(items []c32LinItem) [][]int {
	var order []c32Sess
	groups := map[c32Sess][]int{}
	for i, it := range items {
		se := c32Sess{it.key.uid, it.key.sid}
		if _, ok := groups[se]; !ok {
			order = append(order, se)
		}
		groups[se] = append(groups[se], i)
	}
	out := make([][]int, 0, len(order))
	for _, se := range order {
		out = append(out, groups[se])
	}
	return out
}

func (h *c32Hist) batch(client int, keys []c32Key, at int64) []*c32LTok {
	items := make([]c32LinItem, len(keys))
	ps := make([]delivery.PendingRecvAck, len(keys))
	for i, k := range keys {
		items[i], ps[i] = h.newItem(k, at)
	}
	c := h.tick()
	res := h.tr.BindBatch(ps)
	r := h.tick()
	h.calls++
	groups := h.groupBySession(items)
	for _, g := range groups {
		in := c32LinIn{kind: "bindgroup", call: h.calls, parts: len(groups)}
		out := c32LinOut{total: res.Added}
		for _, i := range g {
			in.items = append(in.items, items[i])
			out.valid = append(out.valid, i < len(res.Tokens) && res.Tokens[i].Valid())
		}
		h.rec(client, in, out, c, r)
	}
	// the PendingCount of the result is a separate read at the end of the call
	h.rec(client, c32LinIn{kind: "count"}, c32LinOut{count: res.PendingCount}, c, r)
	toks := make([]*c32LTok, len(keys))
	for i := range keys {
		t := &c32LTok{item: items[i], pend: ps[i]}
		if i < len(res.Tokens) {
			t.tok = res.Tokens[i]
		}
		toks[i] = t
	}
	return toks
}

func (h *c32Hist) finish(client int, t *c32LTok) {
	c := h.tick()
	ok := h.tr.FinishBind(t.pend, t.tok)
	r := h.tick()
	h.rec(client, c32LinIn{kind: "finish", items: []c32LinItem{t.item}}, c32LinOut{ok: ok}, c, r)
}

func (h *c32Hist) finishBatch(client int, toks []*c32LTok) {
	ps := make([]delivery.PendingRecvAck, len(toks))
	ts := make([]delivery.AckBindToken, len(toks))
	idx := make([]int, len(toks))
	items := make([]c32LinItem, len(toks))
	for i, t := range toks {
		ps[i], ts[i], idx[i], items[i] = t.pend, t.tok, i, t.item
	}
	c := h.tick()
	n := h.tr.FinishBindBatch(ps, ts, idx)
	r := h.tick()
	h.calls++
	groups := h.groupBySession(items)
	for _, g := range groups {
		in := c32LinIn{kind: "finishgroup", call: h.calls, parts: len(groups)}
		for _, i := range g {
			in.items = append(in.items, items[i])
		}
		h.rec(client, in, c32LinOut{total: n}, c, r)
	}
}

func (h *c32Hist) cancel(client int, t *c32LTok) {
	c := h.tick()
	res := h.tr.CancelBind(t.pend, t.tok)
	r := h.tick()
	h.rec(client, c32LinIn{kind: "cancel", items: []c32LinItem{t.item}}, c32LinOut{canceled: res.Canceled, removed: res.Removed, count: res.PendingCount}, c, r)
}

func (h *c32Hist) ack(client int, k c32Key) bool {
	c := h.tick()
	p, ok := h.tr.Ack(delivery.Recvack{UID: k.uid, SessionID: k.sid, MessageID: k.mid})
	r := h.tick()
	h.rec(client, c32LinIn{kind: "ack", items: []c32LinItem{{key: k}}}, c32LinOut{ok: ok, rows: []delivery.PendingRecvAck{p}}, c, r)
	return ok
}

func (h *c32Hist) closeSession(client int, se c32Sess) {
	c := h.tick()
	rows := h.tr.SessionClosed(se.uid, se.sid)
	r := h.tick()
	h.rec(client, c32LinIn{kind: "close", sess: se}, c32LinOut{rows: rows}, c, r)
}

func (h *c32Hist) expire(client int, ttlSeconds int64, sessions []c32Sess) {
	c := h.tick()
	rows := h.tr.Expire(time.Duration(ttlSeconds) * time.Second)
	r := h.tick()
	for _, se := range sessions {
		var mine []delivery.PendingRecvAck
		for _, p := range rows {
			if p.UID == se.uid && p.SessionID == se.sid {
				mine = append(mine, p)
			}
		}
		h.rec(client, c32LinIn{kind: "expire", sess: se, cutoff: c32LinClock - ttlSeconds}, c32LinOut{rows: mine}, c, r)
	}
}

func (h *c32Hist) count(client int) int {
	c := h.tick()
	n := h.tr.PendingCount()
	r := h.tick()
	h.rec(client, c32LinIn{kind: "count"}, c32LinOut{count: n}, c, r)
	return n
}

type c32LinScenario struct {
	name   string
	shards int
	limit  int
	sess   [2]c32Sess
	setup  func(h *c32Hist, k func(s, m int) c32Key)
	// threads: 3 programs of 2 operations each
	threads [3]func(h *c32Hist, client int, k func(s, m int) c32Key)
	ops     string
}

func c32LinScenarios() []c32LinScenario {
	sessAB := [2]c32Sess{{"u1", 1}, {"u1", 2}}
	var out []c32LinScenario
	for _, shards := range []int{1, 2} {
		// one identity, three parties: a delivery that succeeds, a re-delivery that is rolled
		// back, the client's ack
		out = append(out, c32LinScenario{
			name: fmt.Sprintf("lin-same-identity-shards%d", shards), shards: shards, sess: sessAB,
			ops: "T1: bind A1, finish own | T2: bind A1, cancel own | T3: ack A1, PendingCount",
			threads: [3]func(*c32Hist, int, func(int, int) c32Key){
				func(h *c32Hist, c int, k func(int, int) c32Key) { t := h.bind(c, k(0, 0), 0); h.finish(c, t) },
				func(h *c32Hist, c int, k func(int, int) c32Key) { t := h.bind(c, k(0, 0), 0); h.cancel(c, t) },
				func(h *c32Hist, c int, k func(int, int) c32Key) { h.ack(c, k(0, 0)); h.count(c) },
			},
		})
		// a batch spanning both sessions against close / ack / an overlapping rolled-back bind
		out = append(out, c32LinScenario{
			name: fmt.Sprintf("lin-batch-two-sessions-shards%d", shards), shards: shards, sess: sessAB,
			ops: "T1: batch [A1,B1,A2], finish-batch | T2: close A, ack B1 | T3: bind B1, cancel own",
			threads: [3]func(*c32Hist, int, func(int, int) c32Key){
				func(h *c32Hist, c int, k func(int, int) c32Key) {
					ts := h.batch(c, []c32Key{k(0, 0), k(1, 0), k(0, 1)}, 0)
					h.finishBatch(c, ts)
				},
				func(h *c32Hist, c int, k func(int, int) c32Key) { h.closeSession(c, sessAB[0]); h.ack(c, k(1, 0)) },
				func(h *c32Hist, c int, k func(int, int) c32Key) { t := h.bind(c, k(1, 0), 0); h.cancel(c, t) },
			},
		})
	}
	// expiry against a fresh re-delivery attempt on an old committed identity
	out = append(out, c32LinScenario{
		name: "lin-expire-vs-refresh-shards2", shards: 2, sess: sessAB,
		ops: "setup: A1,B1 committed 5s ago | T1: bind A1 (fresh), cancel own | T2: expire 2s, PendingCount | T3: bind B2, finish own",
		setup: func(h *c32Hist, k func(int, int) c32Key) {
			h.finish(0, h.bind(0, k(0, 0), c32LinClock-5))
			h.finish(0, h.bind(0, k(1, 0), c32LinClock-5))
		},
		threads: [3]func(*c32Hist, int, func(int, int) c32Key){
			func(h *c32Hist, c int, k func(int, int) c32Key) { t := h.bind(c, k(0, 0), 0); h.cancel(c, t) },
			func(h *c32Hist, c int, k func(int, int) c32Key) { h.expire(c, 2, sessAB[:]); h.count(c) },
			func(h *c32Hist, c int, k func(int, int) c32Key) { t := h.bind(c, k(1, 1), 0); h.finish(c, t) },
		},
	})
	// a finished delivery, two overlapping re-deliveries that are both rolled back, and the
	// session closing: whatever the order, the close (or, if it came too early to see the
	// identity, nothing) owns the finished delivery; a rollback never releases it
	for _, limit := range []int{0, 1} {
		out = append(out, c32LinScenario{
			name: fmt.Sprintf("lin-rollback-of-finished-vs-close-shards2-limit%d", limit), shards: 2, limit: limit, sess: sessAB,
			ops: "setup: A1 finished | T1: bind A1, cancel own | T2: bind A1, cancel own | T3: close A, bind A2",
			setup: func(h *c32Hist, k func(int, int) c32Key) {
				h.finish(0, h.bind(0, k(0, 0), 0))
			},
			threads: [3]func(*c32Hist, int, func(int, int) c32Key){
				func(h *c32Hist, c int, k func(int, int) c32Key) { t := h.bind(c, k(0, 0), 0); h.cancel(c, t) },
				func(h *c32Hist, c int, k func(int, int) c32Key) { t := h.bind(c, k(0, 0), 0); h.cancel(c, t) },
				func(h *c32Hist, c int, k func(int, int) c32Key) { h.closeSession(c, sessAB[0]); h.bind(c, k(0, 1), 0) },
			},
		})
	}
	// the per-session limit: admission depends on what is outstanding at that instant
	out = append(out, c32LinScenario{
		name: "lin-session-limit1-shards1", shards: 1, limit: 1, sess: sessAB,
		ops: "limit 1 | T1: bind A1, cancel own | T2: bind A2, finish own | T3: ack A1, bind A1",
		threads: [3]func(*c32Hist, int, func(int, int) c32Key){
			func(h *c32Hist, c int, k func(int, int) c32Key) { t := h.bind(c, k(0, 0), 0); h.cancel(c, t) },
			func(h *c32Hist, c int, k func(int, int) c32Key) { t := h.bind(c, k(0, 1), 0); h.finish(c, t) },
			func(h *c32Hist, c int, k func(int, int) c32Key) { h.ack(c, k(0, 0)); h.bind(c, k(0, 0), 0) },
		},
	})
	return out
}

func c32LinVsched(sc c32LinScenario, bound int) vsched.Scenario {
	key := func(s, m int) c32Key { return c32Key{uid: sc.sess[s].uid, sid: sc.sess[s].sid, mid: uint64(m + 1)} }
	model := c32LinModel(sc.limit)
	return vsched.Scenario{
		Name: sc.name, Property: "C32", Bound: bound, Horizon: 4000,
		Bounds: map[string]any{"threads": 3, "ops_per_thread": 2, "shard_count": sc.shards, "max_pending_per_session": sc.limit, "programs": sc.ops},
		Note:   "history = per-thread call/return order under the cooperative scheduler; linearizability decided by exhaustive order search against the run-1 map model (batch/expire atomic per session)",
		Body: func(x *vsched.Exec) {
			h := &c32Hist{log: map[int][]string{}}
			h.tr = delivery.NewAckTracker(delivery.AckTrackerOptions{ShardCount: sc.shards, MaxPendingPerSession: sc.limit, Now: func() int64 { return c32LinClock }})
			x.Data["h"] = h
			if sc.setup != nil {
				sc.setup(h, key)
			}
			var wg vsync.WaitGroup
			for i := range sc.threads {
				i := i
				wg.Add(1)
				vsched.GoNamed(fmt.Sprintf("T%d", i+1), func() {
					defer wg.Done()
					sc.threads[i](h, i+1, key)
				})
			}
			wg.Wait()
			// quiescence: the derived counter against the drained content
			h.finalCount = h.count(0)
			for s := 0; s < 2; s++ {
				for m := 0; m < 2; m++ {
					if h.ack(0, key(s, m)) {
						h.drainHits++
					}
				}
			}
			h.afterDrain = h.count(0)
			for c := 0; c <= 3; c++ {
				for _, l := range h.log[c] {
					x.Log("c%d %s", c, l)
				}
			}
		},
		Check: func(x *vsched.Exec) error {
			h, _ := x.Data["h"].(*c32Hist)
			if h == nil {
				return nil
			}
			if h.finalCount != h.drainHits || h.afterDrain != 0 {
				return vsched.Violatef("C32:pending-count-drift-at-quiescence", "at quiescence PendingCount()=%d but %d identities could be acked; after draining PendingCount()=%d", h.finalCount, h.drainHits, h.afterDrain)
			}
			if !c32Linearizable(model, h.ops) {
				return vsched.Violatef("C32:concurrent-history-not-linearizable", "no sequential order of the %d recorded (sub-)operations explains their results", len(h.ops))
			}
			return nil
		},
	}
}

func TestVerifC32Lin(t *testing.T) {
	r := ev.Start(t, "C32")
	defer r.Finish()
	bound := ev.Pick(r, 2, 4)
	var execs int64
	outcomes := 0
	for _, sc := range c32LinScenarios() {
		st := vsched.Explore(r, c32LinVsched(sc, bound))
		execs += st.Executions
		outcomes += st.Outcomes
	}
	if r.Replay() != nil {
		return
	}
	r.Guard("interleavings", execs >= 500, "executions=%d", execs)
	r.Guard("distinct-histories", outcomes >= 20, "distinct observation vectors=%d", outcomes)
	r.Assume("data races are invisible to a cooperative scheduler (hand-offs are happens-before edges); atomicity violations at lock/atomic granularity are visible")
	r.Assume("Reset is documented as requiring external exclusion and is therefore not run concurrently (run 1 covers it sequentially)")
}
