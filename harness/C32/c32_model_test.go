package delivery_test

// C32 - Receive-acknowledgement tracking is exact: the boring sequential reference model
// shared by the E1 exploration (c32_mc_test.go) and the E3 linearizability check
// (c32_lin_test.go).
//
// An identity (uid, session, message) is outstanding while it has a committed delivery or
// at least one in-flight bind attempt. Nothing else is modelled: no shards, no primary /
// extra slots, no derived counter.

import (
	"fmt"
	"sort"
	"strings"

	"github.com/WuKongIM/WuKongIM/internal/runtime/delivery"
	"github.com/WuKongIM/WuKongIM/pkg/zzverif/mc"
)

type c32Key struct {
	uid string
	sid uint64
	mid uint64
}

func (k c32Key) String() string { return fmt.Sprintf("%s/%d/%d", k.uid, k.sid, k.mid) }

func c32KeyOf(p delivery.PendingRecvAck) c32Key {
	return c32Key{uid: p.UID, sid: p.SessionID, mid: p.MessageID}
}

// c32Attempt is one in-flight bind reservation. id is the harness ordinal of the bind that
// created it (the real token is opaque); mark is the MessageSeq the harness put into that
// bind's metadata so that returned metadata can be attributed to one attempt.
type c32Attempt struct {
	id   int
	at   int64
	mark uint64
}

type c32Entry struct {
	committed bool
	cAt       int64
	cMark     uint64
	attempts  []c32Attempt
}

func (e *c32Entry) clone() *c32Entry {
	c := *e
	c.attempts = append([]c32Attempt(nil), e.attempts...)
	return &c
}

// accepts reports whether p can be the metadata returned for this identity: the last
// successfully finished delivery when one exists, otherwise one of the in-flight attempts.
func (e *c32Entry) accepts(p delivery.PendingRecvAck) bool {
	if e.committed {
		return p.MessageSeq == e.cMark && p.DeliveredAt == e.cAt
	}
	for _, a := range e.attempts {
		if p.MessageSeq == a.mark && p.DeliveredAt == a.at {
			return true
		}
	}
	return false
}

// expired: no committed or in-flight delivery candidate is newer than cutoff.
func (e *c32Entry) expired(cutoff int64) bool {
	if e.committed && e.cAt > cutoff {
		return false
	}
	for _, a := range e.attempts {
		if a.at > cutoff {
			return false
		}
	}
	return true
}

type c32Model struct {
	limit int // MaxPendingPerSession (0 = unlimited)
	m     map[c32Key]*c32Entry
}

func newC32Model(limit int) *c32Model { return &c32Model{limit: limit, m: map[c32Key]*c32Entry{}} }

func (md *c32Model) clone() *c32Model {
	c := &c32Model{limit: md.limit, m: make(map[c32Key]*c32Entry, len(md.m))}
	for k, e := range md.m {
		c.m[k] = e.clone()
	}
	return c
}

func (md *c32Model) size() int { return len(md.m) }

func (md *c32Model) sessionCount(uid string, sid uint64) int {
	n := 0
	for k := range md.m {
		if k.uid == uid && k.sid == sid {
			n++
		}
	}
	return n
}

func c32ValidKey(k c32Key) bool { return k.uid != "" && k.sid != 0 && k.mid != 0 }

// bind reserves one delivery attempt.
func (md *c32Model) bind(k c32Key, id int, at int64, mark uint64) (bound, added bool) {
	if !c32ValidKey(k) {
		return false, false
	}
	e, existed := md.m[k]
	if md.limit > 0 && !existed && md.sessionCount(k.uid, k.sid) >= md.limit {
		return false, false
	}
	if !existed {
		e = &c32Entry{}
		md.m[k] = e
	}
	e.attempts = append(e.attempts, c32Attempt{id: id, at: at, mark: mark})
	return true, !existed
}

func (md *c32Model) attemptIndex(k c32Key, id int) int {
	e, ok := md.m[k]
	if !ok || id < 0 {
		return -1
	}
	for i, a := range e.attempts {
		if a.id == id {
			return i
		}
	}
	return -1
}

// finish commits one in-flight attempt.
func (md *c32Model) finish(k c32Key, id int) bool {
	i := md.attemptIndex(k, id)
	if i < 0 {
		return false
	}
	e := md.m[k]
	a := e.attempts[i]
	e.attempts = append(e.attempts[:i:i], e.attempts[i+1:]...)
	e.committed, e.cAt, e.cMark = true, a.at, a.mark
	return true
}

// cancel rolls back one in-flight attempt; the identity disappears only when nothing
// committed and no other attempt is left.
func (md *c32Model) cancel(k c32Key, id int) (canceled, removed bool) {
	i := md.attemptIndex(k, id)
	if i < 0 {
		return false, false
	}
	e := md.m[k]
	e.attempts = append(e.attempts[:i:i], e.attempts[i+1:]...)
	if !e.committed && len(e.attempts) == 0 {
		delete(md.m, k)
		return true, true
	}
	return true, false
}

func (md *c32Model) ack(k c32Key) (*c32Entry, bool) {
	e, ok := md.m[k]
	if !ok || !c32ValidKey(k) {
		return nil, false
	}
	delete(md.m, k)
	return e, true
}

func (md *c32Model) closeSession(uid string, sid uint64) map[c32Key]*c32Entry {
	out := map[c32Key]*c32Entry{}
	for k, e := range md.m {
		if k.uid == uid && k.sid == sid {
			out[k] = e
		}
	}
	for k := range out {
		delete(md.m, k)
	}
	return out
}

// expire removes expired identities; when onlySession is set, only that session's.
func (md *c32Model) expire(cutoff int64, onlySession *c32Sess) map[c32Key]*c32Entry {
	out := map[c32Key]*c32Entry{}
	for k, e := range md.m {
		if onlySession != nil && (k.uid != onlySession.uid || k.sid != onlySession.sid) {
			continue
		}
		if e.expired(cutoff) {
			out[k] = e
		}
	}
	for k := range out {
		delete(md.m, k)
	}
	return out
}

func (md *c32Model) reset() { md.m = map[c32Key]*c32Entry{} }

func (md *c32Model) sortedKeys() []c32Key {
	ks := make([]c32Key, 0, len(md.m))
	for k := range md.m {
		ks = append(ks, k)
	}
	sort.Slice(ks, func(i, j int) bool {
		a, b := ks[i], ks[j]
		if a.uid != b.uid {
			return a.uid < b.uid
		}
		if a.sid != b.sid {
			return a.sid < b.sid
		}
		return a.mid < b.mid
	})
	return ks
}

// canon renders the model with delivery times as ages relative to now, capped at ageCap
// (the expiry predicate only compares ages with the ttl menu), and attempts by position
// (ids and marks are opaque names).
func (md *c32Model) canon(now int64, ageCap int64) string {
	age := func(at int64) int64 {
		a := now - at
		if a > ageCap {
			a = ageCap
		}
		if a < 0 {
			a = -1
		}
		return a
	}
	var b strings.Builder
	for _, k := range md.sortedKeys() {
		e := md.m[k]
		fmt.Fprintf(&b, "%s=", k)
		if e.committed {
			fmt.Fprintf(&b, "C%d", age(e.cAt))
		}
		for _, a := range e.attempts {
			fmt.Fprintf(&b, "a%d", age(a.at))
		}
		b.WriteByte(';')
	}
	return b.String()
}

// exact renders the model without abstraction (used as the linearizability checker's
// state identity).
func (md *c32Model) exact() string {
	var b strings.Builder
	for _, k := range md.sortedKeys() {
		e := md.m[k]
		fmt.Fprintf(&b, "%s=", k)
		if e.committed {
			fmt.Fprintf(&b, "C%d.%d", e.cAt, e.cMark)
		}
		for _, a := range e.attempts {
			fmt.Fprintf(&b, "a%d.%d.%d", a.id, a.at, a.mark)
		}
		b.WriteByte(';')
	}
	return b.String()
}

type c32Sess struct {
	uid string
	sid uint64
}

// removedOK compares a list of removed PendingRecvAck rows with what the model removed.
func c32RemovedOK(evl string, kind string, got []delivery.PendingRecvAck, want map[c32Key]*c32Entry) error {
	seen := map[c32Key]bool{}
	for _, p := range got {
		k := c32KeyOf(p)
		e, ok := want[k]
		if !ok {
			return mc.Violatef("C32:"+kind+"-removed-entry-the-model-keeps", "%s: removed %s, which must stay (model removes %d entries)", evl, k, len(want))
		}
		if seen[k] {
			return mc.Violatef("C32:"+kind+"-removed-entry-twice", "%s: %s reported twice", evl, k)
		}
		seen[k] = true
		if !e.accepts(p) {
			return mc.Violatef("C32:"+kind+"-returned-metadata-of-wrong-attempt", "%s: %s returned metadata seq=%d at=%d, want the last finished delivery (or an in-flight attempt when none finished): committed=%v cMark=%d attempts=%v", evl, k, p.MessageSeq, p.DeliveredAt, e.committed, e.cMark, e.attempts)
		}
	}
	if len(seen) != len(want) {
		missing := []string{}
		for k := range want {
			if !seen[k] {
				missing = append(missing, k.String())
			}
		}
		sort.Strings(missing)
		return mc.Violatef("C32:"+kind+"-kept-entry-the-model-removes", "%s: %v must be removed but were not reported", evl, missing)
	}
	return nil
}
