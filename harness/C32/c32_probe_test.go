package delivery_test

// C32 - destructive probes, run by c32Inst.Check on every executed transition (run 1).
//
// Why: the exploration merges states on what a black-box harness can read (PendingCount)
// plus the reference model. The tracker keeps a second, hidden structure (the per-session
// index used by SessionClosed and by MaxPendingPerSession) that has no read accessor: a
// history that damages it reaches a state that LOOKS equal to one found by a shorter
// path, is merged away, and the damage is never questioned (and a state at the depth
// bound is never questioned at all). The only way to read the hidden structure is to ask
// the destructive questions themselves. So every state is asked all of them, each on a
// twin of the state rebuilt from the recorded path on a fresh tracker, every answer
// judged by the ordinary oracle of Apply against the twin's own model (the model owns the
// set of outstanding deliveries per session; nothing is read from the tracker's
// bookkeeping):
//
//	close-all       SessionClosed of every session returns exactly the model's rows, the
//	                counter drops to 0, every Ack misses afterwards, a close of an unknown
//	                uid returns nothing, and the sessions admit binds again (limit)
//	admit-then-ack  identities that are NOT outstanding are bound first (the per-session
//	                limit must count exactly the model's outstanding deliveries of that
//	                session), then every identity is acked (hit/miss + metadata), then the
//	                sessions must be empty and admit binds again
//	age-out         the clock passes the largest ttl: Expire removes exactly everything,
//	                the sessions admit binds again, close returns exactly the re-admitted binds
//	(the next two only in states that have in-flight attempts)
//	rollback-all    every in-flight attempt is rolled back (newest first): identities with a
//	                finished delivery stay, the others go; then limit / close as above
//	finish-all      every in-flight attempt is finished (oldest first); then expire with the
//	                smallest ttl, close, limit
//
// The probes are fixed event suffixes over the ordinary alphabet (a directed look-ahead of
// 6-15 events behind EVERY transition; the trailing re-admission binds only with a limit), not samples: every explored state gets every probe.

import (
	"fmt"
	"strings"

	"github.com/WuKongIM/WuKongIM/pkg/zzverif/mc"
)

// twin rebuilds this state on a fresh tracker + fresh model by re-applying the path.
func (in *c32Inst) twin() *c32Inst {
	tw := newC32Inst(in.cfg)
	tw.quiet = true
	for i, e := range in.path {
		if _, err := tw.Apply(e, nil); err != nil {
			panic(fmt.Sprintf("C32 harness: twin replay diverged at step %d (%s) of %v: %v", i, e, in.path, err))
		}
	}
	return tw
}

type c32Probe struct {
	name string
	// next returns the events to apply now, given what the twin looks like (token
	// selectors depend on the state); stage counts the calls; a stage may be empty, the
	// probe has `stages` of them.
	stages int
	next   func(tw *c32Inst, stage int) []string
	// needLive: the probe settles in-flight attempts; without any it would repeat the
	// other probes and is skipped.
	needLive bool
	// index: the probe reads the hidden per-session index directly (SessionClosed of
	// every session, before / after rolling back the in-flight attempts). The quick tier
	// runs only these behind the transitions of the MERGED systems; the unmerged systems
	// (every sequence up to their depth bound) and the thorough tier run all five.
	index bool
}

func c32AllKeys(prefix string) []string {
	return []string{prefix + ":A1", prefix + ":A2", prefix + ":B1", prefix + ":B2"}
}

// c32Readmit binds every identity once more when the configuration has a per-session
// limit: after the sessions were emptied, the limit must admit exactly one message per
// session again (a stale index slot would reject it, a missing one admit too many).
// Without a limit a bind is always admitted and the ordinary alphabet covers it.
func c32Readmit(tw *c32Inst) []string {
	if tw.cfg.limit <= 0 {
		return nil
	}
	return c32AllKeys("bind")
}

func c32HasLive(tw *c32Inst) bool {
	for _, k := range tw.keys() {
		if live, _ := tw.tokens(k); len(live) > 0 {
			return true
		}
	}
	return false
}

// c32BindAbsent binds every identity the model does not hold (session by session).
func c32BindAbsent(tw *c32Inst) []string {
	var evs []string
	for s := 0; s < 2; s++ {
		for m := 0; m < 2; m++ {
			if _, ok := tw.model.m[tw.key(s, m)]; !ok {
				evs = append(evs, "bind:"+c32SM(s, m))
			}
		}
	}
	return evs
}

// c32Settle rolls back (newest first) or finishes (oldest first) every in-flight attempt.
func c32Settle(tw *c32Inst, how string) []string {
	var evs []string
	for s := 0; s < 2; s++ {
		for m := 0; m < 2; m++ {
			live, _ := tw.tokens(tw.key(s, m))
			for i := len(live) - 1; i >= 0; i-- {
				if how == "cancel" {
					evs = append(evs, fmt.Sprintf("cancel:%s:a%d", c32SM(s, m), i))
				} else {
					evs = append(evs, fmt.Sprintf("finish:%s:a0", c32SM(s, m)))
				}
			}
		}
	}
	return evs
}

func (in *c32Inst) maxTTL() int {
	ttl := 0
	for _, t := range in.cfg.ttls {
		if t > ttl {
			ttl = t
		}
	}
	return ttl
}

func (in *c32Inst) minTTL() int {
	ttl := 0
	for _, t := range in.cfg.ttls {
		if t > 0 && (ttl == 0 || t < ttl) {
			ttl = t
		}
	}
	return ttl
}

func c32Cat(lists ...[]string) []string {
	var out []string
	for _, l := range lists {
		out = append(out, l...)
	}
	return out
}

var c32Probes = []c32Probe{
	{name: "close-all", stages: 1, index: true, next: func(tw *c32Inst, stage int) []string {
		if stage > 0 {
			return nil
		}
		return c32Cat([]string{"drain"}, c32AllKeys("ack"), []string{"closex"}, c32Readmit(tw))
	}},
	{name: "admit-then-ack", stages: 2, next: func(tw *c32Inst, stage int) []string {
		switch stage {
		case 0:
			return c32BindAbsent(tw)
		case 1:
			return c32Cat(c32AllKeys("ack"), []string{"drain"}, c32Readmit(tw))
		}
		return nil
	}},
	{name: "age-out", stages: 1, next: func(tw *c32Inst, stage int) []string {
		if stage > 0 {
			return nil
		}
		var evs []string
		for i := int64(0); i <= tw.cfg.ageCap; i++ {
			evs = append(evs, "tick")
		}
		evs = append(evs, fmt.Sprintf("expire:%d", tw.maxTTL()))
		return c32Cat(evs, c32Readmit(tw), []string{"drain"})
	}},
	{name: "rollback-all", stages: 3, needLive: true, index: true, next: func(tw *c32Inst, stage int) []string {
		switch stage {
		case 0:
			return c32Settle(tw, "cancel")
		case 1:
			return c32BindAbsent(tw)
		case 2:
			return c32Cat([]string{"drain"}, c32Readmit(tw))
		}
		return nil
	}},
	{name: "finish-all", stages: 2, needLive: true, next: func(tw *c32Inst, stage int) []string {
		switch stage {
		case 0:
			return c32Settle(tw, "finish")
		case 1:
			return c32Cat([]string{fmt.Sprintf("expire:%d", tw.minTTL()), "drain"}, c32Readmit(tw))
		}
		return nil
	}},
}

// probes runs every probe on its own twin; the first failing answer is the violation
// (same structural fingerprint as when the ordinary exploration meets it).
func (in *c32Inst) probes() error {
	live := c32HasLive(in)
	for _, pr := range c32Probes {
		if pr.needLive && !live {
			continue
		}
		if in.indexProbesOnly && !pr.index {
			continue
		}
		tw := in.twin()
		tw.quiet = true
		var done []string
		c32ProbeRuns.Add(1)
		for stage := 0; stage < pr.stages; stage++ {
			for _, e := range pr.next(tw, stage) {
				done = append(done, e)
				c32ProbeSteps.Add(1)
				if _, err := tw.Apply(e, nil); err != nil {
					fp := "C32:probe-answer-differs-from-model"
					if v, ok := err.(*mc.V); ok {
						fp = v.FP
					}
					return mc.Violatef(fp, "probe %s behind this state [%s]: %v", pr.name, strings.Join(done, " ; "), err)
				}
			}
		}
	}
	return nil
}
