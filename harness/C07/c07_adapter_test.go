package store_test

// C07 (second run) - the same sequential-log oracle through the production path:
// channelstore.MessageDBFactory -> compatibility ChannelStore -> group-commit coordinator ->
// pebble. Alphabet: AppendLeader (strict and server-allocated-id, single and batched),
// cross-channel AppendLeaderBatch, ApplyFollower (trusted, with and without leader HW,
// wrong index), AdoptRetentionBoundary+TrimMessagesThrough (full and bounded),
// StoreCheckpoint, lease close/re-acquire, and (separate small system) a real factory
// close + reopen. After every step Load, ReadCommitted (forward/reverse/bounded), ReadLog,
// LookupMessageByID, LookupIdempotency and GetLastSenderMessageSeq are compared with the
// reference log for the whole key menu on both channels.

import (
	"bytes"
	"context"
	"errors"
	"fmt"
	"hash/fnv"
	"io"
	"log"
	"math"
	"os"
	"path/filepath"
	"strconv"
	"strings"
	"sync"
	"sync/atomic"
	"testing"
	"time"

	ch "github.com/WuKongIM/WuKongIM/pkg/channel"
	"github.com/WuKongIM/WuKongIM/pkg/channel/store"
	"github.com/WuKongIM/WuKongIM/pkg/zzverif/ev"
	"github.com/WuKongIM/WuKongIM/pkg/zzverif/mc"
)

type a07Rec struct {
	id     int
	sender string
	no     string
	pay    int
}

var a07Payloads = [][]byte{[]byte("x"), {0x00, 0xff, 'y', 'y', 'y'}, {}}

var a07Menu = map[string]a07Rec{
	"m1": {1, "u", "n1", 0},
	"m2": {2, "u", "n1x", 1},
	"m3": {3, "ux", "n1", 0},
	"m4": {1, "ux", "n1x", 1},
	"m5": {2, "u", "n1", 1},
	"m6": {3, "", "n1", 1},
	"m0": {3, "ux", "n1x", 2}, // empty payload
}

var a07Senders = []string{"u", "ux"}
var a07Nos = []string{"n1", "n1x"}

const a07TS = int64(1700000000000)

// ---------------------------------------------------------------- factory pool

type a07Backend struct {
	dir  string
	f    *store.MessageDBFactory
	uses int
}

var (
	a07PoolMu   sync.Mutex
	a07PoolFree []*a07Backend
	a07DirSeq   atomic.Uint64
	a07NS       atomic.Uint64
	a07Opens    atomic.Int64
)

const a07DirPrefix = "verif-C07a-"

func a07Open(dir string) (*store.MessageDBFactory, error) {
	// 1ns flush window: the coordinator does not wait for companions (tuning only)
	f := store.NewMessageDBFactoryWithOptions(dir, store.MessageDBFactoryOptions{CommitFlushWindow: time.Nanosecond})
	if _, _, _, err := f.ListChannelsPage(context.Background(), "", 1); err != nil {
		return nil, fmt.Errorf("open %s: %v", dir, err)
	}
	a07Opens.Add(1)
	return f, nil
}

func a07NewDir() string {
	return filepath.Join("/dev/shm", fmt.Sprintf("%s%d-%d", a07DirPrefix, os.Getpid(), a07DirSeq.Add(1)))
}

func a07GetBackend() (*a07Backend, error) {
	a07PoolMu.Lock()
	if n := len(a07PoolFree); n > 0 {
		b := a07PoolFree[n-1]
		a07PoolFree = a07PoolFree[:n-1]
		a07PoolMu.Unlock()
		return b, nil
	}
	a07PoolMu.Unlock()
	dir := a07NewDir()
	f, err := a07Open(dir)
	if err != nil {
		return nil, err
	}
	return &a07Backend{dir: dir, f: f}, nil
}

func a07PutBackend(b *a07Backend) {
	b.uses++
	if b.uses >= 4000 {
		_ = b.f.Close()
		_ = os.RemoveAll(b.dir)
		return
	}
	a07PoolMu.Lock()
	a07PoolFree = append(a07PoolFree, b)
	a07PoolMu.Unlock()
}

func a07DrainPool() {
	a07PoolMu.Lock()
	defer a07PoolMu.Unlock()
	for _, b := range a07PoolFree {
		_ = b.f.Close()
		_ = os.RemoveAll(b.dir)
	}
	a07PoolFree = nil
}

func a07SweepStale() {
	ents, err := os.ReadDir("/dev/shm")
	if err != nil {
		return
	}
	for _, e := range ents {
		name := e.Name()
		if !strings.HasPrefix(name, a07DirPrefix) {
			continue
		}
		pid, _, _ := strings.Cut(strings.TrimPrefix(name, a07DirPrefix), "-")
		if _, err := os.Stat("/proc/" + pid); err != nil {
			_ = os.RemoveAll(filepath.Join("/dev/shm", name))
		}
	}
}

// ---------------------------------------------------------------- model

type a07Row struct {
	seq     uint64
	id      uint64
	sender  string
	no      string
	payload []byte
}

type a07Loc struct {
	ch  int
	seq uint64
}

type a07Chan struct {
	name string
	key  ch.ChannelKey
	cid  ch.ChannelID
	st   store.ChannelStore

	rows    []a07Row
	leo     uint64
	start   uint64
	adopted uint64
	hasCkpt bool
	ckptHW  uint64
}

type a07Cfg struct {
	name     string
	alphabet func(in *a07Inst) []string
}

type a07Inst struct {
	cfg     *a07Cfg
	be      *a07Backend
	private bool
	ns      uint64
	ch      [2]*a07Chan
	ids     map[uint64]a07Loc
	hist    []string
	kind    string
	initErr error
}

var a07Ctx = context.Background()

var (
	a07nAppendOK, a07nConflictID, a07nConflictKey, a07nConflictCross, a07nFollower, a07nFollowerBad atomic.Int64
	a07nTrimRemoved, a07nTrimPartial, a07nLease, a07nReopen, a07nCrossBatch, a07nLookupHit          atomic.Int64
	a07nAdoptOver, a07nReopenPending atomic.Int64
	a07nRemovedMiss, a07nChecks                                                                     atomic.Int64
)

func a07NewInst(cfg *a07Cfg) *a07Inst {
	in := &a07Inst{cfg: cfg, ids: map[uint64]a07Loc{}, ns: a07NS.Add(1)}
	be, err := a07GetBackend()
	if err != nil {
		in.initErr = err
		return in
	}
	in.be = be
	in.initChans()
	return in
}

func (in *a07Inst) initChans() {
	for i, n := range []string{"A", "B"} {
		k := fmt.Sprintf("x%d%s", in.ns, strings.ToLower(n))
		in.ch[i] = &a07Chan{name: n, key: ch.ChannelKey(k), cid: ch.ChannelID{ID: k, Type: 2}, start: 1}
	}
	in.acquire()
}

func (in *a07Inst) acquire() {
	for _, c := range in.ch {
		if c.st != nil {
			continue
		}
		st, err := in.be.f.ChannelStore(c.key, c.cid)
		if err != nil {
			in.initErr = err
			return
		}
		c.st = st
	}
}

func (in *a07Inst) release() {
	for _, c := range in.ch {
		if c != nil && c.st != nil {
			_ = c.st.Close()
			c.st = nil
		}
	}
}

func (in *a07Inst) Close() {
	if in.be == nil {
		return
	}
	in.release()
	if in.private {
		_ = in.be.f.Close()
		_ = os.RemoveAll(in.be.dir)
	} else {
		a07PutBackend(in.be)
	}
	in.be = nil
}

func (in *a07Inst) msgID(idx int) uint64 { return in.ns*16 + uint64(idx) }

func (in *a07Inst) record(r a07Rec) ch.Record {
	return ch.Record{ID: in.msgID(r.id), FromUID: r.sender, ClientMsgNo: r.no,
		Payload: append([]byte(nil), a07Payloads[r.pay]...), ServerTimestampMS: a07TS + int64(r.id)}
}

func a07Chan_(s string) int {
	if s == "B" {
		return 1
	}
	return 0
}

func a07Parse(s string) []a07Rec {
	var out []a07Rec
	for _, n := range strings.Split(s, "+") {
		r, ok := a07Menu[n]
		if !ok {
			panic("unknown record " + n)
		}
		out = append(out, r)
	}
	return out
}

// conflict: "" = the reference log accepts the batch; checkIDs=false models the
// server-allocated-id proof (existing-id lookup skipped, in-batch ids still checked).
func (in *a07Inst) conflict(ci int, recs []a07Rec, checkIDs, checkKeys bool) string {
	c := in.ch[ci]
	seenID := map[uint64]bool{}
	seenKey := map[[2]string]bool{}
	for _, r := range recs {
		id := in.msgID(r.id)
		if seenID[id] {
			return "id-in-batch"
		}
		seenID[id] = true
		if checkIDs {
			if loc, ok := in.ids[id]; ok {
				if loc.ch != ci {
					return "id-other-channel"
				}
				return "id"
			}
		}
		if r.sender != "" && r.no != "" {
			k := [2]string{r.sender, r.no}
			if seenKey[k] {
				return "key-in-batch"
			}
			seenKey[k] = true
			if checkKeys {
				for _, row := range c.rows {
					if row.sender == r.sender && row.no == r.no {
						return "key"
					}
				}
			}
		}
	}
	return ""
}

func (in *a07Inst) modelAppend(ci int, recs []a07Rec) {
	c := in.ch[ci]
	for _, r := range recs {
		c.leo++
		id := in.msgID(r.id)
		c.rows = append(c.rows, a07Row{seq: c.leo, id: id, sender: r.sender, no: r.no, payload: a07Payloads[r.pay]})
		in.ids[id] = a07Loc{ci, c.leo}
	}
}

func (in *a07Inst) modelRemove(ci int, keep func(a07Row) bool) int {
	c := in.ch[ci]
	var kept []a07Row
	n := 0
	for _, row := range c.rows {
		if keep(row) {
			kept = append(kept, row)
			continue
		}
		n++
		delete(in.ids, row.id)
	}
	c.rows = kept
	return n
}

// ---------------------------------------------------------------- events

func (in *a07Inst) Events() []string {
	if in.initErr != nil {
		return nil
	}
	return in.cfg.alphabet(in)
}

func (in *a07Inst) last() string {
	if len(in.hist) == 0 {
		return ""
	}
	return in.hist[len(in.hist)-1]
}

func (in *a07Inst) precond(ci int, labels ...string) []string {
	var out []string
	for _, l := range labels {
		p := strings.Split(l, ":")
		ok := false
		switch p[0] {
		case "fo", "foh": // trusted follower apply: rows validated by the leader
			ok = in.conflict(ci, a07Parse(p[2]), true, true) == ""
		case "ala": // server-allocated ids: unique on the node by the caller's proof
			ok = true
			for _, r := range a07Parse(p[2]) {
				if _, dup := in.ids[in.msgID(r.id)]; dup {
					ok = false
				}
			}
		}
		if ok {
			out = append(out, l)
		}
	}
	return out
}

func (in *a07Inst) retention(ci int, ks ...string) []string {
	c := in.ch[ci]
	var out []string
	for _, k := range ks {
		switch k {
		case "1":
			if len(c.rows) > 0 {
				out = append(out, "ret:"+c.name+":1")
			}
		case "all":
			if len(c.rows) > 1 {
				out = append(out, "ret:"+c.name+":all")
			}
		case "lim":
			if len(c.rows) > 0 {
				out = append(out, "ret:"+c.name+":lim")
			}
		case "over": // adopt a boundary beyond the log end, no physical trim yet
			if len(c.rows) > 0 {
				out = append(out, "ret:"+c.name+":over")
			}
		case "overlim": // the same, followed by a bounded physical trim that leaves rows
			if len(c.rows) >= 2 {
				out = append(out, "ret:"+c.name+":overlim")
			}
		}
	}
	return out
}

func a07AlphabetMain(in *a07Inst) []string {
	a, b := in.ch[0], in.ch[1]
	evs := []string{"al:A:m1", "al:A:m2", "al:A:m4", "al:A:m5", "al:A:m0", "alb:A:m2+m3"}
	evs = append(evs, in.precond(0, "ala:A:m3", "fo:A:m3", "foh:A:m6")...)
	evs = append(evs, "fobad:A:m3", "al:B:m1", "al:B:m6", "xb:m2|m3")
	evs = append(evs, in.retention(0, "1", "all", "lim", "over", "overlim")...)
	if a.leo > 0 {
		evs = append(evs, "ck:A")
		if in.last() != "lease:A" {
			evs = append(evs, "lease:A")
		}
	}
	if b.leo > 0 && in.last() != "lease:B" {
		evs = append(evs, "lease:B")
	}
	return evs
}

func a07AlphabetPhysical(in *a07Inst) []string {
	a, b := in.ch[0], in.ch[1]
	evs := []string{"al:A:m1", "alb:A:m2+m3", "al:B:m1"}
	evs = append(evs, in.retention(0, "1", "all", "over", "overlim")...)
	if (a.leo > 0 || b.leo > 0) && !in.private && len(in.hist) >= 2 {
		evs = append(evs, "reopen!")
	}
	return evs
}

// ---------------------------------------------------------------- apply

func (in *a07Inst) Apply(evl string, _ *mc.Env) (string, error) {
	if in.initErr != nil {
		return "", mc.Violatef("C07:harness-init", "cannot initialise instance: %v", in.initErr)
	}
	in.hist = append(in.hist, evl)
	p := strings.Split(evl, ":")
	switch p[0] {
	case "al", "alb", "ala":
		in.kind = "append"
		ci := a07Chan_(p[1])
		return in.applyLeader(evl, ci, a07Parse(p[2]), p[0] == "ala")
	case "xb":
		return in.applyCrossBatch(evl, p[1])
	case "fo", "foh", "fobad":
		return in.applyFollower(evl, p)
	case "ret":
		return in.applyRetention(evl, p)
	case "ck":
		in.kind = "checkpoint"
		c := in.ch[a07Chan_(p[1])]
		if err := c.st.StoreCheckpoint(a07Ctx, ch.Checkpoint{HW: c.leo}); err != nil {
			return "", mc.Violatef("C07:adapter-checkpoint-error", "%s: %v", evl, err)
		}
		if !c.hasCkpt || c.leo > c.ckptHW {
			c.ckptHW = c.leo
		}
		c.hasCkpt = true
		return "ck", nil
	case "lease":
		in.kind = "lease"
		c := in.ch[a07Chan_(p[1])]
		_ = c.st.Close()
		if _, err := c.st.Load(a07Ctx); !errors.Is(err, ch.ErrClosed) {
			return "", mc.Violatef("C07:adapter-closed-lease-usable", "%s: Load on a closed store returned %v, want ErrClosed", evl, err)
		}
		c.st = nil
		in.acquire()
		if in.initErr != nil {
			return "", mc.Violatef("C07:adapter-reacquire-error", "%s: %v", evl, in.initErr)
		}
		a07nLease.Add(1)
		return "lease", nil
	case "reopen!":
		return in.applyReopen(evl)
	}
	panic("unknown event " + evl)
}

func a07Class(want string) string {
	if strings.HasPrefix(want, "key") {
		return "duplicate-key"
	}
	return "duplicate-id"
}

func (in *a07Inst) countConflict(want string) {
	switch want {
	case "id", "id-in-batch":
		a07nConflictID.Add(1)
	case "id-other-channel":
		a07nConflictCross.Add(1)
	default:
		a07nConflictKey.Add(1)
	}
}

func (in *a07Inst) applyLeader(evl string, ci int, recs []a07Rec, allocated bool) (string, error) {
	c := in.ch[ci]
	req := store.AppendLeaderRequest{ServerAllocatedMessageIDs: allocated}
	for _, r := range recs {
		req.Records = append(req.Records, in.record(r))
	}
	want := in.conflict(ci, recs, !allocated, true)
	res, err := c.st.AppendLeader(a07Ctx, req)
	if want != "" {
		if err == nil {
			return "", mc.Violatef("C07:adapter-append-accepted-"+a07Class(want), "%s: accepted (%+v) but the reference log refuses it (%s)", evl, res, want)
		}
		if !errors.Is(err, ch.ErrLogConflict) || res.Outcome != store.AppendOutcomeConflict {
			return "", mc.Violatef("C07:adapter-append-wrong-error", "%s: %v outcome=%v, want ErrLogConflict/Conflict (%s)", evl, err, res.Outcome, want)
		}
		in.countConflict(want)
		return "append-refused:" + want, nil
	}
	if err != nil {
		return "", mc.Violatef("C07:adapter-append-refused-valid", "%s: refused with %v (outcome %v) but the reference log accepts it", evl, err, res.Outcome)
	}
	if res.BaseOffset != c.leo+1 || res.LastOffset != c.leo+uint64(len(recs)) || res.Outcome != store.AppendOutcomeDurable {
		return "", mc.Violatef("C07:adapter-append-result-mismatch", "%s: result %+v at reference LEO %d", evl, res, c.leo)
	}
	in.modelAppend(ci, recs)
	a07nAppendOK.Add(1)
	return "append-ok:" + strconv.Itoa(len(recs)), nil
}

// applyCrossBatch sends one AppendLeaderBatch with one item per channel (ids distinct
// inside the batch; each item may still collide with stored rows and is then refused alone).
func (in *a07Inst) applyCrossBatch(evl string, spec string) (string, error) {
	in.kind = "append"
	parts := strings.Split(spec, "|")
	items := make([]store.AppendLeaderBatchItem, 2)
	wants := make([]string, 2)
	recs := make([][]a07Rec, 2)
	for ci := 0; ci < 2; ci++ {
		recs[ci] = a07Parse(parts[ci])
		c := in.ch[ci]
		items[ci] = store.AppendLeaderBatchItem{ChannelKey: c.key, ChannelID: c.cid}
		for _, r := range recs[ci] {
			items[ci].Request.Records = append(items[ci].Request.Records, in.record(r))
		}
		wants[ci] = in.conflict(ci, recs[ci], true, true)
	}
	out := in.be.f.AppendLeaderBatch(a07Ctx, items)
	if len(out) != 2 {
		return "", mc.Violatef("C07:adapter-batch-result-count", "%s: %d results for 2 items", evl, len(out))
	}
	obs := "xb"
	for ci := 0; ci < 2; ci++ {
		c := in.ch[ci]
		if wants[ci] != "" {
			if out[ci].Err == nil {
				return "", mc.Violatef("C07:adapter-append-accepted-"+a07Class(wants[ci]), "%s: item %s accepted (%+v) but the reference log refuses it (%s)", evl, c.name, out[ci], wants[ci])
			}
			if !errors.Is(out[ci].Err, ch.ErrLogConflict) {
				return "", mc.Violatef("C07:adapter-append-wrong-error", "%s: item %s: %v", evl, c.name, out[ci].Err)
			}
			in.countConflict(wants[ci])
			obs += ":refused"
			continue
		}
		if out[ci].Err != nil {
			return "", mc.Violatef("C07:adapter-append-refused-valid", "%s: item %s refused with %v", evl, c.name, out[ci].Err)
		}
		if out[ci].BaseOffset != c.leo+1 || out[ci].LastOffset != c.leo+uint64(len(recs[ci])) {
			return "", mc.Violatef("C07:adapter-append-result-mismatch", "%s: item %s result %+v at reference LEO %d", evl, c.name, out[ci], c.leo)
		}
		in.modelAppend(ci, recs[ci])
		obs += ":ok"
	}
	a07nCrossBatch.Add(1)
	return obs, nil
}

func (in *a07Inst) applyFollower(evl string, p []string) (string, error) {
	in.kind = "follower-apply"
	ci := a07Chan_(p[1])
	c := in.ch[ci]
	recs := a07Parse(p[2])
	req := store.ApplyFollowerRequest{}
	base := c.leo + 1
	if p[0] == "fobad" {
		base = c.leo + 2
	}
	for i, r := range recs {
		rec := in.record(r)
		rec.Index = base + uint64(i)
		req.Records = append(req.Records, rec)
	}
	if p[0] == "foh" {
		req.LeaderHW = c.leo + uint64(len(recs))
	}
	res, err := c.st.ApplyFollower(a07Ctx, req)
	if p[0] == "fobad" {
		if err == nil {
			return "", mc.Violatef("C07:adapter-follower-gap-accepted", "%s: records starting at index %d accepted at LEO %d (%+v)", evl, base, c.leo, res)
		}
		a07nFollowerBad.Add(1)
		return "follower-refused", nil
	}
	if err != nil {
		return "", mc.Violatef("C07:adapter-follower-refused-valid", "%s: %v", evl, err)
	}
	wantHW := uint64(0)
	if req.LeaderHW > 0 {
		wantHW = req.LeaderHW
	}
	if res.LEO != c.leo+uint64(len(recs)) || res.CheckpointHW != wantHW {
		return "", mc.Violatef("C07:adapter-follower-result-mismatch", "%s: result %+v, want LEO %d CheckpointHW %d", evl, res, c.leo+uint64(len(recs)), wantHW)
	}
	in.modelAppend(ci, recs)
	if wantHW > 0 && (!c.hasCkpt || wantHW > c.ckptHW) {
		c.ckptHW, c.hasCkpt = wantHW, true
	}
	a07nFollower.Add(1)
	return "follower-ok", nil
}

func (in *a07Inst) applyRetention(evl string, p []string) (string, error) {
	in.kind = "trim"
	ci := a07Chan_(p[1])
	c := in.ch[ci]
	through := c.leo
	opts := store.RetentionTrimOptions{}
	switch p[2] {
	case "1":
		through = c.rows[0].seq
	case "lim":
		opts.MaxMessages = 1
	case "over":
		through = c.leo + 2
	case "overlim":
		through = c.leo + 2
		opts.MaxMessages = 1
	}
	retained, err := c.st.AdoptRetentionBoundary(a07Ctx, through, "verif")
	if err != nil {
		return "", mc.Violatef("C07:adapter-adopt-error", "%s: AdoptRetentionBoundary(%d): %v", evl, through, err)
	}
	if through > c.leo {
		// adopting a boundary beyond the log end moves the log end (RetainedMaxSeq)
		c.leo = through
		a07nAdoptOver.Add(1)
	}
	if through > c.adopted {
		c.adopted = through
	}
	if retained != c.leo {
		return "", mc.Violatef("C07:adapter-adopt-retained-max-mismatch", "%s: AdoptRetentionBoundary(%d) reports retained max %d at reference LEO %d", evl, through, retained, c.leo)
	}
	if p[2] == "over" {
		return "adopt-over", nil
	}
	res, err := c.st.TrimMessagesThrough(a07Ctx, through, opts)
	if err != nil {
		return "", mc.Violatef("C07:adapter-trim-error", "%s: TrimMessagesThrough(%d): %v", evl, through, err)
	}
	want := store.RetentionTrimResult{}
	if p[2] == "lim" || p[2] == "overlim" {
		first := c.rows[0].seq
		more := len(c.rows) > 1
		in.modelRemove(ci, func(r a07Row) bool { return r.seq != first })
		want = store.RetentionTrimResult{DeletedThroughSeq: first, Deleted: 1, More: more}
		if more {
			c.start = first + 1
			a07nTrimPartial.Add(1)
		} else {
			c.start = through + 1
		}
	} else {
		var last uint64
		for _, r := range c.rows {
			if r.seq <= through {
				last = r.seq
			}
		}
		n := in.modelRemove(ci, func(r a07Row) bool { return r.seq > through })
		want = store.RetentionTrimResult{DeletedThroughSeq: last, Deleted: n}
		c.start = through + 1
	}
	if through > c.adopted {
		c.adopted = through
	}
	if res != want {
		return "", mc.Violatef("C07:adapter-trim-result-mismatch", "%s: result %+v, want %+v", evl, res, want)
	}
	a07nTrimRemoved.Add(1)
	return fmt.Sprintf("trim:%d:%v", res.Deleted, res.More), nil
}

func (in *a07Inst) applyReopen(evl string) (string, error) {
	dir := a07NewDir()
	f, err := a07Open(dir)
	if err != nil {
		return "", mc.Violatef("C07:harness-init", "cannot open private factory: %v", err)
	}
	sub := &a07Inst{cfg: in.cfg, ids: map[uint64]a07Loc{}, ns: in.ns, be: &a07Backend{dir: dir, f: f}, private: true}
	sub.initChans()
	for _, h := range in.hist[:len(in.hist)-1] {
		if _, err := sub.Apply(h, nil); err != nil {
			sub.Close()
			return "", mc.Violatef("C07:private-replay-diverged", "%s: re-executing %q on a private database failed: %v", evl, h, err)
		}
	}
	sub.release()
	if err := sub.be.f.Close(); err != nil {
		sub.Close()
		return "", mc.Violatef("C07:adapter-close-error", "%s: factory Close: %v", evl, err)
	}
	f, err = a07Open(dir)
	if err != nil {
		_ = os.RemoveAll(dir)
		return "", mc.Violatef("C07:adapter-reopen-error", "%s: %v", evl, err)
	}
	sub.be.f = f
	sub.acquire()
	if sub.initErr != nil {
		sub.Close()
		return "", mc.Violatef("C07:adapter-reacquire-error", "%s: %v", evl, sub.initErr)
	}
	hist := in.hist
	in.release()
	a07PutBackend(in.be)
	*in = *sub
	in.hist = hist
	in.kind = "reopen"
	a07nReopen.Add(1)
	for _, c := range in.ch {
		if n := len(c.rows); n > 0 && c.adopted > c.rows[n-1].seq {
			a07nReopenPending.Add(1)
		}
	}
	return "reopen!", nil
}

func (in *a07Inst) Canon() string { return "" }

// ---------------------------------------------------------------- oracle

func a07Hash(p []byte) uint64 {
	h := fnv.New64a()
	_, _ = h.Write(p)
	return h.Sum64()
}

func (c *a07Chan) wantMsg(r a07Row) ch.Message {
	return ch.Message{MessageID: r.id, MessageSeq: r.seq, ChannelID: c.cid.ID, ChannelType: c.cid.Type,
		FromUID: r.sender, ClientMsgNo: r.no, Payload: r.payload, ServerTimestampMS: a07TS + int64(r.id%16)}
}

func a07MsgEq(g, w ch.Message) bool {
	return g.MessageID == w.MessageID && g.MessageSeq == w.MessageSeq && g.ChannelID == w.ChannelID && g.ChannelType == w.ChannelType &&
		g.Setting == w.Setting && g.FromUID == w.FromUID && g.ClientMsgNo == w.ClientMsgNo && bytes.Equal(g.Payload, w.Payload) &&
		g.ServerTimestampMS == w.ServerTimestampMS && g.SyncOnce == w.SyncOnce
}

func a07MsgsEq(g, w []ch.Message) bool {
	if len(g) != len(w) {
		return false
	}
	for i := range g {
		if !a07MsgEq(g[i], w[i]) {
			return false
		}
	}
	return true
}

func a07Brief(ms []ch.Message) string {
	var b strings.Builder
	b.WriteString("[")
	for i, m := range ms {
		if i > 0 {
			b.WriteString(" ")
		}
		fmt.Fprintf(&b, "%d:id%d:%s/%s:%dB", m.MessageSeq, m.MessageID%16, m.FromUID, m.ClientMsgNo, len(m.Payload))
	}
	return b.String() + "]"
}

func (c *a07Chan) wantForward(from, maxSeq uint64, limit, maxBytes int) []ch.Message {
	var out []ch.Message
	total := 0
	for _, r := range c.rows {
		if r.seq < from {
			continue
		}
		if maxBytes > 0 && len(out) > 0 && total+len(r.payload) > maxBytes {
			break
		}
		total += len(r.payload)
		if limit > 0 && len(out) >= limit {
			break
		}
		if maxSeq > 0 && r.seq > maxSeq {
			break
		}
		out = append(out, c.wantMsg(r))
	}
	return out
}

func (c *a07Chan) wantReverse(from uint64, limit int) []ch.Message {
	var out []ch.Message
	for i := len(c.rows) - 1; i >= 0; i-- {
		r := c.rows[i]
		if r.seq > from {
			continue
		}
		out = append(out, c.wantMsg(r))
		if limit > 0 && len(out) >= limit {
			break
		}
	}
	return out
}

func (in *a07Inst) fp(api, what string) string {
	k := in.kind
	if k == "" {
		k = "start"
	}
	return "C07:adapter-" + api + "-" + what + "-after-" + k
}

func (in *a07Inst) Check() error {
	if in.initErr != nil {
		return mc.Violatef("C07:harness-init", "cannot initialise instance: %v", in.initErr)
	}
	a07nChecks.Add(1)
	for ci := range in.ch {
		if err := in.checkChan(ci); err != nil {
			return err
		}
	}
	return nil
}

func (in *a07Inst) checkChan(ci int) error {
	c := in.ch[ci]
	st := c.st
	where := fmt.Sprintf("channel %s (model: start=%d leo=%d rows=%d)", c.name, c.start, c.leo, len(c.rows))

	init, err := st.Load(a07Ctx)
	if err != nil {
		return mc.Violatef(in.fp("Load", "error"), "%s: Load: %v", where, err)
	}
	wantHW := c.ckptHW
	if wantHW > c.leo {
		wantHW = c.leo
	}
	if init.LEO != c.leo {
		return mc.Violatef(in.fp("Load", "leo-mismatch"), "%s: Load=%+v, want LEO %d", where, init, c.leo)
	}
	if init.HW != wantHW || init.CheckpointHW != wantHW {
		return mc.Violatef(in.fp("Load", "hw-mismatch"), "%s: Load=%+v, want HW %d", where, init, wantHW)
	}

	// ---- committed reads, forward
	type fq struct {
		from, max uint64
		limit     int
		maxBytes  int
	}
	fqs := []fq{{1, 0, 0, 0}, {1, 0, 1, 0}, {1, 0, 0, 2}, {c.leo + 1, 0, 0, 0}}
	if len(c.rows) >= 2 {
		fqs = append(fqs, fq{c.rows[1].seq, 0, 0, 0}, fq{1, c.rows[len(c.rows)-2].seq, 0, 0})
	}
	for _, q := range fqs {
		got, err := st.ReadCommitted(a07Ctx, store.ReadCommittedRequest{FromSeq: q.from, MaxSeq: q.max, Limit: q.limit, MaxBytes: q.maxBytes})
		if err != nil {
			return mc.Violatef(in.fp("ReadCommitted", "error"), "%s: ReadCommitted(%+v): %v", where, q, err)
		}
		want := c.wantForward(q.from, q.max, q.limit, q.maxBytes)
		next := q.from
		if len(want) > 0 {
			next = want[len(want)-1].MessageSeq + 1
		}
		if !a07MsgsEq(got.Messages, want) || got.NextSeq != next {
			return mc.Violatef(in.fp("ReadCommitted", "mismatch"), "%s: ReadCommitted(%+v)=%s next=%d, want %s next=%d", where, q, a07Brief(got.Messages), got.NextSeq, a07Brief(want), next)
		}
	}
	if all, err := st.ReadCommitted(a07Ctx, store.ReadCommittedRequest{FromSeq: 1}); err == nil {
		// rows at or below the adopted boundary ascend from the physical start; every
		// sequence above the boundary up to the log end is present exactly once
		next, wantAbove := c.start, c.adopted+1
		if c.start > wantAbove {
			wantAbove = c.start
		}
		for _, m := range all.Messages {
			bad := false
			if m.MessageSeq <= c.adopted {
				bad = m.MessageSeq < next
				next = m.MessageSeq + 1
			} else {
				bad = m.MessageSeq != wantAbove
				wantAbove++
			}
			if bad {
				return mc.Violatef(in.fp("ReadCommitted", "not-contiguous"), "%s: full read %s is not contiguous from the retained start to the log end", where, a07Brief(all.Messages))
			}
		}
		if c.leo >= wantAbove {
			return mc.Violatef(in.fp("ReadCommitted", "not-contiguous"), "%s: full read %s ends below the log end", where, a07Brief(all.Messages))
		}
	}
	// ---- committed reads, reverse
	if c.leo >= 1 {
		type rq struct {
			from  uint64
			limit int
		}
		rqs := []rq{{c.leo, 0}, {c.leo, 1}}
		if c.leo >= 2 {
			rqs = append(rqs, rq{c.leo - 1, 0})
		}
		for _, q := range rqs {
			got, err := st.ReadCommitted(a07Ctx, store.ReadCommittedRequest{FromSeq: q.from, Limit: q.limit, Reverse: true})
			if err != nil {
				return mc.Violatef(in.fp("ReadCommittedReverse", "error"), "%s: ReadCommitted(reverse %+v): %v", where, q, err)
			}
			want := c.wantReverse(q.from, q.limit)
			next := q.from
			if len(want) > 0 {
				next = want[len(want)-1].MessageSeq - 1
			}
			if !a07MsgsEq(got.Messages, want) || got.NextSeq != next {
				return mc.Violatef(in.fp("ReadCommittedReverse", "mismatch"), "%s: ReadCommitted(reverse %+v)=%s next=%d, want %s next=%d", where, q, a07Brief(got.Messages), got.NextSeq, a07Brief(want), next)
			}
		}
	}
	// ---- raw log reads (replication)
	for _, from := range []uint64{1, c.leo, c.leo + 1} {
		if from == 0 {
			continue
		}
		got, err := st.ReadLog(a07Ctx, store.ReadLogRequest{FromOffset: from, MaxBytes: 1 << 20})
		if err != nil {
			return mc.Violatef(in.fp("ReadLog", "error"), "%s: ReadLog(%d): %v", where, from, err)
		}
		var want []a07Row
		for _, r := range c.rows {
			if r.seq >= from {
				want = append(want, r)
			}
		}
		ok := len(got.Records) == len(want)
		for i := 0; ok && i < len(want); i++ {
			g, w := got.Records[i], want[i]
			ok = g.ID == w.id && g.Index == w.seq && g.FromUID == w.sender && g.ClientMsgNo == w.no && bytes.Equal(g.Payload, w.payload) &&
				g.ServerTimestampMS == a07TS+int64(w.id%16) && g.SizeBytes == len(w.payload)
		}
		if !ok {
			return mc.Violatef(in.fp("ReadLog", "mismatch"), "%s: ReadLog(%d) returned %d records %+v, reference has %d", where, from, len(got.Records), got.Records, len(want))
		}
	}

	bySeq := map[uint64]a07Row{}
	for _, r := range c.rows {
		bySeq[r.seq] = r
	}
	// ---- lookups by message id
	ml := st.(store.MessageLookup)
	for idx := 1; idx <= 3; idx++ {
		id := in.msgID(idx)
		got, ok, err := ml.LookupMessageByID(a07Ctx, id)
		if err != nil {
			return mc.Violatef(in.fp("LookupMessageByID", "error"), "%s: LookupMessageByID(id%d): %v", where, idx, err)
		}
		loc, stored := in.ids[id]
		here := stored && loc.ch == ci
		if ok != here {
			what := "mismatch"
			if ok && !stored {
				what = "returns-removed-row"
			}
			return mc.Violatef(in.fp("LookupMessageByID", what), "%s: LookupMessageByID(id%d) found=%v, reference stored-here=%v", where, idx, ok, here)
		}
		if ok {
			if !a07MsgEq(got, c.wantMsg(bySeq[loc.seq])) {
				return mc.Violatef(in.fp("LookupMessageByID", "different-row"), "%s: LookupMessageByID(id%d)=%s", where, idx, a07Brief([]ch.Message{got}))
			}
			a07nLookupHit.Add(1)
		} else if !stored {
			a07nRemovedMiss.Add(1)
		}
	}
	// ---- lookups by (sender, client number)
	il := st.(store.IdempotencyLookup)
	for _, s := range a07Senders {
		for _, no := range a07Nos {
			hit, ok, err := il.LookupIdempotency(a07Ctx, s, no)
			if err != nil {
				return mc.Violatef(in.fp("LookupIdempotency", "error"), "%s: LookupIdempotency(%s,%s): %v", where, s, no, err)
			}
			var w *a07Row
			for i := range c.rows {
				if c.rows[i].sender == s && c.rows[i].no == no {
					w = &c.rows[i]
				}
			}
			if ok != (w != nil) {
				what := "mismatch"
				if ok {
					what = "returns-removed-row"
				}
				return mc.Violatef(in.fp("LookupIdempotency", what), "%s: LookupIdempotency(%s,%s) found=%v, reference has=%v", where, s, no, ok, w != nil)
			}
			if ok && (!a07MsgEq(hit.Message, c.wantMsg(*w)) || hit.PayloadHash != a07Hash(w.payload)) {
				return mc.Violatef(in.fp("LookupIdempotency", "different-row"), "%s: LookupIdempotency(%s,%s)=%s hash=%d, want %s hash=%d", where, s, no, a07Brief([]ch.Message{hit.Message}), hit.PayloadHash, a07Brief([]ch.Message{c.wantMsg(*w)}), a07Hash(w.payload))
			}
		}
	}
	// ---- lookups by sender sequence
	sl := st.(store.SenderSequenceLookup)
	for _, s := range a07Senders {
		ths := []uint64{math.MaxUint64}
		if c.leo >= 2 {
			ths = append(ths, c.leo-1)
		}
		for _, th := range ths {
			got, ok, err := sl.GetLastSenderMessageSeq(a07Ctx, s, th)
			if err != nil {
				return mc.Violatef(in.fp("GetLastSenderMessageSeq", "error"), "%s: GetLastSenderMessageSeq(%s,%d): %v", where, s, th, err)
			}
			var want uint64
			for _, r := range c.rows {
				if r.sender == s && r.seq <= th {
					want = r.seq
				}
			}
			if ok != (want != 0) || got != want {
				return mc.Violatef(in.fp("GetLastSenderMessageSeq", "mismatch"), "%s: GetLastSenderMessageSeq(%s,%d)=%d,%v, want %d", where, s, th, got, ok, want)
			}
		}
	}
	return nil
}

// ---------------------------------------------------------------- test

func TestVerifC07Adapter(t *testing.T) {
	log.SetOutput(io.Discard)
	r := ev.Start(t, "C07")
	defer r.Finish()
	a07SweepStale()
	defer a07DrainPool()

	type sys struct {
		cfg   *a07Cfg
		depth int
		note  string
	}
	systems := []sys{
		{&a07Cfg{"adapter-main", a07AlphabetMain}, ev.Pick(r, 3, 4), "<=21 events/state through MessageDBFactory"},
		{&a07Cfg{"adapter-physical-reopen", a07AlphabetPhysical}, ev.Pick(r, 4, 5), "<=8 events/state (incl. retention boundaries adopted beyond the log end with and without a bounded physical trim), real factory close + reopen of a private database, at most once per path, never as one of the first two events"},
	}
	var total mc.Result
	for _, s := range systems {
		cfg := s.cfg
		res := mc.Run(r, mc.System{
			Name:       cfg.name,
			New:        func() mc.Instance { return a07NewInst(cfg) },
			MaxDepth:   s.depth,
			ShardDepth: 2,
			Bounds:     map[string]any{"channels": 2, "message_ids": 3, "senders": a07Senders, "client_numbers": a07Nos, "payloads": len(a07Payloads), "alphabet": s.note},
			Note:       "no state merging; full read/lookup comparison through the adapter in every state",
		})
		total.States += res.States
	}
	if r.Replay() != nil {
		return
	}
	g := func(name string, v *atomic.Int64, min int64) {
		r.Guard(name, v.Load() >= min, "%s=%d (need >=%d)", name, v.Load(), min)
		r.Count(name, v.Load())
	}
	g("adapter-appends-accepted", &a07nAppendOK, 100)
	g("adapter-appends-refused-duplicate-id", &a07nConflictID, 10)
	g("adapter-appends-refused-duplicate-id-other-channel", &a07nConflictCross, 10)
	g("adapter-appends-refused-duplicate-key", &a07nConflictKey, 10)
	g("adapter-follower-applies", &a07nFollower, 10)
	g("adapter-follower-gaps-refused", &a07nFollowerBad, 10)
	g("adapter-trims", &a07nTrimRemoved, 10)
	g("adapter-partial-trims", &a07nTrimPartial, 1)
	g("adapter-lease-reacquisitions", &a07nLease, 10)
	g("adapter-physical-reopens", &a07nReopen, 5)
	g("adapter-boundaries-adopted-beyond-log-end", &a07nAdoptOver, 10)
	g("adapter-physical-reopens-with-rows-below-a-boundary-beyond-the-log-end", &a07nReopenPending, 3)
	g("adapter-cross-channel-batches", &a07nCrossBatch, 10)
	g("adapter-lookups-hit", &a07nLookupHit, 100)
	g("adapter-lookups-of-absent-ids-answered-not-found", &a07nRemovedMiss, 10)
	r.Count("adapter-states-fully-compared", a07nChecks.Load())
	r.Count("adapter-pebble-opens", a07Opens.Load())
	r.Guard("adapter-state-space-nontrivial", total.States >= 500, "states=%d", total.States)
	r.Assume("adapter run: follower applies carry only rows that do not collide with the reference log; server-allocated-id appends carry only ids not stored on the node; retention boundaries are adopted at or below the log end before trimming (AdoptRetentionBoundary then TrimMessagesThrough, as the retention worker does)")
	r.Assume("adapter run: the ChannelStore contract has no suffix truncation (recovery replaces suffixes through ReplaceRecoverySuffix, which needs quorum-log manifests and is out of this check's alphabet)")
}
