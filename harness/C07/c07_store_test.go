package message_test

// C07 - The message store behaves as a faithful sequential log.
//
// Black-box explicit-state exploration of the real pebble-backed message.ChannelLog
// (typed core of pkg/db/message): every sequence of appends (strict, explicit base,
// batches), trusted follower applies, suffix truncations, prefix trims, checkpoint writes,
// lease close/re-acquire (warm and cold), and database reopen up to the depth bound, over
// two channels of one engine. After every step ALL read APIs and ALL index lookups (over the
// whole key menu, including keys of removed rows) are compared with a slice+map reference
// log. No state merging: LEO cache, append-key cache, negative membership filter, warm
// registry state are hidden state, so the enumeration is over event sequences.
//
// Cheap instances: engines are pooled (one per concurrently live instance), every instance
// gets its own message.MessageDB over the pooled engine and a fresh key namespace
// (channel keys, message-id range), so paths cannot see each other.

import (
	"bytes"
	"context"
	"errors"
	"fmt"
	"hash/fnv"
	"io"
	"log"
	"math"
	"os"
	"path/filepath"
	"sort"
	"strconv"
	"strings"
	"sync"
	"sync/atomic"
	"testing"

	"github.com/WuKongIM/WuKongIM/pkg/db/internal/dberrors"
	"github.com/WuKongIM/WuKongIM/pkg/db/internal/engine"
	"github.com/WuKongIM/WuKongIM/pkg/db/message"
	"github.com/WuKongIM/WuKongIM/pkg/zzverif/ev"
	"github.com/WuKongIM/WuKongIM/pkg/zzverif/mc"
)

// ---------------------------------------------------------------- menus

type c07Rec struct {
	id     int    // index into the 3-id menu (collides across records and channels)
	sender string // "" = sender-less
	no     string // "" = no client message number
	pay    int    // index into c07Payloads
}

// 3 message ids x 2 senders (one a prefix of the other) x 2 client numbers (one a prefix
// of the other) x 2 payloads (+ the empty payload as a boundary value).
var c07Payloads = [][]byte{[]byte("x"), {0x00, 0xff, 'y', 'y', 'y'}, {}}

var c07Menu = map[string]c07Rec{
	"m1": {1, "u", "n1", 0},
	"m2": {2, "u", "n1x", 1},
	"m3": {3, "ux", "n1", 0},
	"m4": {1, "ux", "n1x", 1}, // id of m1, other key
	"m5": {2, "u", "n1", 1},   // key of m1 (other payload), id of m2
	"m6": {3, "", "n1", 1},    // sender-less: sequence-suffixed client index
	"m7": {2, "ux", "", 0},    // no client number: sender-sequence index only
	"m0": {3, "ux", "n1x", 2}, // empty payload (boundary)
}

var c07Senders = []string{"u", "ux"}
var c07Nos = []string{"n1", "n1x"}

const c07TS = int64(1700000000000)

// ---------------------------------------------------------------- engine pool

type c07Backend struct {
	dir  string
	eng  *engine.DB
	uses int
}

var (
	c07PoolMu   sync.Mutex
	c07PoolFree []*c07Backend
	c07DirSeq   atomic.Uint64
	c07NS       atomic.Uint64
	c07Opens    atomic.Int64
)

const c07DirPrefix = "verif-C07-"

func c07EngineOptions() engine.Options {
	// tuning only: small arenas make Open cheap; nothing semantic depends on them
	return engine.Options{CacheSize: 8 << 20, MemTableSize: 8 << 20}
}

func c07NewDir() string {
	return filepath.Join("/dev/shm", fmt.Sprintf("%s%d-%d", c07DirPrefix, os.Getpid(), c07DirSeq.Add(1)))
}

func c07PrivateOptions() engine.Options {
	return engine.Options{CacheSize: 1 << 20, MemTableSize: 1 << 20} // tuning only
}

func c07OpenBackend() (*c07Backend, error) {
	dir := c07NewDir()
	eng, err := engine.Open(dir, c07EngineOptions())
	if err != nil {
		return nil, err
	}
	c07Opens.Add(1)
	return &c07Backend{dir: dir, eng: eng}, nil
}

func c07GetBackend() (*c07Backend, error) {
	c07PoolMu.Lock()
	if n := len(c07PoolFree); n > 0 {
		b := c07PoolFree[n-1]
		c07PoolFree = c07PoolFree[:n-1]
		c07PoolMu.Unlock()
		return b, nil
	}
	c07PoolMu.Unlock()
	return c07OpenBackend()
}

func c07PutBackend(b *c07Backend) {
	b.uses++
	if b.uses >= 1200 { // rotate before the memtable fills: keeps /dev/shm small
		_ = b.eng.Close()
		_ = os.RemoveAll(b.dir)
		return
	}
	c07PoolMu.Lock()
	c07PoolFree = append(c07PoolFree, b)
	c07PoolMu.Unlock()
}

func c07DrainPool() {
	c07PoolMu.Lock()
	defer c07PoolMu.Unlock()
	for _, b := range c07PoolFree {
		_ = b.eng.Close()
		_ = os.RemoveAll(b.dir)
	}
	c07PoolFree = nil
}

// c07SweepStale removes directories left by crashed earlier runs (dead pids only).
func c07SweepStale() {
	ents, err := os.ReadDir("/dev/shm")
	if err != nil {
		return
	}
	for _, e := range ents {
		name := e.Name()
		if !strings.HasPrefix(name, c07DirPrefix) {
			continue
		}
		rest := strings.TrimPrefix(name, c07DirPrefix)
		pid, _, _ := strings.Cut(rest, "-")
		if _, err := os.Stat("/proc/" + pid); err != nil {
			_ = os.RemoveAll(filepath.Join("/dev/shm", name))
		}
	}
}

// ---------------------------------------------------------------- model

type c07Row struct {
	seq     uint64
	id      uint64
	sender  string
	no      string
	payload []byte
}

type c07Loc struct {
	ch  int
	seq uint64
}

type c07Key struct{ sender, no string }

type c07Chan struct {
	name string
	key  message.ChannelKey
	cid  message.ChannelID
	log  *message.ChannelLog

	// reference log: rows holds the retained rows, contiguous start..leo
	rows    []c07Row
	leo     uint64
	start   uint64 // first sequence that may still be retained (physical trim boundary + 1)
	adopted uint64 // highest adopted retention boundary
	ckpt    *message.Checkpoint

	// bookkeeping used only to classify findings / count vacuity
	retainedMaxSeen   uint64 // highest LEO/boundary recorded by a trim
	truncBelowTrimLEO bool   // a suffix truncation cut below retainedMaxSeen
	removedIDs        map[uint64]bool
	removedKeys       map[c07Key]bool
}

type c07Cfg struct {
	name     string
	alphabet func(in *c07Inst) []string
}

type c07Inst struct {
	cfg     *c07Cfg
	be      *c07Backend
	private bool
	db      *message.MessageDB
	ns      uint64
	ch      [2]*c07Chan
	ids     map[uint64]c07Loc
	hist    []string
	kind    string // kind of the last event (for fingerprints)
	kind2   string // kind of the event before the current one
	initErr error
}

var c07Ctx = context.Background()

// vacuity counters
var (
	c07nAppendOK, c07nConflictID, c07nConflictKey, c07nConflictCross, c07nConflictBase atomic.Int64
	c07nTrusted, c07nTruncRemoved, c07nTrimRemoved, c07nTrimOver, c07nTrimPartial      atomic.Int64
	c07nReopenRows, c07nColdRows, c07nWarmRows, c07nPhysReopen                         atomic.Int64
	c07nRemovedIDMiss, c07nRemovedKeyMiss, c07nLookupHit, c07nChecks                   atomic.Int64
	c07nLimOver, c07nReopenPending, c07nPhysReopenPending, c07nAppendAfterPendingOver  atomic.Int64
)

func c07NewInst(cfg *c07Cfg) *c07Inst {
	in := &c07Inst{cfg: cfg, ids: map[uint64]c07Loc{}, ns: c07NS.Add(1)}
	be, err := c07GetBackend()
	if err != nil {
		in.initErr = err
		return in
	}
	in.be = be
	in.db = message.NewDB(be.eng)
	in.initChans()
	return in
}

func (in *c07Inst) initChans() {
	for i, n := range []string{"A", "B"} {
		k := fmt.Sprintf("v%d%s", in.ns, strings.ToLower(n))
		c := &c07Chan{name: n, key: message.ChannelKey(k), cid: message.ChannelID{ID: k, Type: 2}, start: 1,
			removedIDs: map[uint64]bool{}, removedKeys: map[c07Key]bool{}}
		in.ch[i] = c
	}
	in.acquire()
}

func (in *c07Inst) acquire() {
	for _, c := range in.ch {
		if c.log != nil {
			continue
		}
		l, err := in.db.Channel(c.key, c.cid)
		if err != nil {
			in.initErr = err
			return
		}
		c.log = l
	}
}

func (in *c07Inst) releaseLeases() {
	for _, c := range in.ch {
		if c != nil && c.log != nil {
			_ = c.log.Close()
			c.log = nil
		}
	}
}

func (in *c07Inst) Close() {
	if in.be == nil {
		return
	}
	in.releaseLeases()
	if in.private {
		_ = in.db.Close() // closes the private engine
		_ = os.RemoveAll(in.be.dir)
	} else {
		// the MessageDB is abandoned (closing it would close the pooled engine)
		c07PutBackend(in.be)
	}
	in.be = nil
}

func (in *c07Inst) msgID(idx int) uint64 { return in.ns*16 + uint64(idx) }

func (in *c07Inst) record(r c07Rec) message.Record {
	return message.Record{ID: in.msgID(r.id), ClientMsgNo: r.no, FromUID: r.sender,
		Payload: append([]byte(nil), c07Payloads[r.pay]...), ServerTimestampMS: c07TS + int64(r.id)}
}

func c07ChanIndex(s string) int {
	if s == "B" {
		return 1
	}
	return 0
}

func c07ParseRecs(s string) []c07Rec {
	var out []c07Rec
	for _, n := range strings.Split(s, "+") {
		r, ok := c07Menu[n]
		if !ok {
			panic("unknown record " + n)
		}
		out = append(out, r)
	}
	return out
}

// conflict decides what a strict (or trusted) append must do according to the reference
// log: "" = accepted, otherwise the reason it must be refused with ErrConflict.
func (in *c07Inst) conflict(ci int, recs []c07Rec, strict bool) string {
	c := in.ch[ci]
	seenID := map[uint64]bool{}
	seenKey := map[c07Key]bool{}
	for _, r := range recs {
		id := in.msgID(r.id)
		if seenID[id] {
			return "id-in-batch"
		}
		seenID[id] = true
		if strict {
			if loc, ok := in.ids[id]; ok {
				if loc.ch != ci {
					return "id-other-channel"
				}
				return "id"
			}
		}
		if r.sender != "" && r.no != "" {
			k := c07Key{r.sender, r.no}
			if seenKey[k] {
				return "key-in-batch"
			}
			seenKey[k] = true
			if strict {
				for _, row := range c.rows {
					if row.sender == r.sender && row.no == r.no {
						return "key"
					}
				}
			}
		}
	}
	return ""
}

func (in *c07Inst) modelAppend(ci int, recs []c07Rec) {
	c := in.ch[ci]
	for _, r := range recs {
		c.leo++
		id := in.msgID(r.id)
		c.rows = append(c.rows, c07Row{seq: c.leo, id: id, sender: r.sender, no: r.no, payload: c07Payloads[r.pay]})
		in.ids[id] = c07Loc{ci, c.leo}
	}
}

func (in *c07Inst) modelRemove(ci int, keep func(c07Row) bool) int {
	c := in.ch[ci]
	var kept []c07Row
	n := 0
	for _, row := range c.rows {
		if keep(row) {
			kept = append(kept, row)
			continue
		}
		n++
		delete(in.ids, row.id)
		c.removedIDs[row.id] = true
		if row.sender != "" && row.no != "" {
			c.removedKeys[c07Key{row.sender, row.no}] = true
		}
	}
	c.rows = kept
	return n
}

// ---------------------------------------------------------------- events

func (in *c07Inst) Events() []string {
	if in.initErr != nil {
		return nil
	}
	return in.cfg.alphabet(in)
}

func (in *c07Inst) last() string {
	if len(in.hist) == 0 {
		return ""
	}
	return in.hist[len(in.hist)-1]
}

// truncEvents lists the enabled suffix truncations of one channel: never below the adopted
// retention boundary (the compatibility layer refuses such cuts as corrupt state).
func (in *c07Inst) truncEvents(ci int, ks ...string) []string {
	c := in.ch[ci]
	var out []string
	for _, k := range ks {
		if f, ok := c.truncFrom(k); ok && f >= 1 && f <= c.leo && f-1 >= c.adopted {
			out = append(out, "tr:"+c.name+":"+k)
		}
	}
	return out
}

func (c *c07Chan) truncFrom(k string) (uint64, bool) {
	switch k {
	case "all":
		return 0, c.adopted == 0 && c.leo > 0 // TruncateFrom(0) is normalised to 1
	default:
		n, _ := strconv.Atoi(k)
		if uint64(n) > c.leo {
			return 0, false
		}
		return c.leo + 1 - uint64(n), true
	}
}

func (in *c07Inst) trimEvents(ci int, ks ...string) []string {
	c := in.ch[ci]
	var out []string
	for _, k := range ks {
		if _, ok := c.trimThrough(k); ok {
			out = append(out, "trim:"+c.name+":"+k)
		}
	}
	return out
}

func (c *c07Chan) trimThrough(k string) (uint64, bool) {
	switch k {
	case "all":
		return c.leo, len(c.rows) > 1
	case "over":
		return c.leo + 1, true
	case "lim":
		return c.leo, len(c.rows) > 0
	case "limover":
		// bounded trim (MaxMessages:1) through a boundary BEYOND the log end while at least
		// two rows are retained: the boundary is adopted, rows stay physically present
		return c.leo + 2, len(c.rows) >= 2
	default:
		n, _ := strconv.Atoi(k)
		t := c.start - 1 + uint64(n)
		return t, t <= c.leo && len(c.rows) > 0
	}
}

func (in *c07Inst) trustedEvents(ci int, labels ...string) []string {
	var out []string
	for _, l := range labels {
		p := strings.Split(l, ":")
		// trusted mode: the caller (the leader) has validated the rows, so the harness only
		// presents records that do not collide with the reference log
		if in.conflict(ci, c07ParseRecs(p[2]), true) == "" {
			out = append(out, l)
		}
	}
	return out
}

func c07AlphabetQuick(in *c07Inst) []string {
	a, b := in.ch[0], in.ch[1]
	evs := []string{"ap:A:m1", "ap:A:m2", "ap:A:m4", "ap:A:m5", "apb:A:m2+m3"}
	if a.leo <= 1 {
		evs = append(evs, "ap:A:m0")
	}
	evs = append(evs, in.trustedEvents(0, "af:A:m3")...)
	evs = append(evs, "ap:B:m1", "ap:B:m6")
	evs = append(evs, in.truncEvents(0, "1")...)
	evs = append(evs, in.trimEvents(0, "1", "all", "limover")...)
	evs = append(evs, in.truncEvents(1, "1")...)
	if a.leo > 0 {
		evs = append(evs, "ck:A")
		if in.last() != "lease:A" {
			evs = append(evs, "lease:A")
		}
		if in.last() != "reclaim:A" {
			evs = append(evs, "reclaim:A")
		}
	}
	if (a.leo > 0 || b.leo > 0) && in.last() != "reopen" {
		evs = append(evs, "reopen")
	}
	return evs
}

func c07AlphabetWide(in *c07Inst) []string {
	a, b := in.ch[0], in.ch[1]
	evs := []string{"ap:A:m1", "ap:A:m2", "ap:A:m3", "ap:A:m4", "ap:A:m5", "ap:A:m6", "ap:A:m7"}
	if a.leo <= 1 {
		evs = append(evs, "ap:A:m0")
	}
	evs = append(evs, "apb:A:m1+m2", "apb:A:m2+m5", "apb:A:m3+m1", "apx:A:m2", "apbad:A:m3")
	evs = append(evs, in.trustedEvents(0, "af:A:m3", "af:A:m6", "afc:A:m2")...)
	evs = append(evs, "afbad:A:m3")
	evs = append(evs, "ap:B:m1", "ap:B:m3", "ap:B:m5", "ap:B:m6")
	evs = append(evs, in.trustedEvents(1, "af:B:m2")...)
	evs = append(evs, in.truncEvents(0, "1", "2", "all")...)
	evs = append(evs, in.trimEvents(0, "1", "2", "all", "over", "lim", "limover")...)
	evs = append(evs, in.truncEvents(1, "1")...)
	evs = append(evs, in.trimEvents(1, "1")...)
	if a.leo > 0 {
		evs = append(evs, "ck:A")
		if in.last() != "lease:A" {
			evs = append(evs, "lease:A")
		}
		if in.last() != "reclaim:A" {
			evs = append(evs, "reclaim:A")
		}
	}
	if b.leo > 0 {
		if in.last() != "lease:B" {
			evs = append(evs, "lease:B")
		}
		if in.last() != "reclaim:B" {
			evs = append(evs, "reclaim:B")
		}
	}
	if (a.leo > 0 || b.leo > 0) && in.last() != "reopen" {
		evs = append(evs, "reopen")
	}
	return evs
}

// c07PhysicalFull selects the larger physical-reopen alphabet (thorough tier).
var c07PhysicalFull bool

// c07AlphabetPhysical: small alphabet around a REAL close + reopen of a private pebble
// database (at most one per path).
func c07AlphabetPhysical(in *c07Inst) []string {
	a, b := in.ch[0], in.ch[1]
	_ = b
	evs := []string{"ap:A:m1", "apb:A:m2+m3"}
	if c07PhysicalFull {
		evs = append(evs, "ap:A:m5", "ap:B:m1")
	}
	evs = append(evs, in.truncEvents(0, "1")...)
	evs = append(evs, in.trimEvents(0, "1", "all", "limover")...)
	if c07PhysicalFull {
		evs = append(evs, in.trimEvents(0, "lim")...)
	}
	if (a.leo > 0 || b.leo > 0) && !in.private {
		evs = append(evs, "reopen!")
	}
	return evs
}

// ---------------------------------------------------------------- apply

func c07IsConflict(err error) bool { return errors.Is(err, dberrors.ErrConflict) }

func (in *c07Inst) Apply(evl string, _ *mc.Env) (string, error) {
	if in.initErr != nil {
		return "", mc.Violatef("C07:harness-init", "cannot initialise instance: %v", in.initErr)
	}
	in.hist = append(in.hist, evl)
	in.kind2 = in.kind
	p := strings.Split(evl, ":")
	switch p[0] {
	case "ap", "apb", "apx", "apbad":
		return in.applyAppend(p)
	case "af", "afc", "afbad":
		return in.applyFetch(p)
	case "tr":
		return in.applyTruncate(p)
	case "trim":
		return in.applyTrim(p)
	case "ck":
		in.kind = "checkpoint"
		c := in.ch[c07ChanIndex(p[1])]
		cp := message.Checkpoint{Epoch: 1, LogStartOffset: 0, HW: c.leo}
		if err := c.log.StoreCheckpoint(c07Ctx, cp); err != nil {
			return "", mc.Violatef("C07:checkpoint-store-error", "%s: StoreCheckpoint(%+v): %v", evl, cp, err)
		}
		c.ckpt = &cp
		return "ck", nil
	case "lease", "reclaim":
		c := in.ch[c07ChanIndex(p[1])]
		in.kind = p[0]
		if p[0] == "reclaim" {
			old := message.VerifSetWarmCapacity(in.db, 0)
			_ = c.log.Close()
			message.VerifSetWarmCapacity(in.db, old)
			if len(c.rows) > 0 {
				c07nColdRows.Add(1)
			}
		} else {
			_ = c.log.Close()
			if len(c.rows) > 0 {
				c07nWarmRows.Add(1)
			}
		}
		// a closed lease must refuse work
		if _, err := c.log.LEO(c07Ctx); !errors.Is(err, dberrors.ErrClosed) {
			return "", mc.Violatef("C07:closed-lease-usable", "%s: LEO on a closed lease returned %v, want ErrClosed", evl, err)
		}
		c.log = nil
		in.acquire()
		if in.initErr != nil {
			return "", mc.Violatef("C07:reacquire-error", "%s: cannot re-acquire: %v", evl, in.initErr)
		}
		return p[0], nil
	case "reopen":
		// logical reopen: every piece of in-memory state of the message layer (registry,
		// LEO caches, filters, warm cache) is dropped by building a new MessageDB over the
		// still-open engine; durable state is whatever the layer wrote.
		in.kind = "reopen"
		if len(in.ch[0].rows)+len(in.ch[1].rows) > 0 {
			c07nReopenRows.Add(1)
		}
		if in.pendingBeyond() {
			c07nReopenPending.Add(1)
		}
		in.releaseLeases()
		in.db = message.NewDB(in.be.eng)
		in.acquire()
		if in.initErr != nil {
			return "", mc.Violatef("C07:reacquire-error", "%s: cannot re-acquire: %v", evl, in.initErr)
		}
		return "reopen", nil
	case "reopen!":
		return in.applyPhysicalReopen(evl)
	}
	panic("unknown event " + evl)
}

func (in *c07Inst) applyAppend(p []string) (string, error) {
	evl := strings.Join(p, ":")
	in.kind = "append"
	ci := c07ChanIndex(p[1])
	c := in.ch[ci]
	recs := c07ParseRecs(p[2])
	opts := message.AppendOptions{Mode: message.AppendStrict}
	want := in.conflict(ci, recs, true)
	switch p[0] {
	case "apx":
		opts.BaseSeq = c.leo + 1
	case "apbad":
		opts.BaseSeq = c.leo + 2
		want = "base"
	}
	in2 := make([]message.Record, len(recs))
	for i, r := range recs {
		in2[i] = in.record(r)
	}
	res, err := c.log.Append(c07Ctx, in2, opts)
	if want != "" {
		if err == nil {
			return "", mc.Violatef("C07:append-accepted-"+c07WantClass(want), "%s: accepted (%+v) but the reference log refuses it (%s)", evl, res, want)
		}
		if !c07IsConflict(err) {
			return "", mc.Violatef("C07:append-wrong-error", "%s: error %v, want ErrConflict (%s)", evl, err, want)
		}
		switch want {
		case "id", "id-in-batch":
			c07nConflictID.Add(1)
		case "id-other-channel":
			c07nConflictCross.Add(1)
		case "key", "key-in-batch":
			c07nConflictKey.Add(1)
		case "base":
			c07nConflictBase.Add(1)
		}
		return "append-refused:" + want, nil
	}
	if err != nil {
		return "", mc.Violatef("C07:append-refused-valid", "%s: refused with %v but the reference log accepts it", evl, err)
	}
	wantRes := message.AppendResult{BaseSeq: c.leo + 1, LastSeq: c.leo + uint64(len(recs)), Count: len(recs)}
	if res != wantRes {
		return "", mc.Violatef("C07:append-result-mismatch", "%s: result %+v, want %+v (sequences must be contiguous from LEO+1)", evl, res, wantRes)
	}
	if in.kind2 == "reopen" && in.pendingBeyond() {
		c07nAppendAfterPendingOver.Add(1)
	}
	in.modelAppend(ci, recs)
	c07nAppendOK.Add(1)
	return "append-ok:" + strconv.Itoa(len(recs)), nil
}

func c07WantClass(want string) string {
	switch want {
	case "base":
		return "wrong-base"
	case "key", "key-in-batch":
		return "duplicate-key"
	default:
		return "duplicate-id"
	}
}

func (in *c07Inst) applyFetch(p []string) (string, error) {
	evl := strings.Join(p, ":")
	in.kind = "applyfetch"
	ci := c07ChanIndex(p[1])
	c := in.ch[ci]
	recs := c07ParseRecs(p[2])
	req := message.ApplyFetchRequest{BaseSeq: c.leo + 1}
	for _, r := range recs {
		req.Records = append(req.Records, in.record(r))
	}
	want := in.conflict(ci, recs, false) // in-batch duplicates only (none in the menu)
	switch p[0] {
	case "afbad":
		req.BaseSeq = c.leo + 2
		want = "base"
	case "afc":
		req.Checkpoint = &message.Checkpoint{Epoch: 1, LogStartOffset: 0, HW: c.leo + uint64(len(recs))}
	}
	res, err := c.log.ApplyFetch(c07Ctx, req)
	if want != "" {
		if err == nil {
			return "", mc.Violatef("C07:applyfetch-accepted-"+c07WantClass(want), "%s: accepted (%+v), want ErrConflict (%s)", evl, res, want)
		}
		if !c07IsConflict(err) {
			return "", mc.Violatef("C07:applyfetch-wrong-error", "%s: error %v, want ErrConflict (%s)", evl, err, want)
		}
		c07nConflictBase.Add(1)
		return "apply-refused:" + want, nil
	}
	if req.Checkpoint != nil && c.ckpt != nil && req.Checkpoint.HW < c.ckpt.HW {
		// documented: a follower apply must not regress the durable checkpoint
		if !errors.Is(err, dberrors.ErrCorruptState) {
			return "", mc.Violatef("C07:applyfetch-checkpoint-regression-accepted", "%s: checkpoint HW %d below stored %d: got %v, want ErrCorruptState", evl, req.Checkpoint.HW, c.ckpt.HW, err)
		}
		return "apply-refused:checkpoint-regression", nil
	}
	if err != nil {
		return "", mc.Violatef("C07:applyfetch-refused-valid", "%s: refused with %v", evl, err)
	}
	wantRes := message.AppendResult{BaseSeq: c.leo + 1, LastSeq: c.leo + uint64(len(recs)), Count: len(recs)}
	if res != wantRes {
		return "", mc.Violatef("C07:applyfetch-result-mismatch", "%s: result %+v, want %+v", evl, res, wantRes)
	}
	in.modelAppend(ci, recs)
	if req.Checkpoint != nil {
		cp := *req.Checkpoint
		c.ckpt = &cp
	}
	c07nTrusted.Add(1)
	return "apply-ok", nil
}

func (in *c07Inst) applyTruncate(p []string) (string, error) {
	evl := strings.Join(p, ":")
	in.kind = "truncate"
	ci := c07ChanIndex(p[1])
	c := in.ch[ci]
	from, _ := c.truncFrom(p[2])
	if err := c.log.TruncateFrom(c07Ctx, from); err != nil {
		return "", mc.Violatef("C07:truncate-error", "%s: TruncateFrom(%d): %v", evl, from, err)
	}
	if from == 0 {
		from = 1
	}
	if from <= c.leo {
		n := in.modelRemove(ci, func(r c07Row) bool { return r.seq < from })
		c.leo = from - 1
		if n > 0 {
			c07nTruncRemoved.Add(1)
		}
		if c.retainedMaxSeen > c.leo {
			c.truncBelowTrimLEO = true
		}
	}
	return "truncate", nil
}

func (in *c07Inst) applyTrim(p []string) (string, error) {
	evl := strings.Join(p, ":")
	in.kind = "trim"
	ci := c07ChanIndex(p[1])
	c := in.ch[ci]
	through, _ := c.trimThrough(p[2])
	var (
		res message.RetentionTrimResult
		err error
	)
	want := message.RetentionTrimResult{}
	if p[2] == "lim" || p[2] == "limover" {
		res, err = c.log.TrimPrefixThroughLimit(c07Ctx, through, message.RetentionTrimOptions{MaxMessages: 1})
		cand := 0
		for _, r := range c.rows {
			if r.seq <= through {
				cand++
			}
		}
		if cand > 0 {
			first := c.rows[0].seq
			in.modelRemove(ci, func(r c07Row) bool { return r.seq != first })
			want.Deleted, want.DeletedThroughSeq = 1, first
			if cand > 1 {
				want.More = true
				c.start = first + 1
				c07nTrimPartial.Add(1)
				if through > c.leo {
					c07nLimOver.Add(1)
				}
			} else {
				c.start = through + 1
			}
			c07nTrimRemoved.Add(1)
		} else if through+1 > c.start {
			c.start = through + 1
		}
	} else {
		res, err = c.log.TrimPrefixThrough(c07Ctx, through)
		var last uint64
		for _, r := range c.rows {
			if r.seq <= through {
				last = r.seq
			}
		}
		n := in.modelRemove(ci, func(r c07Row) bool { return r.seq > through })
		want.Deleted, want.DeletedThroughSeq = n, last
		if n > 0 {
			c07nTrimRemoved.Add(1)
		}
		if through+1 > c.start {
			c.start = through + 1
		}
	}
	if err != nil {
		return "", mc.Violatef("C07:trim-error", "%s: trim through %d: %v", evl, through, err)
	}
	if through > c.adopted {
		c.adopted = through
	}
	if c.leo > c.retainedMaxSeen {
		c.retainedMaxSeen = c.leo
	}
	if through > c.leo {
		// adopting a boundary beyond the log end moves the log end (documented:
		// RetainedMaxSeq "preserves LEO"; the next append continues after the boundary)
		c.leo = through
		c07nTrimOver.Add(1)
	}
	if through > c.retainedMaxSeen {
		c.retainedMaxSeen = through
	}
	if res != want {
		return "", mc.Violatef("C07:trim-result-mismatch", "%s: result %+v, want %+v", evl, res, want)
	}
	return fmt.Sprintf("trim:%d:%v", res.Deleted, res.More), nil
}

// applyPhysicalReopen re-executes this path's history on a private database, really closes
// it (MessageDB.Close closes pebble) and opens it again.
func (in *c07Inst) applyPhysicalReopen(evl string) (string, error) {
	dir := c07NewDir()
	eng, err := engine.Open(dir, c07PrivateOptions())
	if err != nil {
		return "", mc.Violatef("C07:harness-init", "cannot open private database: %v", err)
	}
	c07Opens.Add(1)
	sub := &c07Inst{cfg: in.cfg, ids: map[uint64]c07Loc{}, ns: in.ns, be: &c07Backend{dir: dir, eng: eng}, private: true}
	sub.db = message.NewDB(eng)
	sub.initChans()
	for _, h := range in.hist[:len(in.hist)-1] {
		if _, err := sub.Apply(h, nil); err != nil {
			sub.Close()
			return "", mc.Violatef("C07:private-replay-diverged", "%s: re-executing %q on a private database failed: %v", evl, h, err)
		}
	}
	sub.releaseLeases()
	if err := sub.db.Close(); err != nil {
		sub.Close()
		return "", mc.Violatef("C07:database-close-error", "%s: MessageDB.Close: %v", evl, err)
	}
	eng, err = engine.Open(dir, c07PrivateOptions())
	if err != nil {
		_ = os.RemoveAll(dir)
		return "", mc.Violatef("C07:database-reopen-error", "%s: reopen: %v", evl, err)
	}
	sub.be.eng = eng
	sub.db = message.NewDB(eng)
	sub.acquire()
	if sub.initErr != nil {
		sub.Close()
		return "", mc.Violatef("C07:reacquire-error", "%s: cannot re-acquire: %v", evl, sub.initErr)
	}
	// switch over: the pooled engine goes back, the private one is ours from now on
	hist := in.hist
	in.releaseLeases()
	c07PutBackend(in.be)
	*in = *sub
	in.hist = hist
	in.kind = "reopen"
	c07nPhysReopen.Add(1)
	if in.pendingBeyond() {
		c07nPhysReopenPending.Add(1)
	}
	return "reopen!", nil
}

// pendingBeyond reports that some channel still holds rows although its adopted retention
// boundary lies beyond its newest row (the recovered log end must come from the retention
// state, not from the newest surviving row).
func (in *c07Inst) pendingBeyond() bool {
	for _, c := range in.ch {
		if n := len(c.rows); n > 0 && c.adopted > c.rows[n-1].seq {
			return true
		}
	}
	return false
}

func (in *c07Inst) Canon() string { return "" }

// ---------------------------------------------------------------- oracle

func c07Hash(p []byte) uint64 {
	h := fnv.New64a()
	_, _ = h.Write(p)
	return h.Sum64()
}

func (c *c07Chan) want(r c07Row) message.Message {
	return message.Message{MessageSeq: r.seq, MessageID: r.id, ChannelID: c.cid.ID, ChannelType: c.cid.Type,
		ClientMsgNo: r.no, FromUID: r.sender, PayloadHash: c07Hash(r.payload), Payload: r.payload,
		ServerTimestampMS: c07TS + int64(r.id%16)}
}

func c07MsgEq(got, want message.Message) bool {
	return got.MessageSeq == want.MessageSeq && got.MessageID == want.MessageID && got.ChannelID == want.ChannelID &&
		got.ChannelType == want.ChannelType && got.ClientMsgNo == want.ClientMsgNo && got.FromUID == want.FromUID &&
		got.PayloadHash == want.PayloadHash && bytes.Equal(got.Payload, want.Payload) && got.ServerTimestampMS == want.ServerTimestampMS
}

func c07MsgsEq(got []message.Message, want []message.Message) bool {
	if len(got) != len(want) {
		return false
	}
	for i := range got {
		if !c07MsgEq(got[i], want[i]) {
			return false
		}
	}
	return true
}

func c07Brief(ms []message.Message) string {
	var b strings.Builder
	b.WriteString("[")
	for i, m := range ms {
		if i > 0 {
			b.WriteString(" ")
		}
		fmt.Fprintf(&b, "%d:id%d:%s/%s:%dB", m.MessageSeq, m.MessageID%16, m.FromUID, m.ClientMsgNo, len(m.Payload))
	}
	b.WriteString("]")
	return b.String()
}

// wantRead mirrors the documented ReadOptions semantics on the reference log.
func (c *c07Chan) wantRead(from uint64, opts message.ReadOptions) []message.Message {
	var out []message.Message
	total := 0
	for _, r := range c.rows {
		if r.seq < from {
			continue
		}
		if opts.MaxBytes > 0 && len(out) > 0 && total+len(r.payload) > opts.MaxBytes {
			break
		}
		out = append(out, c.want(r))
		total += len(r.payload)
		if opts.Limit > 0 && len(out) >= opts.Limit {
			break
		}
	}
	return out
}

func (c *c07Chan) wantReadReverse(from uint64, opts message.ReadOptions) []message.Message {
	if from == 0 {
		from = c.leo
	}
	var out []message.Message
	total := 0
	for i := len(c.rows) - 1; i >= 0; i-- {
		r := c.rows[i]
		if from != 0 && r.seq > from {
			continue
		}
		if opts.MaxBytes > 0 && len(out) > 0 && total+len(r.payload) > opts.MaxBytes {
			break
		}
		out = append(out, c.want(r))
		total += len(r.payload)
		if opts.Limit > 0 && len(out) >= opts.Limit {
			break
		}
	}
	return out
}

func (in *c07Inst) fp(api, what string) string {
	k := in.kind
	if k == "" {
		k = "start"
	}
	return "C07:" + api + "-" + what + "-after-" + k
}

func (in *c07Inst) Check() error {
	if in.initErr != nil {
		return mc.Violatef("C07:harness-init", "cannot initialise instance: %v", in.initErr)
	}
	c07nChecks.Add(1)
	for ci := range in.ch {
		if err := in.checkChan(ci); err != nil {
			return err
		}
	}
	return nil
}

func (in *c07Inst) checkChan(ci int) error {
	c := in.ch[ci]
	l := c.log
	where := fmt.Sprintf("channel %s (model: start=%d leo=%d rows=%d)", c.name, c.start, c.leo, len(c.rows))

	// boundary finding: a row with an empty payload is accepted but cannot be read back
	for _, r := range c.rows {
		if len(r.payload) == 0 {
			if _, _, err := l.GetBySeq(c07Ctx, r.seq); errors.Is(err, dberrors.ErrCorruptState) {
				return mc.Violatef("C07:empty-payload-row-unreadable", "%s: Append accepted a record with an empty payload at seq %d, GetBySeq now fails: %v", where, r.seq, err)
			}
		}
	}

	// ---- log end
	leo, err := l.LEO(c07Ctx)
	if err != nil {
		return mc.Violatef(in.fp("LEO", "error"), "%s: LEO: %v", where, err)
	}
	if leo != c.leo {
		if leo > c.leo && c.truncBelowTrimLEO && leo <= c.retainedMaxSeen {
			return mc.Violatef("C07:leo-resurrected-after-truncate-below-retained-max",
				"%s: LEO=%d after %s, the reference log ends at %d: a suffix truncation after a prefix trim left RetainedMaxSeq=%d in the retention state and the log end grew back", where, leo, in.kind, c.leo, c.retainedMaxSeen)
		}
		return mc.Violatef(in.fp("LEO", "mismatch"), "%s: LEO=%d, want %d", where, leo, c.leo)
	}

	// ---- forward reads
	type rd struct {
		from uint64
		opts message.ReadOptions
	}
	reads := []rd{{0, message.ReadOptions{}}, {1, message.ReadOptions{Limit: 1}}, {0, message.ReadOptions{MaxBytes: 2}}, {c.leo + 1, message.ReadOptions{}}}
	if len(c.rows) >= 2 {
		reads = append(reads, rd{c.rows[1].seq, message.ReadOptions{}}, rd{c.start, message.ReadOptions{MaxBytes: 6}})
	}
	for _, q := range reads {
		got, err := l.Read(c07Ctx, q.from, q.opts)
		if err != nil {
			return mc.Violatef(in.fp("Read", "error"), "%s: Read(%d,%+v): %v", where, q.from, q.opts, err)
		}
		from := q.from
		if from == 0 {
			from = 1
		}
		if want := c.wantRead(from, q.opts); !c07MsgsEq(got, want) {
			return mc.Violatef(in.fp("Read", "mismatch"), "%s: Read(%d,%+v)=%s, want %s", where, q.from, q.opts, c07Brief(got), c07Brief(want))
		}
	}
	// contiguity of the full read, stated directly
	if all, err := l.Read(c07Ctx, 1, message.ReadOptions{}); err == nil {
		if msg := c07Contiguous(c.start, c.adopted, c.leo, len(all), func(i int) uint64 { return all[i].MessageSeq }); msg != "" {
			return mc.Violatef(in.fp("Read", "not-contiguous"), "%s: full read %s: %s", where, c07Brief(all), msg)
		}
	}

	// ---- reverse reads
	rreads := []rd{{0, message.ReadOptions{}}, {0, message.ReadOptions{Limit: 1}}, {0, message.ReadOptions{MaxBytes: 2}}}
	if c.leo >= 2 {
		rreads = append(rreads, rd{c.leo - 1, message.ReadOptions{}})
	}
	for _, q := range rreads {
		got, err := l.ReadReverse(c07Ctx, q.from, q.opts)
		if err != nil {
			return mc.Violatef(in.fp("ReadReverse", "error"), "%s: ReadReverse(%d,%+v): %v", where, q.from, q.opts, err)
		}
		if want := c.wantReadReverse(q.from, q.opts); !c07MsgsEq(got, want) {
			return mc.Violatef(in.fp("ReadReverse", "mismatch"), "%s: ReadReverse(%d,%+v)=%s, want %s", where, q.from, q.opts, c07Brief(got), c07Brief(want))
		}
	}

	// ---- point reads by sequence (1..leo+1, bounded)
	bySeq := map[uint64]c07Row{}
	for _, r := range c.rows {
		bySeq[r.seq] = r
	}
	top := c.leo + 1
	if top > 7 {
		top = 7
	}
	for s := uint64(1); s <= top; s++ {
		got, ok, err := l.GetBySeq(c07Ctx, s)
		if err != nil {
			return mc.Violatef(in.fp("GetBySeq", "error"), "%s: GetBySeq(%d): %v", where, s, err)
		}
		r, has := bySeq[s]
		if ok != has || (ok && !c07MsgEq(got, c.want(r))) {
			return mc.Violatef(in.fp("GetBySeq", "mismatch"), "%s: GetBySeq(%d)=%s,%v; reference has=%v", where, s, c07Brief([]message.Message{got}), ok, has)
		}
	}
	if len(c.rows) > 0 {
		got, ok, err := l.GetLastVisibleMessage(c07Ctx, 0)
		if err != nil || !ok || !c07MsgEq(got, c.want(c.rows[len(c.rows)-1])) {
			return mc.Violatef(in.fp("GetLastVisibleMessage", "mismatch"), "%s: GetLastVisibleMessage(0)=%s,%v,%v", where, c07Brief([]message.Message{got}), ok, err)
		}
	}

	// ---- lookups by message id (whole id menu, both directions across channels)
	for idx := 1; idx <= 3; idx++ {
		id := in.msgID(idx)
		got, ok, err := l.GetByMessageID(c07Ctx, id)
		if err != nil {
			return mc.Violatef(in.fp("GetByMessageID", "error"), "%s: GetByMessageID(id%d): %v", where, idx, err)
		}
		loc, stored := in.ids[id]
		here := stored && loc.ch == ci
		if ok != here {
			what := "mismatch"
			if ok && !stored {
				what = "returns-removed-row"
			}
			return mc.Violatef(in.fp("GetByMessageID", what), "%s: GetByMessageID(id%d) found=%v (%s), reference stored-here=%v", where, idx, ok, c07Brief([]message.Message{got}), here)
		}
		if ok {
			if !c07MsgEq(got, c.want(bySeq[loc.seq])) {
				return mc.Violatef(in.fp("GetByMessageID", "different-row"), "%s: GetByMessageID(id%d)=%s, want %s", where, idx, c07Brief([]message.Message{got}), c07Brief([]message.Message{c.want(bySeq[loc.seq])}))
			}
			c07nLookupHit.Add(1)
		} else if c.removedIDs[id] && !stored {
			c07nRemovedIDMiss.Add(1)
		}
	}

	// ---- lookups by client message number
	for _, no := range c07Nos {
		var want []message.Message
		for i := len(c.rows) - 1; i >= 0; i-- {
			if c.rows[i].no == no {
				want = append(want, c.want(c.rows[i]))
			}
		}
		page, err := l.ListByClientMsgNo(c07Ctx, no, 0, 10)
		if err != nil {
			return mc.Violatef(in.fp("ListByClientMsgNo", "error"), "%s: ListByClientMsgNo(%q): %v", where, no, err)
		}
		if !c07MsgsEq(page.Messages, want) || page.HasMore {
			return mc.Violatef(in.fp("ListByClientMsgNo", "mismatch"), "%s: ListByClientMsgNo(%q)=%s more=%v, want %s", where, no, c07Brief(page.Messages), page.HasMore, c07Brief(want))
		}
		if len(want) >= 1 {
			// page of one, strictly before the newest match
			before := want[0].MessageSeq
			page, err := l.ListByClientMsgNo(c07Ctx, no, before, 1)
			if err != nil {
				return mc.Violatef(in.fp("ListByClientMsgNo", "error"), "%s: ListByClientMsgNo(%q,before=%d,1): %v", where, no, before, err)
			}
			rest := want[1:]
			wantPage := rest
			wantMore := false
			var wantNext uint64
			if len(rest) > 1 {
				wantPage, wantMore, wantNext = rest[:1], true, rest[0].MessageSeq
			}
			if !c07MsgsEq(page.Messages, wantPage) || page.HasMore != wantMore || page.NextBeforeSeq != wantNext {
				return mc.Violatef(in.fp("ListByClientMsgNo", "page-mismatch"), "%s: ListByClientMsgNo(%q,before=%d,1)=%s more=%v next=%d, want %s more=%v next=%d", where, no, before, c07Brief(page.Messages), page.HasMore, page.NextBeforeSeq, c07Brief(wantPage), wantMore, wantNext)
			}
		}
	}

	// ---- lookups by (sender, client message number)
	for _, s := range c07Senders {
		for _, no := range c07Nos {
			hit, ok, err := l.LookupIdempotency(c07Ctx, message.IdempotencyKey{FromUID: s, ClientMsgNo: no})
			if err != nil {
				return mc.Violatef(in.fp("LookupIdempotency", "error"), "%s: LookupIdempotency(%s,%s): %v", where, s, no, err)
			}
			var rows []c07Row
			for _, r := range c.rows {
				if r.sender == s && r.no == no {
					rows = append(rows, r)
				}
			}
			if len(rows) > 1 {
				return mc.Violatef("C07:reference-log-holds-duplicate-key", "%s: harness bug: reference log holds (%s,%s) twice", where, s, no)
			}
			if ok != (len(rows) == 1) {
				what := "mismatch"
				if ok {
					what = "returns-removed-row"
				}
				return mc.Violatef(in.fp("LookupIdempotency", what), "%s: LookupIdempotency(%s,%s) found=%v hit=%+v, reference rows=%d", where, s, no, ok, hit, len(rows))
			}
			if ok {
				r := rows[0]
				want := message.IdempotencyHit{MessageSeq: r.seq, MessageID: r.id, Offset: r.seq - 1, PayloadHash: c07Hash(r.payload)}
				if hit != want {
					return mc.Violatef(in.fp("LookupIdempotency", "different-row"), "%s: LookupIdempotency(%s,%s)=%+v, want %+v", where, s, no, hit, want)
				}
				c07nLookupHit.Add(1)
			} else if c.removedKeys[c07Key{s, no}] {
				c07nRemovedKeyMiss.Add(1)
			}
		}
	}

	// ---- lookups by sender sequence
	for _, s := range c07Senders {
		throughs := []uint64{math.MaxUint64}
		if c.leo >= 1 {
			throughs = append(throughs, c.leo)
		}
		if c.leo >= 2 {
			throughs = append(throughs, c.leo-1)
		}
		for _, th := range throughs {
			got, ok, err := l.GetLastSenderMessageSeq(c07Ctx, s, th)
			if err != nil {
				return mc.Violatef(in.fp("GetLastSenderMessageSeq", "error"), "%s: GetLastSenderMessageSeq(%s,%d): %v", where, s, th, err)
			}
			var want uint64
			for _, r := range c.rows {
				if r.sender == s && r.seq <= th {
					want = r.seq
				}
			}
			if ok != (want != 0) || got != want {
				what := "mismatch"
				if ok && got != want {
					if _, live := bySeq[got]; !live {
						what = "returns-removed-row"
					}
				}
				return mc.Violatef(in.fp("GetLastSenderMessageSeq", what), "%s: GetLastSenderMessageSeq(%s,%d)=%d,%v, want %d", where, s, th, got, ok, want)
			}
		}
	}

	// ---- checkpoint is independent of the log
	cp, ok, err := l.LoadCheckpoint(c07Ctx)
	if err != nil {
		return mc.Violatef(in.fp("LoadCheckpoint", "error"), "%s: LoadCheckpoint: %v", where, err)
	}
	if ok != (c.ckpt != nil) || (ok && cp != *c.ckpt) {
		return mc.Violatef(in.fp("LoadCheckpoint", "mismatch"), "%s: LoadCheckpoint=%+v,%v, want %+v", where, cp, ok, c.ckpt)
	}
	return nil
}

// c07Contiguous states contiguity directly: rows at or below the adopted retention boundary
// (logically trimmed, physical deletion may be pending) ascend from the physical start;
// every sequence above the boundary up to the log end is present exactly once.
func c07Contiguous(start, adopted, leo uint64, n int, seq func(int) uint64) string {
	next := start
	i := 0
	for ; i < n && seq(i) <= adopted; i++ {
		// (boundaries adopted beyond the log end leave sequence ranges that never held rows,
		// so below the boundary only "ascending, not below the physical start" is claimed)
		if seq(i) < next {
			return fmt.Sprintf("row %d below the retention boundary has sequence %d, want >= %d", i, seq(i), next)
		}
		next = seq(i) + 1
	}
	want := adopted + 1
	if start > want {
		want = start
	}
	for ; i < n; i++ {
		if seq(i) != want {
			return fmt.Sprintf("row %d above the retention boundary has sequence %d, want %d", i, seq(i), want)
		}
		want++
	}
	if leo >= want {
		return fmt.Sprintf("rows end at %d but the log end is %d", want-1, leo)
	}
	return ""
}

// ---------------------------------------------------------------- test

func TestVerifC07(t *testing.T) {
	log.SetOutput(io.Discard) // pebble's default logger reports every WAL replay
	r := ev.Start(t, "C07")
	defer r.Finish()
	c07SweepStale()
	defer c07DrainPool()

	type sys struct {
		cfg   *c07Cfg
		depth int
		run   bool
		bound map[string]any
	}
	th := r.Thorough()
	c07PhysicalFull = th
	systems := []sys{
		{&c07Cfg{"store-main", c07AlphabetQuick}, ev.Pick(r, 4, 5), true, map[string]any{"alphabet": "quick (<=19 events/state)"}},
		{&c07Cfg{"store-wide", c07AlphabetWide}, ev.Pick(r, 3, 4), true, map[string]any{"alphabet": "wide (<=41 events/state)"}},
		{&c07Cfg{"store-physical-reopen", c07AlphabetPhysical}, ev.Pick(r, 5, 5), true, map[string]any{"alphabet": "physical (quick <=7, thorough <=10 events/state; includes the bounded trim through a boundary beyond the log end), real close+open of a private pebble database, at most once per path"}},
	}
	_ = th
	var keys []string
	for k := range c07Menu {
		keys = append(keys, k)
	}
	sort.Strings(keys)
	var total mc.Result
	for _, s := range systems {
		if !s.run {
			continue
		}
		cfg := s.cfg
		b := map[string]any{"channels": 2, "message_ids": 3, "senders": c07Senders, "client_numbers": c07Nos, "payloads": len(c07Payloads), "records": keys}
		for k, v := range s.bound {
			b[k] = v
		}
		res := mc.Run(r, mc.System{
			Name:       cfg.name,
			New:        func() mc.Instance { return c07NewInst(cfg) },
			MaxDepth:   s.depth,
			ShardDepth: 2,
			Bounds:     b,
			Note:       "no state merging (hidden caches are state): every event sequence up to the depth bound; full read/lookup comparison against the reference log in every state",
		})
		total.States += res.States
		total.Transitions += res.Transitions
		total.Outcomes += res.Outcomes
	}
	if r.Replay() != nil {
		return
	}
	g := func(name string, v *atomic.Int64, min int64) {
		r.Guard(name, v.Load() >= min, "%s=%d (need >=%d)", name, v.Load(), min)
		r.Count(name, v.Load())
	}
	g("appends-accepted", &c07nAppendOK, 100)
	g("appends-refused-duplicate-id", &c07nConflictID, 10)
	g("appends-refused-duplicate-id-other-channel", &c07nConflictCross, 10)
	g("appends-refused-duplicate-key", &c07nConflictKey, 10)
	g("appends-refused-wrong-base", &c07nConflictBase, 1)
	g("trusted-applies", &c07nTrusted, 10)
	g("truncations-removing-rows", &c07nTruncRemoved, 10)
	g("trims-removing-rows", &c07nTrimRemoved, 10)
	g("trims-beyond-log-end", &c07nTrimOver, 1)
	g("partial-trims", &c07nTrimPartial, 1)
	g("bounded-trims-beyond-log-end-leaving-rows", &c07nLimOver, 10)
	g("logical-reopens-with-rows-below-a-boundary-beyond-the-log-end", &c07nReopenPending, 5)
	g("physical-reopens-with-rows-below-a-boundary-beyond-the-log-end", &c07nPhysReopenPending, 5)
	g("appends-right-after-such-a-reopen", &c07nAppendAfterPendingOver, 5)
	g("logical-reopens-with-rows", &c07nReopenRows, 10)
	g("physical-reopens", &c07nPhysReopen, 10)
	g("cold-lease-reacquisitions-with-rows", &c07nColdRows, 10)
	g("warm-lease-reacquisitions-with-rows", &c07nWarmRows, 10)
	g("lookups-of-removed-ids-answered-not-found", &c07nRemovedIDMiss, 10)
	g("lookups-of-removed-keys-answered-not-found", &c07nRemovedKeyMiss, 10)
	g("lookups-hit", &c07nLookupHit, 100)
	r.Count("states-fully-compared", c07nChecks.Load())
	r.Count("pebble-opens", c07Opens.Load())
	r.Guard("state-space-nontrivial", total.States >= 1000, "states=%d", total.States)
	r.Assume("trusted follower applies (ApplyFetch) only carry rows the leader validated: the harness presents only records that do not collide with the reference log")
	r.Assume("suffix truncations never cut below the adopted retention boundary (the compatibility layer refuses such cuts as corrupt state)")
	r.Assume("a prefix trim through a sequence beyond the log end moves the log end to that boundary (RetainedMaxSeq is documented to preserve LEO)")
	r.Assume("logical reopen = new MessageDB over the still-open pebble engine (all message-layer memory dropped); a real close+open is explored in system store-physical-reopen; pebble itself is trusted")
	r.Assume("cold lease re-acquisition uses a test seam that makes the registry's warm cache (8192 keys) behave as already evicted for that one release")
}
