package message

// C07/C08 seam (in-package test file, the only place that touches unexported state).
//
// The registry keeps the append state of reclaimed entries in a warm cache of 8192 keys,
// so a black-box harness can only drop that state by reclaiming 8192 other channels
// (measured: ~120 ms). This seam lets the harness make ONE lease release behave as if the
// warm cache had already evicted the key, which is the "entry reclamation" of the property.

// VerifSetWarmCapacity sets the warm-cache capacity of db's registry and returns the
// previous value.
func VerifSetWarmCapacity(db *MessageDB, n int) int {
	r := db.registry
	r.mu.Lock()
	defer r.mu.Unlock()
	old := r.maxWarmEntries
	r.maxWarmEntries = n
	return old
}
