package hashslot_test

// C21 / run "hashslot": pkg/hashslot.HashSlotForKey (stdlib crc32.ChecksumIEEE modulo count)
// against the independent bitwise reference.

import (
	"testing"

	"github.com/WuKongIM/WuKongIM/pkg/hashslot"
	"github.com/WuKongIM/WuKongIM/pkg/zzverif/ev"
	c21 "github.com/WuKongIM/WuKongIM/pkg/zzverifc21"
)

func TestVerifC21Hashslot(t *testing.T) {
	r := ev.Start(t, "C21")
	defer r.Finish()
	c21.Run(r, "hashslot", []c21.Component{
		{Name: "hashslot.HashSlotForKey", New: func() c21.Fn { return hashslot.HashSlotForKey }},
	}, nil, c21.Options{KeysAllCountsQuick: 512, KeysAllCountsThorough: 8192})
}
