// Package c21 is the shared part of the C21 harness (virtual package, injected by the
// overlay at pkg/zzverifc21). It holds the key/count menus, the independent table-free
// bitwise CRC-32/IEEE reference and the bounded-exhaustive driver; every run (one per
// repository package that maps keys to hash slots) hands its real functions to Run.
package c21

import (
	"encoding/hex"
	"encoding/json"
	"fmt"
	"runtime"
	"sort"
	"sync"
	"sync/atomic"
	"time"

	"github.com/WuKongIM/WuKongIM/pkg/hashslot"
	"github.com/WuKongIM/WuKongIM/pkg/zzverif/ev"
)

// Fn maps (key, hash-slot count) to a hash slot through one real component.
type Fn func(key string, count uint16) uint16

// Component is one real key->hash-slot mapping. New returns a per-worker instance (so that
// components with internal state/locks do not share it between workers). Counts, when
// non-nil, restricts the component to that menu of counts (e.g. a router needs a table per
// count).
type Component struct {
	Name   string
	New    func() Fn
	Counts []uint16
}

// RawCRC is an optional real raw checksum function (routing.checksumIEEEString).
type RawCRC struct {
	Name string
	F    func(key string) uint32
}

// RefCRC32 is the independent reference: bit-by-bit CRC-32/IEEE (reflected polynomial
// 0xEDB88320, init and final xor 0xFFFFFFFF). No table, no stdlib.
func RefCRC32(key string) uint32 {
	crc := ^uint32(0)
	for i := 0; i < len(key); i++ {
		crc ^= uint32(key[i])
		for k := 0; k < 8; k++ {
			if crc&1 != 0 {
				crc = crc>>1 ^ 0xEDB88320
			} else {
				crc >>= 1
			}
		}
	}
	return ^crc
}

// MenuCounts is the count menu of the CRC-agreement section. 65533, 65534 and 65535 are
// pairwise coprime with product > 2^32, so agreement of crc%count on all three pins the
// full 32-bit checksum even for components that only expose the hash slot.
var MenuCounts = []uint16{1, 2, 3, 7, 255, 256, 257, 1000, 4096, 32767, 32768, 65533, 65534, 65535}

// RouterCounts is the (smaller) menu for components that need a table per count.
var RouterCounts = []uint16{1, 2, 3, 256, 1000, 4096, 65535}

// keysA streams the CRC-agreement key set, in a fixed order, to yield.
func keysA(thorough bool, yield func(k []byte)) {
	// all byte strings of length <= 2
	yield(nil)
	for a := 0; a < 256; a++ {
		yield([]byte{byte(a)})
	}
	for a := 0; a < 256; a++ {
		for b := 0; b < 256; b++ {
			yield([]byte{byte(a), byte(b)})
		}
	}
	// length 3..L over the boundary alphabet
	alpha := []byte{0x00, 0x01, 0x7f, 0x80, 0xff}
	maxL := 6
	if thorough {
		maxL = 9
	}
	for L := 3; L <= maxL; L++ {
		buf := make([]byte, L)
		idx := make([]int, L)
		for {
			for i := range buf {
				buf[i] = alpha[idx[i]]
			}
			yield(buf)
			p := L - 1
			for p >= 0 {
				idx[p]++
				if idx[p] < len(alpha) {
					break
				}
				idx[p] = 0
				p--
			}
			if p < 0 {
				break
			}
		}
	}
	// long keys around the stdlib slicing-by-8 (16) / SIMD (64) thresholds and beyond: the
	// first and last `edge` positions range over a 2-letter alphabet, the middle is a fixed
	// non-periodic filler.
	edge := 4
	if thorough {
		edge = 6
	}
	lengths := []int{15, 16, 17, 31, 32, 33, 63, 64, 65, 127, 128, 129, 255, 256, 257, 1024}
	for _, ab := range [][2]byte{{0x00, 0xff}, {'a', 0x80}} {
		for _, L := range lengths {
			buf := make([]byte, L)
			for i := range buf {
				buf[i] = byte(i*31 + 7)
			}
			e := edge
			if 2*e > L {
				e = L / 2
			}
			for m := 0; m < 1<<(2*e); m++ {
				for i := 0; i < e; i++ {
					buf[i] = ab[(m>>i)&1]
					buf[L-1-i] = ab[(m>>(e+i))&1]
				}
				yield(buf)
			}
		}
	}
	for _, k := range namedKeys {
		yield([]byte(k))
	}
}

// namedKeys are realistic user / channel / device keys plus non-UTF-8 and separator cases.
// All have length >= 3 and contain a byte outside the generated alphabets, so they cannot
// repeat a generated key.
var namedKeys = []string{
	"u1000", "U1000", "user-1", "USER-1", "uid_0001", "alice@example.com", "Alice@Example.COM",
	"g-channel-1", "channel/2/group-77", "c/1", "person:u1@u2", "u1@u2", "u2@u1", "device:ios:abcdef",
	"DEVICE:IOS:ABCDEF", " padded ", "padded", "tab\tkey", "nl\nkey", "nul\x00key", "\xff\xfe\xfdkey", "k\xc3\x28",
	"\xe4\xb8\xad\xe6\x96\x87\xe9\xa2\x91\xe9\x81\x93", "emoji-\xf0\x9f\x98\x80", "slot-proxy-key-17",
	"bench-run-profile-hs-3", "bench-run-profile-hs-3-12", "0123456789abcdef0123456789abcdef", "ffffffff-ffff-ffff-ffff-ffffffffffff",
	"123456789",
}

// keysB is the key list that meets ALL counts 1..65535: every key of length <= 1, the named
// keys, and a deterministic spread (multiplicative index hash, no alignment with the
// generators' inner loops) over the rest of keysA, at most n keys.
func keysB(thorough bool, n int) []string {
	var all int
	keysA(thorough, func([]byte) { all++ })
	rest := n - 257 - len(namedKeys)
	stride := uint32(1)
	if rest > 0 && all/rest > 1 {
		stride = uint32(all / rest)
	}
	out := make([]string, 0, n)
	seen := map[string]bool{}
	i := 0
	keysA(thorough, func(k []byte) {
		pick := len(k) <= 1 || (rest > 0 && ((uint32(i)*2654435761)>>7)%stride == 0)
		if pick && len(out) < n-len(namedKeys) && !seen[string(k)] {
			seen[string(k)] = true
			out = append(out, string(k))
		}
		i++
	})
	for _, k := range namedKeys {
		if !seen[k] {
			seen[k] = true
			out = append(out, k)
		}
	}
	return out
}

type replayCase struct {
	Kind      string `json:"kind"`
	Component string `json:"component"`
	KeyHex    string `json:"key_hex"`
	Count     uint16 `json:"count"`
}

type runner struct {
	r        *ev.R
	run      string
	reported sync.Map // fingerprint -> struct{}
}

func (x *runner) violate(fp, comp, key string, count uint16, format string, args ...any) {
	if _, dup := x.reported.LoadOrStore(fp, struct{}{}); dup {
		x.r.Count("violations_same_fingerprint_suppressed", 1)
		return
	}
	x.r.Violation(ev.Violation{Fingerprint: fp, System: x.run, Message: fmt.Sprintf(format, args...),
		Replay: replayCase{Kind: "c21", Component: comp, KeyHex: hex.EncodeToString([]byte(key)), Count: count}})
}

type workerComp struct {
	name   string
	f      Fn
	counts []bool // nil = all; else indexed by count
}

// evalOne evaluates every component on (key, count) against the reference; returns the
// number of component evaluations.
func (x *runner) evalOne(comps []workerComp, key string, crc uint32, count uint16, st *stats) int64 {
	want := uint16(crc % uint32(count))
	var n int64
	for i := range comps {
		c := &comps[i]
		if c.counts != nil && !c.counts[count] {
			continue
		}
		got := c.f(key, count)
		n++
		if got >= count {
			x.violate("C21:"+c.name+":result-not-below-count", c.name, key, count, "%s(key=%q (hex %x), count=%d) = %d, not below the count", c.name, key, key, count, got)
		} else if got != want {
			x.violate("C21:"+c.name+":differs-from-crc32-ieee-mod-count", c.name, key, count,
				"%s(key=%q (hex %x), count=%d) = %d, but CRC-32/IEEE(key)=%#x mod %d = %d (what the other components compute)", c.name, key, key, count, got, crc, count, want)
		}
	}
	if want == 0 {
		st.zero++
	}
	if want == count-1 && count > 1 {
		st.top++
	}
	return n
}

type stats struct {
	evals, pairs, nontrivial  int64
	zero, top                 int64
	crcTopBit, crcAbove16bits int64
	rawChecks                 int64
}

func (s *stats) add(o *stats) {
	s.evals += o.evals
	s.pairs += o.pairs
	s.nontrivial += o.nontrivial
	s.zero += o.zero
	s.top += o.top
	s.crcTopBit += o.crcTopBit
	s.crcAbove16bits += o.crcAbove16bits
	s.rawChecks += o.rawChecks
}

// Options sizes one run.
type Options struct {
	// KeysAllCounts is the number of keys that meet all counts 1..65535 (quick, thorough).
	KeysAllCountsQuick, KeysAllCountsThorough int
}

// Run executes the bounded-exhaustive comparison of comps (real functions) against the
// reference and against pkg/hashslot.HashSlotForKey (always added as a component).
func Run(r *ev.R, run string, comps []Component, raw *RawCRC, opt Options) {
	x := &runner{r: r, run: run}
	th := r.Thorough()
	// reference self-check (standard check value of CRC-32/IEEE)
	if got := RefCRC32("123456789"); got != 0xCBF43926 {
		r.HarnessError("reference CRC-32 self-check failed: %#x", got)
		return
	}
	haveHS := false
	for _, c := range comps {
		if c.Name == "hashslot.HashSlotForKey" {
			haveHS = true
		}
	}
	if !haveHS {
		comps = append(comps, Component{Name: "hashslot.HashSlotForKey", New: func() Fn { return hashslot.HashSlotForKey }})
	}
	mk := func() []workerComp {
		out := make([]workerComp, len(comps))
		for i, c := range comps {
			out[i] = workerComp{name: c.Name, f: c.New()}
			if c.Counts != nil {
				out[i].counts = make([]bool, 65536)
				for _, n := range c.Counts {
					out[i].counts[n] = true
				}
			}
		}
		return out
	}

	if rf := r.Replay(); rf != nil {
		var rc replayCase
		if err := json.Unmarshal(rf.Replay, &rc); err != nil || rc.Kind != "c21" {
			r.HarnessError("bad C21 replay payload")
			return
		}
		kb, _ := hex.DecodeString(rc.KeyHex)
		key := string(kb)
		crc := RefCRC32(key)
		var st stats
		wc := mk()
		for _, c := range wc {
			if c.counts == nil || c.counts[rc.Count] {
				fmt.Printf("replay: %s(%q, %d) = %d ; reference crc=%#x -> %d\n", c.name, key, rc.Count, c.f(key, rc.Count), crc, crc%uint32(rc.Count))
			}
		}
		if raw != nil {
			fmt.Printf("replay: %s(%q) = %#x ; reference %#x\n", raw.Name, key, raw.F(key), crc)
			if raw.F(key) != crc {
				x.violate("C21:"+raw.Name+":crc-differs-from-reference", raw.Name, key, rc.Count, "%s(%q)=%#x, reference CRC-32/IEEE %#x", raw.Name, key, raw.F(key), crc)
			}
		}
		x.evalOne(wc, key, crc, rc.Count, &st)
		if r.ViolationCount() > 0 {
			r.MarkReplayReproduced()
		}
		return
	}

	shard, nshards := r.Shard()
	workers := runtime.GOMAXPROCS(0)
	seedOff := int(r.Seed() % 1000)
	if seedOff < 0 {
		seedOff = 0
	}

	// ---------------- section A: CRC agreement on the key menu x count menu
	{
		start := time.Now()
		var total stats
		var mu sync.Mutex
		var wg sync.WaitGroup
		var keysSeen int64
		for w := 0; w < workers; w++ {
			wg.Add(1)
			go func(w int) {
				defer wg.Done()
				wc := mk()
				var st stats
				idx := 0
				keysA(th, func(kb []byte) {
					i := idx
					idx++
					if i%nshards != shard || ((i/nshards)+seedOff)%workers != w {
						return
					}
					key := string(kb)
					crc := RefCRC32(key)
					if crc&0x80000000 != 0 {
						st.crcTopBit++
					}
					if crc > 0xffff {
						st.crcAbove16bits++
					}
					if raw != nil {
						st.rawChecks++
						if got := raw.F(key); got != crc {
							x.violate("C21:"+raw.Name+":crc-differs-from-reference", raw.Name, key, 65535, "%s(key=%q (hex %x)) = %#x, reference bitwise CRC-32/IEEE = %#x", raw.Name, key, key, got, crc)
						}
					}
					for _, n := range MenuCounts {
						st.evals += x.evalOne(wc, key, crc, n, &st)
						st.pairs++
						if n > 1 {
							st.nontrivial++
						}
					}
				})
				atomic.AddInt64(&keysSeen, int64(idx))
				mu.Lock()
				total.add(&st)
				mu.Unlock()
			}(w)
		}
		wg.Wait()
		r.Section(ev.Section{Name: "crc-agreement", Kind: "enum", Evaluations: total.evals, Distinct: total.nontrivial, Exhaustive: true, Outcomes: 3,
			Bounds: map[string]any{"keys": "all byte strings of length <=2; length 3..6 (thorough 3..9) over {00,01,7f,80,ff}; lengths 15,16,17,31,32,33,63,64,65,127,128,129,255,256,257,1024 with the first/last 4 (thorough 6) bytes over {00,ff} and {61,80}; named keys",
				"keys_total": keysSeen / int64(workers), "counts": MenuCounts, "pairs_key_count": total.pairs, "components": compNames(comps), "raw_crc_checks": total.rawChecks,
				"outcomes": map[string]int64{"slot=0": total.zero, "slot=count-1": total.top, "other": total.pairs - total.zero - total.top}},
			Note:  "every (key,count) pair is evaluated through every real component and compared with the bitwise reference CRC-32/IEEE mod count; distinct_nontrivial counts (key,count) pairs with count>1 (distinct by construction)",
			WallS: time.Since(start).Seconds()})
		r.Guard("crc-top-bit-set-keys", total.crcTopBit >= 100 || nshards > 1 && total.crcTopBit >= 1, "keys whose CRC has bit 31 set: %d", total.crcTopBit)
		r.Guard("crc-above-16-bits-keys", total.crcAbove16bits >= 100 || nshards > 1 && total.crcAbove16bits >= 1, "keys whose CRC exceeds 16 bits: %d", total.crcAbove16bits)
		r.Guard("boundary-slots-hit", total.zero >= 10 && total.top >= 10, "pairs mapped to slot 0: %d, to slot count-1: %d", total.zero, total.top)
		r.Count("section_a_pairs", total.pairs)
	}

	// ---------------- section B: selected keys x ALL counts 1..65535
	{
		start := time.Now()
		nk := opt.KeysAllCountsQuick
		if th {
			nk = opt.KeysAllCountsThorough
		}
		keys := keysB(th, nk)
		sort.Strings(keys)
		var total stats
		var mu sync.Mutex
		var wg sync.WaitGroup
		for w := 0; w < workers; w++ {
			wg.Add(1)
			go func(w int) {
				defer wg.Done()
				wc := mk()
				var st stats
				for i, key := range keys {
					if i%nshards != shard || ((i/nshards)+seedOff)%workers != w {
						continue
					}
					crc := RefCRC32(key)
					for n := 1; n <= 65535; n++ {
						st.evals += x.evalOne(wc, key, crc, uint16(n), &st)
					}
					st.pairs += 65535
					st.nontrivial += 65534
				}
				mu.Lock()
				total.add(&st)
				mu.Unlock()
			}(w)
		}
		wg.Wait()
		sample := keys
		if len(sample) > 6 {
			sample = []string{keys[0], keys[len(keys)/5], keys[2*len(keys)/5], keys[3*len(keys)/5], keys[4*len(keys)/5], keys[len(keys)-1]}
		}
		hexs := make([]string, len(sample))
		for i, k := range sample {
			hexs[i] = hex.EncodeToString([]byte(k))
		}
		r.Section(ev.Section{Name: "all-counts", Kind: "enum", Evaluations: total.evals, Distinct: total.nontrivial, Exhaustive: true, Outcomes: 3,
			Bounds: map[string]any{"keys": len(keys), "counts": "1..65535 (all)", "pairs_key_count": total.pairs, "components": compNames(comps), "sample_keys_hex": hexs,
				"outcomes": map[string]int64{"slot=0": total.zero, "slot=count-1": total.top, "other": total.pairs - total.zero - total.top}},
			Note:  "a deterministic spread of the key menu plus realistic named keys, each against every hash-slot count; components restricted to a count menu (routers with a real table) are evaluated on their menu only",
			WallS: time.Since(start).Seconds()})
		r.Guard("all-counts-pairs", total.pairs >= 65535 || nshards > 1, "pairs=%d", total.pairs)
		r.Count("section_b_pairs", total.pairs)
		if len(keys) > 0 {
			k := keys[len(keys)/2]
			r.Sample(map[string]any{"run": run, "key_hex": hex.EncodeToString([]byte(k)), "count": 4096, "crc32": RefCRC32(k), "hash_slot": RefCRC32(k) % 4096, "components": compNames(comps)})
		}
	}
	r.Assume("the reference is a table-free bitwise CRC-32/IEEE written in the harness (self-checked against the standard check value 0xCBF43926)")
	r.Assume("count 0 is outside the property (all components return 0 for it)")
}

func compNames(cs []Component) []string {
	out := make([]string, len(cs))
	for i, c := range cs {
		out[i] = c.Name
		if c.Counts != nil {
			out[i] += fmt.Sprintf(" (counts %v)", c.Counts)
		}
	}
	return out
}
