package routing

// C21 / run "routing": routing.HashSlotForKey, the hand-rolled table-driven
// checksumIEEEString, and Router.RouteKey through real route tables (fresh and warmed),
// against pkg/hashslot.HashSlotForKey and the independent bitwise reference.
// In-package because checksumIEEEString is unexported (the only unexported identifier used).

import (
	"fmt"
	"testing"

	"github.com/WuKongIM/WuKongIM/pkg/cluster/control"
	"github.com/WuKongIM/WuKongIM/pkg/zzverif/ev"
	c21 "github.com/WuKongIM/WuKongIM/pkg/zzverifc21"
)

func c21Snapshot(count uint16, revision uint64) control.Snapshot {
	ranges := []control.HashSlotRange{{From: 0, To: count - 1, SlotID: 1}}
	if count >= 2 {
		ranges = []control.HashSlotRange{{From: 0, To: count/2 - 1, SlotID: 1}, {From: count / 2, To: count - 1, SlotID: 2}}
	}
	return control.Snapshot{
		Revision:     revision,
		ControllerID: 1,
		Nodes: []control.Node{
			{NodeID: 1, Addr: "127.0.0.1:1001", Roles: []control.Role{control.RoleData}, Status: control.NodeAlive},
			{NodeID: 2, Addr: "127.0.0.1:1002", Roles: []control.Role{control.RoleData}, Status: control.NodeAlive},
		},
		Slots: []control.SlotAssignment{
			{SlotID: 1, DesiredPeers: []uint64{1, 2}, ConfigEpoch: 1, PreferredLeader: 1},
			{SlotID: 2, DesiredPeers: []uint64{1, 2}, ConfigEpoch: 1, PreferredLeader: 2},
		},
		HashSlots: control.HashSlotTable{Revision: revision, Count: count, Ranges: ranges},
	}
}

// c21Routers builds one real router per menu count. warmed routers went through another
// table size, leader changes and revision advances before the final table was installed.
func c21Routers(warmed bool) (map[uint16]*Router, error) {
	out := map[uint16]*Router{}
	for _, n := range c21.RouterCounts {
		r := NewRouter()
		if warmed {
			other := uint16(65535)
			if n == other {
				other = 7
			}
			if err := r.UpdateControlSnapshot(c21Snapshot(other, 3)); err != nil {
				return nil, err
			}
			r.UpdateSlotLeaders([]SlotStatus{{SlotID: 1, Leader: 2}, {SlotID: 2, Leader: 1}})
			if _, err := r.RouteKey("warm-up-key"); err != nil {
				return nil, err
			}
			r.AdvanceRevision(5)
		}
		if err := r.UpdateControlSnapshot(c21Snapshot(n, 9)); err != nil {
			return nil, err
		}
		r.UpdateSlotLeaders([]SlotStatus{{SlotID: 1, Leader: 1}, {SlotID: 2, Leader: 2}})
		if warmed {
			r.AdvanceRevision(11)
		}
		out[n] = r
	}
	return out, nil
}

func TestVerifC21Routing(t *testing.T) {
	r := ev.Start(t, "C21")
	defer r.Finish()
	routerComp := func(name string, warmed bool) c21.Component {
		return c21.Component{Name: name, Counts: c21.RouterCounts, New: func() c21.Fn {
			routers, err := c21Routers(warmed)
			if err != nil {
				r.HarnessError("cannot build routers: %v", err)
				return func(string, uint16) uint16 { return 0 }
			}
			return func(key string, count uint16) uint16 {
				route, err := routers[count].RouteKey(key)
				if err != nil {
					panic(fmt.Sprintf("RouteKey(%q) with a complete table of %d hash slots: %v", key, count, err))
				}
				return route.HashSlot
			}
		}}
	}
	c21.Run(r, "routing", []c21.Component{
		{Name: "routing.HashSlotForKey", New: func() c21.Fn { return HashSlotForKey }},
		routerComp("routing.Router.RouteKey(fresh-router)", false),
		routerComp("routing.Router.RouteKey(warmed-router)", true),
	}, &c21.RawCRC{Name: "routing.checksumIEEEString", F: checksumIEEEString},
		c21.Options{KeysAllCountsQuick: 512, KeysAllCountsThorough: 8192})
}
