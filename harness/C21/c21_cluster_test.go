package cluster

// C21 / run "cluster": Node.HashSlotForKey (pkg/cluster/node_slot_proxy_port.go) with the
// hash-slot count coming from each of its four sources (router table, readiness snapshot,
// control snapshot, configuration), against pkg/hashslot.HashSlotForKey and the bitwise
// reference. In-package because the count sources are unexported Node fields.

import (
	"testing"

	"github.com/WuKongIM/WuKongIM/pkg/cluster/control"
	"github.com/WuKongIM/WuKongIM/pkg/cluster/routing"
	"github.com/WuKongIM/WuKongIM/pkg/zzverif/ev"
	c21 "github.com/WuKongIM/WuKongIM/pkg/zzverifc21"
)

func c21ClusterSnapshot(count uint16) control.Snapshot {
	ranges := []control.HashSlotRange{{From: 0, To: count - 1, SlotID: 1}}
	return control.Snapshot{
		Revision:     7,
		ControllerID: 1,
		Nodes:        []control.Node{{NodeID: 1, Addr: "127.0.0.1:1001", Roles: []control.Role{control.RoleData}, Status: control.NodeAlive}},
		Slots:        []control.SlotAssignment{{SlotID: 1, DesiredPeers: []uint64{1}, ConfigEpoch: 1, PreferredLeader: 1}},
		HashSlots:    control.HashSlotTable{Revision: 9, Count: count, Ranges: ranges},
	}
}

func TestVerifC21Cluster(t *testing.T) {
	r := ev.Start(t, "C21")
	defer r.Finish()
	comps := []c21.Component{
		{Name: "cluster.Node.HashSlotForKey(count-from-config)", New: func() c21.Fn {
			n := &Node{}
			return func(key string, count uint16) uint16 {
				n.cfg.Slots.HashSlotCount = count
				return n.HashSlotForKey(key)
			}
		}},
		{Name: "cluster.Node.HashSlotForKey(count-from-readiness-snapshot)", New: func() c21.Fn {
			n := &Node{router: routing.NewRouter()} // router without a table
			n.cfg.Slots.HashSlotCount = 5           // lower-priority source must not matter
			return func(key string, count uint16) uint16 {
				n.snapshot.HashSlotCount = count
				return n.HashSlotForKey(key)
			}
		}},
		{Name: "cluster.Node.HashSlotForKey(count-from-control-snapshot)", New: func() c21.Fn {
			n := &Node{}
			n.cfg.Slots.HashSlotCount = 9
			return func(key string, count uint16) uint16 {
				n.controlSnapshot.HashSlots.Count = count
				return n.HashSlotForKey(key)
			}
		}},
		{Name: "cluster.Node.HashSlotForKey(count-from-router-table)", Counts: c21.RouterCounts, New: func() c21.Fn {
			nodes := map[uint16]*Node{}
			for _, c := range c21.RouterCounts {
				n := &Node{router: routing.NewRouter()}
				if err := n.router.UpdateControlSnapshot(c21ClusterSnapshot(c)); err != nil {
					r.HarnessError("cannot install route table: %v", err)
					return func(string, uint16) uint16 { return 0 }
				}
				// the other sources hold different counts: the installed table wins
				n.snapshot.HashSlotCount = 11
				n.controlSnapshot.HashSlots.Count = 13
				n.cfg.Slots.HashSlotCount = 17
				nodes[c] = n
			}
			return func(key string, count uint16) uint16 { return nodes[count].HashSlotForKey(key) }
		}},
	}
	c21.Run(r, "cluster", comps, nil, c21.Options{KeysAllCountsQuick: 512, KeysAllCountsThorough: 8192})
}
