package workload

// C21 / run "bench": internal/bench/workload.physicalHashSlotForKey (the benchmark's private
// mirror of the hash-slot mapping) against pkg/hashslot.HashSlotForKey and the bitwise
// reference; plus GroupChannelIDForHashSlot, whose generated channel ids must land in the
// requested hash slot under the server-side mapping.
// In-package because physicalHashSlotForKey is unexported (the only unexported identifier).

import (
	"fmt"
	"testing"

	"github.com/WuKongIM/WuKongIM/pkg/hashslot"
	"github.com/WuKongIM/WuKongIM/pkg/zzverif/ev"
	c21 "github.com/WuKongIM/WuKongIM/pkg/zzverifc21"
)

func TestVerifC21Bench(t *testing.T) {
	r := ev.Start(t, "C21")
	defer r.Finish()
	c21.Run(r, "bench", []c21.Component{
		{Name: "workload.physicalHashSlotForKey", New: func() c21.Fn { return physicalHashSlotForKey }},
	}, nil, c21.Options{KeysAllCountsQuick: 512, KeysAllCountsThorough: 8192})
	if r.Replay() != nil {
		return
	}
	if shard, _ := r.Shard(); shard != 0 {
		return // the generated-id menu is small: shard 0 runs all of it
	}
	// generated channel ids: every (run id, profile, channel index, count) of the menu
	e := r.NewEnum("generated-channel-ids")
	counts := []uint16{1, 2, 3, 16, 255, 256, 1000}
	maxIdx := ev.Pick(r, 40, 300)
	for _, runID := range []string{"r1", " run 2 ", ""} {
		for _, profile := range []string{"p", "Group-10k"} {
			for _, count := range counts {
				for idx := 0; idx < maxIdx; idx++ {
					id := GroupChannelIDForHashSlot(runID, profile, idx, count)
					want := uint16(idx % int(count))
					got := hashslot.HashSlotForKey(id, count)
					ref := uint16(c21.RefCRC32(id) % uint32(count))
					if got != want || ref != want {
						r.Violation(ev.Violation{Fingerprint: "C21:workload.GroupChannelIDForHashSlot:id-not-in-requested-hash-slot", System: "bench",
							Message: fmt.Sprintf("GroupChannelIDForHashSlot(%q,%q,%d,%d)=%q: wanted hash slot %d, hashslot.HashSlotForKey gives %d, reference gives %d", runID, profile, idx, count, id, want, got, ref),
							Replay:  map[string]any{"kind": "c21-gen", "run_id": runID, "profile": profile, "index": idx, "count": count}})
						e.CaseByConstruction(true, "violation")
						continue
					}
					e.CaseByConstruction(count > 1, "lands-in-requested-slot")
				}
			}
		}
	}
	e.Done(true, map[string]any{"run_ids": 3, "profiles": 2, "counts": counts, "channel_indexes": maxIdx},
		"GroupChannelIDForHashSlot searches a nonce with the benchmark's private mapping; the result is checked with the server-side mapping and the reference")
}
