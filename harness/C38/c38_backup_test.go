package backup_test

// C38 - backup archives are self-verifying.
//
// Black box on pkg/backup (plus the real internal/runtime/backup.PublishArchive as the
// publication step). Sections:
//   publish-verify   small archives verify and reproduce their manifests byte for byte
//   single-mutation  every single-object mutation in the stated neighbourhood is detected
//   resigned         digest-consistent (re-signed) ordering / size / identity
//                    inconsistencies are detected by the structural rules
//   decoders         non-canonical / unknown-field / oversized manifest JSON is rejected
//                    with bounded allocation

import (
	"bytes"
	"crypto/sha256"
	"encoding/hex"
	"encoding/json"
	"errors"
	"fmt"
	"reflect"
	"runtime"
	"runtime/debug"
	"sort"
	"strings"
	"testing"
	"time"

	"github.com/WuKongIM/WuKongIM/pkg/backup"
	"github.com/WuKongIM/WuKongIM/pkg/zzverif/ev"
)

type c38Kit struct {
	r        *ev.R
	thorough bool
	shardI   int
	shardN   int
	deadline time.Time
	capped   bool
	replay   string // replay mode: only this case key is evaluated
	msA, msB runtime.MemStats

	maxVerifyAlloc uint64
	maxDecodeRatio float64
	sampled        map[string]bool

	probes, probesAfterChunkDecodeError int64 // healthy-Slot probes run right after a mutated case (all / after a same-size chunk corruption)
	redecodes                           int64 // canonical re-decodes run right after a rejected decoder input
}

// noGC runs one multi-step sequence (a rejected call followed by a healthy one) with the
// garbage collector switched off. With GOMAXPROCS=1 (harness.json) there is exactly one P,
// so whatever a call hands to a sync.Pool sits in that P's private/shared slot and is what
// the next Get on the same goroutine receives; the only thing that removes pool items is the
// pool cleanup at the start of a GC cycle. No GC inside the sequence => state reuse between
// the steps is certain by construction (not a matter of luck or repetition).
func (k *c38Kit) noGC(f func()) {
	old := debug.SetGCPercent(-1)
	defer debug.SetGCPercent(old)
	f()
}

// probe verifies one untouched Slot of the (restored, pristine) archive through the real
// slot-level verifier: manifest digest, every chunk decoded and digest-checked.
func (k *c38Kit) probe(a *c38Archive) (err error, pan any) {
	defer func() {
		if p := recover(); p != nil {
			pan = p
		}
	}()
	slot := a.probeSlot()
	ref, sm, err := backup.LoadStoredSlotReference(c38Ctx, a.store, a.shape.id, a.published.Slots[slot], true)
	if err != nil {
		return err, nil
	}
	if ref != a.published.Slots[slot] || !reflect.DeepEqual(sm, a.slotMan[slot]) {
		return fmt.Errorf("Slot %d verified but reference/manifest differ from the published ones", slot), nil
	}
	return nil, nil
}

// probeSlot: the lowest focus Slot (>= 1 chunk, in most archives metadata + messages).
func (a *c38Archive) probeSlot() int {
	best := -1
	for s := range a.focus {
		if best < 0 || s < best {
			best = s
		}
	}
	return best
}

func (k *c38Kit) timeUp() bool {
	if k.capped {
		return true
	}
	if !k.deadline.IsZero() && time.Now().After(k.deadline) {
		k.capped = true
	}
	return k.capped
}

func (k *c38Kit) mine(i int) bool { return k.shardN <= 1 || i%k.shardN == k.shardI }

func (k *c38Kit) skip(key string) bool { return k.replay != "" && k.replay != key }

func (k *c38Kit) measure(f func()) uint64 {
	runtime.ReadMemStats(&k.msA)
	f()
	runtime.ReadMemStats(&k.msB)
	return k.msB.TotalAlloc - k.msA.TotalAlloc
}

func c38ErrClass(err error) string {
	switch {
	case err == nil:
		return "accepted"
	case errors.Is(err, backup.ErrObjectCorrupt):
		return "corrupt"
	case errors.Is(err, backup.ErrInvalidManifest):
		return "invalid-manifest"
	case errors.Is(err, backup.ErrUnsupportedVersion):
		return "unsupported-version"
	case errors.Is(err, backup.ErrObjectNotFound):
		return "not-found"
	case errors.Is(err, backup.ErrInvalidObject):
		return "invalid-object"
	default:
		return "other-error"
	}
}

func (k *c38Kit) violate(fp, section, key, format string, args ...any) {
	k.r.Violation(ev.Violation{Fingerprint: fp, Message: fmt.Sprintf(format, args...) + " | case: " + key, System: section,
		Replay: map[string]any{"section": section, "case": key}})
	if k.replay != "" {
		k.r.MarkReplayReproduced()
	}
}

func (k *c38Kit) sample(class string, x map[string]any) {
	if k.sampled[class] {
		return
	}
	k.sampled[class] = true
	k.r.Sample(x)
}

// verify runs the real whole-archive verification under edits.
func (k *c38Kit) verify(a *c38Archive, edits []c38Edit) (m backup.ArchiveManifest, err error, pan any, alloc uint64) {
	return k.verifyM(a, edits, false)
}

func (k *c38Kit) verifyM(a *c38Archive, edits []c38Edit, measured bool) (m backup.ArchiveManifest, err error, pan any, alloc uint64) {
	run := func() {
		defer func() {
			if p := recover(); p != nil {
				pan = p
			}
		}()
		m, err = backup.VerifyPublishedArchive(c38Ctx, a.store, a.shape.id)
	}
	a.store.with(edits, func() {
		if measured {
			alloc = k.measure(run)
		} else {
			run()
		}
	})
	if alloc > k.maxVerifyAlloc {
		k.maxVerifyAlloc = alloc
	}
	return
}

// mustFail evaluates one mutation that verification has to detect.
func (k *c38Kit) mustFail(e *ev.Enum, section string, a *c38Archive, class, objKind, key string, edits []c38Edit) {
	if k.skip(key) {
		return
	}
	var err, perr error
	var pan, ppan any
	k.noGC(func() {
		_, err, pan, _ = k.verify(a, edits)
		// SEQUENCE: the store is pristine again; a healthy Slot of the same archive must verify
		// right after the rejected (or accepted) mutated archive, in the same process state.
		perr, ppan = k.probe(a)
	})
	k.probes++
	if objKind == "chunk" && (class == "byte-bit0" || class == "byte-ff" || class == "same-size-bit0") {
		k.probesAfterChunkDecodeError++ // same-size corruption of a chunk object: reaches the chunk decoder
	}
	outcome := class + "/" + c38ErrClass(err)
	if pan != nil {
		outcome = class + "/panic"
		k.violate("C38:verify-panic:"+class+":"+objKind, section, key, "VerifyPublishedArchive panicked: %v", pan)
	} else if err == nil {
		k.violate("C38:mutation-accepted:"+class+":"+objKind, section, key, "VerifyPublishedArchive accepted a mutated archive (%s of a %s object)", class, objKind)
	}
	if perr != nil || ppan != nil {
		k.violate("C38:healthy-slot-rejected-after:"+class+":"+objKind, section, key,
			"sequence: (1) VerifyPublishedArchive on the archive with a %s of a %s object -> %v; (2) store restored, LoadStoredSlotReference(verifyChunks) of untouched Slot %d of the pristine archive -> err=%v panic=%v (a published, untouched archive must verify)",
			class, objKind, err, a.probeSlot(), perr, ppan)
	}
	e.Case(key, true, outcome)
	k.sample(section+"/"+class, map[string]any{"section": section, "class": class, "object": objKind, "case": key, "result": c38ErrClass(err)})
}

func c38Clone(b []byte) []byte { return append([]byte(nil), b...) }

func c38Sum(b []byte) string { s := sha256.Sum256(b); return hex.EncodeToString(s[:]) }

// ---------------------------------------------------------------- section A

func (k *c38Kit) publishVerify(archives []*c38Archive) {
	e := k.r.NewEnum("publish-verify")
	sec := "publish-verify"
	check := func(key string, ok bool, fp string, format string, args ...any) {
		if k.skip(key) {
			return
		}
		if !ok {
			k.violate(fp, sec, key, format, args...)
		}
		e.Case(key, true, map[bool]string{true: "ok", false: "mismatch"}[ok])
	}
	for _, a := range archives {
		n := a.shape.name
		t0 := time.Now()
		m, err, pan, _ := k.verifyM(a, nil, true)
		k.r.Count("full_verify_micros_"+n, time.Since(t0).Microseconds())
		check(n+"|verify", err == nil && pan == nil, "C38:valid-archive-rejected", "VerifyPublishedArchive on an unmodified published archive: err=%v panic=%v", err, pan)
		check(n+"|verify-manifest-equal", reflect.DeepEqual(m, a.published), "C38:manifest-not-reproduced:archive", "verified manifest differs from the published manifest")
		stored := a.body(a.root + "manifest.json")
		re, rerr := backup.MarshalArchiveManifest(m)
		check(n+"|verify-manifest-bytes", rerr == nil && bytes.Equal(re, stored), "C38:manifest-not-reproduced:archive", "re-encoded verified manifest differs from the stored bytes (err=%v)", rerr)
		meta, merr := backup.LoadPublishedArchiveMetadata(c38Ctx, a.store, a.shape.id)
		check(n+"|metadata", merr == nil && reflect.DeepEqual(meta, a.published), "C38:manifest-not-reproduced:archive", "LoadPublishedArchiveMetadata: err=%v", merr)
		mk, mkerr := backup.NewCompleteMarker(stored)
		var mkBody []byte
		if mkerr == nil {
			mkBody, mkerr = backup.MarshalCompleteMarker(mk)
		}
		check(n+"|marker-bytes", mkerr == nil && bytes.Equal(mkBody, a.body(a.root+"COMPLETE")), "C38:manifest-not-reproduced:marker", "recomputed COMPLETE marker differs from the stored marker (err=%v)", mkerr)
		_, lerr := backup.LoadCompleteMarker(a.body(a.root+"COMPLETE"), stored)
		check(n+"|marker-load", lerr == nil, "C38:valid-archive-rejected", "LoadCompleteMarker on the published pair: %v", lerr)
		for slot := 0; slot < backup.DefaultHashSlotCount; slot++ {
			ref, sm, serr := backup.LoadStoredSlotReference(c38Ctx, a.store, a.shape.id, a.published.Slots[slot], true)
			key := fmt.Sprintf("%s|slot%03d", n, slot)
			want := a.slotMan[slot]
			check(key+"|load", serr == nil && ref == a.published.Slots[slot] && reflect.DeepEqual(sm, want), "C38:manifest-not-reproduced:slot", "LoadStoredSlotReference slot %d: err=%v", slot, serr)
			reb, rberr := backup.MarshalSlotManifest(sm)
			check(key+"|bytes", serr != nil || (rberr == nil && bytes.Equal(reb, a.body(a.root+ref.ManifestKey))), "C38:manifest-not-reproduced:slot", "re-encoded Slot manifest %d differs from stored bytes (err=%v)", slot, rberr)
			if a.published.Slots[slot].ManifestKey == fmt.Sprintf("slots/%03d/manifest.json", slot) {
				ref2, sm2, err2 := backup.LoadStoredSlot(c38Ctx, a.store, a.shape.id, uint16(slot), true)
				check(key+"|load-default-key", err2 == nil && ref2 == ref && reflect.DeepEqual(sm2, want), "C38:manifest-not-reproduced:slot", "LoadStoredSlot slot %d: err=%v", slot, err2)
			}
		}
		k.sample("publish-verify", map[string]any{"section": sec, "archive": n, "objects": len(a.objects), "manifest_bytes": len(stored), "stored_bytes": m.StoredBytes, "records": m.Records})
	}
	e.Done(true, map[string]any{"archives": len(archives), "slots_per_archive": backup.DefaultHashSlotCount}, "every published archive verifies; VerifyPublishedArchive / LoadPublishedArchiveMetadata / LoadStoredSlot(Reference) return the published manifests and re-encode to the stored bytes")
}

// ---------------------------------------------------------------- section B

// byteScope: objects whose every byte / every truncation length is enumerated.
// quick: COMPLETE and the focus Slots of every archive, manifest.json (64 KiB: 256 Slot
// references) of the "rich" archive only; thorough: additionally manifest.json of every
// archive and more focus Slots (incl. Slots 127, 128 and the last one).
func (a *c38Archive) byteScope(o c38Object, thorough bool) bool {
	switch {
	case o.kind == "marker":
		return true
	case o.kind == "archive-manifest":
		return thorough || a.shape.name == "rich"
	default:
		return a.focus[o.slot]
	}
}

func (a *c38Archive) byteObjects(thorough bool) []c38Object {
	var out []c38Object
	for _, o := range a.objects {
		if a.byteScope(o, thorough) {
			out = append(out, o)
		}
	}
	return out
}

func (a *c38Archive) focusObjects() []c38Object {
	var out []c38Object
	for _, o := range a.objects {
		if o.slot < 0 || a.focus[o.slot] {
			out = append(out, o)
		}
	}
	return out
}

func (k *c38Kit) singleMutations(archives []*c38Archive) {
	sec := "single-mutation"
	e := k.r.NewEnum(sec)
	var nBytes, nObjs, nSameSize int64
	for ai, a := range archives {
		n := a.shape.name
		// B1: every byte of every object in scope x {bit0 flipped, 0xFF}
		for oi, o := range a.byteObjects(k.thorough) {
			orig := a.body(o.key)
			big := len(orig) > 4096 // big objects (manifest.json) are split between shards by 1 KiB block
			if (!big && !k.mine(oi)) || k.timeUp() {
				continue
			}
			mut := c38Clone(orig)
			nObjs++
			for off := range orig {
				if off&0xff == 0 && k.timeUp() {
					break
				}
				if big && !k.mine(oi+off>>10) {
					continue
				}
				if !k.thorough && len(orig) > 4096 && !(off < 2048 || off >= len(orig)-512 || off%17 == 0) {
					continue // quick: 64 KiB manifest.json: head (fields + first Slot references), tail, stride 17
				}
				for mi, nb := range []byte{orig[off] ^ 1, 0xFF} {
					if nb == orig[off] {
						continue
					}
					mut[off] = nb
					class := [2]string{"byte-bit0", "byte-ff"}[mi]
					k.mustFail(e, sec, a, class, o.kind, fmt.Sprintf("%s|%s|%s|%d", n, class, o.key, off), []c38Edit{{key: o.key, body: mut}})
					nBytes++
				}
				mut[off] = orig[off]
			}
		}
		// B1b: same-size corruption of EVERY chunk object of the archive (first, middle, last byte,
		// bit 0): quick = the first 8, the last 8 and every 16th Slot, thorough = all 256 Slots.
		// In the "dup" archive most of these chunks carry a descriptor that an earlier Slot of the
		// same verification pass already carried.
		for oi, o := range a.objects {
			if o.kind != "chunk" || !k.mine(oi) || k.timeUp() {
				continue
			}
			if !k.thorough && !(o.slot < 8 || o.slot >= backup.DefaultHashSlotCount-8 || o.slot%16 == 0) {
				continue
			}
			orig := a.body(o.key)
			offs := []int{0, len(orig) / 2, len(orig) - 1}
			for oi2, off := range offs {
				if oi2 > 0 && off == offs[oi2-1] {
					continue
				}
				mut := c38Clone(orig)
				mut[off] ^= 1
				k.mustFail(e, sec, a, "same-size-bit0", o.kind, fmt.Sprintf("%s|same-size|%s|%d", n, o.key, off), []c38Edit{{key: o.key, body: mut}})
				nSameSize++
			}
		}
		// B2: object deleted / truncated / extended / doubled / emptied
		for oi, o := range a.objects {
			orig := a.body(o.key)
			big := len(orig) > 4096
			if (!big && !k.mine(oi)) || k.timeUp() {
				continue
			}
			focus := o.slot < 0 || a.focus[o.slot]
			full := a.byteScope(o, k.thorough)
			if !full && !focus && !k.thorough {
				// quick, objects outside the byte scope (a case costs a verification of all preceding Slots):
				// archive "min": every object deleted, every 16th Slot also cut/extended; other archives: every 64th Slot
				if a.shape.name != "min" && o.slot%64 != 63 {
					continue
				}
				k.mustFail(e, sec, a, "deleted", o.kind, n+"|deleted|"+o.key, []c38Edit{{key: o.key, del: true}})
				if o.slot%16 == 15 {
					k.mustFail(e, sec, a, "truncated", o.kind, fmt.Sprintf("%s|truncated|%s|%d", n, o.key, len(orig)-1), []c38Edit{{key: o.key, body: orig[: len(orig)-1 : len(orig)-1]}})
					k.mustFail(e, sec, a, "extended", o.kind, fmt.Sprintf("%s|extended|%s|00", n, o.key), []c38Edit{{key: o.key, body: append(c38Clone(orig), 0)}})
				}
				continue
			}
			var lens []int
			switch {
			case full && (k.thorough || len(orig) <= 4096):
				for l := 0; l < len(orig); l++ {
					lens = append(lens, l)
				}
			case full:
				for l := 0; l < len(orig); l++ {
					if l%61 == 0 || l >= len(orig)-256 {
						lens = append(lens, l)
					}
				}
			default:
				lens = []int{0, 1, len(orig) / 2, len(orig) - 1}
			}
			for _, l := range lens {
				if big && !k.mine(oi+l>>10) {
					continue
				}
				k.mustFail(e, sec, a, "truncated", o.kind, fmt.Sprintf("%s|truncated|%s|%d", n, o.key, l), []c38Edit{{key: o.key, body: orig[:l:l]}})
			}
			if big && !k.mine(oi) {
				continue
			}
			k.mustFail(e, sec, a, "deleted", o.kind, n+"|deleted|"+o.key, []c38Edit{{key: o.key, del: true}})
			for _, x := range []byte{0x00, '\n', ' ', 0xFF, '}'} {
				k.mustFail(e, sec, a, "extended", o.kind, fmt.Sprintf("%s|extended|%s|%02x", n, o.key, x), []c38Edit{{key: o.key, body: append(c38Clone(orig), x)}})
			}
			{
				k.mustFail(e, sec, a, "duplicated", o.kind, n+"|doubled|"+o.key, []c38Edit{{key: o.key, body: append(c38Clone(orig), orig...)}})
			}
			if focus {
				k.mustFail(e, sec, a, "prefixed", o.kind, n+"|prefixed|"+o.key, []c38Edit{{key: o.key, body: append([]byte{' '}, orig...)}})
			}
		}
		// B3: one object's bytes stored under another key (duplicated-over) and swapped pairs
		pairs := map[[2]int]bool{}
		idx := map[string]int{}
		for i, o := range a.objects {
			idx[o.key] = i
		}
		fo := a.focusObjects()
		for _, x := range fo {
			for _, y := range fo {
				if x.key != y.key {
					pairs[[2]int{idx[x.key], idx[y.key]}] = true
				}
			}
		}
		for slot := 0; slot+1 < backup.DefaultHashSlotCount; slot++ {
			if !k.thorough && slot%64 != 63 && !a.focus[slot] && !a.focus[slot+1] {
				continue
			}
			x, y := a.slotObjs[slot], a.slotObjs[slot+1]
			for _, p := range [][2]c38Object{{x[0], y[0]}, {x[1], y[1]}, {y[0], x[0]}, {y[1], x[1]}} {
				pairs[[2]int{idx[p[0].key], idx[p[1].key]}] = true
			}
		}
		for i := 0; i < len(a.objects); i++ {
			if !k.mine(i) || k.timeUp() {
				continue
			}
			for j := 0; j < len(a.objects); j++ {
				if !pairs[[2]int{i, j}] {
					continue
				}
				x, y := a.objects[i], a.objects[j]
				bx, by := a.body(x.key), a.body(y.key)
				if bytes.Equal(bx, by) {
					e.Case(fmt.Sprintf("%s|over|%s|%s", n, x.key, y.key), false, "identical-bytes")
					continue
				}
				k.mustFail(e, sec, a, "duplicated-over", y.kind, fmt.Sprintf("%s|over|%s|%s", n, x.key, y.key), []c38Edit{{key: y.key, body: bx}})
				if i < j {
					k.mustFail(e, sec, a, "swapped", x.kind+"+"+y.kind, fmt.Sprintf("%s|swapped|%s|%s", n, x.key, y.key), []c38Edit{{key: x.key, body: by}, {key: y.key, body: bx}})
				}
			}
		}
		// B4: chunk order permuted: (a) the Slot manifest object re-encoded with permuted chunk
		// references, (b) the chunk objects permuted under their keys
		for slot := range a.focus {
			if !k.mine(slot) || k.timeUp() {
				continue
			}
			sm := a.slotMan[slot]
			objs := a.slotObjs[slot]
			for pi, perm := range c38Perms(len(sm.Chunks)) {
				if pi == 0 {
					continue // identity
				}
				pm := sm
				pm.Chunks = make([]backup.ChunkReference, len(sm.Chunks))
				var edits []c38Edit
				for i, j := range perm {
					pm.Chunks[i] = sm.Chunks[j]
					edits = append(edits, c38Edit{key: objs[1+i].key, body: a.body(objs[1+j].key)})
				}
				body, _ := json.Marshal(pm)
				k.mustFail(e, sec, a, "chunk-order-manifest", "slot-manifest", fmt.Sprintf("%s|order-manifest|%03d|%v", n, slot, perm), []c38Edit{{key: objs[0].key, body: body}})
				k.mustFail(e, sec, a, "chunk-order-objects", "chunk", fmt.Sprintf("%s|order-objects|%03d|%v", n, slot, perm), edits)
			}
		}
		// B5: marker altered
		if k.mine(0) && !k.timeUp() {
			mkKey := a.root + "COMPLETE"
			var mk backup.CompleteMarker
			_ = json.Unmarshal(a.body(mkKey), &mk)
			alt := func(name string, f func(*backup.CompleteMarker)) {
				m2 := mk
				f(&m2)
				body, _ := json.Marshal(m2)
				k.mustFail(e, sec, a, "marker-altered", "marker", n+"|marker|"+name, []c38Edit{{key: mkKey, body: body}})
			}
			alt("bytes+1", func(m *backup.CompleteMarker) { m.ManifestBytes++ })
			alt("bytes-1", func(m *backup.CompleteMarker) { m.ManifestBytes-- })
			alt("bytes0", func(m *backup.CompleteMarker) { m.ManifestBytes = 0 })
			alt("version0", func(m *backup.CompleteMarker) { m.Version = 0 })
			alt("version2", func(m *backup.CompleteMarker) { m.Version = 2 })
			alt("format-empty", func(m *backup.CompleteMarker) { m.Format = "" })
			alt("format-archive", func(m *backup.CompleteMarker) { m.Format = backup.ArchiveFormat })
			alt("sha-upper", func(m *backup.CompleteMarker) { m.ManifestSHA256 = strings.ToUpper(m.ManifestSHA256) })
			alt("sha-short", func(m *backup.CompleteMarker) { m.ManifestSHA256 = m.ManifestSHA256[:63] })
			for nib := 0; nib < 64; nib++ {
				nib := nib
				alt(fmt.Sprintf("sha-nibble-%d", nib), func(m *backup.CompleteMarker) { m.ManifestSHA256 = c38BumpHex(m.ManifestSHA256, nib) })
			}
			for bi, b := range archives {
				if bi == ai {
					continue
				}
				k.mustFail(e, sec, a, "marker-altered", "marker", n+"|marker|from-"+b.shape.name, []c38Edit{{key: mkKey, body: b.body(b.root + "COMPLETE")}})
				k.mustFail(e, sec, a, "foreign-manifest", "archive-manifest", n+"|manifest|from-"+b.shape.name, []c38Edit{{key: a.root + "manifest.json", body: b.body(b.root + "manifest.json")}})
				// a digest-consistent (manifest, COMPLETE) pair of another archive over this archive's Slot objects
				k.mustFail(e, sec, a, "foreign-manifest-pair", "archive-manifest+marker", n+"|pair|from-"+b.shape.name, []c38Edit{
					{key: a.root + "manifest.json", body: b.body(b.root + "manifest.json")}, {key: mkKey, body: b.body(b.root + "COMPLETE")}})
			}
			for _, body := range [][]byte{{}, []byte("x"), a.body(mkKey)} {
				k.mustFail(e, sec, a, "corrupt-marker-present", "marker", fmt.Sprintf("%s|CORRUPT|%d", n, len(body)), []c38Edit{{key: a.root + "CORRUPT", body: body}})
			}
		}
		// B6: oversized objects must be refused by their declared size, without reading them
		if k.mine(1) && !k.timeUp() {
			type big struct {
				o    c38Object
				size uint64
			}
			var bigs []big
			for _, o := range a.focusObjects() {
				bigs = append(bigs, big{o, backup.MaxSlotManifestBytes + 1}, big{o, 1 << 40})
			}
			for _, b := range bigs {
				key := fmt.Sprintf("%s|oversized|%s|%d", n, b.o.key, b.size)
				if k.skip(key) {
					continue
				}
				a.store.readBytes = 0
				_, err, pan, alloc := k.verifyM(a, []c38Edit{{key: b.o.key, virt: b.size}}, true)
				read := a.store.readBytes
				switch {
				case pan != nil:
					k.violate("C38:verify-panic:oversized:"+b.o.kind, sec, key, "panic: %v", pan)
				case err == nil:
					k.violate("C38:mutation-accepted:oversized:"+b.o.kind, sec, key, "an object of declared size %d was accepted", b.size)
				case read > 1<<20 || alloc > 64<<20:
					k.violate("C38:oversized-object-read:"+b.o.kind, sec, key, "verification read %d bytes / allocated %d bytes of an object whose declared size %d exceeds every limit", read, alloc, b.size)
				}
				e.Case(key, true, "oversized/"+c38ErrClass(err))
				k.sample(sec+"/oversized", map[string]any{"section": sec, "class": "oversized", "case": key, "result": c38ErrClass(err), "bytes_read": read, "alloc": alloc})
			}
		}
	}
	k.r.Count("single_mutation_byte_cases", nBytes)
	k.r.Count("single_mutation_byte_objects", nObjs)
	k.r.Count("single_mutation_same_size_chunk_cases", nSameSize)
	dupDesc := int64(0)
	for _, a := range archives {
		seen := map[backup.ChunkDescriptor]bool{}
		for _, sm := range a.slotMan {
			for _, c := range sm.Chunks {
				if seen[c.Descriptor] {
					dupDesc++
				}
				seen[c.Descriptor] = true
			}
		}
	}
	k.r.Count("chunks_with_descriptor_seen_earlier_in_pass", dupDesc)
	if k.replay == "" && k.shardI == 0 {
		k.r.Guard("duplicate-descriptors-present", dupDesc >= 200, "%d chunks carry a descriptor that an earlier Slot of the same archive already carries (idle Slots with identical content, two identical busy Slots)", dupDesc)
	}
	e.Done(!k.capped, map[string]any{
		"archives":        len(archives),
		"byte_mutations":  "every byte x {bit0 flipped, 0xFF} of: COMPLETE and every Slot manifest and chunk of the focus Slots of every archive; manifest.json (64 KiB) of the 'rich' archive at offsets <2048, the last 512 and every 17th (thorough: every byte of manifest.json of every archive, more focus Slots incl. Slots 127, 128 and the last one)",
		"same_size":       "every chunk object: bit 0 of the first, middle and last byte flipped (size unchanged); quick: Slots 0-7, 248-255 and every 16th of every archive, thorough: all 256 Slots; archive 'dup' makes all idle Slots (and busy Slots 3 and 9) share chunk content, i.e. equal descriptors within one verification pass",
		"object_level":    "quick: archive 'min': every object of all 256 Slots deleted, every 16th Slot also last byte cut / +1 byte 00; other archives every 64th Slot; thorough: every object of every archive deleted, cut to {0,1,half,len-1}, +1 byte {00,0a,20,ff,7d}, doubled; objects in byte scope: every truncation length (quick: stride 61 + last 256 lengths for objects > 4 KiB), +1 byte x5, doubled, space-prefixed",
		"pairs":           "all ordered pairs of focus objects + neighbouring Slots' manifests/first chunks (quick: every 64th Slot): bytes stored under the other key, and swapped",
		"order":           "every non-identity permutation of a focus Slot's chunk references (manifest re-encoded) and of its chunk objects",
		"marker":          "manifest_bytes +-1/0, version 0/2, format variants, every digest nibble, markers and manifests of the other archives (incl. one with the same backup id), CORRUPT marker present",
		"oversized":       "each focus object replaced by a virtual object of 64 MiB+1 and 1 TiB declared size (must fail with <=1 MiB read)",
		"max_verify_alloc": k.maxVerifyAlloc,
	}, "every case is one VerifyPublishedArchive call on the real verifier; a case is distinct by (archive, class, object, position)")
}

func c38BumpHex(s string, nib int) string {
	b := []byte(s)
	const hexd = "0123456789abcdef"
	i := strings.IndexByte(hexd, b[nib])
	b[nib] = hexd[(i+1)%16]
	return string(b)
}

func c38Perms(n int) [][]int {
	var out [][]int
	var rec func(cur []int, used []bool)
	rec = func(cur []int, used []bool) {
		if len(cur) == n {
			out = append(out, append([]int(nil), cur...))
			return
		}
		for i := 0; i < n; i++ {
			if !used[i] {
				used[i] = true
				rec(append(cur, i), used)
				used[i] = false
			}
		}
	}
	rec(nil, make([]bool, n))
	return out // out[0] is the identity
}

// ---------------------------------------------------------------- section C

// resign builds a digest-consistent chain for a modified Slot manifest and/or top manifest.
func (a *c38Archive) resign(slot int, sm *backup.SlotManifest, adjRef func(*backup.SlotReference), adjTop func(*backup.ArchiveManifest)) []c38Edit {
	top := a.published
	top.Slots = append([]backup.SlotReference(nil), a.published.Slots...)
	var edits []c38Edit
	if sm != nil {
		body, _ := json.Marshal(*sm)
		ref := top.Slots[slot]
		ref.ManifestSHA256 = c38Sum(body)
		if adjRef != nil {
			adjRef(&ref)
		}
		top.Slots[slot] = ref
		if top.MaxMessageID != 0 {
			top.MaxMessageID = 0
			for _, s := range top.Slots {
				top.MaxMessageID = max(top.MaxMessageID, s.MaxMessageID)
			}
		}
		edits = append(edits, c38Edit{key: a.root + a.published.Slots[slot].ManifestKey, body: body})
	}
	if adjTop != nil {
		adjTop(&top)
	}
	topBody, _ := json.Marshal(top)
	mk, _ := json.Marshal(backup.CompleteMarker{Format: backup.CompleteMarkerFormat, Version: backup.CompleteMarkerVersion, ManifestSHA256: c38Sum(topBody), ManifestBytes: uint64(len(topBody))})
	return append(edits, c38Edit{key: a.root + "manifest.json", body: topBody}, c38Edit{key: a.root + "COMPLETE", body: mk})
}

func c38CloneSlot(sm backup.SlotManifest) *backup.SlotManifest {
	c := sm
	c.Chunks = append([]backup.ChunkReference(nil), sm.Chunks...)
	return &c
}

func (k *c38Kit) resigned(archives []*c38Archive) {
	sec := "resigned"
	e := k.r.NewEnum(sec)
	controls, controlsOK := 0, 0
	for _, a := range archives {
		n := a.shape.name
		control := func(name string, edits []c38Edit) {
			key := n + "|control|" + name
			if k.skip(key) {
				return
			}
			_, err, pan, _ := k.verify(a, edits)
			controls++
			if err == nil && pan == nil {
				controlsOK++
			}
			e.Case(key, false, "control/"+c38ErrClass(err))
		}
		var slots []int
		for s := range a.focus {
			slots = append(slots, s)
		}
		for _, slot := range slots {
			if !k.mine(slot) || k.timeUp() {
				continue
			}
			base := a.slotMan[slot]
			pfx := fmt.Sprintf("%s|slot%03d|", n, slot)
			// controls: a consistent semantic change re-signed up the chain is a valid archive
			{
				sm := c38CloneSlot(base)
				sm.Cut.AppliedIndex++
				control(fmt.Sprintf("slot%03d-cut", slot), a.resign(slot, sm, nil, nil))
			}
			slotCase := func(class, name string, sm *backup.SlotManifest, adjRef func(*backup.SlotReference), adjTop func(*backup.ArchiveManifest)) {
				k.mustFail(e, sec, a, class, "slot-manifest", pfx+class+"|"+name, a.resign(slot, sm, adjRef, adjTop))
			}
			for pi, perm := range c38Perms(len(base.Chunks)) {
				if pi == 0 {
					continue
				}
				sm := c38CloneSlot(base)
				for i, j := range perm {
					sm.Chunks[i] = base.Chunks[j]
				}
				slotCase("resigned-chunk-order", fmt.Sprint(perm), sm, nil, nil)
			}
			for ci := range base.Chunks {
				for _, d := range []int64{+1, -1} {
					d := d
					add := func(x uint64) uint64 { return uint64(int64(x) + d) }
					sm := c38CloneSlot(base)
					sm.Chunks[ci].Descriptor.StoredBytes = add(sm.Chunks[ci].Descriptor.StoredBytes)
					sm.StoredBytes = add(sm.StoredBytes)
					slotCase("resigned-stored-size", fmt.Sprintf("chunk%d%+d", ci, d), sm,
						func(r *backup.SlotReference) { r.StoredBytes = add(r.StoredBytes) }, func(t *backup.ArchiveManifest) { t.StoredBytes = add(t.StoredBytes) })
					sm = c38CloneSlot(base)
					sm.Chunks[ci].Descriptor.LogicalBytes = add(sm.Chunks[ci].Descriptor.LogicalBytes)
					sm.LogicalBytes = add(sm.LogicalBytes)
					slotCase("resigned-logical-size", fmt.Sprintf("chunk%d%+d", ci, d), sm,
						func(r *backup.SlotReference) { r.LogicalBytes = add(r.LogicalBytes) }, func(t *backup.ArchiveManifest) { t.LogicalBytes = add(t.LogicalBytes) })
					sm = c38CloneSlot(base)
					sm.Chunks[ci].Sequence = uint32(add(uint64(sm.Chunks[ci].Sequence)))
					slotCase("resigned-chunk-position", fmt.Sprintf("chunk%d-sequence%+d", ci, d), sm, nil, nil)
					sm = c38CloneSlot(base)
					sm.Chunks[ci].Part = uint32(add(uint64(sm.Chunks[ci].Part)))
					slotCase("resigned-chunk-position", fmt.Sprintf("chunk%d-part%+d", ci, d), sm, nil, nil)
				}
				for _, nib := range []int{0, 31, 63} {
					sm := c38CloneSlot(base)
					sm.Chunks[ci].Descriptor.StoredSHA256 = c38BumpHex(sm.Chunks[ci].Descriptor.StoredSHA256, nib)
					slotCase("resigned-stored-digest", fmt.Sprintf("chunk%d-nibble%d", ci, nib), sm, nil, nil)
					sm = c38CloneSlot(base)
					sm.Chunks[ci].Descriptor.LogicalSHA256 = c38BumpHex(sm.Chunks[ci].Descriptor.LogicalSHA256, nib)
					slotCase("resigned-logical-digest", fmt.Sprintf("chunk%d-nibble%d", ci, nib), sm, nil, nil)
				}
				sm := c38CloneSlot(base)
				sm.Chunks[ci].Final = !sm.Chunks[ci].Final
				slotCase("resigned-chunk-position", fmt.Sprintf("chunk%d-final-flipped", ci), sm, nil, nil)
				sm = c38CloneSlot(base)
				if sm.Chunks[ci].Kind == backup.ChunkKindMetadata {
					sm.Chunks[ci].Kind = backup.ChunkKindMessages
				} else {
					sm.Chunks[ci].Kind = backup.ChunkKindMetadata
				}
				slotCase("resigned-chunk-position", fmt.Sprintf("chunk%d-kind-switched", ci), sm, nil, nil)
				sm = c38CloneSlot(base)
				sm.Chunks[ci].Descriptor.Compression = "gzip"
				slotCase("resigned-codec", fmt.Sprintf("chunk%d-gzip", ci), sm, nil, nil)
				for cj := range base.Chunks {
					if cj != ci {
						sm = c38CloneSlot(base)
						sm.Chunks[ci].Key = base.Chunks[cj].Key
						slotCase("resigned-chunk-key", fmt.Sprintf("chunk%d-key-of-%d", ci, cj), sm, nil, nil)
					}
				}
				other := (slot + 1) % backup.DefaultHashSlotCount
				sm = c38CloneSlot(base)
				sm.Chunks[ci].Key = a.slotMan[other].Chunks[0].Key
				slotCase("resigned-chunk-key", fmt.Sprintf("chunk%d-key-of-slot%03d", ci, other), sm, nil, nil)
				// records +1 on one chunk without the totals
				sm = c38CloneSlot(base)
				sm.Chunks[ci].Records++
				slotCase("resigned-totals", fmt.Sprintf("chunk%d-records+1", ci), sm, nil, nil)
				if sm.Chunks[ci].Kind == backup.ChunkKindMetadata {
					sm = c38CloneSlot(base)
					sm.Chunks[ci].MaxMessageID = 5
					sm.MaxMessageID = max(sm.MaxMessageID, 5)
					slotCase("resigned-totals", fmt.Sprintf("chunk%d-metadata-message-id", ci), sm, func(r *backup.SlotReference) { r.MaxMessageID = max(r.MaxMessageID, 5) }, nil)
				}
			}
			for _, f := range []string{"logical", "stored", "records", "maxid"} {
				f := f
				sm := c38CloneSlot(base)
				bump := func(l, s, r, m *uint64) {
					switch f {
					case "logical":
						*l++
					case "stored":
						*s++
					case "records":
						*r++
					case "maxid":
						*m++
					}
				}
				bump(&sm.LogicalBytes, &sm.StoredBytes, &sm.Records, &sm.MaxMessageID)
				slotCase("resigned-totals", "slot-total-"+f+"+1", sm,
					func(r *backup.SlotReference) { bump(&r.LogicalBytes, &r.StoredBytes, &r.Records, &r.MaxMessageID) },
					func(t *backup.ArchiveManifest) {
						var dummy uint64
						bump(&t.LogicalBytes, &t.StoredBytes, &t.Records, &dummy)
					})
				// reference disagrees with an unchanged Slot manifest
				k.mustFail(e, sec, a, "resigned-reference", "archive-manifest", pfx+"reference-"+f+"+1", a.resign(slot, nil, nil, func(t *backup.ArchiveManifest) {
					var dummy uint64
					bump(&t.Slots[slot].LogicalBytes, &t.Slots[slot].StoredBytes, &t.Slots[slot].Records, &t.Slots[slot].MaxMessageID)
					bump(&t.LogicalBytes, &t.StoredBytes, &t.Records, &dummy)
					if f == "maxid" && t.Slots[slot].MaxMessageID > t.MaxMessageID {
						t.MaxMessageID = t.Slots[slot].MaxMessageID
					}
				}))
			}
			sm := c38CloneSlot(base)
			sm.HashSlot = uint16((slot + 1) % backup.DefaultHashSlotCount)
			slotCase("resigned-identity", "hash-slot+1", sm, nil, nil)
			sm = c38CloneSlot(base)
			sm.Version = 2
			slotCase("resigned-identity", "version2", sm, nil, nil)
			sm = c38CloneSlot(base)
			sm.Format = backup.ArchiveFormat
			slotCase("resigned-identity", "format", sm, nil, nil)
			sm = c38CloneSlot(base)
			sm.Cut.LeaderTerm = 0
			slotCase("resigned-identity", "cut-zero-term", sm, nil, nil)
			sm = c38CloneSlot(base)
			sm.Chunks = nil
			sm.LogicalBytes, sm.StoredBytes, sm.Records, sm.MaxMessageID = 0, 0, 0, 0
			slotCase("resigned-chunk-order", "no-chunks", sm, func(r *backup.SlotReference) { r.LogicalBytes, r.StoredBytes, r.Records, r.MaxMessageID = 0, 0, 0, 0 },
				func(t *backup.ArchiveManifest) { t.LogicalBytes, t.StoredBytes, t.Records, t.MaxMessageID = 0, 0, 0, 0 })
			// reference digest of the unchanged Slot manifest altered
			k.mustFail(e, sec, a, "resigned-reference", "archive-manifest", pfx+"reference-digest", a.resign(slot, nil, nil, func(t *backup.ArchiveManifest) {
				t.Slots[slot].ManifestSHA256 = c38BumpHex(t.Slots[slot].ManifestSHA256, 7)
			}))
		}
		if !k.mine(2) || k.timeUp() {
			continue
		}
		// top-level manifest only (manifest + COMPLETE re-signed)
		control("top-trigger", a.resign(0, nil, nil, func(t *backup.ArchiveManifest) { t.Trigger = backup.TriggerManual }))
		top := func(class, name string, f func(t *backup.ArchiveManifest)) {
			k.mustFail(e, sec, a, class, "archive-manifest", n+"|top|"+class+"|"+name, a.resign(0, nil, nil, f))
		}
		for _, p := range [][2]int{{0, 1}, {0, 255}, {254, 255}, {100, 101}} {
			p := p
			top("resigned-slot-order", fmt.Sprintf("swap-%d-%d", p[0], p[1]), func(t *backup.ArchiveManifest) { t.Slots[p[0]], t.Slots[p[1]] = t.Slots[p[1]], t.Slots[p[0]] })
		}
		top("resigned-slot-order", "reversed", func(t *backup.ArchiveManifest) {
			for i, j := 0, len(t.Slots)-1; i < j; i, j = i+1, j-1 {
				t.Slots[i], t.Slots[j] = t.Slots[j], t.Slots[i]
			}
		})
		top("resigned-slot-set", "missing-last", func(t *backup.ArchiveManifest) { t.Slots = t.Slots[:255] })
		top("resigned-slot-set", "missing-first", func(t *backup.ArchiveManifest) { t.Slots = t.Slots[1:] })
		top("resigned-slot-set", "duplicate-entry", func(t *backup.ArchiveManifest) { t.Slots[255] = t.Slots[254] })
		top("resigned-slot-set", "extra-entry", func(t *backup.ArchiveManifest) { t.Slots = append(t.Slots, t.Slots[0]) })
		top("resigned-slot-set", "count-255", func(t *backup.ArchiveManifest) { t.HashSlotCount = 255 })
		top("resigned-slot-set", "key-of-other-slot", func(t *backup.ArchiveManifest) { t.Slots[3].ManifestKey = t.Slots[4].ManifestKey })
		top("resigned-slot-set", "key-traversal", func(t *backup.ArchiveManifest) { t.Slots[3].ManifestKey = "slots/003/../004/manifest.json" })
		for _, f := range []string{"logical", "stored", "records", "maxid"} {
			f := f
			for _, d := range []int64{+1, -1} {
				d := d
				top("resigned-totals", "top-"+f+fmt.Sprintf("%+d", d), func(t *backup.ArchiveManifest) {
					switch f {
					case "logical":
						t.LogicalBytes = uint64(int64(t.LogicalBytes) + d)
					case "stored":
						t.StoredBytes = uint64(int64(t.StoredBytes) + d)
					case "records":
						t.Records = uint64(int64(t.Records) + d)
					case "maxid":
						t.MaxMessageID = uint64(int64(t.MaxMessageID) + d)
					}
				})
			}
		}
		top("resigned-identity", "id-other", func(t *backup.ArchiveManifest) { t.ID = "bk_c38_other" })
		top("resigned-identity", "id-unsafe", func(t *backup.ArchiveManifest) { t.ID = "../" + t.ID })
		top("resigned-identity", "version2", func(t *backup.ArchiveManifest) { t.Version = 2 })
		top("resigned-identity", "format", func(t *backup.ArchiveManifest) { t.Format = backup.SlotManifestFormat })
		top("resigned-identity", "trigger", func(t *backup.ArchiveManifest) { t.Trigger = "weekly" })
		top("resigned-codec", "compression", func(t *backup.ArchiveManifest) { t.Compression = "gzip" })
		top("resigned-codec", "checksum", func(t *backup.ArchiveManifest) { t.Checksum = "md5" })
		top("resigned-identity", "completed-before-started", func(t *backup.ArchiveManifest) { t.CompletedAtUnixMillis = t.StartedAtUnixMillis - 1 })
		top("resigned-identity", "cut-after-completed", func(t *backup.ArchiveManifest) { t.CutEndedUnixMillis = t.CompletedAtUnixMillis + 1 })
		top("resigned-identity", "cluster-unsafe", func(t *backup.ArchiveManifest) { t.SourceClusterID = "a/b" })
		// by-design leniency (counted, not demanded): zero archive totals are accepted
		for _, f := range []string{"logical", "stored", "records"} {
			f := f
			key := n + "|top|zero-total|" + f
			if k.skip(key) {
				continue
			}
			_, err, _, _ := k.verify(a, a.resign(0, nil, nil, func(t *backup.ArchiveManifest) {
				switch f {
				case "logical":
					t.LogicalBytes = 0
				case "stored":
					t.StoredBytes = 0
				case "records":
					t.Records = 0
				}
			}))
			e.Case(key, false, "zero-archive-total/"+c38ErrClass(err))
		}
	}
	if k.replay == "" && controls > 0 {
		k.r.Guard(fmt.Sprintf("resign-controls-accepted/shard%d", k.shardI), controls == controlsOK, "%d of %d digest-consistent control archives (harmless semantic change re-signed up the chain) verify: the re-signing helper builds valid chains, so every rejection in this section is caused by the targeted inconsistency", controlsOK, controls)
	}
	e.Done(!k.capped, map[string]any{
		"scope": "focus Slots of every archive + the top-level manifest; the adversary recomputes every digest above the modified object (Slot reference, archive totals, COMPLETE), so only the structural rules can detect the change",
		"cases": "chunk order (all permutations, no chunks), stored/logical size +-1 with consistent totals, digest nibbles, sequence/part +-1, final flipped, kind switched, key of another chunk/Slot, totals, identity, Slot reference order/set/fields",
	}, "not demanded (counted only): a re-signed archive whose top-level totals are zero is accepted by design (validateArchiveManifest treats 0 as 'not recorded')")
}

// ---------------------------------------------------------------- section D

type c38Decoder struct {
	name   string
	body   []byte // canonical accepted input
	decode func(in []byte) error
}

const (
	c38AllocBase  = 4 << 20
	c38AllocPerIn = 1024
)

func (k *c38Kit) decodeCase(e *ev.Enum, d *c38Decoder, class, name string, in []byte) {
	key := d.name + "|" + class + "|" + name
	if k.skip(key) {
		return
	}
	if bytes.Equal(in, d.body) {
		e.Case(key, false, "identical")
		return
	}
	var err, cerr error
	var pan, cpan any
	var alloc uint64
	k.noGC(func() {
		alloc = k.measure(func() {
			defer func() {
				if p := recover(); p != nil {
					pan = p
				}
			}()
			err = d.decode(in)
		})
		// SEQUENCE: the canonical document must still be accepted right after the variant
		func() {
			defer func() {
				if p := recover(); p != nil {
					cpan = p
				}
			}()
			cerr = d.decode(d.body)
		}()
	})
	k.redecodes++
	if cerr != nil || cpan != nil {
		k.violate("C38:canonical-rejected-after:"+class+":"+d.name, "decoders", key,
			"sequence: (1) %s on a %s variant (%d bytes) -> %v; (2) %s on the canonical document -> err=%v panic=%v", d.name, class, len(in), err, d.name, cerr, cpan)
	}
	ceiling := uint64(c38AllocBase + c38AllocPerIn*len(in))
	if ratio := float64(alloc) / float64(len(in)+1); len(in) > 4096 && ratio > k.maxDecodeRatio {
		k.maxDecodeRatio = ratio
	}
	sec := "decoders"
	switch {
	case pan != nil:
		k.violate("C38:decoder-panic:"+d.name, sec, key, "%s panicked on %d bytes: %v", d.name, len(in), pan)
	case err == nil && class == "oversized-string" && d.name == "LoadMessageChunkManifest" && strings.Contains(name, ".key "):
		// a message-index chunk key has no length rule beyond ValidateRepositoryKey and the
		// 64 MiB object bound: a longer key is a different canonical manifest (allocation still checked)
		if alloc > ceiling {
			k.violate("C38:decoder-allocation:"+d.name, sec, key, "%s allocated %d bytes on a %d-byte input (ceiling %d)", d.name, alloc, len(in), ceiling)
		}
		e.Case(key, true, class+"/accepted-free-form-field")
		return
	case err == nil:
		k.violate("C38:decoder-accepted:"+class+":"+d.name, sec, key, "%s accepted a %s variant of a canonical manifest (%d bytes)", d.name, class, len(in))
	case alloc > ceiling:
		k.violate("C38:decoder-allocation:"+d.name, sec, key, "%s allocated %d bytes rejecting a %d-byte input (ceiling %d)", d.name, alloc, len(in), ceiling)
	}
	e.Case(key, true, class+"/"+c38ErrClass(err))
	k.sample("decoders/"+class, map[string]any{"section": sec, "decoder": d.name, "class": class, "case": name, "input_bytes": len(in), "alloc": alloc, "result": c38ErrClass(err)})
}

func (k *c38Kit) decoders(archives []*c38Archive) {
	e := k.r.NewEnum("decoders")
	a := archives[1] // "rich"
	manifestBody := a.body(a.root + "manifest.json")
	markerBody := a.body(a.root + "COMPLETE")
	repoBody := a.body(backup.RepositoryMarkerKey)
	best := 0
	for s := range a.focus {
		if len(a.slotMan[s].Chunks) > len(a.slotMan[best].Chunks) || (len(a.slotMan[s].Chunks) == len(a.slotMan[best].Chunks) && s < best) {
			best = s
		}
	}
	slotBody := a.body(a.root + a.published.Slots[best].ManifestKey)
	var idxBody []byte
	{
		var refs []backup.ChunkReference
		for _, c := range a.slotMan[best].Chunks {
			if c.Kind == backup.ChunkKindMessages {
				refs = append(refs, c)
			}
		}
		im, err := backup.NewMessageChunkManifest(uint16(best), refs)
		if err == nil {
			idxBody, err = backup.MarshalMessageChunkManifest(im)
		}
		if err != nil {
			k.r.HarnessError("cannot build a message chunk manifest: %v", err)
			return
		}
	}
	decs := []*c38Decoder{
		{"LoadCompleteMarker", markerBody, func(in []byte) error { _, err := backup.LoadCompleteMarker(in, manifestBody); return err }},
		{"LoadRepositoryMarker", repoBody, func(in []byte) error { _, err := backup.LoadRepositoryMarker(in); return err }},
		{"LoadSlotManifest", slotBody, func(in []byte) error { _, err := backup.LoadSlotManifest(in); return err }},
		{"LoadMessageChunkManifest", idxBody, func(in []byte) error { _, err := backup.LoadMessageChunkManifest(in); return err }},
		{"LoadArchiveManifest", manifestBody, func(in []byte) error { _, err := backup.LoadArchiveManifest(in); return err }},
	}
	accepted := 0
	sizes := ev.Pick(k.r, []int{1000, 20000}, []int{1000, 20000, 300000})
	for di, d := range decs {
		if !k.mine(di) {
			continue
		}
		if len(d.body) == 0 {
			k.r.HarnessError("decoder %s: no canonical body", d.name)
			continue
		}
		if err := d.decode(d.body); err == nil {
			accepted++
		} else {
			k.violate("C38:valid-archive-rejected", "decoders", d.name+"|canonical", "%s rejects its own canonical encoding: %v", d.name, err)
		}
		root, err := c38Parse(d.body)
		if err != nil {
			k.r.HarnessError("decoder %s: cannot index canonical body: %v", d.name, err)
			continue
		}
		doc := d.body
		// scope: the archive manifest has 256 identical Slot entries; quick keeps entries 0,1,255
		inScope := func(path string) bool {
			if k.thorough || d.name != "LoadArchiveManifest" || !strings.HasPrefix(path, ".slots[") {
				return true
			}
			return strings.HasPrefix(path, ".slots[0]") || strings.HasPrefix(path, ".slots[1]") || strings.HasPrefix(path, ".slots[255]")
		}
		root.walk(doc, "", func(path string, n *c38Node) {
			if !inScope(path) || k.timeUp() {
				return
			}
			switch n.kind {
			case '{':
				ins := `"zz_unknown":1`
				if len(n.members) > 0 {
					ins += ","
				}
				k.decodeCase(e, d, "unknown-field", path+"@first", c38Splice(doc, n.start+1, 0, ins))
				k.decodeCase(e, d, "unknown-field", path+"@last", c38Splice(doc, n.end-1, 0, map[bool]string{true: ",", false: ""}[len(n.members) > 0]+`"zz_unknown":{"a":[1,2,3]}`))
				for mi, m := range n.members {
					member := string(doc[m.keyStart:m.end])
					keyName := string(doc[m.keyStart+1 : m.keyEnd-1])
					mp := path + "." + keyName
					k.decodeCase(e, d, "duplicate-key", mp+"@same", c38Splice(doc, m.end, 0, ","+member))
					k.decodeCase(e, d, "duplicate-key", mp+"@null-first", c38Splice(doc, m.keyStart, 0, string(doc[m.keyStart:m.keyEnd])+":null,"))
					k.decodeCase(e, d, "key-case", mp, c38Splice(doc, m.keyStart+1, 1, strings.ToUpper(keyName[:1])))
					if mi+1 < len(n.members) {
						nx := n.members[mi+1]
						swapped := string(doc[nx.keyStart:nx.end]) + "," + member
						k.decodeCase(e, d, "reordered-keys", mp, c38Splice(doc, m.keyStart, nx.end-m.keyStart, swapped))
					}
					for _, ws := range []string{" ", "\n", "\t", "\r"} {
						k.decodeCase(e, d, "whitespace", mp+"@before-key"+fmt.Sprintf("%q", ws), c38Splice(doc, m.keyStart, 0, ws))
						k.decodeCase(e, d, "whitespace", mp+"@after-colon"+fmt.Sprintf("%q", ws), c38Splice(doc, m.keyEnd+1, 0, ws))
						k.decodeCase(e, d, "whitespace", mp+"@before-colon"+fmt.Sprintf("%q", ws), c38Splice(doc, m.keyEnd, 0, ws))
						k.decodeCase(e, d, "whitespace", mp+"@after-value"+fmt.Sprintf("%q", ws), c38Splice(doc, m.end, 0, ws))
					}
					switch m.val.kind {
					case 'n':
						num := string(doc[m.val.start:m.val.end])
						for _, alt := range []string{num + ".0", num + "e0", "0" + num, "+" + num, "-" + num, `"` + num + `"`, num + "E+0", "[" + num + "]", "null", "1e400", strings.Repeat("9", 40)} {
							k.decodeCase(e, d, "number-form", mp+"="+alt, c38Splice(doc, m.val.start, m.val.end-m.val.start, alt))
						}
					case '"':
						if m.val.end-m.val.start > 2 {
							c := doc[m.val.start+1]
							k.decodeCase(e, d, "string-escape", mp, c38Splice(doc, m.val.start+1, 1, fmt.Sprintf(`\u%04x`, c)))
						}
						k.decodeCase(e, d, "type-change", mp+"=null", c38Splice(doc, m.val.start, m.val.end-m.val.start, "null"))
						k.decodeCase(e, d, "type-change", mp+"=0", c38Splice(doc, m.val.start, m.val.end-m.val.start, "0"))
					case 'l':
						k.decodeCase(e, d, "type-change", mp+"=0", c38Splice(doc, m.val.start, m.val.end-m.val.start, "0"))
					}
				}
			case '[':
				for _, ws := range []string{" ", "\n"} {
					k.decodeCase(e, d, "whitespace", path+"@after-["+fmt.Sprintf("%q", ws), c38Splice(doc, n.start+1, 0, ws))
					k.decodeCase(e, d, "whitespace", path+"@before-]"+fmt.Sprintf("%q", ws), c38Splice(doc, n.end-1, 0, ws))
				}
				if len(n.elems) > 0 {
					first := string(doc[n.elems[0].start:n.elems[0].end])
					k.decodeCase(e, d, "array-element", path+"@dup-first", c38Splice(doc, n.start+1, 0, first+","))
					k.decodeCase(e, d, "array-element", path+"@drop-first", c38Splice(doc, n.elems[0].start, c38ElemSpan(n, 0), ""))
					k.decodeCase(e, d, "array-element", path+"@null-first", c38Splice(doc, n.start+1, 0, "null,"))
				}
			}
		})
		// whole-document variants
		for _, tail := range []string{" ", "\n", "\r\n", "\x00", "{}", "null", "[]", ",", string(doc)} {
			k.decodeCase(e, d, "trailing-data", fmt.Sprintf("%q", c38Short(tail)), append(c38Clone(doc), tail...))
		}
		for _, head := range []string{" ", "\n", "\xef\xbb\xbf", "[", "//x\n"} {
			k.decodeCase(e, d, "leading-data", fmt.Sprintf("%q", head), append([]byte(head), doc...))
		}
		k.decodeCase(e, d, "wrapped", "array", []byte("["+string(doc)+"]"))
		k.decodeCase(e, d, "empty", "empty", []byte{})
		k.decodeCase(e, d, "empty", "null", []byte("null"))
		k.decodeCase(e, d, "empty", "object", []byte("{}"))
		var indented bytes.Buffer
		_ = json.Indent(&indented, doc, "", " ")
		k.decodeCase(e, d, "whitespace", "indented", indented.Bytes())
		for l := 0; l < len(doc); l++ {
			if !k.thorough && len(doc) > 4096 && l%97 != 0 && l < len(doc)-64 {
				continue
			}
			k.decodeCase(e, d, "truncated", fmt.Sprint(l), doc[:l:l])
		}
		// oversized: arrays, strings, numbers, nesting (length bombs)
		root.walk(doc, "", func(path string, n *c38Node) {
			if k.timeUp() {
				return
			}
			depth := strings.Count(path, ".") + strings.Count(path, "[")
			if depth > 1 && !(strings.HasPrefix(path, ".slots[0]") || strings.HasPrefix(path, ".chunks[0]")) {
				return
			}
			for _, sz := range sizes {
				switch n.kind {
				case '[':
					for _, el := range []string{"{}", "0", `""`, "[]", "null"} {
						bomb := strings.Repeat(el+",", sz)
						k.decodeCase(e, d, "oversized-array", fmt.Sprintf("%s x%d %s", path, sz, el), c38Splice(doc, n.start+1, 0, bomb))
					}
					if len(n.elems) > 0 {
						first := string(doc[n.elems[0].start:n.elems[0].end])
						if len(first)*sz <= 8<<20 {
							k.decodeCase(e, d, "oversized-array", fmt.Sprintf("%s x%d copies", path, sz), c38Splice(doc, n.start+1, 0, strings.Repeat(first+",", sz)))
						}
					}
				case '"':
					k.decodeCase(e, d, "oversized-string", fmt.Sprintf("%s +%d", path, sz*16), c38Splice(doc, n.start+1, 0, strings.Repeat("a", sz*16)))
					k.decodeCase(e, d, "oversized-string", fmt.Sprintf("%s +%d escapes", path, sz), c38Splice(doc, n.start+1, 0, strings.Repeat(`\u0000`, sz)))
				case 'n':
					k.decodeCase(e, d, "oversized-number", fmt.Sprintf("%s %d digits", path, sz), c38Splice(doc, n.start, n.end-n.start, strings.Repeat("7", sz)))
				}
			}
		})
		for _, sz := range sizes {
			k.decodeCase(e, d, "oversized-nesting", fmt.Sprintf("unknown x%d arrays", sz), c38Splice(doc, 1, 0, `"zz":`+strings.Repeat("[", sz)+strings.Repeat("]", sz)+","))
			k.decodeCase(e, d, "oversized-nesting", fmt.Sprintf("unknown x%d objects", sz), c38Splice(doc, 1, 0, `"zz":`+strings.Repeat(`{"a":`, sz)+"1"+strings.Repeat("}", sz)+","))
			k.decodeCase(e, d, "oversized-nesting", fmt.Sprintf("document x%d", sz), []byte(strings.Repeat("[", sz)))
			k.decodeCase(e, d, "oversized-array", fmt.Sprintf("unknown x%d", sz), c38Splice(doc, 1, 0, `"zz":[`+strings.Repeat("0,", sz)+"0],"))
			k.decodeCase(e, d, "oversized-string", fmt.Sprintf("unknown key %d", sz*16), c38Splice(doc, 1, 0, `"`+strings.Repeat("k", sz*16)+`":1,`))
		}
	}
	if k.replay == "" {
		k.r.Guard("decoders-accept-canonical", accepted > 0, "%d decoders accepted their canonical encodings in this shard", accepted)
	}
	e.Done(!k.capped, map[string]any{
		"decoders":         []string{"LoadArchiveManifest", "LoadSlotManifest", "LoadMessageChunkManifest", "LoadCompleteMarker", "LoadRepositoryMarker"},
		"positions":        "every object / member / array of the canonical document (archive manifest: top level + Slot entries 0,1,255 in quick, all 256 in thorough)",
		"variants":         "unknown field first/last, duplicate key (same value / null first), key case, adjacent members swapped, whitespace {20,0a,09,0d} at 4 structural positions per member, number forms, string escape, type change, array element dup/drop/null, trailing/leading data, every truncation (quick: stride 97 for documents > 4 KiB)",
		"oversized":        fmt.Sprintf("arrays of %v extra elements x {{}},0,\"\",[],null,copies}, strings +16x, escapes, digits, nesting of unknown fields and of the document", sizes),
		"alloc_ceiling":    fmt.Sprintf("%d + %d x len(input) bytes per call (runtime.MemStats.TotalAlloc delta, GOMAXPROCS=1)", c38AllocBase, c38AllocPerIn),
		"max_alloc_per_in": k.maxDecodeRatio,
	}, "every variant must be rejected (error, no panic) within the allocation ceiling")
}

func c38ElemSpan(n *c38Node, i int) int {
	if i+1 < len(n.elems) {
		return n.elems[i+1].start - n.elems[i].start
	}
	return n.elems[i].end - n.elems[i].start
}

func c38Short(s string) string {
	if len(s) > 16 {
		return s[:16] + "..."
	}
	return s
}

// ---------------------------------------------------------------- section E

type c38Healthy struct {
	key     string
	body    []byte
	desc    backup.ChunkDescriptor
	payload []byte
}

// decodeChunk runs the real exported chunk verifier on (body, desc).
func c38DecodeChunk(body []byte, desc backup.ChunkDescriptor) (out []byte, err error, pan any) {
	defer func() {
		if p := recover(); p != nil {
			pan = p
		}
	}()
	var dst bytes.Buffer
	err = backup.DecodeChunk(&dst, bytes.NewReader(body), desc)
	return dst.Bytes(), err, nil
}

// sequences: verification is a sequence of calls in ONE process. Every case here is a
// multi-step history: a rejected (mutated) chunk / archive followed by a healthy one that
// has to verify, followed (by the chaining of cases) by the next mutated one that has to be
// rejected again.
//   chunk   DecodeChunk(mutated bytes or descriptor) -> error ; DecodeChunk(healthy chunk H)
//           -> nil and H's payload, for every single mutation of every focus chunk and
//           H in {the same chunk, the next distinct healthy chunk}
//   archive VerifyPublishedArchive(mutated) -> error ; VerifyPublishedArchive(pristine) ->
//           the published manifest, for a menu of mutations of every object kind and every
//           byte of the first focus chunk
func (k *c38Kit) sequences(archives []*c38Archive) {
	sec := "sequence"
	e := k.r.NewEnum(sec)
	var nChunkPairs, nArchivePairs, nZstdErr, nCompareErr int64
	for _, a := range archives {
		n := a.shape.name
		// healthy chunks: every chunk of the focus Slots plus the last Slot's chunk, distinct bodies
		var hs []c38Healthy
		seen := map[string]bool{}
		addSlot := func(slot int) {
			for _, c := range a.slotMan[slot].Chunks {
				key := a.root + c.Key
				if seen[string(a.body(key))] {
					continue
				}
				seen[string(a.body(key))] = true
				hs = append(hs, c38Healthy{key: key, body: a.body(key), desc: c.Descriptor, payload: a.payload[key]})
			}
		}
		var fslots []int
		for s := range a.focus {
			fslots = append(fslots, s)
		}
		sort.Ints(fslots)
		for _, s := range fslots {
			addSlot(s)
		}
		addSlot(backup.DefaultHashSlotCount - 2)
		if len(hs) < 2 {
			k.r.HarnessError("archive %s: fewer than two distinct healthy chunks", n)
			continue
		}
		// ---- chunk-level pairs
		for ci, c := range hs {
			if !k.mine(ci) || k.timeUp() {
				continue
			}
			type mut struct {
				name string
				body []byte
				desc backup.ChunkDescriptor
			}
			var muts []mut
			for off := range c.body {
				for mi, nb := range []byte{c.body[off] ^ 1, 0xFF} {
					if nb == c.body[off] {
						continue
					}
					b := c38Clone(c.body)
					b[off] = nb
					muts = append(muts, mut{fmt.Sprintf("%s@%d", [2]string{"byte-bit0", "byte-ff"}[mi], off), b, c.desc})
				}
			}
			for l := 0; l < len(c.body); l++ {
				muts = append(muts, mut{fmt.Sprintf("truncated@%d", l), c.body[:l:l], c.desc})
			}
			for _, x := range []byte{0x00, '\n', ' ', 0xFF, '}'} {
				muts = append(muts, mut{fmt.Sprintf("extended@%02x", x), append(c38Clone(c.body), x), c.desc})
			}
			muts = append(muts, mut{"doubled", append(c38Clone(c.body), c.body...), c.desc})
			other := hs[(ci+1)%len(hs)]
			muts = append(muts, mut{"foreign-body", other.body, c.desc})
			for _, d := range []int64{+1, -1} {
				dd := c.desc
				dd.StoredBytes = uint64(int64(dd.StoredBytes) + d)
				muts = append(muts, mut{fmt.Sprintf("desc-stored-bytes%+d", d), c.body, dd})
				dd = c.desc
				dd.LogicalBytes = uint64(int64(dd.LogicalBytes) + d)
				muts = append(muts, mut{fmt.Sprintf("desc-logical-bytes%+d", d), c.body, dd})
			}
			for _, nib := range []int{0, 63} {
				dd := c.desc
				dd.StoredSHA256 = c38BumpHex(dd.StoredSHA256, nib)
				muts = append(muts, mut{fmt.Sprintf("desc-stored-digest-nibble%d", nib), c.body, dd})
				dd = c.desc
				dd.LogicalSHA256 = c38BumpHex(dd.LogicalSHA256, nib)
				muts = append(muts, mut{fmt.Sprintf("desc-logical-digest-nibble%d", nib), c.body, dd})
			}
			dd := c.desc
			dd.Compression = "gzip"
			muts = append(muts, mut{"desc-codec", c.body, dd})
			followers := []c38Healthy{c, other}
			for _, m := range muts {
				class := m.name
				if i := strings.IndexByte(class, '@'); i >= 0 {
					class = class[:i]
				}
				for fi, h := range followers {
					key := fmt.Sprintf("%s|chunk-pair|%s|%s|then-%s", n, c.key, m.name, [2]string{"same", "next"}[fi])
					if k.skip(key) {
						continue
					}
					var merr, herr error
					var mpan, hpan any
					var hout []byte
					k.noGC(func() {
						_, merr, mpan = c38DecodeChunk(m.body, m.desc)
						hout, herr, hpan = c38DecodeChunk(h.body, h.desc)
					})
					switch {
					case mpan != nil:
						k.violate("C38:decode-chunk-panic:"+class, sec, key, "DecodeChunk panicked on a mutated chunk: %v", mpan)
					case merr == nil:
						k.violate("C38:chunk-mutation-accepted:"+class, sec, key, "DecodeChunk accepted a mutated chunk (%s)", m.name)
					case strings.Contains(merr.Error(), "mismatch"):
						nCompareErr++
					default:
						nZstdErr++
					}
					if herr != nil || hpan != nil || !bytes.Equal(hout, h.payload) {
						k.violate("C38:healthy-chunk-rejected-after:"+class, sec, key,
							"sequence: (1) DecodeChunk(%s of %s) -> %v; (2) DecodeChunk(untouched %s, its published descriptor) -> err=%v panic=%v, %d of %d payload bytes reproduced",
							m.name, c.key, merr, h.key, herr, hpan, len(hout), len(h.payload))
					}
					nChunkPairs++
					e.Case(key, true, "chunk-pair/"+class+"/"+c38ErrClass(merr))
					k.sample(sec+"/chunk/"+class, map[string]any{"section": sec, "case": key, "step1": c38ErrClass(merr), "step2": c38ErrClass(herr)})
				}
			}
		}
		// ---- archive-level pairs: mutated full verification, then pristine full verification
		type amut struct {
			class, kind, name string
			edits             []c38Edit
		}
		var amuts []amut
		// quick: archives "min" (one legacy single-chunk focus Slot) and "rich" (multi-chunk, attempt keys),
		// archive-level objects + the probe Slot's objects + the last Slot's objects; thorough: every archive,
		// every focus object. A full pristine verification costs 256 Slot verifications.
		if !k.thorough && n != "min" && n != "rich" {
			continue
		}
		objs := a.focusObjects()
		if !k.thorough {
			objs = append([]c38Object{a.objects[0], a.objects[1]}, a.slotObjs[a.probeSlot()]...)
		}
		objs = append(objs, a.slotObjs[backup.DefaultHashSlotCount-1]...) // fails after 255 healthy Slots
		for _, o := range objs {
			orig := a.body(o.key)
			flip := func(off int, ff bool) []byte {
				b := c38Clone(orig)
				if ff && b[off] != 0xFF {
					b[off] = 0xFF
				} else {
					b[off] ^= 1
				}
				return b
			}
			amuts = append(amuts,
				amut{"byte-bit0", o.kind, o.key + "@first", []c38Edit{{key: o.key, body: flip(0, false)}}},
				amut{"byte-ff", o.kind, o.key + "@middle", []c38Edit{{key: o.key, body: flip(len(orig)/2, true)}}},
				amut{"byte-bit0", o.kind, o.key + "@last", []c38Edit{{key: o.key, body: flip(len(orig)-1, false)}}},
				amut{"truncated", o.kind, o.key, []c38Edit{{key: o.key, body: orig[: len(orig)-1 : len(orig)-1]}}},
				amut{"extended", o.kind, o.key, []c38Edit{{key: o.key, body: append(c38Clone(orig), 0)}}},
				amut{"deleted", o.kind, o.key, []c38Edit{{key: o.key, del: true}}})
		}
		// every byte of the first focus chunk (all archives in thorough, archive "min" in quick)
		if k.thorough {
			o := a.slotObjs[a.probeSlot()][1]
			orig := a.body(o.key)
			for off := range orig {
				for mi, nb := range []byte{orig[off] ^ 1, 0xFF} {
					if nb == orig[off] {
						continue
					}
					b := c38Clone(orig)
					b[off] = nb
					amuts = append(amuts, amut{[2]string{"byte-bit0", "byte-ff"}[mi], o.kind, fmt.Sprintf("%s@%d", o.key, off), []c38Edit{{key: o.key, body: b}}})
				}
			}
		}
		amuts = append(amuts, amut{"corrupt-marker-present", "marker", "CORRUPT", []c38Edit{{key: a.root + "CORRUPT", body: []byte("x")}}})
		for mi, m := range amuts {
			if !k.mine(mi) || k.timeUp() {
				continue
			}
			key := fmt.Sprintf("%s|archive-pair|%s|%s", n, m.class, m.name)
			if k.skip(key) {
				continue
			}
			var merr, herr error
			var mpan, hpan any
			var hm backup.ArchiveManifest
			k.noGC(func() {
				_, merr, mpan, _ = k.verify(a, m.edits)
				hm, herr, hpan, _ = k.verify(a, nil)
			})
			switch {
			case mpan != nil:
				k.violate("C38:verify-panic:"+m.class+":"+m.kind, sec, key, "VerifyPublishedArchive panicked: %v", mpan)
			case merr == nil:
				k.violate("C38:mutation-accepted:"+m.class+":"+m.kind, sec, key, "VerifyPublishedArchive accepted a mutated archive (%s of a %s object)", m.class, m.kind)
			}
			if herr != nil || hpan != nil || !reflect.DeepEqual(hm, a.published) {
				k.violate("C38:valid-archive-rejected-after:"+m.class+":"+m.kind, sec, key,
					"sequence: (1) VerifyPublishedArchive on the archive with a %s of a %s object -> %v; (2) store restored, VerifyPublishedArchive on the pristine published archive -> err=%v panic=%v manifest-equal=%v (a published, untouched archive must verify; a caller would quarantine it as CORRUPT)",
					m.class, m.kind, merr, herr, hpan, reflect.DeepEqual(hm, a.published))
			}
			nArchivePairs++
			e.Case(key, true, "archive-pair/"+m.class+"/"+c38ErrClass(merr))
			k.sample(sec+"/archive/"+m.class, map[string]any{"section": sec, "case": key, "step1": c38ErrClass(merr), "step2": c38ErrClass(herr)})
		}
	}
	k.r.Count("sequence_chunk_pairs", nChunkPairs)
	k.r.Count("sequence_archive_pairs", nArchivePairs)
	k.r.Count("sequence_chunk_step1_decoder_errors", nZstdErr)
	k.r.Count("sequence_chunk_step1_digest_or_size_mismatch", nCompareErr)
	if k.replay == "" {
		k.r.Guard("sequence-pairs-run", nChunkPairs >= 100 && nArchivePairs >= 5 && nZstdErr+nCompareErr > 0,
			"%d chunk pairs (step 1 rejected %d times inside the decoder / descriptor validation, %d times by the digest/size comparison) and %d archive pairs (rejected, then pristine)", nChunkPairs, nZstdErr, nCompareErr, nArchivePairs)
	}
	e.Done(!k.capped, map[string]any{
		"chunk_pairs":   "for every archive, every distinct chunk C of the focus Slots and of Slot 254: every byte x {bit0 flipped, 0xFF}, every truncation length, +1 byte {00,0a,20,ff,7d}, doubled, another chunk's bytes, descriptor stored/logical size +-1, digest nibbles 0/63, codec; each followed by DecodeChunk of {C itself, the next distinct healthy chunk} which must succeed and reproduce the payload",
		"archive_pairs": "quick: archives 'min' and 'rich': COMPLETE, manifest.json, every object of the lowest focus Slot and both objects of Slot 255 x {bit0 of first byte, 0xFF at the middle byte, bit0 of last byte, last byte cut, +1 byte 00, deleted} and CORRUPT marker present; thorough: every archive, every focus object, plus every byte x {bit0, 0xFF} of the first focus chunk; each followed by VerifyPublishedArchive of the pristine archive which must return the published manifest",
		"state_reuse":   "GOMAXPROCS=1 and the collector switched off for the duration of each sequence (debug.SetGCPercent(-1)): one P, no pool cleanup => whatever step 1 leaves in a sync.Pool / package variable is what step 2 receives; the same holds for the healthy-Slot probe after every case of the single-mutation and resigned sections and the canonical re-decode after every decoder case",
	}, "a case is a two-step history in one process; consecutive cases chain to ...rejected, accepted, rejected, accepted...")
}

// ---------------------------------------------------------------- test

func TestVerifC38(t *testing.T) {
	r := ev.Start(t, "C38")
	defer r.Finish()
	k := &c38Kit{r: r, thorough: r.Thorough(), deadline: r.Deadline(), sampled: map[string]bool{}}
	k.shardI, k.shardN = r.Shard()
	section := ""
	if rf := r.Replay(); rf != nil {
		var pl struct {
			Section string `json:"section"`
			Case    string `json:"case"`
		}
		if err := json.Unmarshal(rf.Replay, &pl); err != nil || pl.Case == "" {
			r.HarnessError("bad replay payload: %v", err)
			return
		}
		k.replay, section = pl.Case, pl.Section
		k.shardI, k.shardN = 0, 1
	}
	r.Assume("the ArchiveStore reports exact keys and object sizes (pkg/backup FLOW.md: 'Implementations must preserve exact keys and object sizes'); a store that lies about sizes is out of scope")
	r.Assume("digests are unkeyed SHA-256: an adversary who rewrites an object AND every digest above it produces a different valid archive unless a structural rule is broken; the 'resigned' section therefore demands detection only for ordering, size, identity and reference inconsistencies")
	r.Assume("allocation of one call = runtime.MemStats.TotalAlloc delta, single-threaded (GOMAXPROCS=1, zstd decoders run synchronously)")
	r.Assume("sequences: process-level state left behind by one verification call (sync.Pool items, package variables, caches) reaches the next call deterministically because the test runs on one P (GOMAXPROCS=1) with the collector off for the duration of each sequence; sync.Pool of the go1.25 runtime drops items only in the pool cleanup at the start of a GC cycle")

	var archives []*c38Archive
	for _, sh := range c38Shapes(k.thorough) {
		a, err := c38Build(sh)
		if err != nil {
			r.Violation(ev.Violation{Fingerprint: "C38:valid-archive-rejected", System: "publish-verify",
				Message: fmt.Sprintf("building/publishing archive %q from valid inputs failed: %v", sh.name, err), Replay: map[string]any{"section": "publish-verify", "case": sh.name + "|verify"}})
			return
		}
		archives = append(archives, a)
	}
	run := func(name string, f func([]*c38Archive)) {
		if section == "" || section == name {
			f(archives)
		}
	}
	if k.shardI == 0 {
		run("publish-verify", k.publishVerify)
	}
	run("resigned", k.resigned)
	run("decoders", k.decoders)
	run("sequence", k.sequences)
	run("single-mutation", k.singleMutations)
	r.Count("healthy_slot_probes_after_mutated_archive", k.probes)
	r.Count("healthy_slot_probes_after_same_size_chunk_corruption", k.probesAfterChunkDecodeError)
	r.Count("canonical_redecodes_after_decoder_variant", k.redecodes)
	if k.replay == "" {
		r.Guard("sequence-probes-run", k.probes > 0 && k.probesAfterChunkDecodeError > 0 && k.redecodes > 0,
			"%d mutated-archive verifications were each followed by a verification of an untouched Slot of the pristine archive (%d of them after a same-size corruption of a chunk object, i.e. after a failure inside the chunk decoder); %d decoder variants were each followed by a decode of the canonical document",
			k.probes, k.probesAfterChunkDecodeError, k.redecodes)
	}
	r.Count("max_verify_alloc_bytes", int64(k.maxVerifyAlloc))
}
