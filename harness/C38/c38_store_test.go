package backup_test

// C38 harness, part 1: the smallest ArchiveStore the pkg/backup API accepts (a map), a
// virtual "huge object" reader for the bounded-read cases, the archive builder (real
// EncodeChunk / MarshalSlotManifest / PublishArchive) and a tiny offset-preserving JSON
// tree used to generate manifest mutations.

import (
	"bytes"
	"context"
	"crypto/sha256"
	"encoding/hex"
	"fmt"
	"io"
	"sort"
	"strings"
	"time"

	runtimebackup "github.com/WuKongIM/WuKongIM/internal/runtime/backup"
	"github.com/WuKongIM/WuKongIM/pkg/backup"
)

// ---------------------------------------------------------------- store

type c38Virtual struct {
	size uint64 // declared size; the reader yields that many zero bytes
}

type c38Store struct {
	objs      map[string][]byte
	virt      map[string]c38Virtual
	readBytes uint64 // bytes handed out by virtual readers
	opens     int
}

func c38NewStore() *c38Store {
	return &c38Store{objs: map[string][]byte{}, virt: map[string]c38Virtual{}}
}

func (s *c38Store) Put(_ context.Context, o backup.PutObject) error {
	body, err := io.ReadAll(o.Body)
	if err != nil {
		return err
	}
	if uint64(len(body)) != o.ExpectedBytes {
		return fmt.Errorf("%w: size mismatch", backup.ErrInvalidObject)
	}
	if o.IfAbsent {
		if _, ok := s.objs[o.Key]; ok {
			return backup.ErrObjectExists
		}
	}
	s.objs[o.Key] = body
	return nil
}

type c38ZeroReader struct {
	left uint64
	st   *c38Store
}

func (z *c38ZeroReader) Read(p []byte) (int, error) {
	if z.left == 0 {
		return 0, io.EOF
	}
	n := uint64(len(p))
	if n > z.left {
		n = z.left
	}
	for i := uint64(0); i < n; i++ {
		p[i] = 0
	}
	z.left -= n
	z.st.readBytes += n
	return int(n), nil
}

func (s *c38Store) Open(_ context.Context, key string) (io.ReadCloser, backup.ArchiveObject, error) {
	s.opens++
	if v, ok := s.virt[key]; ok {
		return io.NopCloser(&c38ZeroReader{left: v.size, st: s}), backup.ArchiveObject{Key: key, Bytes: v.size}, nil
	}
	body, ok := s.objs[key]
	if !ok {
		return nil, backup.ArchiveObject{}, backup.ErrObjectNotFound
	}
	return io.NopCloser(bytes.NewReader(body)), backup.ArchiveObject{Key: key, Bytes: uint64(len(body)), Modified: time.Unix(1_800_000_000, 0)}, nil
}

func (s *c38Store) List(_ context.Context, prefix string) ([]backup.ArchiveObject, error) {
	var out []backup.ArchiveObject
	for k, b := range s.objs {
		if strings.HasPrefix(k, prefix) {
			out = append(out, backup.ArchiveObject{Key: k, Bytes: uint64(len(b))})
		}
	}
	sort.Slice(out, func(i, j int) bool { return out[i].Key < out[j].Key })
	return out, nil
}

func (s *c38Store) Delete(_ context.Context, key string) error { delete(s.objs, key); return nil }

func (s *c38Store) DeletePrefix(_ context.Context, prefix string) error {
	for k := range s.objs {
		if strings.HasPrefix(k, prefix) {
			delete(s.objs, k)
		}
	}
	return nil
}

// c38Edit is one object replacement (body == nil: delete; virt != 0: virtual object of that size).
type c38Edit struct {
	key  string
	body []byte
	del  bool
	virt uint64
}

// with applies edits, runs f, and restores the store.
func (s *c38Store) with(edits []c38Edit, f func()) {
	type saved struct {
		key  string
		body []byte
		had  bool
	}
	var undo []saved
	for _, e := range edits {
		old, had := s.objs[e.key]
		undo = append(undo, saved{e.key, old, had})
		switch {
		case e.virt != 0:
			s.virt[e.key] = c38Virtual{size: e.virt}
		case e.del:
			delete(s.objs, e.key)
		default:
			s.objs[e.key] = e.body
		}
	}
	defer func() {
		for i := len(undo) - 1; i >= 0; i-- {
			u := undo[i]
			delete(s.virt, u.key)
			if u.had {
				s.objs[u.key] = u.body
			} else {
				delete(s.objs, u.key)
			}
		}
	}()
	f()
}

// ---------------------------------------------------------------- archive builder

type c38ChunkSpec struct {
	kind    backup.ChunkKind
	stream  uint32
	part    uint32
	final   bool
	records uint64
	maxID   uint64
	size    int // logical payload bytes
}

type c38SlotSpec struct {
	attempt string // "" = legacy keys slots/NNN/..., else slots/NNN/attempts/<attempt>/...
	chunks  []c38ChunkSpec
	// content: non-empty = the chunk payloads depend on this tag instead of the Slot number, so
	// Slots with the same tag and chunk list store byte-identical chunks (equal descriptors)
	content string
}

type c38Shape struct {
	name  string
	id    string
	slots map[int]c38SlotSpec // focus slots; every other slot gets one small metadata chunk
	// idleShared: every non-focus ("idle") Slot stores the same metadata bytes (equal descriptors)
	idleShared bool
}

type c38Object struct {
	key  string // full repository key
	kind string // marker | archive-manifest | slot-manifest | chunk
	slot int    // -1 for archive-level objects
}

type c38Archive struct {
	shape     c38Shape
	store     *c38Store
	root      string
	manifest  backup.ArchiveManifest
	slotMan   []backup.SlotManifest
	objects   []c38Object // verification order: marker, manifest, then per slot manifest + chunks
	focus     map[int]bool
	slotObjs  map[int][]c38Object
	published backup.ArchiveManifest
	payload   map[string][]byte // full chunk key -> logical bytes that were encoded into it
}

var c38Ctx = context.Background()

func c38Meta(size int) c38ChunkSpec {
	return c38ChunkSpec{kind: backup.ChunkKindMetadata, stream: 0, part: 1, final: true, records: 1, size: size}
}

func c38Payload(shape string, slot, idx, size int) []byte {
	head := fmt.Sprintf("c38|%s|slot%03d|chunk%d|", shape, slot, idx)
	b := []byte(head)
	for len(b) < size {
		b = append(b, byte('a'+(len(b)*7+slot+idx)%26))
	}
	return b
}

func c38SlotPrefix(slot int, attempt string) string {
	if attempt == "" {
		return fmt.Sprintf("slots/%03d", slot)
	}
	return fmt.Sprintf("slots/%03d/attempts/%s", slot, attempt)
}

// c38Build writes 256 Slot artifacts with the real chunk/manifest encoders and publishes
// them with the real PublishArchive.
func c38Build(shape c38Shape) (*c38Archive, error) {
	a := &c38Archive{shape: shape, store: c38NewStore(), root: "backups/" + shape.id + "/", focus: map[int]bool{}, slotObjs: map[int][]c38Object{}, payload: map[string][]byte{}}
	refs := make([]backup.SlotReference, backup.DefaultHashSlotCount)
	a.slotMan = make([]backup.SlotManifest, backup.DefaultHashSlotCount)
	for slot := 0; slot < backup.DefaultHashSlotCount; slot++ {
		spec, ok := shape.slots[slot]
		if ok {
			a.focus[slot] = true
		} else {
			spec = c38SlotSpec{chunks: []c38ChunkSpec{c38Meta(24)}}
			if shape.idleShared {
				spec.content = "idle"
			}
		}
		prefix := c38SlotPrefix(slot, spec.attempt)
		man := backup.SlotManifest{
			Format: backup.SlotManifestFormat, Version: backup.SlotManifestVersion, HashSlot: uint16(slot),
			Cut: backup.SlotCut{PhysicalSlotID: uint32(slot%4 + 1), LeaderTerm: 3, AppliedTerm: 3, ConfigurationVersion: 2,
				AppliedIndex: uint64(100 + slot), CapturedAtUnixMillis: 1_800_000_000_100 + int64(slot)},
		}
		seq := map[backup.ChunkKind]uint32{}
		var chunkObjs []c38Object
		for i, cs := range spec.chunks {
			seq[cs.kind]++
			name := "meta"
			if cs.kind == backup.ChunkKindMessages {
				name = "messages"
			}
			key := fmt.Sprintf("%s/%s-%06d.zst", prefix, name, seq[cs.kind])
			var enc bytes.Buffer
			payload := c38Payload(shape.name, slot, i, cs.size)
			if spec.content != "" {
				payload = c38Payload(shape.name+"/"+spec.content, 999, i, cs.size)
			}
			desc, err := backup.EncodeChunk(&enc, bytes.NewReader(payload))
			if err != nil {
				return nil, fmt.Errorf("EncodeChunk slot %d chunk %d: %w", slot, i, err)
			}
			if err := a.store.Put(c38Ctx, backup.PutObject{Key: a.root + key, Body: bytes.NewReader(enc.Bytes()), ExpectedBytes: uint64(enc.Len()), IfAbsent: true}); err != nil {
				return nil, err
			}
			man.Chunks = append(man.Chunks, backup.ChunkReference{Kind: cs.kind, Sequence: seq[cs.kind], Stream: cs.stream, Part: cs.part, Final: cs.final,
				Key: key, Descriptor: desc, Records: cs.records, MaxMessageID: cs.maxID})
			man.LogicalBytes += desc.LogicalBytes
			man.StoredBytes += desc.StoredBytes
			man.Records += cs.records
			if cs.maxID > man.MaxMessageID {
				man.MaxMessageID = cs.maxID
			}
			chunkObjs = append(chunkObjs, c38Object{key: a.root + key, kind: "chunk", slot: slot})
			a.payload[a.root+key] = payload
		}
		body, err := backup.MarshalSlotManifest(man)
		if err != nil {
			return nil, fmt.Errorf("MarshalSlotManifest slot %d: %w", slot, err)
		}
		manKey := prefix + "/manifest.json"
		if err := a.store.Put(c38Ctx, backup.PutObject{Key: a.root + manKey, Body: bytes.NewReader(body), ExpectedBytes: uint64(len(body)), IfAbsent: true}); err != nil {
			return nil, err
		}
		sum := sha256.Sum256(body)
		refs[slot] = backup.SlotReference{HashSlot: uint16(slot), ManifestKey: manKey, ManifestSHA256: hex.EncodeToString(sum[:]),
			LogicalBytes: man.LogicalBytes, StoredBytes: man.StoredBytes, Records: man.Records, MaxMessageID: man.MaxMessageID}
		a.slotMan[slot] = man
		a.slotObjs[slot] = append([]c38Object{{key: a.root + manKey, kind: "slot-manifest", slot: slot}}, chunkObjs...)
	}
	published, err := runtimebackup.PublishArchive(c38Ctx, a.store, runtimebackup.PublishArchiveRequest{
		ID: shape.id, Trigger: backup.TriggerScheduled, SourceClusterID: "cluster-c38", SourceApplication: "wukongim-verif",
		StartedUnixMillis: 1_800_000_000_000, CompletedUnixMillis: 1_800_000_100_000, Slots: refs,
	})
	if err != nil {
		return nil, fmt.Errorf("PublishArchive: %w", err)
	}
	a.published = published
	a.manifest = published
	a.objects = append(a.objects, c38Object{key: a.root + "COMPLETE", kind: "marker", slot: -1}, c38Object{key: a.root + "manifest.json", kind: "archive-manifest", slot: -1})
	for slot := 0; slot < backup.DefaultHashSlotCount; slot++ {
		a.objects = append(a.objects, a.slotObjs[slot]...)
	}
	return a, nil
}

func (a *c38Archive) body(key string) []byte { return a.store.objs[key] }

// ---------------------------------------------------------------- shapes

func c38Msg(stream, part uint32, final bool, records, maxID uint64, size int) c38ChunkSpec {
	return c38ChunkSpec{kind: backup.ChunkKindMessages, stream: stream, part: part, final: final, records: records, maxID: maxID, size: size}
}

func c38Shapes(thorough bool) []c38Shape {
	twoMeta := c38SlotSpec{attempt: "00000002", chunks: []c38ChunkSpec{
		{kind: backup.ChunkKindMetadata, stream: 0, part: 1, final: false, records: 2, size: 36},
		{kind: backup.ChunkKindMetadata, stream: 0, part: 2, final: true, records: 1, size: 33}}}
	threeChunks := c38SlotSpec{chunks: []c38ChunkSpec{c38Meta(28), c38Msg(1, 1, false, 2, 90, 40), c38Msg(1, 2, true, 1, 91, 35)}}
	dupBusy := c38SlotSpec{content: "busy", chunks: []c38ChunkSpec{c38Meta(40), c38Msg(1, 1, true, 3, 77, 48)}}
	// "dup": all idle Slots share one metadata chunk content and two busy Slots (3, 9) are
	// byte-identical, so equal chunk descriptors occur many times in one verification pass
	dup := c38Shape{name: "dup", id: "bk_c38_dup", idleShared: true, slots: map[int]c38SlotSpec{3: dupBusy, 9: dupBusy}}
	if !thorough {
		return []c38Shape{
			{name: "min", id: "bk_c38_min", slots: map[int]c38SlotSpec{0: {chunks: []c38ChunkSpec{c38Meta(30)}}}},
			{name: "rich", id: "bk_c38_rich", slots: map[int]c38SlotSpec{
				0: {chunks: []c38ChunkSpec{c38Meta(40), c38Msg(1, 1, true, 3, 77, 48)}},
				1: threeChunks,
				2: twoMeta,
			}},
			// same backup id as "rich", different content: cross-archive object swaps
			{name: "rich2", id: "bk_c38_rich", slots: map[int]c38SlotSpec{0: {chunks: []c38ChunkSpec{c38Meta(40), c38Msg(1, 1, true, 3, 78, 48)}}}},
			dup,
		}
	}
	return []c38Shape{
		{name: "min", id: "bk_c38_min", slots: map[int]c38SlotSpec{
			0:   {chunks: []c38ChunkSpec{c38Meta(30)}},
			255: {chunks: []c38ChunkSpec{c38Meta(30)}},
		}},
		{name: "rich", id: "bk_c38_rich", slots: map[int]c38SlotSpec{
			0:   {chunks: []c38ChunkSpec{c38Meta(40), c38Msg(1, 1, true, 3, 77, 48)}},
			1:   twoMeta,
			255: threeChunks,
		}},
		{name: "streams", id: "bk_c38_streams", slots: map[int]c38SlotSpec{
			0:   {chunks: []c38ChunkSpec{c38Meta(32), c38Msg(1, 1, true, 1, 5, 34), c38Msg(2, 1, true, 2, 9, 37)}},
			127: {attempt: "0000000a", chunks: []c38ChunkSpec{c38Meta(29), c38Msg(1, 1, true, 4, 400, 64)}},
			128: {chunks: []c38ChunkSpec{c38Meta(300)}},
		}},
		{name: "rich2", id: "bk_c38_rich", slots: map[int]c38SlotSpec{
			0: {chunks: []c38ChunkSpec{c38Meta(40), c38Msg(1, 1, true, 3, 78, 48)}},
			1: {attempt: "00000003", chunks: []c38ChunkSpec{c38Meta(36)}},
		}},
		dup,
	}
}

// ---------------------------------------------------------------- JSON tree with offsets

type c38Node struct {
	kind       byte // '{' '[' '"' 'n' (number) 'l' (literal true/false/null)
	start, end int  // [start,end) in the document
	members    []c38Member
	elems      []*c38Node
}

type c38Member struct {
	keyStart, keyEnd int // the quoted key
	val              *c38Node
	end              int // end of the value
}

// c38Parse parses canonical (whitespace-free, well-formed) JSON produced by encoding/json.
func c38Parse(doc []byte) (*c38Node, error) {
	p := &c38Parser{doc: doc}
	n, err := p.value()
	if err != nil {
		return nil, err
	}
	if p.pos != len(doc) {
		return nil, fmt.Errorf("trailing bytes at %d", p.pos)
	}
	return n, nil
}

type c38Parser struct {
	doc []byte
	pos int
}

func (p *c38Parser) value() (*c38Node, error) {
	if p.pos >= len(p.doc) {
		return nil, fmt.Errorf("eof")
	}
	switch c := p.doc[p.pos]; {
	case c == '{':
		n := &c38Node{kind: '{', start: p.pos}
		p.pos++
		if p.doc[p.pos] == '}' {
			p.pos++
			n.end = p.pos
			return n, nil
		}
		for {
			ks := p.pos
			if err := p.str(); err != nil {
				return nil, err
			}
			ke := p.pos
			if p.doc[p.pos] != ':' {
				return nil, fmt.Errorf("expected ':' at %d", p.pos)
			}
			p.pos++
			v, err := p.value()
			if err != nil {
				return nil, err
			}
			n.members = append(n.members, c38Member{keyStart: ks, keyEnd: ke, val: v, end: p.pos})
			if p.doc[p.pos] == ',' {
				p.pos++
				continue
			}
			if p.doc[p.pos] == '}' {
				p.pos++
				n.end = p.pos
				return n, nil
			}
			return nil, fmt.Errorf("expected ',' or '}' at %d", p.pos)
		}
	case c == '[':
		n := &c38Node{kind: '[', start: p.pos}
		p.pos++
		if p.doc[p.pos] == ']' {
			p.pos++
			n.end = p.pos
			return n, nil
		}
		for {
			v, err := p.value()
			if err != nil {
				return nil, err
			}
			n.elems = append(n.elems, v)
			if p.doc[p.pos] == ',' {
				p.pos++
				continue
			}
			if p.doc[p.pos] == ']' {
				p.pos++
				n.end = p.pos
				return n, nil
			}
			return nil, fmt.Errorf("expected ',' or ']' at %d", p.pos)
		}
	case c == '"':
		s := p.pos
		if err := p.str(); err != nil {
			return nil, err
		}
		return &c38Node{kind: '"', start: s, end: p.pos}, nil
	case c == '-' || (c >= '0' && c <= '9'):
		s := p.pos
		for p.pos < len(p.doc) && strings.IndexByte("+-0123456789.eE", p.doc[p.pos]) >= 0 {
			p.pos++
		}
		return &c38Node{kind: 'n', start: s, end: p.pos}, nil
	default:
		for _, lit := range []string{"true", "false", "null"} {
			if bytes.HasPrefix(p.doc[p.pos:], []byte(lit)) {
				s := p.pos
				p.pos += len(lit)
				return &c38Node{kind: 'l', start: s, end: p.pos}, nil
			}
		}
		return nil, fmt.Errorf("unexpected byte %q at %d", c, p.pos)
	}
}

func (p *c38Parser) str() error {
	if p.doc[p.pos] != '"' {
		return fmt.Errorf("expected string at %d", p.pos)
	}
	p.pos++
	for p.pos < len(p.doc) {
		switch p.doc[p.pos] {
		case '\\':
			p.pos += 2
		case '"':
			p.pos++
			return nil
		default:
			p.pos++
		}
	}
	return fmt.Errorf("unterminated string")
}

// walk visits every node (pre-order) with its path.
func (n *c38Node) walk(doc []byte, path string, f func(path string, n *c38Node)) {
	f(path, n)
	switch n.kind {
	case '{':
		for _, m := range n.members {
			m.val.walk(doc, path+"."+string(doc[m.keyStart+1:m.keyEnd-1]), f)
		}
	case '[':
		for i, e := range n.elems {
			e.walk(doc, fmt.Sprintf("%s[%d]", path, i), f)
		}
	}
}

func c38Splice(doc []byte, at, del int, ins string) []byte {
	out := make([]byte, 0, len(doc)-del+len(ins))
	out = append(out, doc[:at]...)
	out = append(out, ins...)
	out = append(out, doc[at+del:]...)
	return out
}
