package replication

// C04 - A deposed or fenced authority cannot acknowledge appends.
// Entry point of the shared replication world (../C01/world_test.go) with the C04 oracle.

import (
	"testing"

	"github.com/WuKongIM/WuKongIM/pkg/zzverif/ev"
)

func TestVerifC04(t *testing.T) {
	r := ev.Start(t, "C04")
	defer r.Finish()
	o := vwOpts{
		prop: "C04", cmds: 2, maxInstalls: 3, maxCrashes: 1, maxOutages: ev.Pick(r, 0, 1), retained: 2,
		evPrev: true, evSame: true, evOlder: true, evFence: true, evEpoch: true, epochAnyNode: r.Thorough(), evLocalLost: true, evTrailing: r.Thorough(),
		oC04: true, reportKF: false,
	}
	st := &vwStats{}
	note := "N=3 voters, Q=2, one channel; authorities (epoch, term, fence) allocated by next-term, fence, unfence and next-epoch installs plus synthetic older authorities; initial state: node 1 installed under (1,1,1); a path ends (silently, counted) at a transition that matches the known C01 defect KF-C01-1"
	res := vwRun(r, "replication-world/C04/deep", o, st, ev.Pick(r, 4, 5), ev.Pick(r, 1, 1), note)
	res2 := vwRun(r, "replication-world/C04/faulty", o, st, ev.Pick(r, 3, 4), ev.Pick(r, 2, 2), note)
	res.States += res2.States
	vwAssumptions(r)
	vwCounters(r, st)
	if r.Replay() != nil {
		return
	}
	r.Guard("stale-authority-commits-rejected", st.staleCommitRejected.Load() >= 10, "%d commits under an older authority rejected without writes", st.staleCommitRejected.Load())
	r.Guard("fenced-commits-rejected", st.fencedCommitRejected.Load() >= 10, "%d commits under an active write fence rejected without writes", st.fencedCommitRejected.Load())
	r.Guard("unrecovered-authority-commits-rejected", st.notReadyCommitRejected.Load() >= 1, "%d commits on a newer authority whose recovery failed rejected", st.notReadyCommitRejected.Load())
	r.Guard("older-installs-refused", st.olderInstallRefused.Load() >= 10, "%d installs of an older authority refused", st.olderInstallRefused.Load())
	r.Guard("fenced-installs-refused", st.fenceInstallRefused.Load() >= 1, "%d installs with an active write fence refused", st.fenceInstallRefused.Load())
	r.Guard("acknowledged-commits", st.acks.Load() >= 10, "%d acknowledged receipts", st.acks.Load())
	r.Guard("states", res.States >= 100, "%d states", res.States)
}
