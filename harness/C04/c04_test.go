package replication

// C04 - A deposed or fenced authority cannot acknowledge appends.
// Entry point of the shared replication world (../C01/world_test.go) with the C04 oracle,
// wrapped by vw4 (c04_restart_test.go: older authorities delivered after a restart).

import (
	"fmt"
	"os"
	"testing"

	"github.com/WuKongIM/WuKongIM/pkg/zzverif/ev"
	"github.com/WuKongIM/WuKongIM/pkg/zzverif/mc"
)

func vw4Run(r *ev.R, name string, o vwOpts, st *vwStats, xs *vw4Counters, depth, devs int, note string) mc.Result {
	depth, devs = vwDebugBounds(depth, devs)
	o.noPrune = os.Getenv("VERIF_DEBUG_NOPRUNE") == "1"
	b := vwBounds(o)
	b["events"].(map[string]bool)["install-stale-authority-after-restart{fence,term,epoch}"] = o.evOlder
	return mc.Run(r, mc.System{
		Name: name, New: func() mc.Instance { return newVW4(o, st, xs) },
		MaxDepth: depth, MaxDeviations: devs, Bounds: b, Note: note,
	})
}

func TestVerifC04(t *testing.T) {
	r := ev.Start(t, "C04")
	defer r.Finish()
	o := vwOpts{
		prop: "C04", cmds: 2, maxInstalls: 3, maxCrashes: 1, maxOutages: ev.Pick(r, 0, 1), retained: 2,
		evPrev: true, evSame: true, evOlder: true, evFence: true, evEpoch: true, epochAnyNode: r.Thorough(), evLocalLost: true, evTrailing: r.Thorough(),
		oC04: true, reportKF: false,
	}
	st := &vwStats{}
	xs := &vw4Counters{}
	note := "N=3 voters, Q=2, one channel; authorities (epoch, term, fence) allocated by next-term, fence, unfence and next-epoch installs plus synthetic older authorities (in-process: older-*; after a restart: stale-*); initial state: node 1 installed under (1,1,1); a path ends (silently, counted) at a transition that matches the known C01 defect KF-C01-1"
	res := vw4Run(r, "replication-world/C04/deep", o, st, xs, ev.Pick(r, 4, 5), ev.Pick(r, 1, 1), note)
	res2 := vw4Run(r, "replication-world/C04/faulty", o, st, xs, ev.Pick(r, 3, 4), ev.Pick(r, 2, 2), note)
	res.States += res2.States
	// seeded boxes: the leader (node 1) holds a NON-EMPTY log whose tail was written under
	// the newest authority, so that a restart (crash:1) followed by a stale authority of
	// every kind is reachable within the quick depth.
	seeds := []struct {
		name   string
		prefix []string
	}{
		{"next-term", []string{"install:1:next", "commit:1:c1"}},                         // tail under (1,2,2): stale-fence (1,2,1), stale-term (1,1,5)
		{"fence-bump", []string{"install:1:fence", "install:1:unfence", "commit:1:c1"}}, // tail under (1,1,3): stale-fence (1,1,2)
		{"next-epoch", []string{"install:1:epoch", "commit:1:c1"}},                      // tail under (2,1,2): stale-epoch (1,6,7), stale-fence (2,1,1)
	}
	var seeded int64
	for _, s := range seeds {
		os2 := o
		os2.prefix = s.prefix
		os2.maxInstalls = len(s.prefix) // prefix allocations + one more
		sr := vw4Run(r, "replication-world/C04/restart-after-"+s.name, os2, st, xs, ev.Pick(r, 3, 4), ev.Pick(r, 1, 1),
			note+"; initial state = after "+fmt.Sprint(s.prefix)+" (leader with a non-empty log whose tail was written under its newest authority)")
		seeded += sr.States
	}
	vwAssumptions(r)
	vwCounters(r, st)
	for k, v := range map[string]int64{
		"stale_authority_offered_after_restart": xs.staleOffered.Load(), "stale_authority_refused": xs.staleRefused.Load(),
		"stale_authority_refused_on_non_empty_log": xs.staleRefusedNonEmptyLog.Load(),
		"observation_stale_authority_installed_without_durable_memory_of_newer": xs.staleAcceptedNoDurableMemory.Load(),
		"stale_fence_offered": xs.staleFence.Load(), "stale_term_offered": xs.staleTerm.Load(), "stale_epoch_offered": xs.staleEpoch.Load(),
		"acks_checked_against_newer_entries_below": xs.acksChecked.Load(),
	} {
		r.Count(k+"_executions_incl_replays", v)
	}
	if r.Replay() != nil {
		return
	}
	r.Guard("stale-authority-commits-rejected", st.staleCommitRejected.Load() >= 10, "%d commits under an older authority rejected without writes", st.staleCommitRejected.Load())
	r.Guard("fenced-commits-rejected", st.fencedCommitRejected.Load() >= 10, "%d commits under an active write fence rejected without writes", st.fencedCommitRejected.Load())
	r.Guard("unrecovered-authority-commits-rejected", st.notReadyCommitRejected.Load() >= 1, "%d commits on a newer authority whose recovery failed rejected", st.notReadyCommitRejected.Load())
	r.Guard("older-installs-refused", st.olderInstallRefused.Load() >= 10, "%d installs of an older authority refused", st.olderInstallRefused.Load())
	r.Guard("fenced-installs-refused", st.fenceInstallRefused.Load() >= 1, "%d installs with an active write fence refused", st.fenceInstallRefused.Load())
	r.Guard("acknowledged-commits", st.acks.Load() >= 10, "%d acknowledged receipts", st.acks.Load())
	r.Guard("stale-authorities-after-restart", xs.staleFence.Load() >= 3 && xs.staleTerm.Load() >= 1 && xs.staleEpoch.Load() >= 1 && xs.staleRefusedNonEmptyLog.Load() >= 3,
		"after a restart: %d lower-fence, %d lower-term, %d lower-epoch authorities offered; %d refused on a non-empty log", xs.staleFence.Load(), xs.staleTerm.Load(), xs.staleEpoch.Load(), xs.staleRefusedNonEmptyLog.Load())
	r.Guard("states", res.States >= 100 && seeded >= 30, "%d + %d states", res.States, seeded)
}
