package replication

// C04 strengthening: an OLDER authority delivered after a process restart.
//
// The in-memory fence of a quorumLog (compareAuthorityID against the installed authority) is
// lost when the leader process restarts. What remains is the durable log: its entries name
// the authority (channel epoch, leader term, fence version) that wrote them, and
// writeCurrentTermBarrier refuses to seal a barrier for an authority that is not newer than
// the recovered tail. The shared world (../C01/world_test.go) only offers older authorities
// to a quorumLog that still remembers a newer one (install:n:older-*), and after a restart
// only the newest issued authority. vw4 wraps the world (without changing it) and adds
//
//	install:n:stale-fence | stale-term | stale-epoch
//
// for a node whose quorumLog is fresh (restarted, nothing installed yet): a delayed / stale
// route generation that is older than the newest authority the control plane issued to this
// node - same epoch and term with a LOWER fence version, a lower term (with a higher fence
// version), a lower epoch (with higher term and fence version).
//
// Oracle ("an older authority can never be installed again", read against what the code can
// know after a restart): Install(A') must not succeed while the log the node holds after the
// Install contains an entry written under an authority newer than A' - the durable proof
// that a newer authority was installed for this channel. On an empty log, or a log without
// such an entry, nothing durable remembers the newer authority and a successful Install is
// not judged (counted). A Commit acknowledged by a leader whose log holds, below the
// acknowledged range, an entry of a newer authority than the receipt's is reported as well.

import (
	"fmt"
	"strconv"
	"strings"
	"sync/atomic"

	ch "github.com/WuKongIM/WuKongIM/pkg/channel"
	"github.com/WuKongIM/WuKongIM/pkg/zzverif/mc"
)

type vw4Counters struct {
	staleOffered, staleRefused, staleRefusedNonEmptyLog, staleAcceptedNoDurableMemory atomic.Int64
	staleFence, staleTerm, staleEpoch                                               atomic.Int64
	acksChecked                                                                     atomic.Int64
}

type vw4 struct {
	*vw
	xs *vw4Counters
}

func newVW4(o vwOpts, st *vwStats, xs *vw4Counters) *vw4 { return &vw4{vw: newVW(o, st), xs: xs} }

func entryAuthority(id ch.EntryIdentity) AuthorityID {
	return AuthorityID{ChannelEpoch: id.ChannelEpoch, LeaderTerm: id.LeaderTerm, FenceVersion: id.FenceVersion}
}

// staleAuthority derives the older authority of the given kind from the newest authority
// issued to the node; ok=false when that kind does not exist (component already 1).
func staleAuthority(newest AuthorityID, kind string) (AuthorityID, bool) {
	id := newest
	switch kind {
	case "stale-fence":
		if id.FenceVersion <= 1 {
			return id, false
		}
		id.FenceVersion--
	case "stale-term":
		if id.LeaderTerm <= 1 {
			return id, false
		}
		id.LeaderTerm--
		id.FenceVersion += 3
	case "stale-epoch":
		if id.ChannelEpoch <= 1 {
			return id, false
		}
		id.ChannelEpoch--
		id.LeaderTerm += 5
		id.FenceVersion += 5
	default:
		return id, false
	}
	return id, true
}

func (x *vw4) Events() []string {
	evs := x.vw.Events()
	if x.dead || !x.o.evOlder {
		return evs
	}
	for _, n := range x.nodes {
		if len(n.hist) != 0 || n.issued == nil || n.down {
			continue // only a restarted quorumLog that has not installed anything yet
		}
		for _, kind := range []string{"stale-fence", "stale-term", "stale-epoch"} {
			if _, ok := staleAuthority(n.issued.ID, kind); ok {
				evs = append(evs, fmt.Sprintf("install:%d:%s", n.id, kind))
			}
		}
	}
	return evs
}

// newerEntry returns the first entry of l (up to and including offset through; 0 = whole
// log) that was written under an authority newer than a.
func newerEntry(l vwLog, a AuthorityID, through uint64) (ch.EntryIdentity, bool) {
	for i, id := range l.ids {
		if through != 0 && uint64(i+1) > through {
			break
		}
		if compareAuthorityID(entryAuthority(id), a) > 0 {
			return id, true
		}
	}
	return ch.EntryIdentity{}, false
}

func (x *vw4) applyStale(n *vwNode, kind string, env *mc.Env) (obs string, err error) {
	x.env = env
	defer func() { x.env = nil }()
	before := x.snapshot()
	x.snapOK = false
	x.resetObs()
	defer func() {
		if p := recover(); p != nil {
			obs, err = "panic", mc.Violatef("C04:panic-in-install", "install:%d:%s panicked: %v", n.id, kind, p)
		}
	}()
	id, _ := staleAuthority(n.issued.ID, kind)
	a := Authority{Key: x.key, ChannelID: x.id, ID: id, Leader: n.id, Voters: []ch.NodeID{1, 2, 3}, WriteQuorum: vwQ}
	x.xs.staleOffered.Add(1)
	switch kind {
	case "stale-fence":
		x.xs.staleFence.Add(1)
	case "stale-term":
		x.xs.staleTerm.Add(1)
	case "stale-epoch":
		x.xs.staleEpoch.Add(1)
	}
	res, ierr := x.install(n, a)
	after := x.snapshot()
	ni := int(n.id) - 1
	obs = "install-" + kind + ":" + errName(ierr)
	if ierr != nil {
		x.xs.staleRefused.Add(1)
		if before[ni].leo > 0 {
			x.xs.staleRefusedNonEmptyLog.Add(1)
		}
		if x.ready(n) {
			return obs, mc.Violatef("C04:channel-writable-after-failed-install", "node %d is writable although Install(%s) failed with %v", n.id, authStr(id), ierr)
		}
		return obs, x.transitionChecks("install:"+kind, before)
	}
	obs += fmt.Sprintf(":leo%d", res.LEO)
	if x.obs.probes > 0 { // as in the world's applyInstall: a path ends silently at the known C01 defect
		if e := x.checkInstallAgainstAcks(n, a, res, true, before, after); e != nil {
			return obs, e
		}
		if x.dead {
			return obs, nil
		}
	}
	if e, found := newerEntry(after[ni], id, 0); found {
		return obs, mc.Violatef("C04:older-authority-installed-over-newer-durable-entry",
			"after a restart of node %d, Install(%s) succeeded (LEO %d) although its log holds, at offset %d, an entry written under the newer authority %s: the older authority is writable again above the durable proof of a newer one",
			n.id, authStr(id), res.LEO, e.Index, authStr(entryAuthority(e)))
	}
	x.xs.staleAcceptedNoDurableMemory.Add(1)
	if res.Authority != id {
		return obs, mc.Violatef("C04:installed-authority-mismatch", "Install(%s) at node %d returned authority %s", authStr(id), n.id, authStr(res.Authority))
	}
	// same bookkeeping as the world's applyInstall: the freshly recovered leader is obliged
	// to hold every acknowledged entry
	n.mustHold = n.mustHold[:0]
	for i := range x.acks {
		n.mustHold = append(n.mustHold, i)
	}
	return obs, x.transitionChecks("install:"+kind, before)
}

func (x *vw4) Apply(event string, env *mc.Env) (string, error) {
	parts := strings.Split(event, ":")
	if parts[0] == "install" && strings.HasPrefix(parts[2], "stale-") {
		id, _ := strconv.Atoi(parts[1])
		return x.applyStale(x.node(ch.NodeID(id)), parts[2], env)
	}
	acksBefore := len(x.acks)
	obs, err := x.vw.Apply(event, env)
	if err != nil || x.dead || !strings.HasPrefix(parts[0], "commit") || len(x.acks) == acksBefore {
		return obs, err
	}
	// a new acknowledgement: the acknowledging leader's log must not hold, below the
	// acknowledged range, an entry of a newer authority than the receipt's
	ack := x.acks[len(x.acks)-1]
	x.xs.acksChecked.Add(1)
	logs := x.snapshot()
	if ack.receipt.First <= 1 {
		return obs, nil
	}
	if e, found := newerEntry(logs[int(ack.by)-1], ack.receipt.Authority, ack.receipt.First-1); found {
		return obs, mc.Violatef("C04:commit-acknowledged-above-entry-of-newer-authority",
			"Commit(c%d) at node %d was acknowledged as [%d,%d] under %s although its log holds, at offset %d below that range, an entry written under the newer authority %s",
			ack.cmd, ack.by, ack.receipt.First, ack.receipt.Last, authStr(ack.receipt.Authority), e.Index, authStr(entryAuthority(e)))
	}
	return obs, nil
}
