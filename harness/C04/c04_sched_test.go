package replication

// C04, concurrent half (engine E3): Install of a newer / fenced / same authority racing a
// Commit that is inside its durable quorum round, on the REWRITTEN pkg/channel/replication
// under the controlled scheduler. The world is the shared one (../C01/world_test.go): three
// nodes with the real storeAdapter, ExchangeServer and quorumLog; the harness dispatchers
// carry scheduling points where production hands work to other goroutines / the network.
//
// Per execution (one complete schedule) the oracle requires:
//   - a receipt carries exactly the authority its proposal named (Expected);
//   - once Install(B) with B newer than A has RETURNED (success, fenced or failed
//     recovery), no Commit{Expected: A} returns a receipt afterwards;
//   - at quiescence the sequencer state belongs to the newest installed authority: its
//     frontier / hw is the frontier that Install returned plus the receipts issued under
//     that authority, its retained / pending proposals were proposed under it, and it is
//     writable iff that Install succeeded;
//   - every acknowledged entry is in the acknowledging leader's durable log and on >= Q
//     replicas, and the C02 state oracle (hash chain, content digests, agreement at
//     committed offsets) holds.

import (
	"context"
	"fmt"
	"os"
	"sort"
	"strings"
	"testing"

	ch "github.com/WuKongIM/WuKongIM/pkg/channel"
	"github.com/WuKongIM/WuKongIM/pkg/zzverif/ev"
	"github.com/WuKongIM/WuKongIM/pkg/zzverif/vsched"
	"github.com/WuKongIM/WuKongIM/pkg/zzverif/vsync"
)

type c04sSpec struct {
	Name     string
	Install  string // next | fence | same | epoch
	Third    string // "" | c2-old (second command under A) | retry (c1 again under A) | c2-new (command under B)
	Order    string // spawn order, e.g. "ci", "ic", "cit"
	NonEmpty bool   // one command committed under A before the race (Install(B) needs a barrier)
	Bound    int
}

type c04sEvent struct {
	seq      int
	kind     string // commit-ret | install-ret
	thread   string
	expected AuthorityID // proposal's Expected / installed authority
	cmd      int
	receipt  Receipt
	inst     Installed
	err      error
}

type c04sRec struct {
	spec   c04sSpec
	w      *vw
	a, b   Authority
	clock  int
	events []c04sEvent
}

func (r *c04sRec) tick() int { r.clock++; return r.clock }

func c04sScenario(s c04sSpec, st *vwStats) vsched.Scenario {
	return vsched.Scenario{
		Name: "replication-sched/C04/" + s.Name, Property: "C04", Bound: s.Bound, Horizon: 20000, Delay: true,
		Bounds: map[string]any{"install": s.Install, "third_thread": s.Third, "spawn_order": s.Order, "non_empty_log": s.NonEmpty, "voters": vwN, "write_quorum": vwQ},
		Note:   "thread c: Commit(A, c1) on node 1; thread i: Install(B) on node 1; optional thread t; real (rewritten) quorumLog / ExchangeServer / storeAdapter; scheduling points at every lock, channel operation, select, virtual timer and at the dispatcher seams (probe, fetch, local sync, replicate send/reply)",
		Body: func(x *vsched.Exec) {
			o := vwOpts{prop: "C04", cmds: 3, maxInstalls: 4, retained: 2, oC02: true}
			if s.NonEmpty {
				o.prefix = []string{"commit:1:c3"}
			}
			// A virtual timer may be chosen to fire first also during the set-up (the
			// recovery deadline of the initial Install): such an execution has no race
			// to judge.
			var w *vw
			func() {
				defer func() {
					if p := recover(); p != nil {
						w = nil
					}
				}()
				w = newVW(o, st)
			}()
			if w == nil {
				x.Log("set-up Install hit its (virtual) recovery deadline")
				return
			}
			w.pointFn = vsched.Point
			rec := &c04sRec{spec: s, w: w}
			x.Data["rec"] = rec
			n := w.node(1)
			rec.a = cloneAuthority(*n.issued)
			switch s.Install {
			case "next":
				w.cp.term++
				w.cp.fence++
				rec.b = w.authorityFor(1, false)
			case "epoch":
				w.cp.epoch++
				w.cp.term = 1
				w.cp.fence++
				rec.b = w.authorityFor(1, false)
			case "fence":
				w.cp.fence++
				rec.b = w.authorityFor(1, true)
			case "same":
				rec.b = cloneAuthority(rec.a)
			}
			var wg vsync.WaitGroup
			commit := func(thread string, k int, expected AuthorityID) {
				defer wg.Done()
				receipt, err := n.log.Commit(context.Background(), Proposal{
					Key: w.key, Expected: expected, CommandID: cmdID(k), Records: cmdRecords(k, 'a', expected.ChannelEpoch),
					ServerAllocatedMessageIDs: cmdServerAllocated(k)})
				rec.events = append(rec.events, c04sEvent{seq: rec.tick(), kind: "commit-ret", thread: thread, expected: expected, cmd: k, receipt: receipt, err: err})
				if err == nil {
					x.Log("%s commit c%d under %s -> [%d,%d] authority %s", thread, k, authStr(expected), receipt.First, receipt.Last, authStr(receipt.Authority))
				} else {
					x.Log("%s commit c%d under %s -> %s", thread, k, authStr(expected), errName(err))
				}
			}
			install := func() {
				defer wg.Done()
				inst, err := n.log.Install(context.Background(), cloneAuthority(rec.b))
				rec.events = append(rec.events, c04sEvent{seq: rec.tick(), kind: "install-ret", thread: "i", expected: rec.b.ID, inst: inst, err: err})
				if err == nil {
					x.Log("install %s -> leo %d", authStr(rec.b.ID), inst.LEO)
				} else {
					x.Log("install %s -> %s", authStr(rec.b.ID), errName(err))
				}
			}
			for _, c := range s.Order {
				wg.Add(1)
				switch c {
				case 'c':
					vsched.GoNamed("commit", func() { commit("c", 1, rec.a.ID) })
				case 'i':
					vsched.GoNamed("install", install)
				case 't':
					switch s.Third {
					case "c2-old":
						vsched.GoNamed("third", func() { commit("t", 2, rec.a.ID) })
					case "retry":
						vsched.GoNamed("third", func() { commit("t", 1, rec.a.ID) })
					case "c2-new":
						vsched.GoNamed("third", func() { commit("t", 2, rec.b.ID) })
					}
				}
			}
			wg.Wait()
		},
		Check: func(x *vsched.Exec) error {
			rec, ok := x.Data["rec"].(*c04sRec)
			if !ok {
				return nil
			}
			return c04sJudge(rec)
		},
	}
}

func c04sJudge(r *c04sRec) error {
	w := r.w
	n := w.node(1)
	newer := compareAuthorityID(r.b.ID, r.a.ID) > 0
	// ---- receipts vs authorities
	for _, e := range r.events {
		if e.kind != "commit-ret" || e.err != nil {
			continue
		}
		if e.receipt.Authority != e.expected {
			return vsched.Violatef("C04:receipt-authority-differs-from-proposal", "thread %s: Commit(c%d, Expected %s) returned a receipt of authority %s (%+v)", e.thread, e.cmd, authStr(e.expected), authStr(e.receipt.Authority), e.receipt)
		}
		for _, i := range r.events {
			if i.kind == "install-ret" && i.seq < e.seq && compareAuthorityID(i.expected, e.expected) > 0 {
				return vsched.Violatef("C04:receipt-under-older-authority-after-newer-install-returned", "Install(%s) returned (%s) before Commit(c%d, Expected %s) returned the receipt [%d,%d]", authStr(i.expected), errName(i.err), e.cmd, authStr(e.expected), e.receipt.First, e.receipt.Last)
			}
		}
	}
	// ---- quiescent sequencer state belongs to the newest installed authority
	st := w.chanState(n)
	if st == nil {
		return vsched.Violatef("C04:channel-state-missing", "node 1 has no channel state after the race")
	}
	w.snapOK = false
	logs := w.snapshot()
	if newer {
		var inst *c04sEvent
		for i := range r.events {
			if r.events[i].kind == "install-ret" {
				inst = &r.events[i]
			}
		}
		if st.authority.ID != r.b.ID {
			return vsched.Violatef("C04:newer-authority-not-installed", "after Install(%s) returned the sequencer holds authority %s", authStr(r.b.ID), authStr(st.authority.ID))
		}
		if inst.err != nil {
			if st.ready {
				return vsched.Violatef("C04:channel-writable-after-failed-install", "Install(%s) returned %v but the channel is writable", authStr(r.b.ID), inst.err)
			}
		} else {
			want := inst.inst.LEO
			under := map[ch.CommandID]bool{}
			for _, e := range r.events {
				if e.kind == "commit-ret" && e.err == nil && e.expected == r.b.ID {
					under[cmdID(e.cmd)] = true
					if e.receipt.Last > want {
						want = e.receipt.Last
					}
				}
			}
			bad := ""
			switch {
			case !st.ready:
				bad = "channel not writable although Install succeeded"
			case st.pending == nil && (st.frontier.LEO != want || st.hw != want):
				bad = fmt.Sprintf("frontier LEO %d / hw %d, want %d (Install returned LEO %d)", st.frontier.LEO, st.hw, want, inst.inst.LEO)
			case st.frontier.LEO > 0 && (st.frontier.LEO > logs[0].leo || st.frontier.TailIdentity != logs[0].ids[st.frontier.LEO-1]):
				bad = fmt.Sprintf("frontier LEO %d is not the entry stored at that offset (store LEO %d)", st.frontier.LEO, logs[0].leo)
			}
			for c := range st.retained {
				if !under[c] {
					bad = fmt.Sprintf("retained table of %s holds %s, which was not acknowledged under it", authStr(r.b.ID), cmdName(c))
				}
			}
			if st.pending != nil {
				m := st.pending.proposal.manifest
				if (AuthorityID{ChannelEpoch: m.ChannelEpoch, LeaderTerm: m.LeaderTerm, FenceVersion: m.FenceVersion}) != r.b.ID {
					bad = fmt.Sprintf("pending proposal %s was sealed under %d.%d.%d", cmdName(m.CommandID), m.ChannelEpoch, m.LeaderTerm, m.FenceVersion)
				}
			}
			if bad != "" {
				return vsched.Violatef("C04:installed-frontier-overwritten-by-older-authority-round", "after Install(%s) succeeded with LEO %d: %s", authStr(r.b.ID), inst.inst.LEO, bad)
			}
		}
	}
	// ---- acknowledged entries are durable where the receipt says, on >= Q replicas
	for _, e := range r.events {
		if e.kind != "commit-ret" || e.err != nil {
			continue
		}
		holders := 0
		for i := range logs {
			ok := true
			for s := e.receipt.First; s <= e.receipt.Last; s++ {
				id, present := logs[i].at(s)
				ok = ok && present && id.CommandID == cmdID(e.cmd)
			}
			if ok {
				holders++
			} else if i == 0 {
				return vsched.Violatef("C04:receipt-without-local-entry", "Commit(c%d, Expected %s) returned [%d,%d] but node 1's log does not hold the command there at quiescence (LEO %d)", e.cmd, authStr(e.expected), e.receipt.First, e.receipt.Last, logs[0].leo)
			}
		}
		if holders < vwQ {
			return vsched.Violatef("C04:acknowledged-with-holders-below-quorum", "Commit(c%d) returned [%d,%d] but only %d replicas hold it at quiescence", e.cmd, e.receipt.First, e.receipt.Last, holders)
		}
	}
	// ---- C02 state oracle at quiescence
	if err := w.Check(); err != nil {
		return vsched.Violatef(fpOfErr(err), "%v", err)
	}
	return nil
}

func fpOfErr(err error) string {
	if f, ok := err.(interface{ Fingerprint() string }); ok {
		return f.Fingerprint()
	}
	return "C04:state-oracle"
}

func c04sSpecs(thorough bool) []c04sSpec {
	var out []c04sSpec
	add := func(install, third, order string, nonEmpty bool, core bool) {
		name := install + "/" + order
		if third != "" {
			name += "/" + third
		}
		if nonEmpty {
			name += "/nonempty"
		}
		// quick: delay bound 3 for the core races, 2 for the variations; thorough: 4
		bound := 4
		if !thorough {
			bound = 2
			if core {
				bound = 3
			}
		}
		out = append(out, c04sSpec{Name: name, Install: install, Third: third, Order: order, NonEmpty: nonEmpty, Bound: bound})
	}
	for _, inst := range []string{"next", "fence", "same", "epoch"} {
		add(inst, "", "ci", false, inst != "epoch")
		add(inst, "", "ic", false, false)
		add(inst, "", "ci", true, inst == "next")
	}
	for _, third := range []string{"c2-old", "retry", "c2-new"} {
		add("next", third, "cit", false, third == "retry")
		add("next", third, "itc", false, false)
		add("fence", third, "cit", false, false)
	}
	return out
}

func TestVerifC04Sched(t *testing.T) {
	r := ev.Start(t, "C04")
	defer r.Finish()
	st := &vwStats{}
	specs := c04sSpecs(r.Thorough())
	if f := os.Getenv("VERIF_DEBUG_SCENARIO"); f != "" {
		var kept []c04sSpec
		for _, s := range specs {
			if strings.Contains(s.Name, f) {
				kept = append(kept, s)
			}
		}
		specs = kept
	}
	// VERIF_SEED only rotates the scenario order
	if n := len(specs); n > 0 {
		k := int(r.Seed()) % n
		specs = append(specs[k:], specs[:k]...)
	}
	var execs, outcomes int64
	racing := map[string]int64{}
	for _, s := range specs {
		if _, b := vwDebugBounds(0, -1); b >= 0 {
			s.Bound = b
		}
		res := vsched.Explore(r, c04sScenario(s, st))
		execs += res.Executions
		outcomes += int64(res.Outcomes)
		racing[s.Install] += int64(res.Outcomes)
	}
	if r.Replay() != nil {
		return
	}
	keys := make([]string, 0, len(racing))
	for k := range racing {
		keys = append(keys, k)
	}
	sort.Strings(keys)
	r.Assume("controlled scheduler (vsched) + source rewriting (vrewrite) of pkg/channel/replication; stores (pkg/channel/store memory factory) are not rewritten: their short mutex sections contain no scheduling point")
	r.Assume("dispatcher seams complete inline on the calling thread; scheduling points stand for the hand-off to the local durability pool / peer batcher / network")
	r.Guard("sched-executions", execs >= 100, "%d complete schedules over %d scenarios", execs, len(specs))
	r.Guard("sched-distinct-outcomes", outcomes >= int64(len(specs))+2, "%d distinct observation vectors (install kinds %v)", outcomes, keys)
}
