package fsm_test

// C39 - Hash-slot migration neither loses nor duplicates metadata writes.
//
// Explicit-state BFS (engine mc, deviation-bounded environment) over TWO real slot state
// machines (pkg/slot/fsm) on TWO real metadb.DBs: the source slot S that owns the migrating
// hash slot and the target slot T that receives it. The harness plays the migration
// orchestrator the way docs/superpowers/plans/2026-04-28-distributed-risk-remediation.md
// describes it (the repository has no orchestrator outside the state machine): it switches
// the runtime phases through the state machine's exported runtime hooks, copies the hash slot
// with the real export / preserving import, reads the durable outbox of S through the real
// API, wraps every outbox row into a real apply_delta command for T and acknowledges it on S
// with the real ack command. The environment may lose the ack (the row is delivered again),
// deliver a row twice, deliver a later row first, replay an old delta, and restart T (close +
// reopen of the DB, new state machine) before a replay.
//
// Every explored instance owns three fresh hash slots of a pair of Pebble DBs that it holds
// exclusively while it lives (the metadb group commit must not see two instances at once).

import (
	"bytes"
	"context"
	"encoding/json"
	"errors"
	"fmt"
	"io"
	"log"
	"os"
	"sort"
	"strings"
	"sync"
	"sync/atomic"
	"testing"

	metadb "github.com/WuKongIM/WuKongIM/pkg/db/meta"
	"github.com/WuKongIM/WuKongIM/pkg/db/zzverifc39"
	"github.com/WuKongIM/WuKongIM/pkg/slot/fsm"
	"github.com/WuKongIM/WuKongIM/pkg/slot/multiraft"
	"github.com/WuKongIM/WuKongIM/pkg/zzverif/ev"
	"github.com/WuKongIM/WuKongIM/pkg/zzverif/mc"
)

var c39Ctx = context.Background()

// ---------------------------------------------------------------- DB arenas (a pair of DBs per live instance)

type c39Arena struct {
	dirS, dirT string
	S, T       *metadb.DB
	next       int // next free hash-slot triple
}

var (
	c39Mu     sync.Mutex
	c39Free   []*c39Arena
	c39All    []*c39Arena
	c39Base   string
	c39Arenas atomic.Int64
	c39Quiet  sync.Once
)

const c39TriplesPerArena = 20000

func c39OpenArena() *c39Arena { // caller holds c39Mu
	n := c39Arenas.Add(1)
	a := &c39Arena{dirS: fmt.Sprintf("%s/a%d-s", c39Base, n), dirT: fmt.Sprintf("%s/a%d-t", c39Base, n)}
	var err error
	if a.S, err = metadb.Open(a.dirS); err != nil {
		panic(fmt.Sprintf("c39 harness: open source arena: %v", err))
	}
	if a.T, err = metadb.Open(a.dirT); err != nil {
		panic(fmt.Sprintf("c39 harness: open target arena: %v", err))
	}
	c39All = append(c39All, a)
	return a
}

func (a *c39Arena) closeDBs() {
	if a.S != nil {
		_ = a.S.Close()
		a.S = nil
	}
	if a.T != nil {
		_ = a.T.Close()
		a.T = nil
	}
}

func c39Alloc() (*c39Arena, uint16) {
	c39Quiet.Do(func() {
		log.SetOutput(io.Discard)
		zzverifc39.SmallMemTables(2 << 20) // cheap reopen (target restart) and early flush of range tombstones
	})
	c39Mu.Lock()
	defer c39Mu.Unlock()
	if c39Base == "" {
		d, err := os.MkdirTemp("/dev/shm", "verif-c39-")
		if err != nil {
			if d, err = os.MkdirTemp("", "verif-c39-"); err != nil {
				panic(err)
			}
		}
		c39Base = d
	}
	var a *c39Arena
	if n := len(c39Free); n > 0 {
		a, c39Free = c39Free[n-1], c39Free[:n-1]
	} else {
		a = c39OpenArena()
	}
	if a.next >= c39TriplesPerArena { // hash-slot space used up: replace the DBs
		a.closeDBs()
		_ = os.RemoveAll(a.dirS)
		_ = os.RemoveAll(a.dirT)
		a = c39OpenArena()
	}
	hs := uint16(a.next * 3)
	a.next++
	return a, hs
}

func c39Release(a *c39Arena) {
	c39Mu.Lock()
	c39Free = append(c39Free, a)
	c39Mu.Unlock()
}

func c39Shutdown() {
	c39Mu.Lock()
	defer c39Mu.Unlock()
	for _, a := range c39All {
		a.closeDBs()
	}
	if c39Base != "" {
		_ = os.RemoveAll(c39Base)
	}
}

// ---------------------------------------------------------------- instance

// c39SM is the set of runtime hooks of the slot state machine used by the orchestrator
// (exported methods of the unexported state machine type, reached by interface assertion).
type c39SM interface {
	multiraft.BatchStateMachine
	UpdateOwnedHashSlots([]uint16)
	UpdateOutgoingDeltaTargets(map[uint16]multiraft.SlotID)
	UpdateIncomingDeltaHashSlots([]uint16)
	SetDeltaForwarder(func(context.Context, multiraft.SlotID, multiraft.Command) error)
	ExportHashSlotSnapshot(context.Context, uint16) (metadb.SlotSnapshot, error)
	ImportHashSlotSnapshot(context.Context, metadb.SlotSnapshot) error
}

type c39Stats struct {
	acceptedIdle, acceptedDelta, acceptedAfterSwitch, fencedRefused           atomic.Int64
	nonOwnerRefusedTarget, nonOwnerRefusedSource, nonOwnerRefusedAfterClean   atomic.Int64
	delivered, dupDelivered, ackLost, redelivered, reorderOtherKey            atomic.Int64
	reorderSameKey, reorderSameKeyStale, preSnapshotDelta, fenceMarker        atomic.Int64
	replays, replaysAfterRestart, replaysAfterSwitch, restarts                atomic.Int64
	snaps, resnaps, switches, switchesWithDelta, switchesFenceFirst, cleanups atomic.Int64
	forwardsChecked, createNoop                                               atomic.Int64
	batchHarmless, batchStale, batchFailed, deliveredAfterFailedBatch         atomic.Int64
	fenceBatchSnapshotPhase, fenceBatchDeltaPhase, fenceBatchRefused          atomic.Int64
	fenceBatchAcceptedBefore                                                  atomic.Int64
}

type c39Delta struct {
	idx     uint64 // source raft index = delta identity
	label   string // "u:<k>:<token>", "c:<k>:<token>", "fence"
	wrapped []byte // the apply_delta command that was delivered
}

type c39Inst struct {
	r  *ev.R
	st *c39Stats
	a  *c39Arena

	hs, hsS, hsT uint16 // migrating hash slot, another hash slot of S, the hash slot T starts with
	slotS, slotT uint64
	smS, smT     c39SM
	idxS, idxT   uint64

	// orchestrator state
	started, imported, switched, cleaned bool
	snaps                                int
	maxSnaps                             int
	writes                               []string            // write events of the delta phase / of the new owner
	fwd                                  []multiraft.Command // commands handed to the real delta forwarder during the current event
	fwdTarget                            []multiraft.SlotID

	// reference model
	ver         [3]int            // per-key write counter (token generator)
	srcModel    map[string]string // rows S must hold (writes it accepted)
	model       map[string]string // rows the owner of the hash slot accepted, in acceptance order
	tgtModel    map[string]string // rows T must hold: last snapshot + every delivered delta once, in delivery order
	tgtApplied  map[uint64]bool   // delta identities applied on T
	hist        []c39Delta        // delivered deltas, first delivery order
	labelByIdx  map[uint64]string // source index -> label of the outbox row written at that index
	dataByIdx   map[uint64][]byte // source index -> command bytes of that row
	snapIdx     uint64            // source index covered by the last snapshot copy
	reordered   bool              // a delta overtook an undelivered earlier delta for the same key
	deltaWrites int               // accepted writes that travelled as deltas
	failedBatch map[uint64]bool   // deltas whose last ApplyBatch failed (still undelivered)
	taskSeeded  bool              // the competing channel-migration task exists on the target
	broken      bool
}

var c39Keys = []string{"k0", "k1", "k2"}

func c39New(r *ev.R, st *c39Stats, maxSnaps int, writes []string) mc.Instance {
	a, hs := c39Alloc()
	in := &c39Inst{r: r, st: st, a: a, hs: hs, hsS: hs + 1, hsT: hs + 2, maxSnaps: maxSnaps, writes: writes,
		srcModel: map[string]string{}, model: map[string]string{}, tgtModel: map[string]string{}, tgtApplied: map[uint64]bool{},
		labelByIdx: map[uint64]string{}, dataByIdx: map[uint64][]byte{}}
	in.slotS = 100000 + uint64(hs)*2
	in.slotT = in.slotS + 1
	in.smS = in.newSM(a.S, in.slotS, []uint16{in.hs, in.hsS})
	in.smT = in.newSM(a.T, in.slotT, []uint16{in.hsT})
	in.smS.SetDeltaForwarder(func(_ context.Context, target multiraft.SlotID, cmd multiraft.Command) error {
		cmd.Data = append([]byte(nil), cmd.Data...)
		in.fwd = append(in.fwd, cmd)
		in.fwdTarget = append(in.fwdTarget, target)
		return nil
	})
	return in
}

func (in *c39Inst) newSM(db *metadb.DB, slot uint64, owned []uint16) c39SM {
	sm, err := fsm.NewStateMachineWithHashSlots(db, slot, owned)
	if err != nil {
		panic(fmt.Sprintf("c39 harness: state machine: %v", err))
	}
	x, ok := sm.(c39SM)
	if !ok {
		panic(fmt.Sprintf("c39 harness: %T lacks the runtime migration hooks", sm))
	}
	return x
}

func (in *c39Inst) Close() { c39Release(in.a) }

func (in *c39Inst) fail(format string, args ...any) {
	in.broken = true
	in.r.HarnessError("c39 harness: "+format, args...)
}

func (in *c39Inst) applyS(hashSlot uint16, data []byte) (string, uint64, error) {
	in.idxS++
	res, err := in.smS.ApplyBatch(c39Ctx, []multiraft.Command{{SlotID: multiraft.SlotID(in.slotS), HashSlot: hashSlot, Index: in.idxS, Term: 1, Data: data}})
	if err != nil {
		return "", in.idxS, err
	}
	return string(res[0]), in.idxS, nil
}

func (in *c39Inst) applyT(hashSlot uint16, data []byte) (string, error) {
	in.idxT++
	res, err := in.smT.ApplyBatch(c39Ctx, []multiraft.Command{{SlotID: multiraft.SlotID(in.slotT), HashSlot: hashSlot, Index: in.idxT, Term: 1, Data: data}})
	if err != nil {
		return "", err
	}
	return string(res[0]), nil
}

// applyTBatch applies the delta and one companion command in ONE ApplyBatch of the target.
func (in *c39Inst) applyTBatch(delta []byte, compHashSlot uint16, comp []byte) ([]string, error) {
	in.idxT += 2
	res, err := in.smT.ApplyBatch(c39Ctx, []multiraft.Command{
		{SlotID: multiraft.SlotID(in.slotT), HashSlot: in.hs, Index: in.idxT - 1, Term: 1, Data: delta},
		{SlotID: multiraft.SlotID(in.slotT), HashSlot: compHashSlot, Index: in.idxT, Term: 1, Data: comp}})
	if err != nil {
		return nil, err
	}
	return []string{string(res[0]), string(res[1])}, nil
}

// c39Task is a channel-migration task of the target's own hash slot; two tasks with the same id
// and different content compete, the second create is answered stale when its batch commits.
func c39Task(updatedAt int64) metadb.ChannelMigrationTask {
	return metadb.ChannelMigrationTask{TaskID: "T1", Status: metadb.ChannelMigrationStatusRunning, ChannelID: "own-channel", ChannelType: 2,
		Kind: metadb.ChannelMigrationKindLeaderTransfer, Phase: metadb.ChannelMigrationPhaseWriteFence, SourceNode: 1, TargetNode: 2, DesiredLeader: 2,
		BaseChannelEpoch: 1, BaseLeaderEpoch: 1, CreatedAtMS: 100, UpdatedAtMS: updatedAt}
}

// restartT closes and reopens the target DB and builds a new state machine with the runtime
// configuration the node would install again from the hash-slot table.
func (in *c39Inst) restartT() {
	if err := in.a.T.Close(); err != nil {
		in.fail("close target db: %v", err)
	}
	db, err := metadb.Open(in.a.dirT)
	if err != nil {
		panic(fmt.Sprintf("c39 harness: reopen target db: %v", err))
	}
	in.a.T = db
	if in.switched {
		in.smT = in.newSM(db, in.slotT, []uint16{in.hsT, in.hs})
	} else {
		in.smT = in.newSM(db, in.slotT, []uint16{in.hsT})
		if in.started || in.imported {
			in.smT.UpdateIncomingDeltaHashSlots([]uint16{in.hs})
		}
	}
	in.st.restarts.Add(1)
}

// ---------------------------------------------------------------- read-back

func (in *c39Inst) users(db *metadb.DB) map[string]string {
	out := map[string]string{}
	sh := db.ForHashSlot(in.hs)
	for _, k := range c39Keys {
		u, err := sh.GetUser(c39Ctx, k)
		if errors.Is(err, metadb.ErrNotFound) {
			continue
		}
		if err != nil {
			in.fail("GetUser(%s): %v", k, err)
			continue
		}
		out[k] = u.Token
	}
	return out
}

func (in *c39Inst) appliedOnT() []uint64 {
	recs, err := in.a.T.ListAppliedHashSlotDeltas(c39Ctx, in.hs)
	if err != nil {
		in.fail("ListAppliedHashSlotDeltas: %v", err)
		return nil
	}
	var out []uint64
	for _, d := range recs {
		if d.SourceSlot == in.slotS {
			out = append(out, d.SourceIndex)
		}
	}
	sort.Slice(out, func(i, j int) bool { return out[i] < out[j] })
	return out
}

func (in *c39Inst) outbox() []metadb.HashSlotMigrationOutboxRow {
	rows, err := in.a.S.ListHashSlotMigrationOutbox(c39Ctx, in.hs, in.slotS, in.slotT, 0, 64)
	if err != nil {
		in.fail("ListHashSlotMigrationOutbox: %v", err)
		return nil
	}
	return rows
}

func (in *c39Inst) migState() (metadb.HashSlotMigrationState, bool) {
	st, err := in.a.S.LoadHashSlotMigrationState(c39Ctx, in.hs)
	if errors.Is(err, metadb.ErrNotFound) {
		return metadb.HashSlotMigrationState{}, false
	}
	if err != nil {
		in.fail("LoadHashSlotMigrationState: %v", err)
		return metadb.HashSlotMigrationState{}, false
	}
	return st, true
}

func (in *c39Inst) fenced() bool {
	st, ok := in.migState()
	return ok && st.SourceSlot == in.slotS && st.FenceIndex != 0
}

func (in *c39Inst) export(db *metadb.DB) []byte {
	snap, err := db.ExportHashSlotSnapshot(c39Ctx, []uint16{in.hs})
	if err != nil {
		in.fail("ExportHashSlotSnapshot: %v", err)
		return nil
	}
	return snap.Data
}

func c39MapEq(a, b map[string]string) bool {
	if len(a) != len(b) {
		return false
	}
	for k, v := range a {
		if w, ok := b[k]; !ok || w != v {
			return false
		}
	}
	return true
}

func c39MapStr(m map[string]string) string {
	var parts []string
	for _, k := range c39Keys {
		if v, ok := m[k]; ok {
			parts = append(parts, k+"="+v)
		}
	}
	return "{" + strings.Join(parts, " ") + "}"
}

func c39Copy(m map[string]string) map[string]string {
	out := make(map[string]string, len(m))
	for k, v := range m {
		out[k] = v
	}
	return out
}

// c39Effect applies the effect of one write label to a model map.
func c39Effect(m map[string]string, label string) {
	p := strings.SplitN(label, ":", 3)
	if len(p) != 3 {
		return // fence marker
	}
	switch p[0] {
	case "u":
		m[p[1]] = p[2]
	case "c":
		if _, ok := m[p[1]]; !ok {
			m[p[1]] = p[2]
		}
	}
}

func c39LabelKey(label string) string {
	p := strings.SplitN(label, ":", 3)
	if len(p) != 3 {
		return ""
	}
	return p[1]
}

// ---------------------------------------------------------------- alphabet

func (in *c39Inst) Events() []string {
	if in.broken {
		return nil
	}
	fenced := in.fenced()
	var evs []string
	switch {
	case fenced && !in.switched:
		evs = append(evs, "w:0") // every owner write is refused by the fence; one representative
	case !in.started && !in.switched:
		if in.ver[0] == 0 {
			evs = append(evs, "w:0") // one pre-migration row is enough: nothing migrates yet
		}
	default:
		evs = append(evs, in.writes...)
	}
	if !in.started && !fenced && !in.switched {
		evs = append(evs, "start")
	}
	if (in.started || fenced) && !in.switched && in.snaps < in.maxSnaps {
		evs = append(evs, "snap")
	}
	if !fenced && !in.switched {
		evs = append(evs, "fence")
		// the fence shares its ApplyBatch on the source with ordinary writes of the same hash slot
		// (consecutive committed entries of the source's log), in every runtime phase of the source
		evs = append(evs, c39FenceBatchEvents...)
	}
	nOut, onlyFenceMarker := 0, false
	if !in.switched {
		rows := in.outbox()
		nOut = len(rows)
		onlyFenceMarker = nOut == 1 && in.labelByIdx[rows[0].SourceIndex] == "fence"
	}
	if in.imported && !in.switched && nOut > 0 {
		evs = append(evs, "deliver")
	}
	if len(in.hist) > 0 {
		evs = append(evs, "replay")
	}
	if fenced && in.imported && !in.switched && (nOut == 0 || onlyFenceMarker) {
		evs = append(evs, "switch") // the switch delivers and acks a trailing fence marker itself (final drain)
	}
	evs = append(evs, "nw")
	if in.switched && !in.cleaned {
		evs = append(evs, "cleanup")
	}
	return evs
}

func (in *c39Inst) Apply(evl string, env *mc.Env) (string, error) {
	in.fwd, in.fwdTarget = nil, nil
	switch {
	case strings.HasPrefix(evl, "w:"), strings.HasPrefix(evl, "c:"):
		return in.evWrite(evl)
	case evl == "start":
		in.smS.UpdateOutgoingDeltaTargets(map[uint16]multiraft.SlotID{in.hs: multiraft.SlotID(in.slotT)})
		in.smT.UpdateIncomingDeltaHashSlots([]uint16{in.hs})
		in.started = true
		return "started", nil
	case evl == "snap":
		return in.evSnap()
	case evl == "fence":
		return in.evFence()
	case strings.HasPrefix(evl, "fb:"):
		return in.evFenceBatch(evl[3:])
	case evl == "deliver":
		return in.evDeliver(env)
	case evl == "replay":
		return in.evReplay(env)
	case evl == "switch":
		return in.evSwitch()
	case evl == "nw":
		return in.evNonOwnerWrite()
	case evl == "cleanup":
		return in.evCleanup()
	}
	in.fail("unknown event %q", evl)
	return "?", nil
}

func (in *c39Inst) writeCmd(evl string) (label string, data []byte) {
	k := int(evl[2] - '0')
	in.ver[k]++
	key := c39Keys[k]
	token := fmt.Sprintf("%s.v%d", key, in.ver[k])
	u := metadb.User{UID: key, Token: token, DeviceFlag: 1, DeviceLevel: 1}
	if evl[0] == 'c' {
		return "c:" + key + ":" + token, fsm.EncodeCreateUserCommand(u)
	}
	return "u:" + key + ":" + token, fsm.EncodeUpsertUserCommand(u)
}

// checkOutboxAndForward verifies, after S accepted a command at index idx while the hash slot
// migrates, that the command is in the durable outbox and was handed to the forwarder.
func (in *c39Inst) checkOutboxAndForward(idx uint64, data []byte, wantRow, wantForward bool, what string) error {
	var row *metadb.HashSlotMigrationOutboxRow
	for _, r := range in.outbox() {
		if r.SourceIndex == idx {
			rr := r
			row = &rr
		}
	}
	if wantRow && row == nil {
		return mc.Violatef("C39:accepted-"+what+"-missing-from-outbox", "source accepted the %s at index %d while the hash slot migrates, but the durable outbox has no row for it (outbox %v)", what, idx, in.outboxLabels())
	}
	if !wantRow && row != nil {
		return mc.Violatef("C39:outbox-row-without-migration", "source wrote an outbox row for index %d although no migration is running", idx)
	}
	if row != nil && !bytes.Equal(row.Data, data) {
		return mc.Violatef("C39:outbox-row-differs-from-command", "outbox row %d carries other bytes than the accepted command", idx)
	}
	if wantForward {
		if len(in.fwd) != 1 || in.fwd[0].Index != idx || !bytes.Equal(in.fwd[0].Data, data) || in.fwd[0].HashSlot != in.hs || uint64(in.fwdTarget[0]) != in.slotT || uint64(in.fwd[0].SlotID) != in.slotS {
			return mc.Violatef("C39:forwarded-delta-differs-from-outbox", "the delta forwarder was called %d time(s) for the %s at index %d (want exactly one call carrying the outbox row)", len(in.fwd), what, idx)
		}
		in.st.forwardsChecked.Add(1)
	} else if len(in.fwd) != 0 {
		return mc.Violatef("C39:delta-forwarded-without-delta-phase", "the delta forwarder was called although the source is not in the delta phase (%s at index %d)", what, idx)
	}
	return nil
}

func (in *c39Inst) outboxLabels() []string {
	var out []string
	for _, r := range in.outbox() {
		out = append(out, fmt.Sprintf("%d:%s", r.SourceIndex, in.labelByIdx[r.SourceIndex]))
	}
	return out
}

func (in *c39Inst) evWrite(evl string) (string, error) {
	label, data := in.writeCmd(evl)
	key := c39LabelKey(label)
	if in.switched { // the target owns the hash slot
		res, err := in.applyT(in.hs, data)
		if err != nil || res != fsm.ApplyResultOK {
			in.fail("owner T refused %s: %q %v", label, res, err)
			return "owner-T-refused", nil
		}
		c39Effect(in.model, label)
		c39Effect(in.tgtModel, label)
		in.st.acceptedAfterSwitch.Add(1)
		return "T-accepted " + key, nil
	}
	fenced := in.fenced()
	var before []byte
	if fenced {
		before = in.export(in.a.S)
	}
	res, idx, err := in.applyS(in.hs, data)
	if err != nil {
		in.fail("owner S failed on %s: %v", label, err)
		return "owner-S-error", nil
	}
	if fenced {
		if res == fsm.ApplyResultOK {
			return "fenced-but-accepted", mc.Violatef("C39:fenced-source-accepted-write", "source accepted %s after it entered the fence for the migrating hash slot", label)
		}
		if !bytes.Equal(before, in.export(in.a.S)) {
			return "fenced-changed", mc.Violatef("C39:refused-write-changed-state", "source refused %s (%s) but its hash-slot snapshot changed", label, res)
		}
		if len(in.fwd) != 0 {
			return "fenced-forwarded", mc.Violatef("C39:refused-write-forwarded", "source refused %s (%s) but forwarded a delta", label, res)
		}
		in.st.fencedRefused.Add(1)
		return "S-refused:" + res, nil
	}
	if res != fsm.ApplyResultOK {
		in.fail("unfenced owner S refused %s: %q", label, res)
		return "owner-S-refused", nil
	}
	if evl[0] == 'c' {
		if _, ok := in.srcModel[key]; ok {
			in.st.createNoop.Add(1)
		}
	}
	c39Effect(in.model, label)
	c39Effect(in.srcModel, label)
	in.labelByIdx[idx], in.dataByIdx[idx] = label, data
	if err := in.checkOutboxAndForward(idx, data, in.started, in.started, "write"); err != nil {
		return "S-accepted", err
	}
	if in.started {
		in.deltaWrites++
		in.st.acceptedDelta.Add(1)
		return "S-accepted+outbox " + key, nil
	}
	in.st.acceptedIdle.Add(1)
	return "S-accepted " + key, nil
}

func (in *c39Inst) evFence() (string, error) {
	data := fsm.EncodeEnterFenceCommandForTarget(in.hs, multiraft.SlotID(in.slotT))
	res, idx, err := in.applyS(in.hs, data)
	if err != nil || res != fsm.ApplyResultOK {
		in.fail("enter fence: %q %v", res, err)
		return "fence-error", nil
	}
	st, ok := in.migState()
	if !ok || st.FenceIndex != idx || st.SourceSlot != in.slotS || st.TargetSlot != in.slotT {
		return "fence-not-recorded", mc.Violatef("C39:fence-not-durable", "enter fence was accepted at index %d but the durable migration state is %+v (exists=%v)", idx, st, ok)
	}
	in.labelByIdx[idx], in.dataByIdx[idx] = "fence", data
	if err := in.checkOutboxAndForward(idx, data, true, in.started, "fence"); err != nil {
		return "fenced", err
	}
	if in.started {
		return "fenced+forwarded", nil
	}
	return "fenced(snapshot phase)", nil
}

// ---------------------------------------------------------------- fence sharing its ApplyBatch with ordinary writes (source side)

// c39FenceBatchEvents are the explored source batches: 'F' = enter_fence with the explicit
// target, '0' / '1' = upsert of k0 / k1, '2' = create-if-absent of k2, all for the migrating
// hash slot, applied in ONE ApplyBatch call of the source in that order.
var c39FenceBatchEvents = []string{"fb:F0"} // thorough adds "fb:1F00" (set in TestVerifC39 before the exploration starts)

type c39Item struct {
	fence bool
	ack   uint64 // != 0: ack of that outbox row
	label string
	data  []byte
	idx   uint64
	res   string
}

func (in *c39Inst) shapeItems(shape string) []c39Item {
	var items []c39Item
	for _, ch := range shape {
		switch ch {
		case 'F':
			items = append(items, c39Item{fence: true, label: "fence", data: fsm.EncodeEnterFenceCommandForTarget(in.hs, multiraft.SlotID(in.slotT))})
		case '0', '1':
			label, data := in.writeCmd("w:" + string(ch))
			items = append(items, c39Item{label: label, data: data})
		case '2':
			label, data := in.writeCmd("c:2")
			items = append(items, c39Item{label: label, data: data})
		case 'A': // ack of the oldest outbox row present before the commands (an index never used when the outbox is empty: a no-op)
			idx := uint64(1 << 40)
			if rows := in.outbox(); len(rows) > 0 {
				idx = rows[0].SourceIndex
			}
			items = append(items, c39Item{ack: idx, label: "ack", data: fsm.EncodeAckHashSlotMigrationOutboxCommand(in.hs, multiraft.SlotID(in.slotS), multiraft.SlotID(in.slotT), idx)})
		default:
			in.fail("bad batch shape %q", shape)
		}
	}
	return items
}

// applySourceItems applies the commands on the source: all in ONE ApplyBatch call, or one
// command per ApplyBatch call (same raft indexes either way).
func (in *c39Inst) applySourceItems(items []c39Item, oneBatch bool) error {
	if !oneBatch {
		for i := range items {
			res, idx, err := in.applyS(in.hs, items[i].data)
			if err != nil {
				return err
			}
			items[i].idx, items[i].res = idx, res
			in.labelByIdx[idx], in.dataByIdx[idx] = items[i].label, items[i].data
		}
		return nil
	}
	cmds := make([]multiraft.Command, len(items))
	for i := range items {
		in.idxS++
		items[i].idx = in.idxS
		in.labelByIdx[in.idxS], in.dataByIdx[in.idxS] = items[i].label, items[i].data
		cmds[i] = multiraft.Command{SlotID: multiraft.SlotID(in.slotS), HashSlot: in.hs, Index: in.idxS, Term: 1, Data: items[i].data}
	}
	res, err := in.smS.ApplyBatch(c39Ctx, cmds)
	if err != nil {
		return err
	}
	for i := range items {
		items[i].res = string(res[i])
	}
	return nil
}

func c39ItemResults(items []c39Item) string {
	var parts []string
	for _, it := range items {
		parts = append(parts, it.label+"->"+it.res)
	}
	return "[" + strings.Join(parts, " | ") + "]"
}

func (in *c39Inst) runtimePhaseName() string {
	if in.started {
		return "delta phase"
	}
	return "no runtime migration entry (snapshot phase)"
}

// judgeSourceItems is the oracle for commands the source answered (in log order): a write
// ordered after the fence is refused and leaves no trace; a write ordered before it is accepted,
// and while the delta phase runs it is in the durable outbox and was forwarded exactly once; the
// fence is durable with its own index, has its outbox marker and is forwarded in the delta phase.
func (in *c39Inst) judgeSourceItems(items []c39Item, fencedBefore, sameBatch bool) error {
	fencedNow := fencedBefore
	var wantRows, noRows, wantFwd []uint64
	refused := map[uint64]bool{}
	var fenceIdx uint64
	how := "in a later ApplyBatch"
	if sameBatch {
		how = "in the SAME ApplyBatch"
	}
	for _, it := range items {
		if it.ack != 0 {
			if it.res != fsm.ApplyResultOK {
				in.fail("outbox ack answered %q %s", it.res, c39ItemResults(items))
				return nil
			}
			for _, r := range in.outbox() {
				if r.SourceIndex == it.ack {
					return mc.Violatef("C39:acked-outbox-row-kept", "outbox row %d is still listed after its ack was applied (%s)", it.ack, c39ItemResults(items))
				}
			}
			continue
		}
		if it.fence {
			if it.res != fsm.ApplyResultOK {
				in.fail("enter fence answered %q %s", it.res, c39ItemResults(items))
				return nil
			}
			if !fencedNow {
				fencedNow, fenceIdx = true, it.idx
				in.labelByIdx[it.idx], in.dataByIdx[it.idx] = "fence", it.data
				wantRows = append(wantRows, it.idx)
				if in.started {
					wantFwd = append(wantFwd, it.idx)
				}
			}
			continue
		}
		if fencedNow {
			if it.res == fsm.ApplyResultOK {
				if fenceIdx != 0 && sameBatch {
					return mc.Violatef("C39:write-after-fence-in-same-batch-accepted", "source (%s) accepted %s at index %d although enter_fence for the hash slot was applied at index %d earlier %s: results %s, source rows %s", in.runtimePhaseName(), it.label, it.idx, fenceIdx, how, c39ItemResults(items), c39MapStr(in.users(in.a.S)))
				}
				return mc.Violatef("C39:fenced-source-accepted-write", "source accepted %s after it entered the fence for the migrating hash slot (%s)", it.label, c39ItemResults(items))
			}
			refused[it.idx] = true
			noRows = append(noRows, it.idx)
			in.st.fenceBatchRefused.Add(1)
			continue
		}
		if it.res != fsm.ApplyResultOK {
			in.fail("unfenced owner S refused %s: %s", it.label, c39ItemResults(items))
			return nil
		}
		c39Effect(in.model, it.label)
		c39Effect(in.srcModel, it.label)
		in.labelByIdx[it.idx], in.dataByIdx[it.idx] = it.label, it.data
		in.st.fenceBatchAcceptedBefore.Add(1)
		if in.started {
			wantRows = append(wantRows, it.idx)
			wantFwd = append(wantFwd, it.idx)
			in.deltaWrites++
		} else {
			noRows = append(noRows, it.idx)
		}
	}
	rows := map[uint64]metadb.HashSlotMigrationOutboxRow{}
	for _, r := range in.outbox() {
		rows[r.SourceIndex] = r
	}
	for _, idx := range wantRows {
		what := "write"
		if in.labelByIdx[idx] == "fence" {
			what = "fence"
		}
		row, ok := rows[idx]
		if !ok {
			return mc.Violatef("C39:accepted-"+what+"-missing-from-outbox", "source accepted the %s %s at index %d while the hash slot migrates, but the durable outbox has no row for it (outbox %v, results %s)", what, in.labelByIdx[idx], idx, in.outboxLabels(), c39ItemResults(items))
		}
		if !bytes.Equal(row.Data, in.dataByIdx[idx]) {
			return mc.Violatef("C39:outbox-row-differs-from-command", "outbox row %d carries other bytes than the accepted command", idx)
		}
	}
	for _, idx := range noRows {
		if _, ok := rows[idx]; ok {
			if refused[idx] {
				return mc.Violatef("C39:refused-write-in-outbox", "source refused the write at index %d but wrote an outbox row for it (%s)", idx, c39ItemResults(items))
			}
			return mc.Violatef("C39:outbox-row-without-migration", "source wrote an outbox row for index %d although no migration is running", idx)
		}
	}
	okFwd := len(in.fwd) == len(wantFwd)
	for i := 0; okFwd && i < len(wantFwd); i++ {
		f := in.fwd[i]
		okFwd = f.Index == wantFwd[i] && bytes.Equal(f.Data, in.dataByIdx[wantFwd[i]]) && f.HashSlot == in.hs && uint64(in.fwdTarget[i]) == in.slotT && uint64(f.SlotID) == in.slotS
	}
	if !okFwd {
		var got []uint64
		for _, f := range in.fwd {
			got = append(got, f.Index)
		}
		if !in.started {
			return mc.Violatef("C39:delta-forwarded-without-delta-phase", "the delta forwarder was called for indexes %v although the source is not in the delta phase (%s)", got, c39ItemResults(items))
		}
		return mc.Violatef("C39:forwarded-delta-differs-from-outbox", "the delta forwarder was called for indexes %v, want exactly one call per accepted command in log order %v (%s)", got, wantFwd, c39ItemResults(items))
	}
	in.st.forwardsChecked.Add(int64(len(wantFwd)))
	if fenceIdx != 0 {
		st, ok := in.migState()
		if !ok || st.FenceIndex != fenceIdx || st.SourceSlot != in.slotS || st.TargetSlot != in.slotT {
			return mc.Violatef("C39:fence-not-durable", "enter fence was accepted at index %d but the durable migration state is %+v (exists=%v) after %s", fenceIdx, st, ok, c39ItemResults(items))
		}
	} else if fencedBefore && !in.fenced() {
		return mc.Violatef("C39:fence-not-durable", "the source was fenced but is not any more after %s", c39ItemResults(items))
	}
	return nil
}

// evFenceBatch: the fence and ordinary writes of the same hash slot are applied by ONE
// ApplyBatch call of the source.
func (in *c39Inst) evFenceBatch(shape string) (string, error) {
	fencedBefore := in.fenced()
	items := in.shapeItems(shape)
	obs := "source batch " + shape + " in " + in.runtimePhaseName()
	if err := in.applySourceItems(items, true); err != nil {
		return obs + ": error", mc.Violatef("C39:valid-source-batch-failed", "one ApplyBatch of the source (%s) carrying %s, each of which is answered alone, failed: %v", in.runtimePhaseName(), shape, err)
	}
	if in.started {
		in.st.fenceBatchDeltaPhase.Add(1)
	} else {
		in.st.fenceBatchSnapshotPhase.Add(1)
	}
	err := in.judgeSourceItems(items, fencedBefore, true)
	if err == nil {
		// A refused write leaves no trace, so its version token is handed out again: the state
		// after the batch is then the state after the fence alone (plus the accepted earlier
		// writes) and merges with it. Accepted writes precede the refused ones of their key.
		for _, it := range items {
			if !it.fence && it.res != fsm.ApplyResultOK {
				for k, key := range c39Keys {
					if c39LabelKey(it.label) == key {
						in.ver[k]--
					}
				}
			}
		}
	}
	return obs + ": " + c39ResultsOnly(items), err
}

func c39ResultsOnly(items []c39Item) string {
	var parts []string
	for _, it := range items {
		parts = append(parts, it.res)
	}
	return strings.Join(parts, ",")
}

func (in *c39Inst) evSnap() (string, error) {
	snap, err := in.smS.ExportHashSlotSnapshot(c39Ctx, in.hs)
	if err != nil {
		in.fail("export: %v", err)
		return "export-error", nil
	}
	if err := in.smT.ImportHashSlotSnapshot(c39Ctx, metadb.SlotSnapshot{HashSlots: []uint16{in.hs}, Data: append([]byte(nil), snap.Data...)}); err != nil {
		in.fail("import: %v", err)
		return "import-error", nil
	}
	in.tgtModel = c39Copy(in.srcModel)
	in.snapIdx = in.idxS
	if in.imported {
		in.st.resnaps.Add(1)
	}
	in.imported = true
	in.snaps++
	in.st.snaps.Add(1)
	return fmt.Sprintf("snapshot copied rows=%d", len(in.srcModel)), nil
}

func (in *c39Inst) evDeliver(env *mc.Env) (string, error) {
	rows := in.outbox()
	if len(rows) == 0 {
		in.fail("deliver with empty outbox")
		return "?", nil
	}
	n := len(rows)
	if n > 3 {
		n = 3
	}
	pick := env.Choose("deliver-later-row-first", n)
	row := rows[pick]
	label, known := in.labelByIdx[row.SourceIndex]
	if !known || !bytes.Equal(row.Data, in.dataByIdx[row.SourceIndex]) {
		return "outbox-garbage", mc.Violatef("C39:outbox-row-differs-from-command", "outbox row %d does not carry the command accepted at that index", row.SourceIndex)
	}
	obs := "deliver " + label
	if pick > 0 {
		same := false
		for _, skipped := range rows[:pick] {
			if k := c39LabelKey(in.labelByIdx[skipped.SourceIndex]); k != "" && k == c39LabelKey(label) {
				same = true
			}
		}
		if same {
			in.reordered = true
			in.st.reorderSameKey.Add(1)
			obs += " (overtakes same key)"
		} else {
			in.st.reorderOtherKey.Add(1)
			obs += " (overtakes)"
		}
	}
	wrapped := fsm.EncodeApplyDeltaCommand(multiraft.SlotID(in.slotS), row.SourceIndex, in.hs, row.Data)
	first := !in.tgtApplied[row.SourceIndex]
	// The delta may share its ApplyBatch with another committed entry of the target's log:
	// 0 alone, 1 a harmless valid command, 2 an ordinary write for the migrating hash slot the
	// target does not own yet (ApplyBatch fails after the delta was staged), 3 a conditional
	// command that is answered stale when the batch commits (the batch is re-applied one by one).
	companion := env.Choose("delta-shares-batch-with", 4)
	var res string
	var err error
	switch companion {
	case 0:
		res, err = in.applyT(in.hs, wrapped)
	case 2:
		beforeRows, beforeApplied := in.users(in.a.T), in.appliedOnT()
		r2, e2 := in.applyTBatch(wrapped, in.hs, fsm.EncodeUpsertUserCommand(metadb.User{UID: "k0", Token: "non-owner-in-batch", DeviceFlag: 9, DeviceLevel: 9}))
		if e2 == nil {
			return obs, mc.Violatef("C39:non-owner-accepted-write", "the target does not own the migrating hash slot but an ApplyBatch carrying a delta and an ordinary write for it succeeded (%q)", r2)
		}
		if afterRows, afterApplied := in.users(in.a.T), in.appliedOnT(); !c39MapEq(beforeRows, afterRows) || fmt.Sprint(beforeApplied) != fmt.Sprint(afterApplied) {
			return obs, mc.Violatef("C39:failed-batch-left-delta-effects", "the ApplyBatch carrying delta %s failed (%v) but the target went from %s %v to %s %v", label, e2, c39MapStr(beforeRows), beforeApplied, c39MapStr(afterRows), afterApplied)
		}
		if in.failedBatch == nil {
			in.failedBatch = map[uint64]bool{}
		}
		in.failedBatch[row.SourceIndex] = true
		in.st.batchFailed.Add(1)
		return obs + " in a batch that failed (ordinary write for the hash slot not owned yet): not delivered", nil
	default:
		var comp []byte
		compSlot := in.hsT
		wantComp := fsm.ApplyResultOK
		if companion == 1 {
			comp = fsm.EncodeUpsertUserCommand(metadb.User{UID: "own", Token: fmt.Sprintf("t%d", in.idxT), DeviceFlag: 1, DeviceLevel: 1})
		} else {
			if !in.taskSeeded { // the competing task exists before the batch
				if r0, e0 := in.applyT(in.hsT, fsm.EncodeCreateChannelMigrationTaskCommand(c39Task(100))); e0 != nil || r0 != fsm.ApplyResultOK {
					in.fail("seeding the competing channel-migration task: %q %v", r0, e0)
					return "?", nil
				}
				in.taskSeeded = true
			}
			comp = fsm.EncodeCreateChannelMigrationTaskCommand(c39Task(200))
			wantComp = fsm.ApplyResultStaleMeta
		}
		var rs []string
		rs, err = in.applyTBatch(wrapped, compSlot, comp)
		if err == nil {
			res = rs[0]
			if rs[1] != wantComp {
				in.fail("companion command %d answered %q, want %q", companion, rs[1], wantComp)
				return "?", nil
			}
		}
		if companion == 1 {
			in.st.batchHarmless.Add(1)
			obs += " (+valid command in the batch)"
		} else {
			in.st.batchStale.Add(1)
			obs += " (+stale conditional command in the batch)"
		}
	}
	if err != nil || res != fsm.ApplyResultOK {
		return "delta-refused", mc.Violatef("C39:target-refused-delta", "target refused the delta %s (source index %d): result %q err %v", label, row.SourceIndex, res, err)
	}
	afterFailedBatch := in.failedBatch[row.SourceIndex]
	if afterFailedBatch {
		in.st.deliveredAfterFailedBatch.Add(1)
		delete(in.failedBatch, row.SourceIndex)
	}
	if first {
		c39Effect(in.tgtModel, label)
		in.tgtApplied[row.SourceIndex] = true
		in.hist = append(in.hist, c39Delta{idx: row.SourceIndex, label: label, wrapped: wrapped})
		in.st.delivered.Add(1)
		if row.SourceIndex <= in.snapIdx && label != "fence" {
			in.st.preSnapshotDelta.Add(1)
		}
		if label == "fence" {
			in.st.fenceMarker.Add(1)
		}
	} else {
		in.st.redelivered.Add(1)
		obs += " (again)"
	}
	if got := in.users(in.a.T); !c39MapEq(got, in.tgtModel) {
		fp := "C39:delivered-delta-not-applied-once"
		if !first {
			fp = "C39:redelivered-delta-applied-again"
		} else if afterFailedBatch {
			fp = "C39:delta-answered-ok-but-not-applied-after-failed-batch"
		} else if companion == 3 {
			fp = "C39:delta-answered-ok-but-not-applied-in-batch-reapplied-after-stale-commit"
		}
		return obs, mc.Violatef(fp, "after delivering %s (source index %d, first delivery=%v) the target holds %s, want %s", label, row.SourceIndex, first, c39MapStr(got), c39MapStr(in.tgtModel))
	}
	if env.Choose("deliver-twice", 2) == 1 {
		res, err := in.applyT(in.hs, wrapped)
		if err != nil || res != fsm.ApplyResultOK {
			return obs, mc.Violatef("C39:target-refused-delta", "target refused the duplicate of delta %s: result %q err %v", label, res, err)
		}
		if got := in.users(in.a.T); !c39MapEq(got, in.tgtModel) {
			return obs, mc.Violatef("C39:duplicate-delta-applied-again", "the duplicate of delta %s changed the target: %s, want %s", label, c39MapStr(got), c39MapStr(in.tgtModel))
		}
		in.st.dupDelivered.Add(1)
		obs += " x2"
	}
	if env.Choose("ack-lost", 2) == 1 {
		in.st.ackLost.Add(1)
		return obs + " ack-lost", nil
	}
	ack := fsm.EncodeAckHashSlotMigrationOutboxCommand(in.hs, multiraft.SlotID(in.slotS), multiraft.SlotID(in.slotT), row.SourceIndex)
	if res, _, err := in.applyS(in.hs, ack); err != nil || res != fsm.ApplyResultOK {
		in.fail("ack: %q %v", res, err)
		return obs + " ack-error", nil
	}
	for _, r := range in.outbox() {
		if r.SourceIndex == row.SourceIndex {
			return obs, mc.Violatef("C39:acked-outbox-row-kept", "outbox row %d is still listed after its ack was applied", row.SourceIndex)
		}
	}
	return obs + " acked", nil
}

func (in *c39Inst) evReplay(env *mc.Env) (string, error) {
	n := len(in.hist)
	if n > 3 {
		n = 3
	}
	which := env.Choose("replay-which", n)
	d := in.hist[which]
	restart := env.Choose("restart-target-first", 2) == 1
	if restart {
		in.restartT()
	}
	beforeRows, beforeApplied := in.users(in.a.T), in.appliedOnT()
	res, err := in.applyT(in.hs, d.wrapped)
	if err != nil || res != fsm.ApplyResultOK {
		return "replay-refused", mc.Violatef("C39:target-refused-delta", "target refused the replay of delta %s: result %q err %v", d.label, res, err)
	}
	afterRows, afterApplied := in.users(in.a.T), in.appliedOnT()
	if !c39MapEq(beforeRows, afterRows) || fmt.Sprint(beforeApplied) != fmt.Sprint(afterApplied) {
		fp := "C39:replayed-delta-applied-again"
		if restart {
			fp = "C39:replayed-delta-applied-again-after-target-restart"
		}
		return "replay-changed", mc.Violatef(fp, "replaying delta %s (source index %d, restart=%v) changed the target from %s to %s (applied records %v -> %v)", d.label, d.idx, restart, c39MapStr(beforeRows), c39MapStr(afterRows), beforeApplied, afterApplied)
	}
	in.st.replays.Add(1)
	if restart {
		in.st.replaysAfterRestart.Add(1)
	}
	if in.switched {
		in.st.replaysAfterSwitch.Add(1)
	}
	obs := "replay " + d.label + " unchanged"
	if restart {
		obs += " (after restart)"
	}
	return obs, nil
}

func (in *c39Inst) evSwitch() (string, error) {
	if rows := in.outbox(); len(rows) == 1 { // final drain: the trailing fence marker (default environment answers)
		if obs, err := in.evDeliver(&mc.Env{}); err != nil {
			return "switch: " + obs, err
		}
		if len(in.outbox()) != 0 {
			in.fail("switch: fence marker still in the outbox after the final drain")
			return "?", nil
		}
	}
	srcRows, tgtRows := in.users(in.a.S), in.users(in.a.T)
	in.smS.UpdateOwnedHashSlots([]uint16{in.hsS})
	in.smS.UpdateOutgoingDeltaTargets(map[uint16]multiraft.SlotID{})
	in.smT.UpdateOwnedHashSlots([]uint16{in.hsT, in.hs})
	in.smT.UpdateIncomingDeltaHashSlots(nil)
	in.switched = true
	in.st.switches.Add(1)
	if in.deltaWrites > 0 {
		in.st.switchesWithDelta.Add(1)
	}
	if !in.started {
		in.st.switchesFenceFirst.Add(1)
	}
	if in.reordered {
		if !c39MapEq(srcRows, tgtRows) {
			in.st.reorderSameKeyStale.Add(1)
		}
		return "switched (after same-key reorder)", nil
	}
	if !c39MapEq(srcRows, tgtRows) {
		return "switched-diverged", mc.Violatef("C39:target-differs-from-source-at-switch", "fence entered, snapshot imported and outbox drained, but the target holds %s and the source %s", c39MapStr(tgtRows), c39MapStr(srcRows))
	}
	return "switched rows=" + fmt.Sprint(len(tgtRows)), nil
}

func (in *c39Inst) evNonOwnerWrite() (string, error) {
	u := metadb.User{UID: "k0", Token: "non-owner", DeviceFlag: 9, DeviceLevel: 9}
	data := fsm.EncodeUpsertUserCommand(u)
	db, who := in.a.T, "target"
	if in.switched {
		db, who = in.a.S, "source"
	}
	before := in.export(db)
	var res string
	var err error
	if in.switched {
		res, _, err = in.applyS(in.hs, data)
	} else {
		res, err = in.applyT(in.hs, data)
	}
	if err == nil && res == fsm.ApplyResultOK {
		return who + "-accepted", mc.Violatef("C39:non-owner-accepted-write", "the %s does not own the migrating hash slot but accepted an ordinary write for it", who)
	}
	if !bytes.Equal(before, in.export(db)) {
		return who + "-changed", mc.Violatef("C39:refused-write-changed-state", "the %s refused an ordinary write for the hash slot it does not own (%q, %v) but its hash-slot snapshot changed", who, res, err)
	}
	if len(in.fwd) != 0 {
		return who + "-forwarded", mc.Violatef("C39:refused-write-forwarded", "the %s refused the write but forwarded a delta", who)
	}
	switch {
	case !in.switched:
		in.st.nonOwnerRefusedTarget.Add(1)
	case in.cleaned:
		in.st.nonOwnerRefusedAfterClean.Add(1)
	default:
		in.st.nonOwnerRefusedSource.Add(1)
	}
	if err != nil {
		return who + "-refused:error", nil
	}
	return who + "-refused:" + res, nil
}

func (in *c39Inst) evCleanup() (string, error) {
	st, ok := in.migState()
	if !ok {
		in.fail("cleanup without migration state")
		return "?", nil
	}
	data := fsm.EncodeCleanupHashSlotMigrationOutboxCommand(in.hs, multiraft.SlotID(in.slotS), multiraft.SlotID(in.slotT), st.LastOutboxIndex)
	if res, _, err := in.applyS(in.hs, data); err != nil || res != fsm.ApplyResultOK {
		in.fail("cleanup: %q %v", res, err)
		return "cleanup-error", nil
	}
	in.cleaned = true
	in.st.cleanups.Add(1)
	if _, ok := in.migState(); ok {
		return "cleanup-kept-state", nil
	}
	return "cleaned", nil
}

// ---------------------------------------------------------------- canonical state + invariant

func (in *c39Inst) Canon() string {
	if in.broken {
		return ""
	}
	st, hasState := in.migState()
	rows := in.outbox()
	idxs := map[uint64]struct{}{}
	add := func(x uint64) {
		if x != 0 {
			idxs[x] = struct{}{}
		}
	}
	for _, r := range rows {
		add(r.SourceIndex)
	}
	for _, d := range in.hist {
		add(d.idx)
	}
	add(st.FenceIndex)
	add(st.LastOutboxIndex)
	add(st.LastAckedIndex)
	add(in.snapIdx)
	var sorted []uint64
	for x := range idxs {
		sorted = append(sorted, x)
	}
	sort.Slice(sorted, func(i, j int) bool { return sorted[i] < sorted[j] })
	rank := func(x uint64) int {
		if x == 0 {
			return 0
		}
		return sort.Search(len(sorted), func(i int) bool { return sorted[i] >= x }) + 1
	}
	type rl struct {
		R int
		L string
		A bool `json:",omitempty"`
	}
	c := struct {
		Started, Imported, Switched, Cleaned, Reordered bool
		Snaps                                           int
		Ver                                             [3]int
		Src, Tgt, Model                                 map[string]string
		HasState                                        bool
		Phase                                           uint8
		Fence, LastOut, LastAck, SnapIdx                int
		Outbox, Hist                                    []rl
		AppliedOnT, FailedBatch                         []int
		DeltaWrites                                     bool
	}{Started: in.started, Imported: in.imported, Switched: in.switched, Cleaned: in.cleaned, Reordered: in.reordered, Snaps: in.snaps, Ver: in.ver,
		Src: in.users(in.a.S), Tgt: in.users(in.a.T), Model: in.model, HasState: hasState, Phase: st.Phase,
		Fence: rank(st.FenceIndex), LastOut: rank(st.LastOutboxIndex), LastAck: rank(st.LastAckedIndex), SnapIdx: rank(in.snapIdx), DeltaWrites: in.deltaWrites > 0}
	for _, r := range rows {
		c.Outbox = append(c.Outbox, rl{R: rank(r.SourceIndex), L: in.labelByIdx[r.SourceIndex]})
	}
	for _, d := range in.hist {
		c.Hist = append(c.Hist, rl{R: rank(d.idx), L: d.label})
	}
	for _, x := range in.appliedOnT() {
		c.AppliedOnT = append(c.AppliedOnT, rank(x))
	}
	for _, r := range rows { // hidden in-memory state of the target may depend on it
		if in.failedBatch[r.SourceIndex] {
			c.FailedBatch = append(c.FailedBatch, rank(r.SourceIndex))
		}
	}
	b, err := json.Marshal(c)
	if err != nil {
		panic(err)
	}
	return string(b)
}

func (in *c39Inst) Check() error {
	if in.broken {
		return nil
	}
	if got := in.users(in.a.S); !c39MapEq(got, in.srcModel) {
		return mc.Violatef("C39:source-rows-differ-from-accepted-writes", "source holds %s, the writes it accepted give %s", c39MapStr(got), c39MapStr(in.srcModel))
	}
	if got := in.users(in.a.T); !c39MapEq(got, in.tgtModel) {
		return mc.Violatef("C39:target-rows-differ-from-apply-once-model", "target holds %s; last snapshot plus every delivered delta exactly once (delivery order) gives %s", c39MapStr(got), c39MapStr(in.tgtModel))
	}
	var want []uint64
	for x := range in.tgtApplied {
		want = append(want, x)
	}
	sort.Slice(want, func(i, j int) bool { return want[i] < want[j] })
	if got := in.appliedOnT(); fmt.Sprint(got) != fmt.Sprint(want) {
		return mc.Violatef("C39:applied-delta-records-differ", "target lists applied-delta records %v for the source slot, delivered deltas are %v", got, want)
	}
	if in.switched && !in.reordered && !c39MapEq(in.tgtModel, in.model) {
		return mc.Violatef("C39:accepted-write-lost-or-stale-after-switch", "after the switch the target holds %s but the writes accepted for the hash slot give %s", c39MapStr(in.tgtModel), c39MapStr(in.model))
	}
	return nil
}

// ---------------------------------------------------------------- differential section: one batch vs one command per batch

const c39DiffSystem = "fence-batch-vs-one-command-per-batch"

type c39DiffReplay struct {
	System string   `json:"system"`
	Prefix []string `json:"prefix"`
	Shape  string   `json:"shape"`
}

// digest is everything observable of the source after the commands: answers, rows, durable
// migration state, outbox, forwarder calls (raft indexes are equal on both sides by construction).
func (in *c39Inst) sourceDigest(items []c39Item) string {
	st, has := in.migState()
	var fw []string
	for i, f := range in.fwd {
		fw = append(fw, fmt.Sprintf("%d:%s->%d", f.Index, in.labelOfData(f.Index, f.Data), uint64(in.fwdTarget[i])-in.slotS))
	}
	var ob []string
	for _, r := range in.outbox() {
		ob = append(ob, fmt.Sprintf("%d:%s", r.SourceIndex, in.labelOfData(r.SourceIndex, r.Data)))
	}
	applied, err := in.a.S.SlotAppliedIndex(c39Ctx, in.slotS)
	if err != nil {
		in.fail("SlotAppliedIndex: %v", err)
	}
	return fmt.Sprintf("answers=%s rows=%s state={exists=%v own-source=%v own-target=%v phase=%d fence=%d lastOutbox=%d lastAcked=%d} outbox=%v forwarded=%v applied-index=%d",
		c39ItemResults(items), c39MapStr(in.users(in.a.S)), has, !has || st.SourceSlot == in.slotS, !has || st.TargetSlot == in.slotT, st.Phase, st.FenceIndex, st.LastOutboxIndex, st.LastAckedIndex, ob, fw, applied)
}

// labelOfData names the command carried by an outbox row / forwarder call through the harness's
// own record of what was submitted at that index ("?" when the bytes are not that command).
func (in *c39Inst) labelOfData(idx uint64, data []byte) string {
	if d, ok := in.dataByIdx[idx]; ok && bytes.Equal(d, data) {
		return in.labelByIdx[idx]
	}
	return "?"
}

func c39DiffShapes() []string {
	var out []string
	syms := []byte{'0', '1', '2'}
	for n := 2; n <= 3; n++ { // every sequence of length 2..3 with exactly one fence
		for pos := 0; pos < n; pos++ {
			total := 1
			for i := 0; i < n-1; i++ {
				total *= len(syms)
			}
			for x := 0; x < total; x++ {
				b := make([]byte, 0, n)
				y := x
				for i := 0; i < n; i++ {
					if i == pos {
						b = append(b, 'F')
						continue
					}
					b = append(b, syms[y%len(syms)])
					y /= len(syms)
				}
				out = append(out, string(b))
			}
		}
	}
	// the replicated outbox ack (A = ack of the oldest outbox row) next to the fence in one batch
	return append(out, "1F00", "F012", "F0F0", "FA", "AF", "FA0", "F0A", "AF0", "A0F", "0FA", "0AF")
}

// c39DiffCase drives two fresh instance pairs through the same prefix of orchestrator events,
// then applies the shape's commands to the source of A in ONE ApplyBatch and to the source of B
// one command per ApplyBatch.
func c39DiffCase(r *ev.R, st *c39Stats, prefix []string, shape string) (outcome string, v *ev.Violation) {
	mk := func() *c39Inst { return c39New(r, st, 1, []string{"w:0", "w:1", "c:2"}).(*c39Inst) }
	a, b := mk(), mk()
	defer a.Close()
	defer b.Close()
	viol := func(fp, msg string) *ev.Violation {
		return &ev.Violation{Fingerprint: fp, System: c39DiffSystem, Message: fmt.Sprintf("%s: prefix [%s], commands %s: %s", c39DiffSystem, strings.Join(prefix, " ; "), shape, msg),
			Replay: c39DiffReplay{System: c39DiffSystem, Prefix: prefix, Shape: shape}}
	}
	for _, in := range []*c39Inst{a, b} {
		for _, evl := range prefix {
			enabled := false
			for _, e := range in.Events() {
				enabled = enabled || e == evl
			}
			if !enabled {
				r.HarnessError("c39 differential: prefix event %q not enabled in [%s]", evl, strings.Join(prefix, " ; "))
				return "harness-error", nil
			}
			_, err := in.Apply(evl, &mc.Env{})
			if err == nil {
				err = in.Check()
			}
			if err != nil { // the explored system reports the same defect with its own path
				fp := "C39:violation"
				if f, ok := err.(mc.Fingerprinter); ok {
					fp = f.Fingerprint()
				}
				return "prefix-violates", viol(fp, "while preparing the state: "+err.Error())
			}
		}
	}
	fencedBefore := a.fenced()
	a.fwd, a.fwdTarget, b.fwd, b.fwdTarget = nil, nil, nil, nil
	ia, ib := a.shapeItems(shape), b.shapeItems(shape)
	errA, errB := a.applySourceItems(ia, true), b.applySourceItems(ib, false)
	if errB != nil {
		r.HarnessError("c39 differential: one-command-per-batch application of %s failed: %v", shape, errB)
		return "harness-error", nil
	}
	if errA != nil {
		return "batch-error", viol("C39:valid-source-batch-failed", fmt.Sprintf("the ApplyBatch failed (%v), applied one command per batch every command is answered: %s", errA, c39ItemResults(ib)))
	}
	da, db := a.sourceDigest(ia), b.sourceDigest(ib)
	if da != db {
		return "differs", viol("C39:source-batch-differs-from-one-command-per-batch", fmt.Sprintf("%s; ONE ApplyBatch gives %s ; one command per ApplyBatch gives %s", a.runtimePhaseName(), da, db))
	}
	for i, in := range []*c39Inst{a, b} {
		items := ia
		if i == 1 {
			items = ib
		}
		err := in.judgeSourceItems(items, fencedBefore, i == 0)
		if err == nil {
			err = in.Check()
		}
		if err != nil {
			fp := "C39:violation"
			if f, ok := err.(mc.Fingerprinter); ok {
				fp = f.Fingerprint()
			}
			return "oracle", viol(fp, err.Error())
		}
	}
	if a.broken || b.broken {
		return "harness-error", nil
	}
	return c39ResultsOnly(ia), nil
}

var c39DiffPrefixes = [][]string{
	{},                                   // no runtime migration entry, no rows
	{"w:0"},                              // no runtime migration entry, a row
	{"start"},                            // delta phase, no durable migration state yet
	{"start", "w:0"},                     // delta phase, migration state + one outbox row
	{"start", "snap", "w:0", "deliver"}, // delta phase, outbox drained and acked
	{"fence"},                            // already fenced without a runtime entry (the second fence is a no-op)
	{"start", "w:1", "fence"},            // already fenced in the delta phase
}

func c39Differential(r *ev.R, st *c39Stats) {
	if rf := r.Replay(); rf != nil {
		var pl c39DiffReplay
		if err := json.Unmarshal(rf.Replay, &pl); err != nil || pl.System != c39DiffSystem {
			return
		}
		out, v := c39DiffCase(r, st, pl.Prefix, pl.Shape)
		fmt.Printf("replay %s: prefix %v commands %s -> %s\n", c39DiffSystem, pl.Prefix, pl.Shape, out)
		if v != nil {
			fmt.Printf("replay: VIOLATES: %s\n", v.Message)
			r.MarkReplayReproduced()
			r.Violation(*v)
		}
		return
	}
	e := r.NewEnum(c39DiffSystem)
	shapes := c39DiffShapes()
	var refusedAfterFence, snapshotPhase, deltaPhase int64
	for _, prefix := range c39DiffPrefixes {
		for _, shape := range shapes {
			out, v := c39DiffCase(r, st, prefix, shape)
			if v != nil {
				// a violation must reproduce identically before it is believed
				out2, v2 := c39DiffCase(r, st, prefix, shape)
				if v2 == nil || out2 != out || v2.Fingerprint != v.Fingerprint {
					r.HarnessError("c39 differential: violation %q for prefix %v commands %s did not reproduce", v.Fingerprint, prefix, shape)
				} else {
					r.Violation(*v)
				}
			}
			if strings.Contains(out, fsm.ApplyResultHashSlotFenced) {
				refusedAfterFence++
			}
			started := false
			for _, p := range prefix {
				started = started || p == "start"
			}
			if started {
				deltaPhase++
			} else {
				snapshotPhase++
			}
			e.Case(strings.Join(prefix, ";")+"|"+shape, true, out)
		}
	}
	r.Guard("differential-batches-with-a-write-refused-after-the-fence", refusedAfterFence >= 20, "n=%d", refusedAfterFence)
	r.Guard("differential-batches-without-runtime-migration-entry", snapshotPhase >= 30, "n=%d", snapshotPhase)
	r.Guard("differential-batches-in-delta-phase", deltaPhase >= 30, "n=%d", deltaPhase)
	e.Done(true, map[string]any{"prefixes": c39DiffPrefixes, "commands": "every sequence of length 2..3 over {F = enter_fence with explicit target, 0 / 1 = upsert k0 / k1, 2 = create-if-absent k2} with exactly one F, plus 1F00, F012, F0F0 and FA, AF, FA0, F0A, AF0, A0F, 0FA, 0AF (A = replicated ack of the oldest outbox row, a no-op when the outbox is empty)", "shapes": len(shapes)},
		"each case: two fresh source/target pairs driven through the same prefix; A applies the commands in ONE ApplyBatch of the source, B one command per ApplyBatch with the same raft indexes; answers, source rows, durable migration state, outbox, forwarder calls and applied index must be identical, and both sides must satisfy the fence oracle (writes ordered after the fence refused without trace, earlier writes accepted and in the outbox during the delta phase)")
}

// ---------------------------------------------------------------- test

func TestVerifC39(t *testing.T) {
	r := ev.Start(t, "C39")
	defer r.Finish()
	defer c39Shutdown()
	defer func() {
		if p := recover(); p != nil {
			r.HarnessError("harness panic: %v", p)
		}
	}()
	st := &c39Stats{}
	maxSnaps := ev.Pick(r, 1, 2)
	writes := []string{"w:0", "w:1", "c:2"}
	if r.Thorough() {
		c39FenceBatchEvents = []string{"fb:F0", "fb:1F00"}
	}
	res := mc.Run(r, mc.System{
		Name:          "hashslot-migration",
		New:           func() mc.Instance { return c39New(r, st, maxSnaps, writes) },
		MaxDepth:      ev.Pick(r, 7, 8),
		MaxDeviations: ev.Pick(r, 2, 3),
		MaxStates:     ev.Pick(r, int64(400000), int64(6000000)),
		Bounds: map[string]any{"keys": c39Keys, "writes": fmt.Sprintf("%v (w = upsert, c = create-if-absent; per-key version tokens) routed to the current owner; before the migration starts only one w:0", writes),
			"snapshot_copies_max": maxSnaps, "deviations": "deliver a later outbox row first (<=3 rows ahead), the delta shares its ApplyBatch with a valid command / with an ordinary write for the hash slot the target does not own yet (batch fails, delta stays undelivered) / with a conditional command answered stale at commit (batch re-applied one by one), deliver twice, lose the ack (redelivery), replay one of the 3 oldest delivered deltas other than the oldest, restart the target before a replay",
			"orchestrator": "start (outgoing delta targets) | snap (export+preserving import; only after start or fence) | fence (enter fence for target) | deliver (first outbox row -> apply_delta on T -> ack on S; only after import) | switch (only when fenced, imported, outbox empty) | cleanup"},
		Note: "merging on: rows of S and T read back through the metadb API, durable migration state / outbox / applied-delta records with raft indexes replaced by their rank, orchestrator flags, delivered-delta history and the reference models; raft indexes only matter through equality and order",
	})
	c39Differential(r, &c39Stats{})
	if r.Replay() != nil {
		return
	}
	r.Count("db_arenas", c39Arenas.Load())
	g := func(name string, n int64, min int64) { r.Guard(name, n >= min, "%s=%d (need >=%d)", name, n, min) }
	g("writes-accepted-before-migration", st.acceptedIdle.Load(), 1)
	g("writes-accepted-in-delta-phase-with-outbox-row-and-forward", st.acceptedDelta.Load(), 10)
	g("forwarder-calls-compared-with-outbox", st.forwardsChecked.Load(), 10)
	g("writes-refused-by-fenced-source", st.fencedRefused.Load(), 1)
	g("non-owner-target-refused-before-switch", st.nonOwnerRefusedTarget.Load(), 1)
	g("non-owner-source-refused-after-switch", st.nonOwnerRefusedSource.Load(), 1)
	g("deltas-delivered", st.delivered.Load(), 10)
	g("deltas-of-pre-snapshot-writes-delivered", st.preSnapshotDelta.Load(), 1)
	g("fence-marker-delivered", st.fenceMarker.Load(), 1)
	g("duplicate-deliveries", st.dupDelivered.Load(), 1)
	g("acks-lost", st.ackLost.Load(), 1)
	g("delta-batched-with-valid-command", st.batchHarmless.Load(), 1)
	g("delta-batched-with-command-answered-stale-at-commit", st.batchStale.Load(), 1)
	g("delta-batched-with-ordinary-write-batch-failed", st.batchFailed.Load(), 1)
	g("delta-delivered-after-its-batch-failed", st.deliveredAfterFailedBatch.Load(), 1)
	g("redeliveries-after-lost-ack", st.redelivered.Load(), 1)
	g("reordered-deliveries-other-key", st.reorderOtherKey.Load(), 1)
	g("replays", st.replays.Load(), 10)
	g("replays-after-target-restart", st.replaysAfterRestart.Load(), 1)
	g("snapshot-copies", st.snaps.Load(), 10)
	g("switches", st.switches.Load(), 1)
	g("switches-fence-first-path", st.switchesFenceFirst.Load(), 1)
	g("fence-batched-with-writes-without-runtime-migration-entry", st.fenceBatchSnapshotPhase.Load(), 1)
	g("fence-batched-with-writes-in-delta-phase", st.fenceBatchDeltaPhase.Load(), 1)
	g("writes-after-the-fence-in-the-same-batch-refused", st.fenceBatchRefused.Load(), 2)
	if r.Thorough() {
		g("writes-before-the-fence-in-the-same-batch-accepted", st.fenceBatchAcceptedBefore.Load(), 1)
		g("switches-after-delta-writes", st.switchesWithDelta.Load(), 1)
		g("writes-accepted-by-target-after-switch", st.acceptedAfterSwitch.Load(), 1)
		g("replays-after-switch", st.replaysAfterSwitch.Load(), 1)
		g("second-snapshot-copies", st.resnaps.Load(), 1)
	}
	r.Count("reordered_same_key_deliveries", st.reorderSameKey.Load())
	r.Count("switches_with_stale_row_after_same_key_reorder", st.reorderSameKeyStale.Load())
	r.Count("cleanups", st.cleanups.Load())
	r.Count("non_owner_refused_after_cleanup", st.nonOwnerRefusedAfterClean.Load())
	r.Count("target_restarts", st.restarts.Load())
	r.Count("create_noops_at_source", st.createNoop.Load())
	r.Guard("state-space-nontrivial", res.States >= 500, "states=%d", res.States)
	r.Assume("the orchestrator is the harness (the repository has none outside pkg/slot/fsm): snapshot copies happen only after outbox recording or the fence began, deltas are delivered only after a snapshot import and never while one is in flight, the switch waits for fence + import + empty outbox")
	r.Assume("a write is 'accepted' when ApplyBatch of the owner returns \"ok\"; \"hash_slot_fenced\" and an ApplyBatch error are refusals")
	r.Assume("in-order delivery per key is the forwarder's obligation: the state machine has no ordering information beyond the delta identity, so when the environment lets a delta overtake an undelivered earlier delta for the SAME key, only exactly-once application (in delivery order) is demanded, not last-writer order")
}
