//go:build verif

// Package zzverifc39 is a virtual helper of the C39 check: pkg/db/internal/engine is only
// importable from below pkg/db, so this package (overlaid at pkg/db/zzverifc39) exposes the
// repository's own -tags verif hook that adjusts the Pebble options of databases opened
// afterwards. The check only shrinks the memtable: a 32 MiB memtable is zero-filled on every
// open (the target restart is an explored event) and keeps thousands of range tombstones of
// earlier instances in memory; storage semantics are unchanged.
package zzverifc39

import (
	"github.com/cockroachdb/pebble/v2"

	"github.com/WuKongIM/WuKongIM/pkg/db/internal/engine"
)

// SmallMemTables makes every engine opened afterwards use memtables of the given size.
func SmallMemTables(size uint64) {
	engine.VerifTweak = func(o *pebble.Options) { o.MemTableSize = size }
}
