package reactor

// C10 (run "reactor") - reads respect the committed and retention boundaries; retention
// never moves backwards; physical trimming never deletes an uncovered message.
//
// In-package harness: a real Reactor whose retention path runs unchanged
// (handleApplyRetentionBoundary -> retentionTrimDecision/minISRMatchOffset -> real worker
// pool -> worker.runStoreRetention [AdoptRetentionBoundary, TrimMessagesThrough,
// LoadRetentionState] -> handleStoreRetentionResult; retention-owned checkpoint through
// handleStoreCheckpointResult) against a real channelstore (memory factory and the
// MessageDB factory). The runtime channel is installed directly with a real
// machine.ChannelState; HW / ISR progress are environment inputs set on that state, as
// the repository's own retention tests do. Reads are issued at the ChannelStore seam
// with every (from, max, min, limit, direction) in range.

import (
	"context"
	"fmt"
	"math"
	"os"
	"path/filepath"
	"sort"
	"strconv"
	"strings"
	"sync"
	"sync/atomic"
	"testing"
	"time"

	ch "github.com/WuKongIM/WuKongIM/pkg/channel"
	"github.com/WuKongIM/WuKongIM/pkg/channel/machine"
	"github.com/WuKongIM/WuKongIM/pkg/channel/store"
	"github.com/WuKongIM/WuKongIM/pkg/channel/worker"
	"github.com/WuKongIM/WuKongIM/pkg/zzverif/ev"
	"github.com/WuKongIM/WuKongIM/pkg/zzverif/mc"
)

// ---------------------------------------------------------------- shared worker pools

type c10Sink struct {
	mu sync.Mutex
	m  map[ch.ChannelKey]chan worker.Result
}

func (s *c10Sink) Complete(res worker.Result) {
	s.mu.Lock()
	c := s.m[res.Fence.ChannelKey]
	s.mu.Unlock()
	if c != nil {
		c <- res
	}
}

func (s *c10Sink) register(key ch.ChannelKey) chan worker.Result {
	c := make(chan worker.Result, 16)
	s.mu.Lock()
	s.m[key] = c
	s.mu.Unlock()
	return c
}

func (s *c10Sink) unregister(key ch.ChannelKey) {
	s.mu.Lock()
	delete(s.m, key)
	s.mu.Unlock()
}

// c10Mux routes worker-side store opens to the factory of the owning instance.
type c10Mux struct {
	mu sync.Mutex
	m  map[ch.ChannelKey]store.Factory
}

func (f *c10Mux) ChannelStore(key ch.ChannelKey, id ch.ChannelID) (store.ChannelStore, error) {
	f.mu.Lock()
	inner := f.m[key]
	f.mu.Unlock()
	if inner == nil {
		return nil, ch.ErrChannelNotFound
	}
	return inner.ChannelStore(key, id)
}

var (
	c10Once  sync.Once
	c10Pools *worker.Pools
	c10SinkG = &c10Sink{m: map[ch.ChannelKey]chan worker.Result{}}
	c10MuxG  = &c10Mux{m: map[ch.ChannelKey]store.Factory{}}
	c10Err   error
)

func c10InitPools() {
	c10Once.Do(func() {
		pc := worker.PoolConfig{Workers: 8, QueueSize: 256}
		mk := func(name string) worker.PoolConfig { p := pc; p.Name = "verif-c10-" + name; return p }
		c10Pools, c10Err = worker.NewPools(worker.PoolsConfig{
			StoreAppend: mk("append"), StoreRead: mk("read"), StoreApply: mk("apply"), StoreCheckpoint: mk("checkpoint"), RPC: mk("rpc"),
		}, worker.Deps{LocalNode: 1, Stores: c10MuxG}, c10SinkG)
	})
}

// c10FaultFactory is what the worker pools open stores through: the real store of the
// instance, except that a checkpoint or trim write fails when the environment says so.
type c10FaultFactory struct {
	inner store.Factory
	in    *c10Inst
}

func (f *c10FaultFactory) ChannelStore(key ch.ChannelKey, id ch.ChannelID) (store.ChannelStore, error) {
	cs, err := f.inner.ChannelStore(key, id)
	if err != nil {
		return nil, err
	}
	return &c10FaultStore{ChannelStore: cs, in: f.in}, nil
}

type c10FaultStore struct {
	store.ChannelStore
	in *c10Inst
}

var errC10Injected = fmt.Errorf("verif: injected store write failure")

func (s *c10FaultStore) StoreCheckpoint(ctx context.Context, checkpoint ch.Checkpoint) error {
	if s.in.failCheckpoint.Load() {
		s.in.failedWrites.Add(1)
		return errC10Injected
	}
	return s.ChannelStore.StoreCheckpoint(ctx, checkpoint)
}

func (s *c10FaultStore) TrimMessagesThrough(ctx context.Context, throughSeq uint64, opts store.RetentionTrimOptions) (store.RetentionTrimResult, error) {
	if s.in.failTrim.Load() {
		s.in.failedWrites.Add(1)
		return store.RetentionTrimResult{}, errC10Injected
	}
	return s.ChannelStore.TrimMessagesThrough(ctx, throughSeq, opts)
}

// ---------------------------------------------------------------- MessageDB factory pool

type c10Backend struct {
	dir  string
	f    *store.MessageDBFactory
	uses int
}

var (
	c10PoolMu   sync.Mutex
	c10PoolFree []*c10Backend
	c10DirSeq   atomic.Uint64
	c10NS       atomic.Uint64
)

const c10DirPrefix = "verif-C10r-"

func c10GetBackend() (*c10Backend, error) {
	c10PoolMu.Lock()
	if n := len(c10PoolFree); n > 0 {
		b := c10PoolFree[n-1]
		c10PoolFree = c10PoolFree[:n-1]
		c10PoolMu.Unlock()
		return b, nil
	}
	c10PoolMu.Unlock()
	dir := filepath.Join("/dev/shm", fmt.Sprintf("%s%d-%d", c10DirPrefix, os.Getpid(), c10DirSeq.Add(1)))
	f := store.NewMessageDBFactoryWithOptions(dir, store.MessageDBFactoryOptions{CommitFlushWindow: time.Nanosecond})
	if _, _, _, err := f.ListChannelsPage(context.Background(), "", 1); err != nil {
		return nil, fmt.Errorf("open %s: %v", dir, err)
	}
	return &c10Backend{dir: dir, f: f}, nil
}

func c10PutBackend(b *c10Backend) {
	b.uses++
	if b.uses >= 3000 {
		_ = b.f.Close()
		_ = os.RemoveAll(b.dir)
		return
	}
	c10PoolMu.Lock()
	c10PoolFree = append(c10PoolFree, b)
	c10PoolMu.Unlock()
}

func c10DrainPool() {
	c10PoolMu.Lock()
	defer c10PoolMu.Unlock()
	for _, b := range c10PoolFree {
		_ = b.f.Close()
		_ = os.RemoveAll(b.dir)
	}
	c10PoolFree = nil
}

func c10SweepStale() {
	ents, err := os.ReadDir("/dev/shm")
	if err != nil {
		return
	}
	for _, e := range ents {
		name := e.Name()
		if !strings.HasPrefix(name, c10DirPrefix) {
			continue
		}
		pid, _, _ := strings.Cut(strings.TrimPrefix(name, c10DirPrefix), "-")
		if _, err := os.Stat("/proc/" + pid); err != nil {
			_ = os.RemoveAll(filepath.Join("/dev/shm", name))
		}
	}
}

// ---------------------------------------------------------------- instance

type c10Cfg struct {
	r       *ev.R
	name    string
	backend string // "mem" | "mdb"
	leader  bool
	maxLog  int
	// noBarrier: only ordinary records are appended (quick leader system: the SyncOnce flag does
	// not take part in any retention decision; the other systems append both kinds)
	noBarrier bool
	// fullCube: MaxSeq and MinSeq range over every value 0..LEO+1 (memory backend, thorough)
	fullCube bool
	// clean canonical states whose read matrix was already evaluated
	readDone sync.Map
}

type c10Rec struct {
	id      uint64
	barrier bool
	payload []byte
}

type c10Inst struct {
	cfg     *c10Cfg
	ns      uint64
	key     ch.ChannelKey
	id      ch.ChannelID
	be      *c10Backend
	fac     store.Factory
	cs      store.ChannelStore
	results chan worker.Result
	r       *Reactor
	rc      *runtimeChannel
	st      *machine.ChannelState
	initErr error

	// environment faults, read by the worker goroutines
	failCheckpoint, failTrim atomic.Bool
	failedWrites             atomic.Int64

	recs     map[uint64]c10Rec // every record ever appended, by sequence
	appended int
	canon    string
}

var c10Ctx = context.Background()

var (
	c10nTrimDeleted, c10nTrimBlocked, c10nAdoptRegress, c10nReads, c10nReadNonEmpty, c10nReadClamped atomic.Int64
	c10nBlockedHW, c10nBlockedCk, c10nBlockedISR, c10nBlockedLEO, c10nRetCheckpoint, c10nNoop, c10nBeyondLEO atomic.Int64
	c10nBarrierRead, c10nMatrixStates, c10nVisibleAfterTrim, c10nCkFailed, c10nRetFaults                                                                        atomic.Int64
)

func c10New(cfg *c10Cfg) *c10Inst {
	in := &c10Inst{cfg: cfg, ns: c10NS.Add(1), recs: map[uint64]c10Rec{}}
	c10InitPools()
	if c10Err != nil {
		in.initErr = c10Err
		return in
	}
	name := fmt.Sprintf("c10r%d", in.ns)
	in.id = ch.ChannelID{ID: name, Type: 2}
	in.key = ch.ChannelKeyForID(in.id)
	switch cfg.backend {
	case "mem":
		in.fac = store.NewMemoryFactory()
	default:
		be, err := c10GetBackend()
		if err != nil {
			in.initErr = err
			return in
		}
		in.be = be
		in.fac = be.f
	}
	cs, err := in.fac.ChannelStore(in.key, in.id)
	if err != nil {
		in.initErr = err
		return in
	}
	in.cs = cs
	c10MuxG.mu.Lock()
	c10MuxG.m[in.key] = &c10FaultFactory{inner: in.fac, in: in}
	c10MuxG.mu.Unlock()
	in.results = c10SinkG.register(in.key)
	in.r = NewReactor(ReactorConfig{ID: 0, LocalNode: 1, Store: c10MuxG, Pools: c10Pools, MailboxSize: 16})
	st := machine.NewChannelState(in.key, 1, 1)
	st.ID = in.id
	st.Epoch, st.LeaderEpoch = 1, 1
	st.Status = ch.StatusActive
	st.Replicas = []ch.NodeID{1, 2}
	st.ISR = []ch.NodeID{1, 2}
	st.MinISR = 1
	if cfg.leader {
		st.Role, st.Leader = ch.RoleLeader, 1
		st.Progress[2] = machine.ReplicaProgress{Match: 0}
	} else {
		st.Role, st.Leader = ch.RoleFollower, 2
	}
	st.CommitReady = true
	in.st = st
	in.rc = &runtimeChannel{state: st, store: cs}
	in.r.channels[in.key] = in.rc
	return in
}

func (in *c10Inst) Close() {
	if in.results != nil {
		c10SinkG.unregister(in.key)
	}
	c10MuxG.mu.Lock()
	delete(c10MuxG.m, in.key)
	c10MuxG.mu.Unlock()
	if in.cs != nil {
		_ = in.cs.Close()
		in.cs = nil
	}
	if in.be != nil {
		c10PutBackend(in.be)
		in.be = nil
	}
}

func (in *c10Inst) match() uint64 { return in.st.Progress[2].Match }

// ---------------------------------------------------------------- events

func (in *c10Inst) Events() []string {
	if in.initErr != nil {
		return nil
	}
	st := in.st
	var evs []string
	if in.appended < in.cfg.maxLog {
		evs = append(evs, "app:n")
		if !in.cfg.noBarrier {
			evs = append(evs, "app:b")
		}
	}
	if st.HW < st.LEO {
		evs = append(evs, "hw:+1")
		if st.HW+1 < st.LEO {
			evs = append(evs, "hw:leo")
		}
	}
	if st.CheckpointHW < st.HW {
		evs = append(evs, "ck")
	}
	if in.cfg.leader && in.match() < st.LEO {
		evs = append(evs, "ack:+1")
		if in.match()+1 < st.LEO {
			evs = append(evs, "ack:leo")
		}
	}
	top := st.LEO + 1
	if top > uint64(in.cfg.maxLog)+1 {
		top = uint64(in.cfg.maxLog) + 1
	}
	for x := uint64(1); x <= top; x++ {
		evs = append(evs, "ret:"+strconv.FormatUint(x, 10))
	}
	// bounded trim (MaxTrimMessages=1) differs from ret:x only when a trim of >= 2 rows can be
	// admitted at all; while HW or the checkpoint block the trim the options are never used
	for x := uint64(2); x <= top && x <= st.HW && x <= st.CheckpointHW; x++ {
		evs = append(evs, "ret1:"+strconv.FormatUint(x, 10))
	}
	return evs
}

func (in *c10Inst) present() (map[uint64]ch.Message, error) {
	res, err := in.cs.ReadCommitted(c10Ctx, store.ReadCommittedRequest{FromSeq: 1, MaxSeq: math.MaxUint64, Limit: 64, MaxBytes: 1 << 30})
	if err != nil {
		return nil, err
	}
	out := map[uint64]ch.Message{}
	for _, m := range res.Messages {
		out[m.MessageSeq] = m
	}
	return out, nil
}

func (in *c10Inst) herr(format string, args ...any) (string, error) {
	// infrastructure failure: surfaced as a violation-free observation; Check reports it
	in.initErr = fmt.Errorf(format, args...)
	return "harness-error", nil
}

func (in *c10Inst) Apply(event string, env *mc.Env) (string, error) {
	in.canon = ""
	if in.initErr != nil {
		return "init-error", nil
	}
	// retention boundaries never move backwards, whatever the event (durable store state and runtime state)
	pRet, err := in.cs.LoadRetentionState(c10Ctx)
	if err != nil {
		return in.herr("LoadRetentionState: %v", err)
	}
	pState := [3]uint64{in.st.RetentionThroughSeq, in.st.LocalRetentionThroughSeq, in.st.PhysicalRetentionThroughSeq}
	obs, verr := in.apply(event, env)
	if verr != nil || in.initErr != nil {
		return obs, verr
	}
	ret, err := in.cs.LoadRetentionState(c10Ctx)
	if err != nil {
		return in.herr("LoadRetentionState: %v", err)
	}
	if ret.LocalRetentionThroughSeq < pRet.LocalRetentionThroughSeq || ret.PhysicalRetentionThroughSeq < pRet.PhysicalRetentionThroughSeq || ret.RetainedMaxSeq < pRet.RetainedMaxSeq {
		return obs, mc.Violatef("C10:retention-boundary-regressed:store", "%s: store retention state moved backwards: %+v after %+v", event, ret, pRet)
	}
	cur := [3]uint64{in.st.RetentionThroughSeq, in.st.LocalRetentionThroughSeq, in.st.PhysicalRetentionThroughSeq}
	for i, name := range []string{"RetentionThroughSeq", "LocalRetentionThroughSeq", "PhysicalRetentionThroughSeq"} {
		if cur[i] < pState[i] {
			return obs, mc.Violatef("C10:retention-boundary-regressed:runtime", "%s: runtime %s moved backwards: %d after %d", event, name, cur[i], pState[i])
		}
	}
	return obs, nil
}

func (in *c10Inst) apply(event string, env *mc.Env) (string, error) {
	st := in.st
	op, arg, _ := strings.Cut(event, ":")
	switch op {
	case "app":
		in.appended++
		n := in.appended
		rec := ch.Record{ID: in.ns*64 + uint64(n), Epoch: 1, ServerTimestampMS: 1_700_000_000_000 + int64(n)}
		if arg == "b" {
			rec.SyncOnce = true
			rec.Payload = append([]byte{1}, make([]byte, 24)...)
			rec.Payload[24] = byte(n)
		} else {
			rec.FromUID = "u"
			rec.ClientMsgNo = fmt.Sprintf("c%d-%d", in.ns, n)
			rec.Payload = []byte{'m', byte('0' + n)}
		}
		rec.SizeBytes = len(rec.Payload)
		var last uint64
		if in.cfg.leader {
			res, err := in.cs.AppendLeader(c10Ctx, store.AppendLeaderRequest{Records: []ch.Record{rec}})
			if err != nil {
				return in.herr("AppendLeader: %v", err)
			}
			last = res.LastOffset
		} else {
			rec.Index = st.LEO + 1
			res, err := in.cs.ApplyFollower(c10Ctx, store.ApplyFollowerRequest{Records: []ch.Record{rec}})
			if err != nil {
				return in.herr("ApplyFollower: %v", err)
			}
			last = res.LEO
		}
		if last != st.LEO+1 {
			return in.herr("append landed at %d, runtime LEO was %d", last, st.LEO)
		}
		st.LEO = last
		in.recs[last] = c10Rec{id: rec.ID, barrier: rec.SyncOnce, payload: rec.Payload}
		return fmt.Sprintf("appended %d", last), nil
	case "hw":
		if arg == "+1" {
			st.HW++
		} else {
			st.HW = st.LEO
		}
		return fmt.Sprintf("hw=%d", st.HW), nil
	case "ack":
		m := in.match() + 1
		if arg == "leo" {
			m = st.LEO
		}
		st.Progress[2] = machine.ReplicaProgress{Match: m}
		return fmt.Sprintf("match=%d", m), nil
	case "ck":
		fail := env.Choose("checkpoint-write-fails", 2) == 1
		opID := in.r.nextOpID()
		fence := ch.Fence{ChannelKey: st.Key, Generation: st.Generation, Epoch: st.Epoch, LeaderEpoch: st.LeaderEpoch, OpID: opID}
		in.failCheckpoint.Store(fail)
		if err := in.r.submitStoreCheckpoint(c10Ctx, st.ID, fence, ch.Checkpoint{HW: st.HW}); err != nil {
			in.failCheckpoint.Store(false)
			return in.herr("submitStoreCheckpoint: %v", err)
		}
		res := <-in.results
		in.failCheckpoint.Store(false)
		in.r.handleWorkerResult(Event{Kind: EventWorkerResult, Worker: res})
		if fail {
			if res.Err == nil {
				return in.herr("injected checkpoint failure was not reported by the worker")
			}
			c10nCkFailed.Add(1)
			return fmt.Sprintf("checkpoint write failed; runtime checkpoint=%d", st.CheckpointHW), nil
		}
		if res.Err != nil {
			return in.herr("checkpoint task: %v", res.Err)
		}
		return fmt.Sprintf("checkpoint=%d", st.CheckpointHW), nil
	case "ret", "ret1":
		x, _ := strconv.ParseUint(arg, 10, 64)
		return in.applyRetention(x, op == "ret1", env)
	}
	return in.herr("unknown event %q", event)
}

func (in *c10Inst) applyRetention(x uint64, bounded bool, env *mc.Env) (string, error) {
	st := in.st
	before, err := in.present()
	if err != nil {
		return in.herr("read-all before: %v", err)
	}
	durable, err := in.cs.Load(c10Ctx)
	if err != nil {
		return in.herr("Load before: %v", err)
	}
	// decision-time inputs (the reactor decides on the state it holds when the request arrives);
	// "checkpointed" means the DURABLE checkpoint read back from the store, which the runtime's
	// CheckpointHW must never run ahead of
	durableCk := durable.CheckpointHW
	safe := min(st.HW, st.CheckpointHW, durableCk, st.LEO)
	if in.cfg.leader {
		safe = min(safe, st.LEO, in.match()) // ISR = {local (LEO), node 2 (recorded progress)}
	}
	wasLocal, wasPhysical := st.LocalRetentionThroughSeq, st.PhysicalRetentionThroughSeq
	if x < st.RetentionThroughSeq {
		c10nAdoptRegress.Add(1)
	}
	if x > st.LEO {
		c10nBeyondLEO.Add(1)
	}
	req := ch.RetentionApplyRequest{ChannelID: st.ID, ThroughSeq: x}
	if bounded {
		req.Options.MaxTrimMessages = 1
	}
	// environment faults (one deviation each): the retention-owned checkpoint write fails / the trim write fails
	ckFail, trimFail := false, false
	if x > st.PhysicalRetentionThroughSeq && x <= st.HW && x > st.CheckpointHW {
		ckFail = env.Choose("retention-checkpoint-write-fails", 2) == 1
	}
	if x > st.PhysicalRetentionThroughSeq && x <= st.HW && x <= st.CheckpointHW {
		trimFail = env.Choose("trim-write-fails", 2) == 1
	}
	in.failCheckpoint.Store(ckFail)
	in.failTrim.Store(trimFail)
	failedBefore := in.failedWrites.Load()
	defer func() { in.failCheckpoint.Store(false); in.failTrim.Store(false) }()
	fut := NewFuture()
	ckBefore := in.rc.retentionCheckpointOp
	in.r.handleApplyRetentionBoundary(Event{Kind: EventApplyRetentionBoundary, Key: st.Key, Context: c10Ctx, Future: fut, RetentionApply: req})
	expect := len(in.rc.retentionWaiters)
	if in.rc.retentionCheckpointOp != 0 && in.rc.retentionCheckpointOp != ckBefore {
		expect++
		c10nRetCheckpoint.Add(1)
	}
	var got []worker.Result
	for i := 0; i < expect; i++ {
		got = append(got, <-in.results)
	}
	// deterministic hand-over order; with two completions the environment picks which arrives first
	sort.Slice(got, func(i, j int) bool { return got[i].Kind < got[j].Kind })
	if len(got) == 2 && env.Choose("retention-result-before-checkpoint-result", 2) == 1 {
		got[0], got[1] = got[1], got[0]
	}
	for _, res := range got {
		in.r.handleWorkerResult(Event{Kind: EventWorkerResult, Worker: res})
	}
	select {
	case <-fut.Done():
	default:
		return in.herr("retention future not completed after %d worker results", len(got))
	}
	out := fut.Result()
	injected := in.failedWrites.Load() > failedBefore
	if out.Err != nil && !(trimFail && injected) {
		return in.herr("ApplyRetentionBoundary(%d): %v", x, out.Err)
	}
	if injected {
		c10nRetFaults.Add(1)
	}
	after, err := in.present()
	if err != nil {
		return in.herr("read-all after: %v", err)
	}
	deleted := 0
	for seq := range before {
		if _, ok := after[seq]; ok {
			continue
		}
		deleted++
		if seq > safe {
			role := "follower"
			if in.cfg.leader {
				role = "leader"
			}
			clause := "hw"
			switch {
			case seq <= st.HW && seq > st.CheckpointHW:
				clause = "checkpoint"
			case seq <= st.HW && seq > durableCk:
				clause = "durable-checkpoint"
			case seq <= st.HW && seq <= st.CheckpointHW && in.cfg.leader && seq > in.match():
				clause = "isr-progress"
			}
			return "", mc.Violatef("C10:trim-deleted-uncovered-message:"+clause, "apply retention through %d on a %s deleted seq %d which is above min(HW=%d, runtime checkpointHW=%d, durable checkpointHW=%d, LEO=%d, ISR match=%d)=%d",
				x, role, seq, st.HW, st.CheckpointHW, durableCk, st.LEO, in.match(), safe)
		}
	}
	if len(after) > len(before)-deleted {
		// not part of the property (counted): rows that became readable only after the trim. The
		// memory test double keeps a dense slice, so a row appended after a boundary beyond LEO
		// was adopted is unreadable until the prefix below the gap is trimmed. Check() still
		// requires every readable row to be an appended record.
		c10nVisibleAfterTrim.Add(1)
	}
	if out.Err != nil {
		// the injected trim failure: nothing may have been deleted (checked above) and the runtime
		// must not claim progress (checked as an invariant in Check)
		return fmt.Sprintf("ret(%d) failed: injected trim write failure; deleted=%d", x, deleted), nil
	}
	r := out.RetentionApply
	switch r.BlockedReason {
	case ch.RetentionBlockedHWLag:
		c10nBlockedHW.Add(1)
	case ch.RetentionBlockedCheckpointLag:
		c10nBlockedCk.Add(1)
	case ch.RetentionBlockedMinISRLag:
		c10nBlockedISR.Add(1)
	case ch.RetentionBlockedLEOLag:
		c10nBlockedLEO.Add(1)
	}
	if r.BlockedReason != "" {
		c10nTrimBlocked.Add(1)
	}
	if deleted > 0 {
		c10nTrimDeleted.Add(1)
	}
	if len(got) == 0 {
		c10nNoop.Add(1)
	}
	if r.LocalRetentionThroughSeq < wasLocal || r.PhysicalRetentionThroughSeq < wasPhysical {
		return "", mc.Violatef("C10:retention-boundary-regressed:apply-result", "apply result reports local=%d physical=%d after local=%d physical=%d", r.LocalRetentionThroughSeq, r.PhysicalRetentionThroughSeq, wasLocal, wasPhysical)
	}
	return fmt.Sprintf("ret(%d) deleted=%d blocked=%q local=%d physical=%d more=%v results=%d", x, deleted, r.BlockedReason, r.LocalRetentionThroughSeq, r.PhysicalRetentionThroughSeq, r.More, len(got)), nil
}

// ---------------------------------------------------------------- canonical state and invariants

func (in *c10Inst) snapshot() (string, store.InitialState, store.RetentionState, map[uint64]ch.Message, error) {
	init, err := in.cs.Load(c10Ctx)
	if err != nil {
		return "", init, store.RetentionState{}, nil, err
	}
	ret, err := in.cs.LoadRetentionState(c10Ctx)
	if err != nil {
		return "", init, ret, nil, err
	}
	rows, err := in.present()
	if err != nil {
		return "", init, ret, nil, err
	}
	seqs := make([]uint64, 0, len(rows))
	for s := range rows {
		seqs = append(seqs, s)
	}
	sort.Slice(seqs, func(i, j int) bool { return seqs[i] < seqs[j] })
	var b strings.Builder
	st := in.st
	fmt.Fprintf(&b, "rt[leo=%d hw=%d ck=%d R=%d L=%d P=%d m=%d n=%d] st[leo=%d hw=%d ck=%d L=%d P=%d RM=%d] rows[", st.LEO, st.HW, st.CheckpointHW,
		st.RetentionThroughSeq, st.LocalRetentionThroughSeq, st.PhysicalRetentionThroughSeq, in.match(), in.appended,
		init.LEO, init.HW, init.CheckpointHW, ret.LocalRetentionThroughSeq, ret.PhysicalRetentionThroughSeq, ret.RetainedMaxSeq)
	for _, s := range seqs {
		f := "n"
		if rows[s].SyncOnce {
			f = "b"
		}
		fmt.Fprintf(&b, "%d%s ", s, f)
	}
	b.WriteString("]")
	return b.String(), init, ret, rows, nil
}

func (in *c10Inst) Canon() string {
	if in.initErr != nil {
		return ""
	}
	if in.canon == "" {
		c, _, _, _, err := in.snapshot()
		if err != nil {
			return ""
		}
		in.canon = c
	}
	return in.canon
}

func (in *c10Inst) Check() error {
	if in.initErr != nil {
		in.cfg.r.HarnessError("system %s: %v", in.cfg.name, in.initErr)
		return nil
	}
	canon, init, ret, rows, err := in.snapshot()
	if err != nil {
		in.cfg.r.HarnessError("system %s: snapshot: %v", in.cfg.name, err)
		return nil
	}
	in.canon = canon
	st := in.st
	if st.LocalRetentionThroughSeq > ret.LocalRetentionThroughSeq || st.PhysicalRetentionThroughSeq > ret.PhysicalRetentionThroughSeq {
		return mc.Violatef("C10:runtime-retention-ahead-of-store", "runtime retention local=%d physical=%d is ahead of the durable store state local=%d physical=%d",
			st.LocalRetentionThroughSeq, st.PhysicalRetentionThroughSeq, ret.LocalRetentionThroughSeq, ret.PhysicalRetentionThroughSeq)
	}
	if ret.PhysicalRetentionThroughSeq > ret.LocalRetentionThroughSeq {
		return mc.Violatef("C10:physical-above-logical-retention", "physical retention %d above adopted logical boundary %d", ret.PhysicalRetentionThroughSeq, ret.LocalRetentionThroughSeq)
	}
	// every surviving row is a record that was appended, unchanged
	for seq, m := range rows {
		want, ok := in.recs[seq]
		if !ok || want.id != m.MessageID || want.barrier != m.SyncOnce || string(want.payload) != string(m.Payload) {
			return mc.Violatef("C10:read-returned-unknown-message", "store row at seq %d (id=%d syncOnce=%v) is not the appended record %+v", seq, m.MessageID, m.SyncOnce, want)
		}
	}
	if init.LEO != st.LEO {
		in.cfg.r.HarnessError("system %s: runtime LEO %d differs from store LEO %d", in.cfg.name, st.LEO, init.LEO)
		return nil
	}
	if _, done := in.cfg.readDone.Load(canon); done {
		return nil
	}
	if err := in.readMatrix(init, ret, rows); err != nil {
		return err
	}
	in.cfg.readDone.Store(canon, struct{}{})
	c10nMatrixStates.Add(1)
	return nil
}

func c10Menu(vals ...uint64) []uint64 {
	seen := map[uint64]bool{}
	var out []uint64
	for _, v := range vals {
		if !seen[v] {
			seen[v] = true
			out = append(out, v)
		}
	}
	sort.Slice(out, func(i, j int) bool { return out[i] < out[j] })
	return out
}

// readMatrix issues ReadCommitted with every (from, max, min, limit, direction) in range and
// checks the store-seam contract the callers rely on: nothing above MaxSeq, nothing below
// MinSeq, direction and limit respected, rows unchanged and flagged.
func (in *c10Inst) readMatrix(init store.InitialState, ret store.RetentionState, rows map[uint64]ch.Message) error {
	st := in.st
	top := init.LEO + 1
	var all []uint64
	for v := uint64(0); v <= top; v++ {
		all = append(all, v)
	}
	maxMenu, minMenu := all, all
	if in.cfg.backend != "mem" || !in.cfg.fullCube {
		maxMenu = c10Menu(0, 1, st.HW, st.CheckpointHW, init.LEO, top)
		minMenu = c10Menu(0, 1, ret.LocalRetentionThroughSeq+1, ret.PhysicalRetentionThroughSeq+1, st.RetentionThroughSeq+1, top)
	}
	for _, reverse := range []bool{false, true} {
		for _, from := range all {
			for _, maxSeq := range maxMenu {
				for _, minSeq := range minMenu {
					for _, limit := range []int{0, 1, 2} {
						req := store.ReadCommittedRequest{FromSeq: from, MaxSeq: maxSeq, MinSeq: minSeq, Limit: limit, MaxBytes: 1 << 20, Reverse: reverse}
						res, err := in.cs.ReadCommitted(c10Ctx, req)
						c10nReads.Add(1)
						if err != nil {
							in.cfg.r.HarnessError("system %s: ReadCommitted(%+v): %v", in.cfg.name, req, err)
							return nil
						}
						if len(res.Messages) > 0 {
							c10nReadNonEmpty.Add(1)
						}
						var prev uint64
						for i, m := range res.Messages {
							seq := m.MessageSeq
							dir := "forward"
							if reverse {
								dir = "reverse"
							}
							if maxSeq > 0 && seq > maxSeq {
								return mc.Violatef("C10:read-above-max-seq:"+dir, "ReadCommitted(%+v) returned seq %d above MaxSeq %d (HW=%d)", req, seq, maxSeq, st.HW)
							}
							if minSeq > 0 && seq < minSeq {
								return mc.Violatef("C10:read-below-min-seq:"+dir, "ReadCommitted(%+v) returned seq %d below MinSeq %d (adopted retention %d)", req, seq, minSeq, ret.LocalRetentionThroughSeq)
							}
							row, ok := rows[seq]
							if !ok || row.MessageID != m.MessageID || row.SyncOnce != m.SyncOnce || string(row.Payload) != string(m.Payload) {
								return mc.Violatef("C10:read-returned-unknown-message", "ReadCommitted(%+v) returned seq %d id %d which is not a stored row", req, seq, m.MessageID)
							}
							if m.SyncOnce {
								c10nBarrierRead.Add(1)
							}
							if i > 0 && ((!reverse && seq <= prev) || (reverse && seq >= prev)) {
								return mc.Violatef("C10:read-order:"+dir, "ReadCommitted(%+v) returned seq %d after %d", req, seq, prev)
							}
							if !reverse && from > 0 && seq < from {
								return mc.Violatef("C10:read-outside-cursor:forward", "ReadCommitted(%+v) returned seq %d before FromSeq", req, seq)
							}
							if reverse && from > 0 && seq > from {
								return mc.Violatef("C10:read-outside-cursor:reverse", "ReadCommitted(%+v) returned seq %d after FromSeq", req, seq)
							}
							prev = seq
						}
						if limit > 0 && len(res.Messages) > limit {
							return mc.Violatef("C10:read-over-limit", "ReadCommitted(%+v) returned %d messages", req, len(res.Messages))
						}
						if (maxSeq > 0 && maxSeq < init.LEO) || minSeq > 1 {
							c10nReadClamped.Add(1)
						}
					}
				}
			}
		}
	}
	return nil
}

// ---------------------------------------------------------------- test

func TestVerifC10Reactor(t *testing.T) {
	r := ev.Start(t, "C10")
	defer r.Finish()
	c10SweepStale()
	defer c10DrainPool()
	r.Assume("HW, ISR progress and appends are environment inputs applied to the real machine.ChannelState / ChannelStore (C06 covers how the machine computes them); HW <= LEO, checkpoint <= HW, follower match <= LEO")
	r.Assume("the retention path is the real one: handleApplyRetentionBoundary, retentionTrimDecision, minISRMatchOffset, worker runStoreRetention/runStoreCheckpoint on real pools, handleStoreRetentionResult, handleStoreCheckpointResult; the runtime channel is installed directly instead of through ApplyMeta")
	r.Assume("read results depend only on the canonical state (store rows, offsets, retention state): the read matrix is evaluated once per canonical state per system")
	type sys struct {
		cfg   *c10Cfg
		depth int
	}
	systems := []sys{
		{&c10Cfg{r: r, name: "mem-leader", backend: "mem", leader: true, maxLog: ev.Pick(r, 3, 5), fullCube: r.Thorough(), noBarrier: !r.Thorough()}, ev.Pick(r, 6, 7)},
		{&c10Cfg{r: r, name: "mem-follower", backend: "mem", leader: false, maxLog: ev.Pick(r, 3, 5), fullCube: r.Thorough()}, ev.Pick(r, 5, 7)},
		{&c10Cfg{r: r, name: "mdb-leader", backend: "mdb", leader: true, maxLog: ev.Pick(r, 3, 4)}, ev.Pick(r, 5, 7)},
		{&c10Cfg{r: r, name: "mdb-follower", backend: "mdb", leader: false, maxLog: ev.Pick(r, 3, 4)}, ev.Pick(r, 5, 6)},
	}
	for _, s := range systems {
		cfg := s.cfg
		mc.Run(r, mc.System{
			Name: cfg.name, New: func() mc.Instance { return c10New(cfg) }, MaxDepth: s.depth, MaxDeviations: ev.Pick(r, 1, 2),
			Bounds: map[string]any{"backend": cfg.backend, "leader": cfg.leader, "max_appends": cfg.maxLog, "barrier_records": !cfg.noBarrier,
				"environment": "per history <= max_deviations of: checkpoint write fails (ck event / retention-owned checkpoint), trim write fails, retention result handled before checkpoint result",
				"events":      "app:{n,b} hw:{+1,leo} ck ack:{+1,leo} ret:x (x in 1..LEO+1, regressions included) ret1:x (MaxTrimMessages 1; 2 <= x <= min(HW, checkpoint))",
				"read_matrix": "direction x FromSeq 0..LEO+1 x MaxSeq {0,1,HW,checkpoint,LEO,LEO+1} x MinSeq {0,1,L+1,P+1,R+1,LEO+1} x Limit {0,1,2}; memory backend in thorough: MaxSeq and MinSeq 0..LEO+1 each", "full_cube": cfg.fullCube},
			Note: "states merged on (runtime offsets/retention/progress, store Load + RetentionState + surviving rows)",
		})
	}
	if r.Replay() != nil {
		return
	}
	r.Count("retention_applies_that_deleted_rows", c10nTrimDeleted.Load())
	r.Count("retention_applies_blocked", c10nTrimBlocked.Load())
	r.Count("blocked_hw_lag", c10nBlockedHW.Load())
	r.Count("blocked_checkpoint_lag", c10nBlockedCk.Load())
	r.Count("blocked_min_isr_lag", c10nBlockedISR.Load())
	r.Count("blocked_leo_lag", c10nBlockedLEO.Load())
	r.Count("retention_owned_checkpoints", c10nRetCheckpoint.Load())
	r.Count("retention_noop_shortcuts", c10nNoop.Load())
	r.Count("regressing_boundary_requests", c10nAdoptRegress.Load())
	r.Count("boundary_beyond_leo_requests", c10nBeyondLEO.Load())
	r.Count("reads", c10nReads.Load())
	r.Count("reads_nonempty", c10nReadNonEmpty.Load())
	r.Count("reads_with_effective_clamp", c10nReadClamped.Load())
	r.Count("read_matrix_states", c10nMatrixStates.Load())
	r.Count("barrier_rows_returned_at_store_seam", c10nBarrierRead.Load())
	r.Count("rows_readable_only_after_trim", c10nVisibleAfterTrim.Load())
	r.Count("failed_checkpoint_writes", c10nCkFailed.Load())
	r.Count("retention_applies_with_failed_store_write", c10nRetFaults.Load())
	r.Guard("trim-deleted", c10nTrimDeleted.Load() > 0, "%d retention applies physically deleted rows", c10nTrimDeleted.Load())
	r.Guard("trim-blocked-by-every-clause", c10nBlockedHW.Load() > 0 && c10nBlockedCk.Load() > 0 && c10nBlockedISR.Load() > 0,
		"blocked: hw_lag=%d checkpoint_lag=%d min_isr_lag=%d leo_lag=%d", c10nBlockedHW.Load(), c10nBlockedCk.Load(), c10nBlockedISR.Load(), c10nBlockedLEO.Load())
	r.Guard("regressing-boundaries", c10nAdoptRegress.Load() > 0, "%d requests below the current logical boundary", c10nAdoptRegress.Load())
	r.Guard("reads-clamped", c10nReadClamped.Load() > 0 && c10nReadNonEmpty.Load() > 0, "%d reads with an effective MaxSeq/MinSeq clamp, %d non-empty", c10nReadClamped.Load(), c10nReadNonEmpty.Load())
	r.Guard("store-write-faults", c10nCkFailed.Load() > 0 && c10nRetFaults.Load() > 0, "%d checkpoint events with a failed store write, %d retention applies with a failed checkpoint/trim write", c10nCkFailed.Load(), c10nRetFaults.Load())
	r.Guard("retention-checkpoint-path", c10nRetCheckpoint.Load() > 0, "%d retention-owned checkpoints submitted", c10nRetCheckpoint.Load())
}
