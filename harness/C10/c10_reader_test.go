package cluster_test

// C10 (run "reader") - the complete committed-read stack on real code:
//   infra/cluster.ChannelMessageReader.SyncMessages
//     -> node port (harness; the same one-line delegation cluster.Node.ReadChannelCommittedBatch does)
//     -> pkg/cluster/channels.Service.ReadCommittedBatch / readLocalCommitted (HW cap, retention floor)
//     -> real channelstore (memory factory and MessageDB factory) ReadCommitted
// Histories: appends (ordinary and SyncOnce recovery-barrier records), durable checkpoint
// advances, authoritative retention advances in the channel metadata, local
// AdoptRetentionBoundary(x) for every x including regressions, physical trims; in every
// state every SyncMessages query (direction, start, end, limit, membership floor) in range.

import (
	"context"
	"fmt"
	"math"
	"os"
	"path/filepath"
	"sort"
	"strconv"
	"strings"
	"sync"
	"sync/atomic"
	"testing"
	"time"

	infracluster "github.com/WuKongIM/WuKongIM/internal/infra/cluster"
	"github.com/WuKongIM/WuKongIM/internal/usecase/message"
	ch "github.com/WuKongIM/WuKongIM/pkg/channel"
	"github.com/WuKongIM/WuKongIM/pkg/channel/store"
	channeltransport "github.com/WuKongIM/WuKongIM/pkg/channel/transport"
	"github.com/WuKongIM/WuKongIM/pkg/cluster/channels"
	"github.com/WuKongIM/WuKongIM/pkg/zzverif/ev"
	"github.com/WuKongIM/WuKongIM/pkg/zzverif/mc"
)

// ---------------------------------------------------------------- fakes (environment only)

// b10Runtime satisfies the Service constructor; the committed-read path never calls it.
type b10Runtime struct {
	ch.Cluster
	channeltransport.Server
}

type b10Meta struct {
	mu   sync.Mutex
	meta ch.Meta
}

func (m *b10Meta) ResolveChannelMeta(_ context.Context, id ch.ChannelID) (ch.Meta, error) {
	m.mu.Lock()
	defer m.mu.Unlock()
	if id != m.meta.ID {
		return ch.Meta{}, ch.ErrChannelNotFound
	}
	return m.meta, nil
}

// b10Node is the node port of the reader.
type b10Node struct{ svc *channels.Service }

func (n *b10Node) ReadChannelCommitted(context.Context, ch.ChannelID, store.ReadCommittedRequest) (store.ReadCommittedResult, error) {
	return store.ReadCommittedResult{}, fmt.Errorf("unexpected single-read call")
}

func (n *b10Node) ReadChannelCommittedBatch(ctx context.Context, reads []channels.CommittedRead) ([]channels.CommittedReadResult, error) {
	return n.svc.ReadCommittedBatch(ctx, reads)
}

// ---------------------------------------------------------------- MessageDB factory pool

type b10Backend struct {
	dir  string
	f    *store.MessageDBFactory
	uses int
}

var (
	b10PoolMu   sync.Mutex
	b10PoolFree []*b10Backend
	b10DirSeq   atomic.Uint64
	b10NS       atomic.Uint64
)

const b10DirPrefix = "verif-C10s-"

func b10GetBackend() (*b10Backend, error) {
	b10PoolMu.Lock()
	if n := len(b10PoolFree); n > 0 {
		b := b10PoolFree[n-1]
		b10PoolFree = b10PoolFree[:n-1]
		b10PoolMu.Unlock()
		return b, nil
	}
	b10PoolMu.Unlock()
	dir := filepath.Join("/dev/shm", fmt.Sprintf("%s%d-%d", b10DirPrefix, os.Getpid(), b10DirSeq.Add(1)))
	f := store.NewMessageDBFactoryWithOptions(dir, store.MessageDBFactoryOptions{CommitFlushWindow: time.Nanosecond})
	if _, _, _, err := f.ListChannelsPage(context.Background(), "", 1); err != nil {
		return nil, fmt.Errorf("open %s: %v", dir, err)
	}
	return &b10Backend{dir: dir, f: f}, nil
}

func b10PutBackend(b *b10Backend) {
	b.uses++
	if b.uses >= 3000 {
		_ = b.f.Close()
		_ = os.RemoveAll(b.dir)
		return
	}
	b10PoolMu.Lock()
	b10PoolFree = append(b10PoolFree, b)
	b10PoolMu.Unlock()
}

func b10DrainPool() {
	b10PoolMu.Lock()
	defer b10PoolMu.Unlock()
	for _, b := range b10PoolFree {
		_ = b.f.Close()
		_ = os.RemoveAll(b.dir)
	}
	b10PoolFree = nil
}

func b10SweepStale() {
	ents, err := os.ReadDir("/dev/shm")
	if err != nil {
		return
	}
	for _, e := range ents {
		name := e.Name()
		if !strings.HasPrefix(name, b10DirPrefix) {
			continue
		}
		pid, _, _ := strings.Cut(strings.TrimPrefix(name, b10DirPrefix), "-")
		if _, err := os.Stat("/proc/" + pid); err != nil {
			_ = os.RemoveAll(filepath.Join("/dev/shm", name))
		}
	}
}

// ---------------------------------------------------------------- instance

type b10Cfg struct {
	r        *ev.R
	name     string
	backend  string
	minISR   int
	maxLog   int
	wide     bool // full query menus
	readDone sync.Map
}

type b10Rec struct {
	id      uint64
	barrier bool
	payload []byte
}

type b10Inst struct {
	cfg      *b10Cfg
	ns       uint64
	key      ch.ChannelKey
	id       ch.ChannelID
	be       *b10Backend
	fac      store.Factory
	cs       store.ChannelStore
	meta     *b10Meta
	reader   *infracluster.ChannelMessageReader
	svc      *channels.Service
	initErr  error
	recs     map[uint64]b10Rec
	appended int
	canon    string
}

var b10Ctx = context.Background()

var (
	b10nQueries, b10nNonEmpty, b10nBarrierFiltered, b10nFloorCut, b10nHWCut, b10nStates, b10nAdoptRegress, b10nTrimmed atomic.Int64
	b10nLatest, b10nDown, b10nUp, b10nQueryErr, b10nRaw                                                                       atomic.Int64
)

func b10New(cfg *b10Cfg) *b10Inst {
	in := &b10Inst{cfg: cfg, ns: b10NS.Add(1), recs: map[uint64]b10Rec{}}
	in.id = ch.ChannelID{ID: fmt.Sprintf("c10s%d", in.ns), Type: 2}
	in.key = ch.ChannelKeyForID(in.id)
	if cfg.backend == "mem" {
		in.fac = store.NewMemoryFactory()
	} else {
		be, err := b10GetBackend()
		if err != nil {
			in.initErr = err
			return in
		}
		in.be = be
		in.fac = be.f
	}
	cs, err := in.fac.ChannelStore(in.key, in.id)
	if err != nil {
		in.initErr = err
		return in
	}
	in.cs = cs
	in.meta = &b10Meta{meta: ch.Meta{Key: in.key, ID: in.id, Epoch: 1, LeaderEpoch: 1, Leader: 1, Replicas: []ch.NodeID{1, 2}, ISR: []ch.NodeID{1, 2},
		MinISR: cfg.minISR, Status: ch.StatusActive}}
	svc, err := channels.NewService(channels.Config{Runtime: &b10Runtime{}, LocalNode: 1, Store: in.fac, MetaSource: in.meta})
	if err != nil {
		in.initErr = err
		return in
	}
	in.svc = svc
	in.reader = infracluster.NewChannelMessageReader(&b10Node{svc: svc})
	return in
}

func (in *b10Inst) Close() {
	if in.cs != nil {
		_ = in.cs.Close()
		in.cs = nil
	}
	if in.be != nil {
		b10PutBackend(in.be)
		in.be = nil
	}
}

func (in *b10Inst) load() (store.InitialState, store.RetentionState, error) {
	init, err := in.cs.Load(b10Ctx)
	if err != nil {
		return init, store.RetentionState{}, err
	}
	ret, err := in.cs.LoadRetentionState(b10Ctx)
	return init, ret, err
}

func (in *b10Inst) Events() []string {
	if in.initErr != nil {
		return nil
	}
	init, ret, err := in.load()
	if err != nil {
		return nil
	}
	var evs []string
	if in.appended < in.cfg.maxLog {
		evs = append(evs, "app:n", "app:b")
	}
	if init.CheckpointHW < init.LEO {
		evs = append(evs, "ck:+1")
		if init.CheckpointHW+1 < init.LEO {
			evs = append(evs, "ck:leo")
		}
	}
	top := init.LEO + 1
	if top > uint64(in.cfg.maxLog)+1 {
		top = uint64(in.cfg.maxLog) + 1
	}
	for x := in.meta.meta.RetentionThroughSeq + 1; x <= top; x++ {
		evs = append(evs, "mret:"+strconv.FormatUint(x, 10))
	}
	for x := uint64(1); x <= top; x++ {
		evs = append(evs, "adopt:"+strconv.FormatUint(x, 10))
	}
	// physical trims only where the reactor would admit them (checked by the other run):
	// through an adopted boundary covered by the durable checkpoint
	for x := ret.PhysicalRetentionThroughSeq + 1; x <= ret.LocalRetentionThroughSeq && x <= init.CheckpointHW; x++ {
		evs = append(evs, "trim:"+strconv.FormatUint(x, 10))
		if x >= ret.PhysicalRetentionThroughSeq+2 {
			evs = append(evs, "trim1:"+strconv.FormatUint(x, 10))
		}
	}
	return evs
}

func (in *b10Inst) herr(format string, args ...any) (string, error) {
	in.initErr = fmt.Errorf(format, args...)
	return "harness-error", nil
}

func (in *b10Inst) Apply(event string, _ *mc.Env) (string, error) {
	in.canon = ""
	if in.initErr != nil {
		return "init-error", nil
	}
	_, pRet, err := in.load()
	if err != nil {
		return in.herr("load: %v", err)
	}
	obs, verr := in.apply(event)
	if verr != nil || in.initErr != nil {
		return obs, verr
	}
	_, ret, err := in.load()
	if err != nil {
		return in.herr("load: %v", err)
	}
	if ret.LocalRetentionThroughSeq < pRet.LocalRetentionThroughSeq || ret.PhysicalRetentionThroughSeq < pRet.PhysicalRetentionThroughSeq || ret.RetainedMaxSeq < pRet.RetainedMaxSeq {
		return obs, mc.Violatef("C10:retention-boundary-regressed:store", "%s: store retention state moved backwards: %+v after %+v", event, ret, pRet)
	}
	return obs, nil
}

func (in *b10Inst) apply(event string) (string, error) {
	op, arg, _ := strings.Cut(event, ":")
	x, _ := strconv.ParseUint(arg, 10, 64)
	switch op {
	case "app":
		in.appended++
		n := in.appended
		rec := ch.Record{ID: in.ns*64 + uint64(n), Epoch: 1, ServerTimestampMS: 1_700_000_000_000 + int64(n)}
		if arg == "b" {
			rec.SyncOnce = true
			rec.Payload = append([]byte{1}, make([]byte, 24)...)
			rec.Payload[24] = byte(n)
		} else {
			rec.FromUID = "u"
			rec.ClientMsgNo = fmt.Sprintf("c%d-%d", in.ns, n)
			rec.Payload = []byte{'m', byte('0' + n)}
		}
		rec.SizeBytes = len(rec.Payload)
		res, err := in.cs.AppendLeader(b10Ctx, store.AppendLeaderRequest{Records: []ch.Record{rec}})
		if err != nil {
			return in.herr("AppendLeader: %v", err)
		}
		in.recs[res.LastOffset] = b10Rec{id: rec.ID, barrier: rec.SyncOnce, payload: rec.Payload}
		return fmt.Sprintf("appended %d", res.LastOffset), nil
	case "ck":
		init, _, err := in.load()
		if err != nil {
			return in.herr("load: %v", err)
		}
		hw := init.CheckpointHW + 1
		if arg == "leo" {
			hw = init.LEO
		}
		if err := in.cs.StoreCheckpoint(b10Ctx, ch.Checkpoint{HW: hw}); err != nil {
			return in.herr("StoreCheckpoint: %v", err)
		}
		return fmt.Sprintf("checkpoint %d", hw), nil
	case "mret":
		in.meta.mu.Lock()
		in.meta.meta.RetentionThroughSeq = x
		in.meta.mu.Unlock()
		return fmt.Sprintf("meta retention %d", x), nil
	case "adopt":
		_, ret, _ := in.load()
		if x < ret.LocalRetentionThroughSeq {
			b10nAdoptRegress.Add(1)
		}
		if _, err := in.cs.AdoptRetentionBoundary(b10Ctx, x, ch.RetentionCursorCommitted); err != nil {
			return in.herr("AdoptRetentionBoundary(%d): %v", x, err)
		}
		return fmt.Sprintf("adopted %d", x), nil
	case "trim", "trim1":
		opts := store.RetentionTrimOptions{}
		if op == "trim1" {
			opts.MaxMessages = 1
		}
		res, err := in.cs.TrimMessagesThrough(b10Ctx, x, opts)
		if err != nil {
			return in.herr("TrimMessagesThrough(%d): %v", x, err)
		}
		if res.Deleted > 0 {
			b10nTrimmed.Add(1)
		}
		return fmt.Sprintf("trim(%d) deleted=%d more=%v", x, res.Deleted, res.More), nil
	}
	return in.herr("unknown event %q", event)
}

func (in *b10Inst) rows() (map[uint64]ch.Message, error) {
	res, err := in.cs.ReadCommitted(b10Ctx, store.ReadCommittedRequest{FromSeq: 1, MaxSeq: math.MaxUint64, Limit: 64, MaxBytes: 1 << 30})
	if err != nil {
		return nil, err
	}
	out := map[uint64]ch.Message{}
	for _, m := range res.Messages {
		out[m.MessageSeq] = m
	}
	return out, nil
}

func (in *b10Inst) snapshot() (string, store.InitialState, store.RetentionState, map[uint64]ch.Message, error) {
	init, ret, err := in.load()
	if err != nil {
		return "", init, ret, nil, err
	}
	rows, err := in.rows()
	if err != nil {
		return "", init, ret, nil, err
	}
	seqs := make([]uint64, 0, len(rows))
	for s := range rows {
		seqs = append(seqs, s)
	}
	sort.Slice(seqs, func(i, j int) bool { return seqs[i] < seqs[j] })
	var b strings.Builder
	fmt.Fprintf(&b, "R=%d n=%d st[leo=%d hw=%d ck=%d L=%d P=%d RM=%d] rows[", in.meta.meta.RetentionThroughSeq, in.appended, init.LEO, init.HW, init.CheckpointHW,
		ret.LocalRetentionThroughSeq, ret.PhysicalRetentionThroughSeq, ret.RetainedMaxSeq)
	for _, s := range seqs {
		f := "n"
		if rows[s].SyncOnce {
			f = "b"
		}
		fmt.Fprintf(&b, "%d%s ", s, f)
	}
	b.WriteString("]")
	return b.String(), init, ret, rows, nil
}

func (in *b10Inst) Canon() string {
	if in.initErr != nil {
		return ""
	}
	if in.canon == "" {
		c, _, _, _, err := in.snapshot()
		if err != nil {
			return ""
		}
		in.canon = c
	}
	return in.canon
}

func (in *b10Inst) Check() error {
	if in.initErr != nil {
		in.cfg.r.HarnessError("system %s: %v", in.cfg.name, in.initErr)
		return nil
	}
	canon, init, ret, rows, err := in.snapshot()
	if err != nil {
		in.cfg.r.HarnessError("system %s: snapshot: %v", in.cfg.name, err)
		return nil
	}
	in.canon = canon
	for seq, m := range rows {
		want, ok := in.recs[seq]
		if !ok || want.id != m.MessageID || want.barrier != m.SyncOnce || string(want.payload) != string(m.Payload) {
			return mc.Violatef("C10:read-returned-unknown-message", "store row at seq %d (id=%d syncOnce=%v) is not the appended record", seq, m.MessageID, m.SyncOnce)
		}
	}
	if v, done := in.cfg.readDone.Load(canon); done {
		if e, ok := v.(error); ok {
			return e // known zero-watermark class of this canonical state (deterministic, cached)
		}
		return nil
	}
	err = in.queries(init, ret, rows)
	if err != nil {
		if f, ok := err.(interface{ Fingerprint() string }); ok && strings.HasSuffix(f.Fingerprint(), ":zero-watermark") {
			in.cfg.readDone.Store(canon, err)
			b10nStates.Add(1)
		}
		return err
	}
	in.cfg.readDone.Store(canon, struct{}{})
	b10nStates.Add(1)
	return nil
}

func b10Menu(vals ...uint64) []uint64 {
	seen := map[uint64]bool{}
	var out []uint64
	for _, v := range vals {
		if !seen[v] {
			seen[v] = true
			out = append(out, v)
		}
	}
	sort.Slice(out, func(i, j int) bool { return out[i] < out[j] })
	return out
}

func b10Q(q message.ChannelMessageQuery) string {
	mode := "down"
	if q.PullMode == message.PullModeUp {
		mode = "up"
	}
	return fmt.Sprintf("{mode=%s start=%d end=%d minSeq=%d limit=%d}", mode, q.StartSeq, q.EndSeq, q.MinSeq, q.Limit)
}

func b10R(q store.ReadCommittedRequest) string {
	f := func(v uint64) string {
		if v == math.MaxUint64 {
			return "max"
		}
		return strconv.FormatUint(v, 10)
	}
	return fmt.Sprintf("{from=%s max=%s min=%d limit=%d reverse=%v}", f(q.FromSeq), f(q.MaxSeq), q.MinSeq, q.Limit, q.Reverse)
}

// queries evaluates every SyncMessages query and every raw committed read in range.
// A violation of the "nothing is committed yet" class (committed watermark 0) is remembered
// and returned last, so that one known defect does not hide a different one in the same state.
func (in *b10Inst) queries(init store.InitialState, ret store.RetentionState, rows map[uint64]ch.Message) error {
	metaR := in.meta.meta.RetentionThroughSeq
	floor := max(metaR, ret.LocalRetentionThroughSeq)
	committed := init.HW
	if in.cfg.minISR <= 1 {
		committed = init.LEO // single-replica commit rule of readLocalCommitted: durable append == committed
	}
	top := init.LEO + 1
	var all []uint64
	for v := uint64(0); v <= top; v++ {
		all = append(all, v)
	}
	limits := []int{0, 1, 2, int(top)}
	minSeqs := b10Menu(0, 2, floor+2, top)
	if !in.cfg.wide {
		limits = []int{1, int(top)}
		minSeqs = b10Menu(0, 2)
	}
	var deferred error
	zero := ""
	if committed == 0 {
		zero = ":zero-watermark"
	}
	above := func(kind, dir, what string, seq uint64) error {
		v := mc.Violatef("C10:"+kind+"-returned-uncommitted-message:"+dir+zero, "%s returned seq %d above the committed watermark %d (LEO=%d checkpointHW=%d minISR=%d)", what, seq, committed, init.LEO, init.CheckpointHW, in.cfg.minISR)
		if zero != "" {
			if deferred == nil {
				deferred = v
			}
			return nil
		}
		return v
	}
	for _, mode := range []message.PullMode{message.PullModeDown, message.PullModeUp} {
		for _, start := range all {
			for _, end := range all {
				for _, limit := range limits {
					for _, minSeq := range minSeqs {
						q := message.ChannelMessageQuery{ChannelID: message.ChannelID{ID: in.id.ID, Type: in.id.Type}, StartSeq: start, EndSeq: end, MinSeq: minSeq, Limit: limit, PullMode: mode}
						page, err := in.reader.SyncMessages(b10Ctx, q)
						b10nQueries.Add(1)
						modeName := "up"
						switch {
						case start == 0 && end == 0:
							modeName = "latest"
							b10nLatest.Add(1)
						case mode == message.PullModeDown:
							modeName = "down"
							b10nDown.Add(1)
						default:
							b10nUp.Add(1)
						}
						if err != nil {
							b10nQueryErr.Add(1)
							in.cfg.r.HarnessError("system %s: SyncMessages(%s): %v", in.cfg.name, b10Q(q), err)
							return nil
						}
						if len(page.Messages) > 0 {
							b10nNonEmpty.Add(1)
						}
						for _, m := range page.Messages {
							seq := m.MessageSeq
							if seq > committed {
								if v := above("sync", modeName, "SyncMessages("+b10Q(q)+")", seq); v != nil {
									return v
								}
								continue
							}
							if seq <= floor {
								return mc.Violatef("C10:sync-returned-retained-message:"+modeName, "SyncMessages(%s) returned seq %d at or below the logical retention boundary %d (meta=%d local=%d)", b10Q(q), seq, floor, metaR, ret.LocalRetentionThroughSeq)
							}
							want, ok := in.recs[seq]
							if !ok || want.id != m.MessageID || string(want.payload) != string(m.Payload) {
								return mc.Violatef("C10:read-returned-unknown-message", "SyncMessages(%s) returned seq %d which was never appended with that id/payload", b10Q(q), seq)
							}
							if want.barrier {
								return mc.Violatef("C10:sync-returned-barrier-record:"+modeName, "SyncMessages(%s) returned the recovery barrier (SyncOnce) record at seq %d as an ordinary message", b10Q(q), seq)
							}
							if minSeq > 0 && seq < minSeq {
								return mc.Violatef("C10:sync-below-query-min-seq:"+modeName, "SyncMessages(%s) returned seq %d below the query's MinSeq floor", b10Q(q), seq)
							}
						}
					}
				}
			}
		}
	}
	// raw committed reads through the Service (the surface cmdsync / management reads use)
	froms := append(append([]uint64(nil), all...), math.MaxUint64)
	maxes := b10Menu(0, 1, committed, top, math.MaxUint64)
	for _, reverse := range []bool{false, true} {
		dir := "forward"
		if reverse {
			dir = "reverse"
		}
		for _, from := range froms {
			for _, maxSeq := range maxes {
				for _, minSeq := range b10Menu(0, 2) {
					for _, limit := range []int{1, int(top)} {
						req := store.ReadCommittedRequest{FromSeq: from, MaxSeq: maxSeq, MinSeq: minSeq, Limit: limit, MaxBytes: 1 << 20, Reverse: reverse}
						res, err := in.svc.ReadCommittedBatch(b10Ctx, []channels.CommittedRead{{ChannelID: in.id, Request: req}})
						b10nRaw.Add(1)
						if err != nil || len(res) != 1 || res[0].Err != nil {
							in.cfg.r.HarnessError("system %s: ReadCommittedBatch(%s): %v %v", in.cfg.name, b10R(req), err, res)
							return nil
						}
						for _, m := range res[0].Read.Messages {
							seq := m.MessageSeq
							if seq > committed {
								if v := above("committed-read", dir, "ReadCommittedBatch("+b10R(req)+")", seq); v != nil {
									return v
								}
								continue
							}
							if seq <= floor {
								return mc.Violatef("C10:committed-read-returned-retained-message:"+dir, "ReadCommittedBatch(%s) returned seq %d at or below the logical retention boundary %d (meta=%d local=%d)", b10R(req), seq, floor, metaR, ret.LocalRetentionThroughSeq)
							}
							want, ok := in.recs[seq]
							if !ok || want.id != m.MessageID || want.barrier != m.SyncOnce || string(want.payload) != string(m.Payload) {
								return mc.Violatef("C10:read-returned-unknown-message", "ReadCommittedBatch(%s) returned seq %d which was never appended with that id/flag/payload", b10R(req), seq)
							}
						}
					}
				}
			}
		}
	}
	for seq, row := range rows {
		if seq > floor && seq <= committed && row.SyncOnce {
			b10nBarrierFiltered.Add(1)
		}
		if seq <= floor {
			b10nFloorCut.Add(1)
		}
		if seq > committed {
			b10nHWCut.Add(1)
		}
	}
	return deferred
}

func TestVerifC10Reader(t *testing.T) {
	r := ev.Start(t, "C10")
	defer r.Finish()
	b10SweepStale()
	defer b10DrainPool()
	r.Assume("the channel is led by the local node (remote forwarding re-enters the same readLocalCommitted on the leader); channel metadata is an environment input whose RetentionThroughSeq only advances (its monotonicity is property C15)")
	r.Assume("committed watermark as the read path defines it: durable checkpoint HW for MinISR >= 2, LEO for MinISR <= 1 (single-replica channels commit on local durability)")
	r.Assume("physical trims in this run are environment events restricted to boundaries the reactor admits (adopted and covered by the durable checkpoint); the admission rule itself is checked by run 'reactor'")
	type sys struct {
		cfg   *b10Cfg
		depth int
	}
	systems := []sys{
		{&b10Cfg{r: r, name: "mem-quorum", backend: "mem", minISR: 2, maxLog: ev.Pick(r, 3, 5), wide: true}, ev.Pick(r, 5, 7)},
		{&b10Cfg{r: r, name: "mem-single", backend: "mem", minISR: 1, maxLog: ev.Pick(r, 3, 4), wide: true}, ev.Pick(r, 4, 6)},
		{&b10Cfg{r: r, name: "mdb-quorum", backend: "mdb", minISR: 2, maxLog: ev.Pick(r, 2, 4), wide: r.Thorough()}, ev.Pick(r, 5, 6)},
		{&b10Cfg{r: r, name: "mdb-single", backend: "mdb", minISR: 1, maxLog: ev.Pick(r, 2, 3), wide: r.Thorough()}, ev.Pick(r, 4, 5)},
	}
	for _, s := range systems {
		cfg := s.cfg
		mc.Run(r, mc.System{
			Name: cfg.name, New: func() mc.Instance { return b10New(cfg) }, MaxDepth: s.depth, KeepGoing: true,
			Bounds: map[string]any{"backend": cfg.backend, "min_isr": cfg.minISR, "max_appends": cfg.maxLog,
				"events":  "app:{n,b} ck:{+1,leo} mret:x (meta retention, advancing) adopt:x (1..LEO+1, regressions included) trim:x / trim1:x (admitted boundaries)",
				"queries": "PullMode {down,up} x StartSeq 0..LEO+1 x EndSeq 0..LEO+1 (0,0 = latest) x Limit {0,1,2,LEO+1} x MinSeq {0,2,floor+2,LEO+1} (mdb quick: Limit {1,LEO+1} x MinSeq {0,2})",
				"raw_reads": "Service.ReadCommittedBatch: direction x FromSeq {0..LEO+1, max} x MaxSeq {0,1,committed,LEO+1,max} x MinSeq {0,2} x Limit {1,LEO+1}"},
			Note: "states merged on (meta retention, store Load + RetentionState + surviving rows with SyncOnce flags); every query evaluated once per canonical state",
		})
	}
	if r.Replay() != nil {
		return
	}
	r.Count("sync_queries", b10nQueries.Load())
	r.Count("raw_committed_reads", b10nRaw.Load())
	r.Count("sync_queries_nonempty", b10nNonEmpty.Load())
	r.Count("sync_queries_latest", b10nLatest.Load())
	r.Count("sync_queries_down", b10nDown.Load())
	r.Count("sync_queries_up", b10nUp.Load())
	r.Count("query_states", b10nStates.Load())
	r.Count("state_rows_hidden_barrier", b10nBarrierFiltered.Load())
	r.Count("state_rows_below_retention_floor", b10nFloorCut.Load())
	r.Count("state_rows_above_committed", b10nHWCut.Load())
	r.Count("adopt_regressions", b10nAdoptRegress.Load())
	r.Count("trims_that_deleted", b10nTrimmed.Load())
	r.Guard("queries-nonempty", b10nNonEmpty.Load() > 0, "%d of %d SyncMessages queries returned messages", b10nNonEmpty.Load(), b10nQueries.Load())
	r.Guard("barrier-in-visible-range", b10nBarrierFiltered.Load() > 0, "%d (state,row) pairs with a SyncOnce barrier inside (retention, committed]", b10nBarrierFiltered.Load())
	r.Guard("rows-outside-window", b10nFloorCut.Load() > 0 && b10nHWCut.Load() > 0, "%d stored rows at or below the retention floor, %d above the committed watermark", b10nFloorCut.Load(), b10nHWCut.Load())
	r.Guard("adopt-regressions", b10nAdoptRegress.Load() > 0, "%d AdoptRetentionBoundary calls below the adopted boundary", b10nAdoptRegress.Load())
	r.Guard("physical-holes", b10nTrimmed.Load() > 0, "%d trims deleted rows", b10nTrimmed.Load())
}
