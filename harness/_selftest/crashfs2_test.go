package engine

import (
	"testing"

	"github.com/WuKongIM/WuKongIM/pkg/zzverif/crashfs"
	"github.com/WuKongIM/WuKongIM/pkg/zzverif/porcupine"
)

func TestVerifCrashfsDirs(t *testing.T) {
	_ = porcupine.Model{}
	vol := crashfs.NewVolume()
	t.Log(vol.MkdirAll("/vdb/a/db", 0o755))
	_, err := vol.OpenDir("/vdb/a/db")
	t.Log(err)
	_, err = vol.Create("/vdb/a/db/x", "")
	t.Log(err)
	t.Log(vol.List("/vdb/a"))
	t.Log(vol.List("/"))
}
