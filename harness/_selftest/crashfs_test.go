package engine

import (
	"fmt"
	"testing"

	"github.com/WuKongIM/WuKongIM/pkg/zzverif/crashfs"
)

func TestVerifCrashfsSmoke(t *testing.T) {
	router := crashfs.NewRouter()
	VerifFS = router
	defer func() { VerifFS = nil }()
	vol := crashfs.NewVolume()
	router.Mount("/vdbA", vol)
	if err := vol.MkdirAllSynced("/vdbA/db"); err != nil {
		t.Fatal(err)
	}
	db, err := Open("/vdbA/db", Options{})
	if err != nil {
		t.Fatal(err)
	}
	acked := 0
	vol.Meta = func() any { return acked }
	vol.Start()
	for i := 0; i < 3; i++ {
		b := db.NewBatch()
		if err := b.Set([]byte(fmt.Sprintf("k%d", i)), []byte("v")); err != nil {
			t.Fatal(err)
		}
		if err := b.Commit(true); err != nil {
			t.Fatal(err)
		}
		b.Close()
		acked++
	}
	vol.Stop()
	vol.Snapshot("idle")
	db.Close()
	imgs := vol.Images()
	t.Logf("crash points=%d images=%d", vol.Points(), len(imgs))
	for _, im := range imgs {
		l1, _ := im.Kill.List("/vdbA/db")
		l2, _ := im.Power.List("/vdbA/db")
		t.Logf("image k=%d op=%q acked=%v kill=%v power=%v", im.K, im.Op, im.Meta, l1, l2)
	}
	for _, im := range imgs {
		for mode, mem := range map[string]*crashfs.Volume{"kill": crashfs.FromImage(im.Kill), "power": crashfs.FromImage(im.Power)} {
			router.Mount("/vdbA", mem)
			d2, err := Open("/vdbA/db", Options{})
			if err != nil {
				t.Fatalf("image %d %s (%s): reopen: %v", im.K, mode, im.Op, err)
			}
			n := 0
			for i := 0; i < 3; i++ {
				_, ok, _ := d2.Get([]byte(fmt.Sprintf("k%d", i)))
				if ok {
					n++
				} else {
					break
				}
			}
			a := im.Meta.(int)
			if n < a || n > a+1 {
				t.Errorf("image %d %s (%s): recovered %d keys, acked %d", im.K, mode, im.Op, n, a)
			}
			d2.Close()
		}
	}
}
