package channelappend_test

// C41 / run "restore" - the real channelappend.Group under the controlled scheduler (engine E3,
// delay-bounded DFS over all scheduling decisions) with TWO independent lifecycle actors:
//
//   * the shutdown actor: Group.Stop (background | already cancelled context | 1ms virtual
//     deadline that expires while an append is parked) followed by Stop(background);
//   * the restore-maintenance actor, the call sequence of internal/app/backup_maintenance.go
//     (suspendRestoreSideEffects / resumeRestoreSideEffects, which run under their own mutex,
//     not under the shutdown path's): PauseForRestore; WaitIdle(3ms virtual deadline);
//     ResetAfterRestore when the drain finished; later ResumeAfterRestore;
//
// racing with submitter threads (Group.SubmitLocal + Future.Wait), among them a "late"
// submitter that sends after the maintenance exit. The layer that /verif/harness/C29's
// c29_group_test.go (run "group" of this check) does not have is exactly the maintenance API:
// a lifecycle flag that is only recomputed by ResumeAfterRestore is never exercised there.
//
// Oracle (the property, literally): a SubmitLocal call that starts after any Stop call has
// returned is refused and never reaches the log - also when a maintenance resume happened in
// between, also after Start / Pause+Resume on the completely stopped group; every admitted
// batch (SubmitLocal returned a Future) gets its full result vector (a Future that never
// completes is a deadlock report), without cancellation and without failure (the appender
// never fails here); an expired Stop cancels nothing (no AppendBatch / post-commit call sees a
// cancelled runtime context); a Stop that returns nil finds no effect in progress and none
// starts afterwards; the final Stop(background) returns nil.
//
// The file is self-contained (black box: exported API and port interfaces only).

import (
	"context"
	"errors"
	"fmt"
	"os"
	"strings"
	"testing"
	"time"

	"github.com/WuKongIM/WuKongIM/internal/runtime/channelappend"
	"github.com/WuKongIM/WuKongIM/pkg/zzverif/ev"
	"github.com/WuKongIM/WuKongIM/pkg/zzverif/vctx"
	"github.com/WuKongIM/WuKongIM/pkg/zzverif/vsched"
	"github.com/WuKongIM/WuKongIM/pkg/zzverif/vsync"
	"github.com/WuKongIM/WuKongIM/pkg/zzverif/vtime"
)

const c41rType = uint8(2)

var c41rChannels = [2]string{"ga", "gb"}

// c41rShard mirrors Group.shardForTarget (FNV-1a of "2:<id>"); guarded: the two channels live on
// different authority shards.
func c41rShard(id string, shards int) int {
	key := fmt.Sprintf("%d:%s", c41rType, id)
	h := uint64(14695981039346656037)
	for i := 0; i < len(key); i++ {
		h ^= uint64(key[i])
		h *= 1099511628211
	}
	return int(h % uint64(shards))
}

func c41rTarget(id string) channelappend.AuthorityTarget {
	return channelappend.AuthorityTarget{ChannelID: channelappend.ChannelID{ID: id, Type: c41rType}, LeaderNodeID: 1, Epoch: 1, LeaderEpoch: 1}
}

type c41rRec struct {
	id, seq uint64
	tag     string
}

type c41rCall struct {
	who      string // submitter name
	idx      int
	ch       int
	tags     []string
	callSeq  int
	retSeq   int
	refused  error
	admitted bool
	waited   bool
	results  []channelappend.SendBatchItemResult
	waitErr  error
	future   *channelappend.Future

	// lifecycle history at the moment the call started
	afterStop       bool   // some Stop call had returned
	afterStopKind   string // "expired" (only Stop calls that returned an error so far) | "completed"
	afterPause      bool   // PauseForRestore had returned
	resumeCalled    bool   // ResumeAfterRestore had been called
	afterResume     bool   // ResumeAfterRestore had returned
	resumeAfterStop bool   // ... and that resume was called after a Stop call had returned
	pauseBeforeStop bool   // ... and the pause preceded the first Stop call
	pendingAtEnd    string // for admitted-after-stop calls: state of the future after the final Stop
}

type c41rStop struct {
	mode                        string
	err                         error
	appendActive, persistActive int
}

type c41rWorld struct {
	cfg   c41rCfg
	clock int
	store [2][]c41rRec
	calls []*c41rCall
	stops []*c41rStop

	nextID        uint64
	appendActive  int
	persistActive int
	appendCalls   int
	parkedAppends int
	ctxCancelled  []string
	persisted     map[string]int
	lateWork      []string
	protoErr      []string
	tail          []string // admissions on the completely stopped group

	// lifecycle flags (harness side; one thread runs at a time)
	submitCalls     int // SubmitLocal calls begun by the early submitter
	earlyDone       bool
	lateCallsMade   int
	lateDone        bool
	pauseReturned   bool
	waitIdleDone    bool
	waitIdleErr     error
	resetDone       bool
	resetErr        error
	resumeCalled    bool
	resumeReturned  bool
	resumeAfterStop bool
	pauseBeforeStop bool
	stopCalled      bool
	stopReturned    bool
	stopCompleted   bool // a Stop call returned nil
	maintDone       bool
	stopperDone     bool
	finalErr        error
	accounted       bool
}

func (w *c41rWorld) tick() int { w.clock++; return w.clock }

type c41rIDs struct{ w *c41rWorld }

func (a c41rIDs) Next() uint64 { a.w.nextID++; return 7000 + a.w.nextID }

func (w *c41rWorld) chanIndex(id string) int {
	for i, c := range c41rChannels {
		if c == id {
			return i
		}
	}
	return -1
}

// ---------------------------------------------------------------- fakes

type c41rLog struct{ w *c41rWorld }

func (l c41rLog) AppendBatch(ctx context.Context, req channelappend.AppendBatchRequest) (channelappend.AppendBatchResult, error) {
	w := l.w
	ch := w.chanIndex(req.ChannelID.ID)
	if ch < 0 || req.ChannelID.Type != c41rType {
		w.protoErr = append(w.protoErr, "append to unknown channel "+req.ChannelID.ID)
		return channelappend.AppendBatchResult{}, channelappend.ErrChannelNotFound
	}
	w.appendCalls++
	if w.stopCompleted {
		w.lateWork = append(w.lateWork, "AppendBatch on "+req.ChannelID.ID)
	}
	w.appendActive++
	defer func() { w.appendActive-- }()
	// latency before the durable effect: a scheduling point, a 1ms virtual sleep, or parked until
	// the late submitter has made all its SubmitLocal calls (the Stop deadline and the WaitIdle
	// deadline of the maintenance actor expire meanwhile)
	if w.cfg.slow {
		vtime.Sleep(time.Millisecond)
	} else {
		vsched.Point("append-latency")
	}
	if w.cfg.park && !w.parkOpen() {
		w.parkedAppends++
		vsched.WaitUntil("append-parked", w.parkOpen)
	}
	if err := ctx.Err(); err != nil {
		w.ctxCancelled = append(w.ctxCancelled, "AppendBatch("+req.ChannelID.ID+"): "+err.Error())
		return channelappend.AppendBatchResult{}, err
	}
	var out channelappend.AppendBatchResult
	for _, m := range req.Messages {
		rec := c41rRec{id: m.MessageID, seq: uint64(len(w.store[ch]) + 1), tag: m.Topic}
		w.store[ch] = append(w.store[ch], rec)
		out.Items = append(out.Items, channelappend.AppendBatchItemResult{MessageID: rec.id, MessageSeq: rec.seq})
	}
	vsched.Point("append-reply")
	if err := ctx.Err(); err != nil {
		w.ctxCancelled = append(w.ctxCancelled, "AppendBatch("+req.ChannelID.ID+") after commit: "+err.Error())
	}
	return out, nil
}

// parkOpen: parked appends resume once the late submitter made its calls (or cannot make any more)
func (w *c41rWorld) parkOpen() bool { return w.lateDone || w.lateCallsMade >= len(w.cfg.late) }

func (l c41rLog) LookupSend(_ context.Context, q channelappend.IdempotencyQuery) (channelappend.SendResult, bool, error) {
	w := l.w
	vsched.Point("lookup-latency")
	ch := w.chanIndex(q.ChannelID)
	if ch < 0 {
		return channelappend.SendResult{}, false, nil
	}
	return channelappend.SendResult{}, false, nil
}

type c41rPersistAfter struct{ w *c41rWorld }

func (p c41rPersistAfter) EnqueuePersistAfter(ctx context.Context, e channelappend.CommittedEnvelope) {
	w := p.w
	ch := w.chanIndex(e.ChannelID)
	if ch < 0 {
		w.protoErr = append(w.protoErr, "post-commit for unknown channel "+e.ChannelID)
		return
	}
	if w.stopCompleted {
		w.lateWork = append(w.lateWork, fmt.Sprintf("post-commit effect for %s/%d", e.ChannelID, e.MessageSeq))
	}
	w.persistActive++
	defer func() { w.persistActive-- }()
	if w.cfg.slow {
		vtime.Sleep(time.Millisecond)
	} else {
		vsched.Point("post-commit-latency")
	}
	if ctx != nil {
		if err := ctx.Err(); err != nil {
			w.ctxCancelled = append(w.ctxCancelled, fmt.Sprintf("post-commit(%s/%d): %v", e.ChannelID, e.MessageSeq, err))
		}
	}
	w.persisted[fmt.Sprintf("%d/%d", ch, e.MessageSeq)]++
}

// ---------------------------------------------------------------- scenario

// gates (c41rCfg.*After): "" = at once, "sub1" = the early submitter began a SubmitLocal call,
// "early" = the early submitter finished, "pause" = PauseForRestore returned, "idle" = WaitIdle
// returned, "stop1" = the first Stop call returned, "resume" = ResumeAfterRestore returned,
// "late" = the late submitter made all its SubmitLocal calls. A gate also opens when the actor it
// waits for has finished (so no gate can hang the harness).
type c41rCfg struct {
	name        string
	early       []string // channels of the early submitter's single-send batches, e.g. {"a","a"}
	late        []string // channels of the late submitter's single-send batches
	advance     int
	effect      int
	slow        bool
	park        bool
	postCommit  bool
	stop        string // "stop" | "stop-cancelled" | "stop-timeout"
	pauseAfter  string
	stopAfter   string
	resumeAfter string
	lateAfter   string
	bound       int
	atomics     bool
}

func (w *c41rWorld) gate(name string) bool {
	switch name {
	case "":
		return true
	case "sub1":
		return w.submitCalls >= 1 || w.earlyDone
	case "early":
		return w.earlyDone
	case "pause":
		return w.pauseReturned || w.maintDone
	case "idle":
		return w.waitIdleDone || w.maintDone
	case "stop1":
		return w.stopReturned || w.stopperDone
	case "resume":
		return w.resumeReturned || w.maintDone
	case "late":
		return w.lateDone || w.lateCallsMade >= len(w.cfg.late)
	}
	panic("c41r: unknown gate " + name)
}

func c41rScenario(cfg c41rCfg) vsched.Scenario {
	return vsched.Scenario{
		Name: cfg.name, Property: "C41", Bound: cfg.bound, Horizon: 12000, Delay: true, QuietAtomics: !cfg.atomics,
		Bounds: map[string]any{"entry": "Group.SubmitLocal + Future.Wait", "early_submitter_batches_on_channels": cfg.early, "late_submitter_batches_on_channels": cfg.late,
			"advance_pool_size": cfg.advance, "effect_pool_size": cfg.effect, "append_inflight_batches_per_channel": 1,
			"effect_latency": map[bool]string{false: "scheduling point", true: "1ms virtual sleep"}[cfg.slow],
			"append_parked_until_late_submitter_done": cfg.park, "post_commit_effect": cfg.postCommit, "stop_mode": cfg.stop,
			"maintenance_actor": "PauseForRestore; WaitIdle(3ms virtual deadline); ResetAfterRestore if drained; ResumeAfterRestore",
			"gate_pause":        cfg.pauseAfter, "gate_first_stop": cfg.stopAfter, "gate_resume": cfg.resumeAfter, "gate_late_submitter": cfg.lateAfter,
			"quiet_atomics": !cfg.atomics},
		Body:  func(x *vsched.Exec) { c41rBody(x, cfg) },
		Check: c41rCheck,
	}
}

func c41rItems(tag string, ch int) []channelappend.SendBatchItem {
	return []channelappend.SendBatchItem{{Context: context.Background(), Command: channelappend.SendCommand{
		FromUID: "u-" + tag, ClientMsgNo: "n-" + tag, ChannelID: c41rChannels[ch], ChannelType: c41rType, Payload: []byte("P"), Topic: tag}}}
}

func c41rBody(x *vsched.Exec, cfg c41rCfg) {
	w := &c41rWorld{cfg: cfg, persisted: map[string]int{}}
	x.Data["w"] = w
	log := c41rLog{w}
	opts := channelappend.Options{
		LocalNodeID: 1, Appender: log, Idempotency: log, MessageID: c41rIDs{w},
		AuthorityShardCount: 2, AdvancePoolSize: cfg.advance, EffectPoolSize: cfg.effect,
		AppendInflightBatchesPerChannel: 1, InboxCoalesceWindow: -1, InboxCoalesceMaxItems: -1,
	}
	if cfg.postCommit {
		opts.PersistAfterEnqueuer = c41rPersistAfter{w}
	}
	g := channelappend.New(opts)
	if err := g.Start(context.Background()); err != nil {
		panic(err)
	}

	submit := func(who string, idx int, chName string) *c41rCall {
		ch := int(chName[0] - 'a')
		tag := fmt.Sprintf("%s.%d.%s", who, idx, chName)
		call := &c41rCall{who: who, idx: idx, ch: ch, tags: []string{tag}}
		call.afterStop = w.stopReturned
		if w.stopReturned {
			call.afterStopKind = "expired"
			if w.stopCompleted {
				call.afterStopKind = "completed"
			}
		}
		call.afterPause, call.resumeCalled, call.afterResume = w.pauseReturned, w.resumeCalled, w.resumeReturned
		call.resumeAfterStop = w.resumeReturned && w.resumeAfterStop
		call.pauseBeforeStop = w.pauseBeforeStop
		call.callSeq = w.tick()
		w.calls = append(w.calls, call)
		f, err := g.SubmitLocal(context.Background(), c41rTarget(c41rChannels[ch]), c41rItems(tag, ch))
		if err != nil {
			call.refused = err
		} else {
			call.admitted = true
			call.future = f
		}
		return call
	}
	wait := func(call *c41rCall) {
		// an admission after a Stop call returned is judged as such (the harness does not hang on
		// a Future nobody will complete; its state is read after the final Stop)
		if !call.admitted || call.afterStop {
			return
		}
		call.waited = true
		call.results, call.waitErr = call.future.Wait(context.Background())
		call.retSeq = w.tick()
	}

	var wg vsync.WaitGroup
	if len(cfg.early) > 0 {
		wg.Add(1)
		vsched.GoNamed("submitter-early", func() {
			defer wg.Done()
			defer func() { w.earlyDone = true }()
			for i, ch := range cfg.early {
				w.submitCalls++
				wait(submit("early", i, ch))
			}
		})
	} else {
		w.earlyDone = true
	}
	wg.Add(1)
	vsched.GoNamed("maintenance", func() {
		defer wg.Done()
		defer func() { w.maintDone = true }()
		vsched.WaitUntil("maintenance-entry-gate", func() bool { return w.gate(cfg.pauseAfter) })
		if !w.stopCalled {
			w.pauseBeforeStop = true
		}
		g.PauseForRestore()
		w.pauseReturned = true
		// 3 ticks of the drain loop: the maintenance drain can finish or expire
		ctx, cancel := vctx.WithTimeout(context.Background(), 3*time.Millisecond)
		w.waitIdleErr = g.WaitIdle(ctx)
		cancel()
		w.waitIdleDone = true
		if w.waitIdleErr == nil {
			w.resetErr = g.ResetAfterRestore()
			w.resetDone = true
		}
		vsched.WaitUntil("maintenance-exit-gate", func() bool { return w.gate(cfg.resumeAfter) })
		w.resumeCalled = true
		w.resumeAfterStop = w.stopReturned
		g.ResumeAfterRestore()
		w.resumeReturned = true
	})
	wg.Add(1)
	vsched.GoNamed("stopper", func() {
		defer wg.Done()
		defer func() { w.stopperDone = true }()
		vsched.WaitUntil("stopper-gate", func() bool { return w.gate(cfg.stopAfter) })
		stop := func(mode string, ctx context.Context) {
			s := &c41rStop{mode: mode}
			w.stops = append(w.stops, s)
			w.stopCalled = true
			s.err = g.Stop(ctx)
			s.appendActive, s.persistActive = w.appendActive, w.persistActive
			w.stopReturned = true
			if s.err == nil {
				w.stopCompleted = true
			}
		}
		switch cfg.stop {
		case "stop":
			stop("background", context.Background())
		case "stop-cancelled":
			ctx, cancel := context.WithCancel(context.Background())
			cancel()
			stop("cancelled", ctx)
		case "stop-timeout":
			ctx, cancel := vctx.WithTimeout(context.Background(), time.Millisecond)
			stop("timeout", ctx)
			cancel()
		default:
			panic("c41r: stop mode " + cfg.stop)
		}
		if cfg.stop != "stop" {
			// the later Stop observes the same drain; it waits until the late submitter has made
			// its calls, so that "Stop begun, not finished" lasts across the maintenance exit
			vsched.WaitUntil("stopper-second-stop-gate", func() bool { return w.gate("late") })
			stop("background-after-expired", context.Background())
		}
	})
	if len(cfg.late) > 0 {
		wg.Add(1)
		vsched.GoNamed("submitter-late", func() {
			defer wg.Done()
			defer func() { w.lateDone = true }()
			vsched.WaitUntil("late-submitter-gate", func() bool { return w.gate(cfg.lateAfter) })
			var made []*c41rCall
			for i, ch := range cfg.late {
				made = append(made, submit("late", i, ch))
				w.lateCallsMade++
			}
			for _, c := range made {
				wait(c)
			}
		})
	} else {
		w.lateDone = true
	}
	wg.Wait()

	s := &c41rStop{mode: "final"}
	s.err = g.Stop(context.Background())
	s.appendActive, s.persistActive = w.appendActive, w.persistActive
	w.stops = append(w.stops, s)
	w.finalErr = s.err
	if s.err == nil {
		w.stopCompleted = true
	}
	w.stopReturned = true

	// Futures admitted after a Stop call had returned: terminal or not, now that the group stopped?
	for _, c := range w.calls {
		if !c.admitted || c.waited {
			continue
		}
		ctx, cancel := vctx.WithTimeout(context.Background(), time.Millisecond)
		res, err := c.future.Wait(ctx)
		cancel()
		if err != nil {
			c.pendingAtEnd = "its Future has no terminal result after the final Stop(background) returned: nobody will ever complete it"
		} else {
			c.results = res
			c.pendingAtEnd = "its Future completed with " + c41rResults(res)
		}
	}

	// the completely stopped group admits nothing - plainly, after a maintenance cycle, after Start
	tail := func(step string) {
		tag := "tail-" + step
		if _, err := g.SubmitLocal(context.Background(), c41rTarget(c41rChannels[0]), c41rItems(tag, 0)); err == nil {
			w.tail = append(w.tail, step)
		}
	}
	tail("plain")
	g.PauseForRestore()
	g.ResumeAfterRestore()
	tail("after-pause-resume")
	startErr := g.Start(context.Background())
	tail("after-start")

	for _, c := range w.calls {
		x.Log("%s#%d ch=%s after-stop=%v/%s after-pause=%v after-resume=%v refused=%v results=%s", c.who, c.idx, c41rChannels[c.ch], c.afterStop, c.afterStopKind, c.afterPause, c.afterResume, c.refused, c41rResults(c.results))
	}
	for _, st := range w.stops {
		x.Log("stop[%s]=%v", st.mode, st.err)
	}
	x.Log("wait-idle=%v reset=%v/%v start-after-stop=%v tail=%v", w.waitIdleErr, w.resetDone, w.resetErr, startErr, w.tail)
	for ch := range w.store {
		var rows []string
		for _, r := range w.store[ch] {
			rows = append(rows, fmt.Sprintf("%d:%s", r.seq, r.tag))
		}
		x.Log("log %s=%v", c41rChannels[ch], rows)
	}
}

func c41rClass(r channelappend.SendBatchItemResult) string {
	switch {
	case r.Err != nil && errors.Is(r.Err, channelappend.ErrRouteNotReady):
		return "not-ready"
	case r.Err != nil && errors.Is(r.Err, channelappend.ErrAppendFailed):
		return "append-failed"
	case r.Err != nil && errors.Is(r.Err, channelappend.ErrBackpressured):
		return "backpressured"
	case r.Err != nil && errors.Is(r.Err, context.Canceled):
		return "cancelled"
	case r.Err != nil:
		return "error:" + r.Err.Error()
	case r.Result.Reason == channelappend.ReasonSuccess:
		return fmt.Sprintf("ok@%d", r.Result.MessageSeq)
	default:
		return fmt.Sprintf("reason%d", r.Result.Reason)
	}
}

func c41rResults(rs []channelappend.SendBatchItemResult) string {
	var parts []string
	for _, r := range rs {
		parts = append(parts, c41rClass(r))
	}
	return "[" + strings.Join(parts, " ") + "]"
}

// ---------------------------------------------------------------- oracle

var c41rStats = map[string]int64{}

func c41rAccount(w *c41rWorld) {
	st := c41rStats
	st["restore_executions"]++
	if w.parkedAppends > 0 {
		st["restore_exec_with_parked_append"]++
	}
	if w.waitIdleDone && w.waitIdleErr == nil {
		st["restore_wait_idle_drained"]++
	}
	if w.waitIdleDone && w.waitIdleErr != nil {
		st["restore_wait_idle_expired"]++
	}
	if w.resetDone && w.resetErr == nil {
		st["restore_reset_after_restore_ok"]++
	}
	if w.resumeReturned && w.resumeAfterStop {
		st["restore_resume_called_after_a_stop_returned"]++
	}
	for _, c := range w.calls {
		if c.afterStop {
			st["restore_calls_started_after_a_stop_returned"]++
		}
		if c.refused != nil {
			st["restore_calls_refused_at_admission"]++
		}
		if c.afterPause && !c.resumeCalled && !c.afterStop && c.refused != nil {
			st["restore_calls_refused_while_paused"]++
		}
		if c.afterResume && !c.afterStop && c.admitted {
			st["restore_calls_admitted_after_resume_without_stop"]++
		}
		if c.afterStop && c.resumeAfterStop && c.pauseBeforeStop {
			// the sequence pause -> a Stop call returned -> resume -> SubmitLocal
			st["restore_calls_after_pause_stop_resume"]++
			st["restore_calls_after_pause_stop_resume_stop_"+c.afterStopKind]++
		}
		if c.admitted && c.waited {
			st["restore_admitted_calls_completed"]++
		}
	}
	for _, s := range w.stops {
		if s.mode == "final" {
			continue
		}
		if s.err != nil {
			st["restore_stop_calls_expired"]++
			if s.appendActive > 0 {
				st["restore_stop_expired_while_append_in_progress"]++
			}
		} else {
			st["restore_stop_calls_drained"]++
		}
	}
}

func c41rCheck(x *vsched.Exec) error {
	w, _ := x.Data["w"].(*c41rWorld)
	if w == nil {
		return nil
	}
	const P = "C41"
	if !w.accounted {
		w.accounted = true
		c41rAccount(w)
	}
	if len(w.protoErr) > 0 {
		return vsched.Violatef(P+":harness-protocol", "harness protocol broken: %v", w.protoErr)
	}
	perTag := map[string]int{}
	for ch := range w.store {
		for _, r := range w.store[ch] {
			perTag[r.tag]++
		}
	}

	// ---- no new send is admitted after a stop began (observed: after a Stop call returned)
	for _, c := range w.calls {
		if !c.afterStop {
			continue
		}
		history := "no maintenance resume in between"
		if c.resumeAfterStop {
			history = "ResumeAfterRestore had been called and had returned after that Stop call returned"
			if c.pauseBeforeStop {
				history += " (PauseForRestore preceded the first Stop call)"
			}
		} else if c.afterResume {
			history = "ResumeAfterRestore had returned before"
		}
		if c.admitted {
			return vsched.Violatef(P+":send-admitted-after-stop-returned", "send %s: SubmitLocal was called after a Stop call had returned (%s) and admitted the batch; %s; %s", c.tags[0], c.afterStopKind, history, c.pendingAtEnd)
		}
		if perTag[c.tags[0]] > 0 {
			return vsched.Violatef(P+":send-admitted-after-stop-returned", "send %s was submitted after a Stop call had returned and reached the log", c.tags[0])
		}
	}
	if len(w.tail) > 0 {
		return vsched.Violatef(P+":send-admitted-after-stop-completed", "the group whose Stop(background) had returned nil admitted a batch (%v)", w.tail)
	}

	// ---- every admitted send gets its terminal result; nothing admitted is cancelled or dropped
	for _, c := range w.calls {
		if c.refused != nil {
			if !errors.Is(c.refused, channelappend.ErrRouteNotReady) && !errors.Is(c.refused, channelappend.ErrBackpressured) {
				return vsched.Violatef(P+":unexpected-admission-error", "SubmitLocal %s refused with %v", c.tags[0], c.refused)
			}
			if perTag[c.tags[0]] > 0 {
				return vsched.Violatef(P+":refused-send-appended", "send %s was refused at admission (%v) but reached the log", c.tags[0], c.refused)
			}
			continue
		}
		if c.waitErr != nil {
			return vsched.Violatef(P+":harness-protocol", "Future.Wait(background) returned %v", c.waitErr)
		}
		if len(c.results) != len(c.tags) {
			return vsched.Violatef(P+":result-vector-length", "batch %s: %d results for %d items", c.tags[0], len(c.results), len(c.tags))
		}
		for i, tag := range c.tags {
			r := c.results[i]
			if r.Err != nil || r.Result.Reason != channelappend.ReasonSuccess {
				if r.Err != nil && (errors.Is(r.Err, context.Canceled) || errors.Is(r.Err, context.DeadlineExceeded)) {
					return vsched.Violatef(P+":admitted-send-cancelled", "send %s (background context, no deadline) completed with %v", tag, r.Err)
				}
				return vsched.Violatef(P+":admitted-send-failed-without-environment-fault", "send %s was admitted and answered %s although the appender never failed", tag, c41rClass(r))
			}
			found := false
			for _, rec := range w.store[c.ch] {
				if rec.id == r.Result.MessageID && rec.seq == r.Result.MessageSeq && rec.tag == tag {
					found = true
				}
			}
			if !found {
				return vsched.Violatef(P+":success-without-stored-message", "send %s: success id=%d seq=%d but channel %s holds no such record", tag, r.Result.MessageID, r.Result.MessageSeq, c41rChannels[c.ch])
			}
			if perTag[tag] != 1 {
				return vsched.Violatef(P+":admitted-send-stored-more-than-once", "send %s is stored %d times", tag, perTag[tag])
			}
			if w.cfg.postCommit && w.persisted[fmt.Sprintf("%d/%d", c.ch, r.Result.MessageSeq)] == 0 {
				return vsched.Violatef(P+":post-commit-effect-dropped", "channel %s seq %d (send %s) was acknowledged but its post-commit effect never ran although Stop(background) returned nil", c41rChannels[c.ch], r.Result.MessageSeq, tag)
			}
		}
	}

	// ---- the stop itself
	if w.finalErr != nil {
		return vsched.Violatef(P+":final-stop-failed", "Stop with a background context returned %v", w.finalErr)
	}
	for _, s := range w.stops {
		if s.mode == "background" && s.err != nil {
			return vsched.Violatef(P+":final-stop-failed", "Stop with a background context returned %v", s.err)
		}
		if s.err == nil && (s.appendActive > 0 || s.persistActive > 0) {
			return vsched.Violatef(P+":stop-returned-nil-before-drain", "Stop[%s] returned nil while %d AppendBatch and %d post-commit calls were still running", s.mode, s.appendActive, s.persistActive)
		}
	}
	if len(w.lateWork) > 0 {
		return vsched.Violatef(P+":work-started-after-stop-returned-nil", "after a Stop call returned nil: %v", w.lateWork)
	}
	if len(w.ctxCancelled) > 0 {
		return vsched.Violatef(P+":accepted-work-cancelled", "a running effect saw its context cancelled: %v", w.ctxCancelled)
	}
	return nil
}

// ---------------------------------------------------------------- test

func TestVerifC41Restore(t *testing.T) {
	r := ev.Start(t, "C41")
	defer r.Finish()
	thorough := r.Thorough()
	var cfgs []c41rCfg
	add := func(base string, c c41rCfg) {
		if c.advance == 0 {
			c.advance = 1
		}
		if c.effect == 0 {
			c.effect = 1
		}
		c.name = fmt.Sprintf("restore-%s-%s-adv%d-eff%d-b%d", base, c.stop, c.advance, c.effect, c.bound)
		for _, f := range []struct {
			on  bool
			tag string
		}{{c.slow, "slow"}, {c.park, "park"}, {c.postCommit, "pc"}, {c.atomics, "atomics"}} {
			if f.on {
				c.name += "-" + f.tag
			}
		}
		cfgs = append(cfgs, c)
	}
	a1, a2, ab := []string{"a"}, []string{"a", "a"}, []string{"a", "b"}
	// directed: maintenance entered after the first send began, Stop begins after the pause, the
	// maintenance exit follows the first Stop call, the late send follows the exit
	directed := func(c c41rCfg) c41rCfg {
		c.pauseAfter, c.stopAfter, c.resumeAfter, c.lateAfter = "sub1", "pause", "stop1", "resume"
		return c
	}
	if thorough {
		// delay bound 3 with one advance / effect worker, delay bound 2 with two
		for _, adv := range []int{1, 2} {
			b := 4 - adv
			add("directed", directed(c41rCfg{early: a2, late: ab, stop: "stop-timeout", park: true, postCommit: true, advance: adv, effect: adv, bound: b}))
			add("directed", directed(c41rCfg{early: a2, late: ab, stop: "stop", postCommit: true, advance: adv, effect: adv, bound: b}))
			add("directed", directed(c41rCfg{early: a2, late: ab, stop: "stop-cancelled", slow: true, advance: adv, effect: adv, bound: b}))
			add("free", c41rCfg{early: a2, late: ab, stop: "stop-cancelled", lateAfter: "resume", advance: adv, effect: adv, bound: b})
			add("free", c41rCfg{early: a2, late: ab, stop: "stop", slow: true, postCommit: true, advance: adv, effect: adv, bound: 2})
		}
		add("directed", directed(c41rCfg{early: a1, late: a1, stop: "stop-timeout", park: true, atomics: true, bound: 2}))
		add("directed", directed(c41rCfg{early: a1, late: a1, stop: "stop", atomics: true, bound: 2}))
		add("stop-first", c41rCfg{early: a1, late: ab, stop: "stop-timeout", park: true, pauseAfter: "stop1", lateAfter: "resume", bound: 3})
		add("resume-first", c41rCfg{early: a1, late: ab, stop: "stop", pauseAfter: "sub1", lateAfter: "resume", stopAfter: "late", postCommit: true, bound: 2})
		add("free", c41rCfg{early: a2, late: ab, stop: "stop-timeout", slow: true, bound: 2})
	} else {
		add("directed", directed(c41rCfg{early: a1, late: ab, stop: "stop-timeout", park: true, bound: 2}))
		add("directed", directed(c41rCfg{early: a1, late: a1, stop: "stop", postCommit: true, bound: 2}))
		add("directed", directed(c41rCfg{early: a1, late: a1, stop: "stop-cancelled", slow: true, bound: 2}))
		add("stop-first", c41rCfg{early: a1, late: a1, stop: "stop-timeout", park: true, pauseAfter: "stop1", lateAfter: "resume", bound: 2})
		add("resume-first", c41rCfg{early: a1, late: ab, stop: "stop", pauseAfter: "sub1", lateAfter: "resume", stopAfter: "late", bound: 2})
		add("free", c41rCfg{early: a2, late: a1, stop: "stop-cancelled", lateAfter: "resume", bound: 2})
	}

	sa, sb := c41rShard(c41rChannels[0], 2), c41rShard(c41rChannels[1], 2)
	r.Guard("restore-channels-on-different-shards", sa != sb, "shard(%s)=%d shard(%s)=%d of 2", c41rChannels[0], sa, c41rChannels[1], sb)
	if dbg := os.Getenv("VERIF_C41R_DEBUG"); dbg != "" {
		for _, c := range cfgs {
			if c.name != dbg {
				continue
			}
			sc := c41rScenario(c)
			x := &vsched.Exec{Data: map[string]any{}}
			x.Out = vsched.Run(vsched.Options{Horizon: sc.Horizon, Trace: true, Delay: true, QuietAtomics: sc.QuietAtomics}, func() { sc.Body(x) })
			fmt.Println("scenario", sc.Name, "steps", x.Out.Steps, "points", len(x.Out.Points), "deadlock", x.Out.Deadlock, "panic", x.Out.Panic, "unsupported", x.Out.Unsupported)
			for _, l := range x.Out.BlockedAt {
				fmt.Println(l)
			}
			for _, l := range x.Obs {
				fmt.Println(l)
			}
			fmt.Println("check:", sc.Check(x))
		}
		return
	}
	var execs int64
	outcomes := 0
	only := os.Getenv("VERIF_C41R_ONLY") // development aid (the guards then fail)
	for _, c := range cfgs {
		if only != "" && !strings.Contains(c.name, only) {
			continue
		}
		start := time.Now()
		st := vsched.Explore(r, c41rScenario(c))
		execs += st.Executions
		if st.Outcomes > outcomes {
			outcomes = st.Outcomes
		}
		fmt.Printf("scenario %s: executions=%d outcomes=%d maxpoints=%d exhaustive=%v wall=%.1fs\n", c.name, st.Executions, st.Outcomes, st.MaxPoints, st.Exhaustive, time.Since(start).Seconds())
	}
	if r.Replay() != nil {
		return
	}
	for _, k := range vsched.SortedKeys(c41rStats) {
		r.Count(k, c41rStats[k])
	}
	r.Assume("restore run: the maintenance actor makes the calls of internal/app/backup_maintenance.go (PauseForRestore, WaitIdle with a deadline, ResetAfterRestore only after a finished drain, ResumeAfterRestore) in that order, once; the ants worker pools are the vants model; data races are invisible to a cooperative scheduler")
	r.Guard("restore-executions", execs >= 300, "executions=%d", execs)
	r.Guard("restore-outcomes", outcomes >= 3, "max distinct outcomes in one scenario=%d", outcomes)
	for _, k := range []string{"restore_calls_started_after_a_stop_returned", "restore_calls_refused_at_admission", "restore_calls_refused_while_paused",
		"restore_calls_admitted_after_resume_without_stop", "restore_calls_after_pause_stop_resume_stop_expired", "restore_calls_after_pause_stop_resume_stop_completed",
		"restore_resume_called_after_a_stop_returned", "restore_stop_calls_expired", "restore_stop_calls_drained", "restore_stop_expired_while_append_in_progress",
		"restore_exec_with_parked_append", "restore_wait_idle_drained", "restore_wait_idle_expired", "restore_reset_after_restore_ok", "restore_admitted_calls_completed"} {
		r.Guard(k, c41rStats[k] >= 1, "%s=%d", k, c41rStats[k])
	}
}
