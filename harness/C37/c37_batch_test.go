package workqueue_test

// C37 - part: BoundedBatchPool (policy-driven adjacent batches, cancel-accepted close).

import (
	"github.com/WuKongIM/WuKongIM/pkg/zzverif/ev"
)

func c37BatchSpecs(r *ev.R) []c37Spec {
	wide := ev.Pick(r, 3, 4) // delay bound of the parameterised scenarios
	deep := ev.Pick(r, 3, 4) // plain 2x2 + closer scenarios (bound 5 is affordable only for the cheaper worker queue and mailbox)
	d := "batch"
	return []c37Spec{
		{Name: "batch-w1-q1-max1-drain-abc", Driver: d, Workers: 1, QSize: 1, BatchMax: 1, Order: "abc", Bound: deep},
		{Name: "batch-w1-q2-max2wait-drain-acb", Driver: d, Workers: 1, QSize: 2, BatchMax: 2, BatchWait: true, Order: "acb", Latency: true, Bound: wide},
		{Name: "batch-w2-q2-max2wait-drain-cab-closeafter2", Driver: d, Workers: 2, QSize: 2, BatchMax: 2, BatchWait: true, Order: "cab", CloseAfter: 2, Bound: wide},
		{Name: "batch-w1-q1-max1-cancel-abc", Driver: d, Workers: 1, QSize: 1, BatchMax: 1, CancelAccepted: true, Order: "abc", Bound: deep},
		{Name: "batch-w1-q2-max2wait-cancel-acb", Driver: d, Workers: 1, QSize: 2, BatchMax: 2, BatchWait: true, CancelAccepted: true, Order: "acb", Latency: true, Bound: wide},
		{Name: "batch-w2-q2-max1-cancel-bca-closeafter1", Driver: d, Workers: 2, QSize: 2, BatchMax: 1, CancelAccepted: true, Order: "bca", CloseAfter: 1, Latency: true, Bound: wide},
		{Name: "batch-w1-q2-max2-cancel-subcancelled", Driver: d, Workers: 1, QSize: 2, BatchMax: 2, CancelAccepted: true, Order: "bac", SubCtx: "cancelled", Bound: wide},
		{Name: "batch-w1-q2-max2wait-drain-close-expired", Driver: d, Workers: 1, QSize: 2, BatchMax: 2, BatchWait: true, Order: "abc", CloseCtx: "expired", Latency: true, Bound: wide},
		{Name: "batch-w1-q2-max1-cancel-close-timeout", Driver: d, Workers: 1, QSize: 2, BatchMax: 1, CancelAccepted: true, Order: "acb", CloseCtx: "timeout", Latency: true, Bound: wide},
		{Name: "batch-w1-q2-max2wait-cancel-b-after-first-item", Driver: d, Workers: 1, QSize: 2, BatchMax: 2, BatchWait: true, CancelAccepted: true, Order: "abc", Latency: true, BAfterHandled: 1, Bound: wide},
	}
}
