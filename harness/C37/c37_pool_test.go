package workqueue_test

// C37 - part: BoundedPool (dispatcher + ants executor).

import (
	"github.com/WuKongIM/WuKongIM/pkg/zzverif/ev"
)

func c37PoolSpecs(r *ev.R) []c37Spec {
	wide := ev.Pick(r, 3, 4) // delay bound of the parameterised scenarios
	deep := ev.Pick(r, 3, 4) // plain 2x2 + closer scenarios (bound 5 is affordable only for the cheaper worker queue and mailbox)
	d := "pool"
	return []c37Spec{
		{Name: "pool-w1-q1-submit-abc", Driver: d, Workers: 1, QSize: 1, Order: "abc", Bound: deep},
		{Name: "pool-w2-q2-submit-cab-latency", Driver: d, Workers: 2, QSize: 2, Order: "cab", Latency: true, Bound: wide},
		{Name: "pool-w1-q2-submit-acb-closeafter1", Driver: d, Workers: 1, QSize: 2, Order: "acb", CloseAfter: 1, Latency: true, Bound: wide},
		{Name: "pool-w1-q1-wait-abc", Driver: d, Workers: 1, QSize: 1, Wait: true, Order: "abc", Bound: deep},
		{Name: "pool-w2-q1-wait-bca-closeafter2", Driver: d, Workers: 2, QSize: 1, Wait: true, Order: "bca", CloseAfter: 2, Latency: true, Bound: wide},
		{Name: "pool-w1-q1-wait-subtimeout", Driver: d, Workers: 1, QSize: 1, Wait: true, Order: "abc", SubCtx: "timeout", Latency: true, Bound: wide},
		{Name: "pool-w1-q2-submit-subcancelled", Driver: d, Workers: 1, QSize: 2, Order: "bac", SubCtx: "cancelled", Bound: wide},
		{Name: "pool-w1-q2-submit-close-expired", Driver: d, Workers: 1, QSize: 2, Order: "abc", CloseCtx: "expired", Latency: true, Bound: wide},
		{Name: "pool-w1-q1-wait-close-timeout", Driver: d, Workers: 1, QSize: 1, Wait: true, Order: "acb", CloseCtx: "timeout", Latency: true, Bound: wide},
		{Name: "pool-w2-q2-submit-latency-b-after-first-item", Driver: d, Workers: 2, QSize: 2, Order: "abc", Latency: true, BAfterHandled: 1, Bound: wide},
	}
}
