package workqueue_test

// C37 - Work queues run each accepted task exactly once.
//
// Shared scenario builder + oracle for the four drivers (BoundedPool, BoundedBatchPool,
// BoundedWorkerQueue, ShardedMailbox). Every scenario is: N producer threads x M tasks,
// one closer thread calling Close, spawned in a configurable order, explored by the
// controlled scheduler (delay bounding) against the rewritten REAL pkg/workqueue code.

import (
	"context"
	"errors"
	"fmt"
	"hash/fnv"
	"os"
	"runtime"
	"sort"
	"strings"
	"sync/atomic"
	"testing"
	"time"

	"github.com/WuKongIM/WuKongIM/pkg/workqueue"
	"github.com/WuKongIM/WuKongIM/pkg/zzverif/ev"
	"github.com/WuKongIM/WuKongIM/pkg/zzverif/vctx"
	"github.com/WuKongIM/WuKongIM/pkg/zzverif/vsched"
	"github.com/WuKongIM/WuKongIM/pkg/zzverif/vsync"
)

// ---------------------------------------------------------------- scenario description

type c37Spec struct {
	Name    string
	Driver  string // "pool" | "batch" | "workerqueue" | "mailbox"
	Workers int
	QSize   int
	Per     int    // tasks per producer (2 producers)
	Wait    bool   // SubmitWait instead of Submit (pool, workerqueue)
	Order   string // spawn order: 'a','b' = producers, 'c' = closer
	// CloseCtx: "bg" background, "expired" already cancelled, "timeout" virtual-time deadline
	CloseCtx string
	// SubCtx: "bg"; "cancelled" = producer b submits its FIRST task with an already
	// cancelled context; "timeout" = producer b submits with a virtual-time deadline
	SubCtx string
	// Latency: the handler contains a scheduling point (it can be preempted mid-call)
	Latency bool
	// CloseAfter: the closer calls Close only after this many Submit calls returned
	CloseAfter int
	// BAfterHandled: producer b starts submitting only after this many items were handled
	// (puts "submit while a drain / worker is winding down" within reach of few deviations)
	BAfterHandled int
	// batch pool
	BatchMax       int  // policy MaxItems (1 or 2)
	BatchWait      bool // policy MaxWait > 0 (wait window for one adjacent peer)
	CancelAccepted bool // CancelAcceptedOnClose + CancelAccepted hook
	// mailbox
	Shards  int
	KeyMode string // "same" | "diff" | "mixed"
	MBBatch int    // BatchMaxItems
	MBWait  bool   // BatchMaxWait > 0
	Bound   int
	Horizon int
}

func (s c37Spec) bounds() map[string]any {
	b := map[string]any{"driver": s.Driver, "workers": s.Workers, "queue_size": s.QSize, "producers": 2, "tasks_per_producer": s.Per,
		"submit_wait": s.Wait, "spawn_order": s.Order, "close_ctx": s.CloseCtx, "submit_ctx": s.SubCtx, "handler_latency_point": s.Latency,
		"close_after_returned_submits": s.CloseAfter, "producer_b_starts_after_handled_items": s.BAfterHandled}
	if s.Driver == "batch" {
		b["batch_max_items"] = s.BatchMax
		b["batch_wait_window"] = s.BatchWait
		b["cancel_accepted_on_close"] = s.CancelAccepted
	}
	if s.Driver == "mailbox" {
		b["shards"] = s.Shards
		b["key_mode"] = s.KeyMode
		b["batch_max_items"] = s.MBBatch
		b["batch_wait_window"] = s.MBWait
	}
	return b
}

// ---------------------------------------------------------------- per-execution record

type c37Task struct {
	id        int
	key       string
	ctxKind   string // "bg" | "cancelled" | "timeout"
	callSeq   int
	retSeq    int
	returned  bool
	err       error
	ran       int
	cancels   int
	cancelErr error
	finSeq    int // logical time of the last handler / hook exit (0 = never)
	shard     int // shard reported by the handler (-1 = unknown)
}

type c37Rec struct {
	spec  c37Spec
	seq   int
	tasks map[int]*c37Task
	ids   []int

	returned  int // number of Submit calls that returned
	returnedA int // ... of producer a
	admittedA int // ... of producer a with a nil result

	closeCallSeq  int
	closeRetSeq   int
	closeReturned bool
	closeErr      error

	active        map[int]int   // handler calls in flight per shard
	overlaps      []int         // shards on which two handler calls overlapped
	shardSeq      map[int][]int // per shard: items in processing order
	maxBatch      int
	handled       int           // items whose handler call has finished
	bogus         []int         // item ids handed to a handler / hook that were never submitted
	handlerEnds   map[int][]int // per shard: logical end times of handler calls
	shardMismatch string        // harness self-check: observed shard != fnv(key) % shards
}

func (r *c37Rec) tick() int { r.seq++; return r.seq }

func c37ErrName(err error) string {
	switch {
	case err == nil:
		return "ok"
	case errors.Is(err, workqueue.ErrFull):
		return "full"
	case errors.Is(err, workqueue.ErrClosed):
		return "closed"
	case errors.Is(err, context.Canceled):
		return "canceled"
	case errors.Is(err, context.DeadlineExceeded):
		return "deadline"
	default:
		return "other:" + err.Error()
	}
}

// handle is called by every fake handler: ids are processed as ONE handler call on shard.
func (r *c37Rec) handle(x *vsched.Exec, shard int, ids []int) {
	r.active[shard]++
	if r.active[shard] > 1 {
		r.overlaps = append(r.overlaps, shard)
	}
	if len(ids) > r.maxBatch {
		r.maxBatch = len(ids)
	}
	for _, id := range ids {
		t := r.tasks[id]
		if t == nil {
			r.bogus = append(r.bogus, id)
			continue
		}
		t.ran++
		t.shard = shard
		r.shardSeq[shard] = append(r.shardSeq[shard], id)
	}
	x.Log("run s%d %v", shard, ids)
	if r.spec.Latency {
		vsched.Point("handler-latency")
	}
	for _, id := range ids {
		if t := r.tasks[id]; t != nil {
			t.finSeq = r.tick()
			r.handled++
			if r.spec.Driver == "mailbox" && int(c37Hash(t.key)%uint64(r.spec.Shards)) != shard {
				r.shardMismatch = fmt.Sprintf("item %d key %q ran on shard %d", id, t.key, shard)
			}
		}
	}
	r.handlerEnds[shard] = append(r.handlerEnds[shard], r.tick())
	r.active[shard]--
}

func (r *c37Rec) cancelled(x *vsched.Exec, id int, err error) {
	t := r.tasks[id]
	if t == nil {
		r.bogus = append(r.bogus, id)
		return
	}
	t.cancels++
	t.cancelErr = err
	x.Log("cancel-hook %d %s", id, c37ErrName(err))
	t.finSeq = r.tick()
}

// ---------------------------------------------------------------- drivers

type c37Driver struct {
	submit func(ctx context.Context, t *c37Task, wait bool) error
	close  func(ctx context.Context) error
}

const (
	c37BatchWait = 50 * time.Microsecond
	c37SubmitTO  = 5 * time.Microsecond
	c37CloseTO   = 30 * time.Microsecond
)

func c37Hash(key string) uint64 {
	h := fnv.New64a()
	_, _ = h.Write([]byte(key))
	return h.Sum64()
}

// c37Keys returns three keys: k[0], k[1] hash to the same shard (of n), k[2] to another one.
func c37Keys(n int) [3]string {
	var out [3]string
	cands := []string{"alpha", "bravo", "charlie", "delta", "echo", "foxtrot", "golf", "hotel", "india", "juliet"}
	out[0] = cands[0]
	s0 := c37Hash(cands[0]) % uint64(n)
	for _, c := range cands[1:] {
		s := c37Hash(c) % uint64(n)
		if s == s0 && out[1] == "" {
			out[1] = c
		}
		if s != s0 && out[2] == "" {
			out[2] = c
		}
	}
	return out
}

func c37Build(x *vsched.Exec, rec *c37Rec) c37Driver {
	s := rec.spec
	switch s.Driver {
	case "pool":
		p, err := workqueue.NewBoundedPool[int](workqueue.BoundedPoolConfig{Name: "c37", Workers: s.Workers, QueueSize: s.QSize},
			func(_ context.Context, item int) error { rec.handle(x, 0, []int{item}); return nil })
		if err != nil {
			panic(err)
		}
		return c37Driver{
			submit: func(ctx context.Context, t *c37Task, wait bool) error {
				if wait {
					return p.SubmitWait(ctx, t.id)
				}
				return p.Submit(ctx, t.id)
			},
			close: p.Close,
		}
	case "workerqueue":
		q, err := workqueue.NewBoundedWorkerQueue[int](workqueue.BoundedWorkerQueueConfig{Name: "c37", Workers: s.Workers, QueueSize: s.QSize},
			func(_ context.Context, item int) error { rec.handle(x, 0, []int{item}); return nil })
		if err != nil {
			panic(err)
		}
		return c37Driver{
			submit: func(ctx context.Context, t *c37Task, wait bool) error {
				if wait {
					return q.SubmitWait(ctx, t.id)
				}
				return q.Submit(ctx, t.id)
			},
			close: q.Close,
		}
	case "batch":
		cfg := workqueue.BoundedBatchPoolConfig[int]{Name: "c37", Workers: s.Workers, QueueSize: s.QSize,
			CancelAcceptedOnClose: s.CancelAccepted,
			// the hook is always installed: with CancelAcceptedOnClose off it must never be called
			CancelAccepted: func(item int, err error) { rec.cancelled(x, item, err) },
		}
		if s.BatchMax > 1 {
			opts := workqueue.BatchOptions{MaxItems: s.BatchMax}
			if s.BatchWait {
				opts.MaxWait = c37BatchWait
			}
			cfg.Policy = func(int) workqueue.BatchOptions { return opts }
		}
		p, err := workqueue.NewBoundedBatchPool[int](cfg, func(_ context.Context, items []int) error {
			rec.handle(x, 0, append([]int(nil), items...))
			return nil
		})
		if err != nil {
			panic(err)
		}
		return c37Driver{
			submit: func(ctx context.Context, t *c37Task, _ bool) error { return p.Submit(ctx, t.id) },
			close:  p.Close,
		}
	case "mailbox":
		cfg := workqueue.ShardedMailboxConfig{Name: "c37", Shards: s.Shards, Workers: s.Workers, QueueSizePerShard: s.QSize, BatchMaxItems: s.MBBatch}
		if s.MBWait {
			cfg.BatchMaxWait = c37BatchWait
		}
		m, err := workqueue.NewShardedMailbox[int](cfg, func(_ context.Context, b workqueue.MailboxBatch[int]) error {
			rec.handle(x, b.Shard, append([]int(nil), b.Items...))
			return nil
		})
		if err != nil {
			panic(err)
		}
		return c37Driver{
			submit: func(ctx context.Context, t *c37Task, _ bool) error { return m.Submit(ctx, t.key, t.id) },
			close:  m.Close,
		}
	}
	panic("c37: unknown driver " + s.Driver)
}

// ---------------------------------------------------------------- scenario

func c37Scenario(s c37Spec) vsched.Scenario {
	if s.Per == 0 {
		s.Per = 2
	}
	if s.Order == "" {
		s.Order = "abc"
	}
	if s.CloseCtx == "" {
		s.CloseCtx = "bg"
	}
	if s.SubCtx == "" {
		s.SubCtx = "bg"
	}
	if s.Horizon == 0 {
		s.Horizon = 8000
	}
	if s.Driver == "mailbox" {
		if s.Shards == 0 {
			s.Shards = 2
		}
		if s.MBBatch == 0 {
			s.MBBatch = 1
		}
		if s.KeyMode == "" {
			s.KeyMode = "same"
		}
	}
	if s.Driver == "batch" && s.BatchMax == 0 {
		s.BatchMax = 1
	}
	keys := c37Keys(2)
	return vsched.Scenario{
		Name: s.Name, Property: "C37", Bound: s.Bound, Horizon: s.Horizon, Delay: true,
		Bounds: s.bounds(),
		Note:   "2 producers x tasks + closer against the real (rewritten) " + s.Driver + "; oracle per complete execution",
		Body: func(x *vsched.Exec) {
			c37Progress.Add(1)
			rec := &c37Rec{spec: s, tasks: map[int]*c37Task{}, active: map[int]int{}, shardSeq: map[int][]int{}, handlerEnds: map[int][]int{}}
			x.Data["rec"] = rec
			for p := 0; p < 2; p++ {
				for i := 0; i < s.Per; i++ {
					t := &c37Task{id: (p+1)*10 + i, shard: -1, ctxKind: "bg"}
					if p == 1 {
						switch {
						case s.SubCtx == "cancelled" && i == 0:
							t.ctxKind = "cancelled"
						case s.SubCtx == "timeout":
							t.ctxKind = "timeout"
						}
					}
					if s.Driver == "mailbox" {
						switch s.KeyMode {
						case "same": // two different keys, one shard
							t.key = keys[p]
						case "diff": // two keys, two shards
							t.key = keys[p*2]
						default: // mixed: a: k0,k2  b: k1,k0
							if p == 0 {
								t.key = keys[(i%2)*2]
							} else {
								t.key = keys[1-(i%2)]
							}
						}
					}
					rec.tasks[t.id] = t
					rec.ids = append(rec.ids, t.id)
				}
			}
			drv := c37Build(x, rec)
			var wg vsync.WaitGroup
			producer := func(p int) {
				defer wg.Done()
				if p == 1 && s.BAfterHandled > 0 {
					// opens after N handled items; also when that can no longer happen (Close returned,
					// or producer a is done and everything it got admitted has been handled)
					vsched.WaitUntil("producer-b-gate", func() bool {
						return rec.handled >= s.BAfterHandled || rec.closeReturned || (rec.returnedA == s.Per && rec.handled >= rec.admittedA)
					})
				}
				for i := 0; i < s.Per; i++ {
					t := rec.tasks[(p+1)*10+i]
					ctx := context.Background()
					var cancel context.CancelFunc
					switch t.ctxKind {
					case "cancelled":
						ctx, cancel = context.WithCancel(ctx)
						cancel()
					case "timeout":
						ctx, cancel = vctx.WithTimeout(ctx, c37SubmitTO)
					}
					t.callSeq = rec.tick()
					err := drv.submit(ctx, t, s.Wait)
					t.retSeq = rec.tick()
					t.err = err
					t.returned = true
					rec.returned++
					if p == 0 {
						rec.returnedA++
						if err == nil {
							rec.admittedA++
						}
					}
					x.Log("submit %d %s", t.id, c37ErrName(err))
					if cancel != nil {
						cancel()
					}
				}
			}
			closer := func() {
				defer wg.Done()
				if s.CloseAfter > 0 {
					vsched.WaitUntil("closer-gate", func() bool { return rec.returned >= s.CloseAfter })
				}
				ctx := context.Background()
				var cancel context.CancelFunc
				switch s.CloseCtx {
				case "expired":
					ctx, cancel = context.WithCancel(ctx)
					cancel()
				case "timeout":
					ctx, cancel = vctx.WithTimeout(ctx, c37CloseTO)
				}
				rec.closeCallSeq = rec.tick()
				err := drv.close(ctx)
				rec.closeRetSeq = rec.tick()
				rec.closeErr = err
				rec.closeReturned = true
				x.Log("close %s", c37ErrName(err))
				if cancel != nil {
					cancel()
				}
			}
			for _, c := range s.Order {
				wg.Add(1)
				switch c {
				case 'a':
					vsched.GoNamed("producer-a", func() { producer(0) })
				case 'b':
					vsched.GoNamed("producer-b", func() { producer(1) })
				case 'c':
					vsched.GoNamed("closer", closer)
				}
			}
			wg.Wait()
		},
		Check: func(x *vsched.Exec) error { return c37Judge(x.Data["rec"].(*c37Rec)) },
	}
}

// ---------------------------------------------------------------- oracle

var c37Seen = map[string]int64{}

// c37HarnessErr: harness self-check failure (reported as a harness error, never a violation)
var c37HarnessErr string

func c37Note(k string) { c37Seen[k]++ }

// c37Check returns EVERY finding of one complete execution, most specific first.
func c37Check(r *c37Rec) []error {
	s := r.spec
	d := s.Driver
	var out []error
	bad := func(fp, format string, args ...any) { out = append(out, vsched.Violatef("C37:"+fp, format, args...)) }
	if r.shardMismatch != "" && c37HarnessErr == "" {
		c37HarnessErr = s.Name + ": " + r.shardMismatch
	}
	if !r.closeReturned {
		bad(d+"-close-never-returned", "Close did not return although the execution ended")
		return out
	}
	// Close's own result
	switch s.CloseCtx {
	case "bg":
		if r.closeErr != nil {
			bad(d+"-close-error-with-background-context", "Close(context.Background()) returned %v", r.closeErr)
		}
	case "expired":
		if r.closeErr != nil && !errors.Is(r.closeErr, context.Canceled) {
			bad(d+"-close-unexpected-error", "Close(cancelled ctx) returned %v", r.closeErr)
		}
	case "timeout":
		if r.closeErr != nil && !errors.Is(r.closeErr, context.DeadlineExceeded) {
			bad(d+"-close-unexpected-error", "Close(deadline ctx) returned %v", r.closeErr)
		}
	}
	if r.closeErr == nil {
		c37Note("close-nil")
	} else {
		c37Note("close-ctx-error")
	}
	if len(r.bogus) > 0 {
		bad(d+"-handler-got-unsubmitted-item", "handler/hook received items that were never submitted: %v", r.bogus)
	}
	mode := d
	if d == "batch" && s.CancelAccepted {
		mode = "batch-cancelaccepted"
	}
	for _, id := range r.ids {
		t := r.tasks[id]
		if !t.returned {
			bad(d+"-submit-never-returned", "Submit of task %d did not return", id)
			continue
		}
		total := t.ran + t.cancels
		if t.err != nil {
			// rejected => never ran, no hook
			switch {
			case errors.Is(t.err, workqueue.ErrFull):
				c37Note("rejected-full")
			case errors.Is(t.err, workqueue.ErrClosed):
				c37Note("rejected-closed")
			case t.ctxKind == "cancelled" && errors.Is(t.err, context.Canceled):
				c37Note("rejected-ctx")
			case t.ctxKind == "timeout" && errors.Is(t.err, context.DeadlineExceeded):
				c37Note("rejected-ctx")
			default:
				bad(d+"-submit-error-outside-contract", "Submit of task %d (ctx %s) returned %v", id, t.ctxKind, t.err)
			}
			if t.ran > 0 {
				bad(d+"-rejected-task-ran", "task %d was rejected with %v but its handler ran %d times", id, t.err, t.ran)
			}
			if t.cancels > 0 {
				bad(d+"-rejected-task-cancel-hook-ran", "task %d was rejected with %v but its cancellation hook ran %d times", id, t.err, t.cancels)
			}
			continue
		}
		c37Note("admitted")
		if t.ran > 1 {
			bad(mode+"-admitted-task-ran-twice", "admitted task %d ran %d times", id, t.ran)
		}
		if t.cancels > 1 {
			bad(mode+"-admitted-task-cancel-hook-twice", "admitted task %d: cancellation hook ran %d times", id, t.cancels)
		}
		if t.ran > 0 && t.cancels > 0 {
			bad(mode+"-admitted-task-ran-and-cancelled", "admitted task %d ran AND its cancellation hook ran", id)
		}
		if t.cancels > 0 {
			if mode != "batch-cancelaccepted" {
				bad(d+"-cancel-hook-without-cancel-accepted", "task %d: cancellation hook ran although CancelAcceptedOnClose is off", id)
			} else if !errors.Is(t.cancelErr, workqueue.ErrClosed) {
				bad(d+"-cancel-hook-wrong-error", "task %d: cancellation hook got %v", id, t.cancelErr)
			}
			c37Note("cancel-hook")
		}
		if r.closeErr != nil {
			// Close gave up (its context ended): accepted work may be dropped; at-most-once was checked above
			if total == 0 {
				c37Note("dropped-after-close-ctx-error")
			}
			continue
		}
		if total == 0 {
			// structural classification of a lost admitted task
			when := "submit-returned-after-close-call"
			if t.retSeq < r.closeCallSeq {
				when = "submit-returned-before-close-call"
			}
			if d == "mailbox" {
				// was a drain of this shard already past a handler call when the item was enqueued?
				sh := int(c37Hash(t.key) % uint64(s.Shards))
				when = "on-idle-shard"
				for _, e := range r.handlerEnds[sh] {
					if e < t.retSeq {
						when = "behind-finishing-drain"
					}
				}
			}
			bad(mode+"-admitted-task-lost-"+when,
				"task %d was admitted (Submit returned nil, call@%d ret@%d) but neither ran nor was cancelled; Close call@%d returned nil @%d",
				id, t.callSeq, t.retSeq, r.closeCallSeq, r.closeRetSeq)
			continue
		}
		if t.finSeq == 0 || t.finSeq > r.closeRetSeq {
			bad(d+"-close-returned-before-admitted-work-finished",
				"Close returned nil @%d but admitted task %d finished @%d", r.closeRetSeq, id, t.finSeq)
		}
	}
	if d == "mailbox" {
		if len(r.overlaps) > 0 {
			bad("mailbox-concurrent-drains-on-one-shard", "two handler calls of shard(s) %v overlapped", r.overlaps)
		}
		// submission order per shard: Submit(a) returned before Submit(b) was called, both admitted
		// to the same shard => a is processed before b
		for _, sh := range vsched.SortedKeys(r.shardSeq) {
			seq := r.shardSeq[sh]
			pos := map[int]int{}
			for i, id := range seq {
				if _, dup := pos[id]; !dup {
					pos[id] = i
				}
			}
			ordered := true
			for _, a := range seq {
				for _, b := range seq {
					ta, tb := r.tasks[a], r.tasks[b]
					if ordered && a != b && ta.err == nil && tb.err == nil && ta.returned && tb.returned && ta.retSeq < tb.callSeq && pos[a] > pos[b] {
						bad("mailbox-shard-order-violated", "shard %d processed %v but Submit(%d) returned before Submit(%d) was called", sh, seq, a, b)
						ordered = false
					}
				}
			}
			if len(seq) >= 2 {
				c37Note("shard-with-2+-items")
			}
			ks := map[string]bool{}
			for _, id := range seq {
				ks[r.tasks[id].key] = true
			}
			if len(ks) >= 2 {
				c37Note("two-keys-one-shard")
			}
		}
		if len(r.shardSeq) >= 2 {
			c37Note("two-shards-used")
		}
	}
	if r.maxBatch >= 2 {
		c37Note("batch-of-2+")
	}
	return out
}

// c37FirstScenario: a fingerprint is reported in the FIRST scenario (of this process) that
// exhibits it; the same fingerprint showing up again in other scenarios is only counted
// (the engine's violation list is capped, and a repeated fingerprint adds no information).
var c37FirstScenario = map[string]string{}
var c37Repeats int64

func c37Judge(r *c37Rec) error {
	for _, err := range c37Check(r) {
		fp := err.(interface{ Fingerprint() string }).Fingerprint()
		first, ok := c37FirstScenario[fp]
		if !ok {
			c37FirstScenario[fp] = r.spec.Name
			return err
		}
		if first == r.spec.Name {
			return err
		}
		c37Repeats++
	}
	return nil
}

// ---------------------------------------------------------------- running a family

type c37Totals struct {
	execs    int64
	outcomes int
	names    []string
	cut      int // scenarios not explored exhaustively (time budget)
}

func c37Explore(r *ev.R, specs []c37Spec, nDeep int) c37Totals {
	var tot c37Totals
	// VERIF_SEED only permutes the order in which the scenarios are explored (a rotation inside
	// the cheap group and inside the trailing group of nDeep expensive scenarios)
	order := make([]int, 0, len(specs))
	rotate := func(lo, hi int) {
		n := hi - lo
		if n <= 0 {
			return
		}
		rot := int(r.Seed() % int64(n))
		if rot < 0 {
			rot += n
		}
		for k := 0; k < n; k++ {
			order = append(order, lo+(k+rot)%n)
		}
	}
	rotate(0, len(specs)-nDeep)
	rotate(len(specs)-nDeep, len(specs))
	only := os.Getenv("C37_ONLY") // debugging aid: explore only scenarios whose name contains this
	for _, i := range order {
		if only != "" && !strings.Contains(specs[i].Name, only) {
			continue
		}
		t0 := time.Now()
		st := vsched.Explore(r, c37Scenario(specs[i]))
		fmt.Printf("c37: %-52s bound=%d executions=%d outcomes=%d exhaustive=%v %.1fs\n", specs[i].Name, specs[i].Bound, st.Executions, st.Outcomes, st.Exhaustive, time.Since(t0).Seconds())
		if c37HarnessErr != "" {
			r.HarnessError("shard placement differs from fnv64a(key) %% shards: %s", c37HarnessErr)
			c37HarnessErr = ""
		}
		tot.execs += st.Executions
		tot.outcomes += st.Outcomes
		if !st.Exhaustive {
			tot.cut++
		}
		tot.names = append(tot.names, specs[i].Name)
	}
	return tot
}

func c37Guards(r *ev.R, tot c37Totals, minExec int64, need ...string) {
	if r.Replay() != nil {
		return
	}
	if tot.cut > 0 {
		minExec = 1 // a run cut by the time budget reports exhaustive=false; it is not vacuous by itself
	}
	r.Guard("executions", tot.execs >= minExec, "executions=%d (min %d) over %d scenarios, %d cut by the time budget", tot.execs, minExec, len(tot.names), tot.cut)
	if tot.cut == 0 {
		r.Guard("outcomes", tot.outcomes >= 3*len(tot.names), "sum of distinct observation vectors=%d", tot.outcomes)
	}
	keys := make([]string, 0, len(c37Seen))
	for k := range c37Seen {
		keys = append(keys, k)
	}
	sort.Strings(keys)
	var parts []string
	for _, k := range keys {
		parts = append(parts, fmt.Sprintf("%s=%d", k, c37Seen[k]))
		r.Count("seen_"+k, c37Seen[k])
	}
	r.Count("executions_repeating_a_fingerprint_already_reported_in_another_scenario", c37Repeats)
	for _, n := range need {
		if tot.cut > 0 && c37Seen[n] == 0 {
			// the time budget cut the run before the scenarios showing this feature: the sections say
			// exhaustive=false; a coverage guard is only meaningful for a complete run
			r.Guard("seen-"+n, true, "not evaluated: %d scenarios were cut by the time budget (exhaustive=false)", tot.cut)
			continue
		}
		r.Guard("seen-"+n, c37Seen[n] > 0, "executions/tasks exhibiting %q: %d (all: %s)", n, c37Seen[n], strings.Join(parts, " "))
	}
}

// ---------------------------------------------------------------- stall watchdog (harness-side helper)

// c37Progress counts started executions. If it stops advancing for c37StallLimit the
// process is stuck inside ONE execution (an engine-level stall, e.g. a lost hand-off after a
// starved teardown): instead of sitting until the driver's hard timeout, dump all goroutines,
// record a harness error (exit 2, never a VIOLATION), write the partial result and exit.
var c37Progress atomic.Int64

const c37StallLimit = 240 * time.Second

func c37Watchdog(r *ev.R) (stop func()) {
	done := make(chan struct{})
	go func() {
		last, lastChange := c37Progress.Load(), time.Now()
		tick := time.NewTicker(5 * time.Second)
		defer tick.Stop()
		for {
			select {
			case <-done:
				return
			case <-tick.C:
			}
			if cur := c37Progress.Load(); cur != last {
				last, lastChange = cur, time.Now()
				continue
			}
			if time.Since(lastChange) < c37StallLimit {
				continue
			}
			buf := make([]byte, 1<<20)
			buf = buf[:runtime.Stack(buf, true)]
			fmt.Printf("c37 watchdog: no execution started for %s (after %d executions); goroutines:\n%s\n", c37StallLimit, last, buf)
			r.HarnessError("watchdog: the controlled scheduler made no progress for %s after %d executions (engine stall, see log); partial result written", c37StallLimit, last)
			r.Finish()
			os.Exit(3)
		}
	}()
	return func() { close(done) }
}

// ---------------------------------------------------------------- the check

func TestVerifC37(t *testing.T) {
	r := ev.Start(t, "C37")
	defer r.Finish()
	defer c37Watchdog(r)()
	r.Assume("ants is replaced by the vants model (bounded workers, non-blocking Invoke, overload/closed errors, worker-not-yet-idle window, ReleaseTimeout, panic handler)")
	r.Assume("timers, tickers and context deadlines run on virtual time: a timer fires only as a scheduler decision (one deviation) or when nothing else can run")
	r.Assume("pkg/goroutine is rewritten at spawn level only: its atomics and short mutex sections are not scheduling points")
	r.Assume("handlers and the cancellation hook never block or fail; CancelRunningOnClose and observers are not exercised")
	r.Assume("exactly-once is required only when Close returned nil; when Close returns its context's error only at-most-once is required (documented: Close drains until ctx expires)")
	// order: the four drivers interleaved, cheaper (parameterised, lower bound) scenarios first, so
	// that a run cut by the time budget still covers every driver evenly
	fams := [][]c37Spec{c37PoolSpecs(r), c37BatchSpecs(r), c37WQSpecs(r), c37MailboxSpecs(r)}
	var specs, deep []c37Spec
	maxBound := 0
	for _, f := range fams {
		for _, sp := range f {
			if sp.Bound > maxBound {
				maxBound = sp.Bound
			}
		}
	}
	for i := 0; ; i++ {
		any := false
		for _, f := range fams {
			if i < len(f) {
				any = true
				if r.Thorough() && f[i].Bound == maxBound {
					deep = append(deep, f[i])
				} else {
					specs = append(specs, f[i])
				}
			}
		}
		if !any {
			break
		}
	}
	specs = append(specs, deep...)
	tot := c37Explore(r, specs, len(deep))
	c37Guards(r, tot, 2000, "admitted", "rejected-full", "rejected-closed", "rejected-ctx", "close-nil", "close-ctx-error",
		"cancel-hook", "batch-of-2+", "shard-with-2+-items", "two-shards-used", "two-keys-one-shard")
}
