package workqueue_test

// C37 - part: ShardedMailbox (one drain per shard, shard-local submission order).

import (
	"github.com/WuKongIM/WuKongIM/pkg/zzverif/ev"
)

func c37MailboxSpecs(r *ev.R) []c37Spec {
	wide := ev.Pick(r, 3, 4) // delay bound of the parameterised scenarios
	deep := ev.Pick(r, 3, 5) // delay bound of the plain 2x2 + closer scenarios
	d := "mailbox"
	return []c37Spec{
		{Name: "mailbox-w1-q1-same-abc", Driver: d, Workers: 1, QSize: 1, KeyMode: "same", Order: "abc", Bound: deep},
		{Name: "mailbox-w2-q2-same-latency-acb", Driver: d, Workers: 2, QSize: 2, KeyMode: "same", Order: "acb", Latency: true, Bound: wide},
		{Name: "mailbox-w2-q2-same-batch2wait-cab-closeafter2", Driver: d, Workers: 2, QSize: 2, KeyMode: "same", MBBatch: 2, MBWait: true, Order: "cab", CloseAfter: 2, Latency: true, Bound: wide},
		{Name: "mailbox-w1-q2-diff-abc", Driver: d, Workers: 1, QSize: 2, KeyMode: "diff", Order: "abc", Latency: true, Bound: wide},
		{Name: "mailbox-w2-q1-diff-bca-closeafter1", Driver: d, Workers: 2, QSize: 1, KeyMode: "diff", Order: "bca", CloseAfter: 1, Latency: true, Bound: wide},
		{Name: "mailbox-w2-q2-mixed-batch2-abc", Driver: d, Workers: 2, QSize: 2, KeyMode: "mixed", MBBatch: 2, Order: "abc", Latency: true, Bound: wide},
		{Name: "mailbox-w1-q2-mixed-subcancelled", Driver: d, Workers: 1, QSize: 2, KeyMode: "mixed", Order: "bac", SubCtx: "cancelled", Bound: wide},
		{Name: "mailbox-w1-q2-same-close-expired", Driver: d, Workers: 1, QSize: 2, KeyMode: "same", Order: "abc", CloseCtx: "expired", Latency: true, Bound: wide},
		{Name: "mailbox-w1-q2-same-batch2wait-close-timeout", Driver: d, Workers: 1, QSize: 2, KeyMode: "same", MBBatch: 2, MBWait: true, Order: "acb", CloseCtx: "timeout", Latency: true, Bound: wide},
		// producer b submits behind a finishing drain of the same shard; Close only after all submits
		{Name: "mailbox-w2-q2-same-latency-b-after-drain", Driver: d, Workers: 2, QSize: 2, KeyMode: "same", Order: "abc", Latency: true, BAfterHandled: 2, CloseAfter: 4, Bound: wide},
		{Name: "mailbox-w2-q2-same-b-after-first-item", Driver: d, Workers: 2, QSize: 2, KeyMode: "same", Order: "abc", Latency: true, BAfterHandled: 1, Bound: wide},
	}
}
