package workqueue_test

// C37 - Work queues run each accepted task exactly once (part: BoundedWorkerQueue).

import (
	"context"
	"errors"
	"fmt"
	"testing"

	"github.com/WuKongIM/WuKongIM/pkg/workqueue"
	"github.com/WuKongIM/WuKongIM/pkg/zzverif/ev"
	"github.com/WuKongIM/WuKongIM/pkg/zzverif/vsched"
	"github.com/WuKongIM/WuKongIM/pkg/zzverif/vsync"
)

type c37Rec struct {
	admitted map[int]bool
	rejected map[int]bool
	ran      map[int]int
	closeRet bool
	ranAfterClose int
	closeErr error
}

func c37WorkerQueue(name string, workers, qsize, producers, perProducer int, bound int) vsched.Scenario {
	return vsched.Scenario{
		Name: name, Property: "C37", Bound: bound, Horizon: 6000, Delay: true,
		Bounds: map[string]any{"workers": workers, "queue_size": qsize, "producers": producers, "tasks_per_producer": perProducer},
		Body: func(x *vsched.Exec) {
			rec := &c37Rec{admitted: map[int]bool{}, rejected: map[int]bool{}, ran: map[int]int{}}
			x.Data["rec"] = rec
			q, err := workqueue.NewBoundedWorkerQueue[int](workqueue.BoundedWorkerQueueConfig{Workers: workers, QueueSize: qsize},
				func(_ context.Context, item int) error {
					rec.ran[item]++
					if rec.closeRet {
						rec.ranAfterClose++
					}
					return nil
				})
			if err != nil {
				panic(err)
			}
			var wg vsync.WaitGroup
			for p := 0; p < producers; p++ {
				p := p
				wg.Add(1)
				vsched.GoNamed(fmt.Sprintf("producer%d", p), func() {
					defer wg.Done()
					for i := 0; i < perProducer; i++ {
						id := p*10 + i
						err := q.Submit(context.Background(), id)
						switch {
						case err == nil:
							rec.admitted[id] = true
						case errors.Is(err, workqueue.ErrFull), errors.Is(err, workqueue.ErrClosed):
							rec.rejected[id] = true
						default:
							panic(err)
						}
					}
				})
			}
			wg.Add(1)
			vsched.GoNamed("closer", func() {
				defer wg.Done()
				rec.closeErr = q.Close(context.Background())
				rec.closeRet = true
			})
			wg.Wait()
			for _, id := range vsched.SortedKeys(rec.admitted) {
				x.Log("admitted:%d ran:%d", id, rec.ran[id])
			}
			for _, id := range vsched.SortedKeys(rec.rejected) {
				x.Log("rejected:%d", id)
			}
		},
		Check: func(x *vsched.Exec) error {
			rec := x.Data["rec"].(*c37Rec)
			for id := range rec.admitted {
				if rec.ran[id] != 1 {
					return vsched.Violatef("C37:workerqueue-admitted-task-ran-not-once", "admitted task %d ran %d times", id, rec.ran[id])
				}
			}
			for id := range rec.rejected {
				if rec.ran[id] != 0 {
					return vsched.Violatef("C37:workerqueue-rejected-task-ran", "rejected task %d ran %d times", id, rec.ran[id])
				}
			}
			if rec.closeErr != nil {
				return vsched.Violatef("C37:workerqueue-close-error", "Close with a background context returned %v", rec.closeErr)
			}
			if rec.ranAfterClose > 0 {
				return vsched.Violatef("C37:workerqueue-close-returned-before-admitted-work", "%d tasks ran after Close returned", rec.ranAfterClose)
			}
			return nil
		},
	}
}

func TestVerifC37(t *testing.T) {
	r := ev.Start(t, "C37")
	defer r.Finish()
	bound := ev.Pick(r, 3, 5)
	st := vsched.Explore(r, c37WorkerQueue("worker-queue-w1-q1", 1, 1, 2, 2, bound))
	st2 := vsched.Explore(r, c37WorkerQueue("worker-queue-w2-q2", 2, 2, 2, 2, bound))
	if r.Replay() != nil {
		return
	}
	r.Guard("executions", st.Executions+st2.Executions >= 100, "executions=%d", st.Executions+st2.Executions)
	r.Guard("outcomes", st.Outcomes >= 3, "distinct outcomes=%d", st.Outcomes)
}
