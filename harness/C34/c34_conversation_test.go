package conversation_test

// C34: conversation unread counts and visibility are exact.
//
// The real conversation.App runs over the real UID-owned membership table (pkg/db/meta, one
// database per live instance) and a model channel head answered by a harness hydrator.
// (enum) every membership row x every head with all fields in 0..4;
// (mc)   every sequence of send / clear / set-unread / delete / activate / retention.
//
// The oracle counts messages one by one instead of repeating the code's max(): message s
// of the channel is unread iff it is committed (1 <= s <= last committed), visible (at or
// after the join point, above the delete-to boundary, above the retention boundary), above
// the read cursor and above the user's own last send.
//
// In the histories the delete-to boundary of the specification is NOT the stored field: it
// is the reference model's own boundary, the highest channel head at which a
// DeleteConversation succeeded. A delete that silently does nothing (or hides too much)
// therefore disagrees with the specification even though List is consistent with the row.

import (
	"context"
	"errors"
	"fmt"
	"os"
	"runtime"
	"sort"
	"strings"
	"sync/atomic"
	"testing"
	"time"

	"github.com/WuKongIM/WuKongIM/internal/usecase/conversation"
	meta "github.com/WuKongIM/WuKongIM/pkg/db/meta"
	"github.com/WuKongIM/WuKongIM/pkg/zzverif/ev"
	"github.com/WuKongIM/WuKongIM/pkg/zzverif/mc"
)

const (
	c34HashSlot = meta.HashSlot(9)
	c34Type     = int64(2)
)

// ---------------------------------------------------------------- real membership table behind the usecase ports

type c34Store struct {
	shard *meta.Shard
}

func (s c34Store) ListUserChannelMembershipPage(ctx context.Context, uid string, after meta.UserChannelMembershipCursor, limit int) ([]meta.UserChannelMembership, meta.UserChannelMembershipCursor, bool, error) {
	return s.shard.ListUserChannelMembershipPage(ctx, uid, after, limit)
}

func (s c34Store) GetUserChannelMembership(ctx context.Context, uid, channelID string, channelType int64) (meta.UserChannelMembership, bool, error) {
	return s.shard.GetUserChannelMembership(ctx, uid, channelID, channelType)
}

func (s c34Store) AdvanceUserChannelMembershipReadSeq(ctx context.Context, uid, channelID string, channelType int64, readSeq uint64, updatedAt int64) error {
	return s.shard.AdvanceUserChannelMembershipReadSeq(ctx, uid, meta.ChannelKey{ChannelID: channelID, ChannelType: channelType}, readSeq, updatedAt)
}

func (s c34Store) HideUserChannelMembership(ctx context.Context, uid, channelID string, channelType int64, deletedToSeq uint64, updatedAt int64) error {
	return s.shard.HideUserChannelMembership(ctx, uid, meta.ChannelKey{ChannelID: channelID, ChannelType: channelType}, deletedToSeq, updatedAt)
}

func (s c34Store) ActivateUserChannelMembership(ctx context.Context, uid, channelID string, channelType int64, activatedAt, updatedAt int64) error {
	return s.shard.SetUserChannelMembershipActivatedAt(ctx, uid, meta.ChannelKey{ChannelID: channelID, ChannelType: channelType}, activatedAt, updatedAt)
}

type c34DB struct {
	db  *meta.DB
	dir string
}

type c34Pool struct {
	free   chan *c34DB
	all    []*c34DB
	nextID atomic.Uint64
}

func c34Open(n int) (*c34Pool, error) {
	p := &c34Pool{free: make(chan *c34DB, n)}
	for i := 0; i < n; i++ {
		dir, err := os.MkdirTemp("/dev/shm", "verif-c34-")
		if err != nil {
			p.close()
			return nil, err
		}
		d := &c34DB{dir: dir}
		p.all = append(p.all, d)
		if d.db, err = meta.Open(dir); err != nil {
			p.close()
			return nil, err
		}
		p.free <- d
	}
	return p, nil
}

func (p *c34Pool) close() {
	for _, d := range p.all {
		if d.db != nil {
			d.db.Close()
		}
		os.RemoveAll(d.dir)
	}
}

func (d *c34DB) shard() *meta.Shard { return d.db.MetaDB().HashSlot(c34HashSlot) }

// ---------------------------------------------------------------- model channel head + hydrator

type c34Head struct {
	Committed uint64 // last committed sequence
	Retention uint64 // retention-through sequence
	OwnLast   uint64 // the listing user's own last committed send
	// LastSeq is the sequence of the message the leader returns as the head; HasLast=false
	// is the "no visible message" answer.
	HasLast bool
	LastSeq uint64
	// Mode: 0 answers, 1 leader temporarily unavailable, 2 channel terminally gone
	Mode int
}

type c34Hydrator struct {
	heads func(channelID string) c34Head
	calls int
}

func (h *c34Hydrator) HydrateConversationHeads(_ context.Context, _ string, rows []meta.UserChannelMembership) ([]conversation.HydrationResult, error) {
	h.calls++
	out := make([]conversation.HydrationResult, len(rows))
	for i, row := range rows {
		hd := h.heads(row.ChannelID)
		out[i].Key = conversation.ConversationKey{ChannelID: row.ChannelID, ChannelType: row.ChannelType}
		switch hd.Mode {
		case 1:
			out[i].Outcome = conversation.HydrationRetryable
			continue
		case 2:
			out[i].Outcome = conversation.HydrationDelete
			continue
		}
		out[i].LastCommittedSeq, out[i].RetentionThroughSeq, out[i].CurrentUserLastSendSeq = hd.Committed, hd.Retention, hd.OwnLast
		if hd.HasLast {
			out[i].Outcome = conversation.HydrationOK
			out[i].LastMessage = &conversation.LastMessage{MessageID: 1000 + hd.LastSeq, MessageSeq: hd.LastSeq, FromUID: "x", Payload: []byte{byte(hd.LastSeq)}}
		} else {
			out[i].Outcome = conversation.HydrationNoVisibleMessage
		}
	}
	return out, nil
}

// ---------------------------------------------------------------- the specification, message by message

func c34Visible(row meta.UserChannelMembership, hd c34Head, s uint64) bool {
	return s >= 1 && s >= row.JoinSeq && s > row.DeletedToSeq && s > hd.Retention
}

func c34Unread(row meta.UserChannelMembership, hd c34Head) uint64 {
	var n uint64
	for s := uint64(1); s <= hd.Committed; s++ {
		if c34Visible(row, hd, s) && s > row.ReadSeq && s > hd.OwnLast {
			n++
		}
	}
	return n
}

func c34RowStr(r meta.UserChannelMembership) string {
	return fmt.Sprintf("join=%d read=%d deleted_to=%d activated=%v", r.JoinSeq, r.ReadSeq, r.DeletedToSeq, r.ActivatedAt > 0)
}

func c34HeadStr(h c34Head) string {
	last := "none"
	if h.HasLast {
		last = fmt.Sprint(h.LastSeq)
	}
	return fmt.Sprintf("committed=%d retention=%d own_last_send=%d last_message=%s", h.Committed, h.Retention, h.OwnLast, last)
}

// c34CheckItem applies the property to one returned conversation.
func c34CheckItem(api string, it conversation.Conversation, row meta.UserChannelMembership, hd c34Head) error {
	want := c34Unread(row, hd)
	if it.Unread != want {
		kind := "too-high"
		if it.Unread < want {
			kind = "too-low"
		}
		if it.Unread > hd.Committed {
			kind = "exceeds-committed"
		}
		return mc.Violatef("C34:unread-count-"+kind+":"+api, "%s: unread=%d but %d committed messages lie after the effective read point (row %s; head %s)", api, it.Unread, want, c34RowStr(row), c34HeadStr(hd))
	}
	if it.LastMessage != nil && !c34Visible(row, hd, it.LastMessage.MessageSeq) {
		why := "retained"
		switch {
		case it.LastMessage.MessageSeq < row.JoinSeq:
			why = "before-join"
		case it.LastMessage.MessageSeq <= row.DeletedToSeq:
			why = "deleted"
		}
		return mc.Violatef("C34:hidden-message-shown-as-last:"+why+":"+api, "%s: last message seq %d is not visible to the user (row %s; head %s)", api, it.LastMessage.MessageSeq, c34RowStr(row), c34HeadStr(hd))
	}
	return nil
}

// ================================================================ (enum) rows x heads

func c34Enum(r *ev.R, pool *c34Pool) {
	e := r.NewEnum("rows-x-heads")
	d := <-pool.free
	defer func() { pool.free <- d }()
	ctx := context.Background()
	uid := fmt.Sprintf("enum%d", pool.nextID.Add(1))
	// 5^3 x 2 membership rows, one channel each
	rows := map[string]meta.UserChannelMembership{}
	var keys []conversation.ConversationKey
	for join := uint64(0); join <= 4; join++ {
		for read := uint64(0); read <= 4; read++ {
			for del := uint64(0); del <= 4; del++ {
				for act := int64(0); act <= 1; act++ {
					id := fmt.Sprintf("c-j%d-r%d-d%d-a%d", join, read, del, act)
					row := meta.UserChannelMembership{UID: uid, ChannelID: id, ChannelType: c34Type, JoinSeq: join, ReadSeq: read, DeletedToSeq: del, ActivatedAt: act * 50, UpdatedAt: 1}
					if err := d.shard().UpsertUserChannelMembership(ctx, row); err != nil {
						r.HarnessError("enum: upsert membership: %v", err)
						return
					}
					rows[id] = row
					keys = append(keys, conversation.ConversationKey{ChannelID: id, ChannelType: c34Type})
				}
			}
		}
	}
	defer func() {
		for id := range rows {
			_ = d.shard().DeleteUserChannelMembership(ctx, uid, meta.ChannelKey{ChannelID: id, ChannelType: c34Type})
		}
	}()
	var cur c34Head
	hyd := &c34Hydrator{heads: func(string) c34Head { return cur }}
	st := c34Store{shard: d.shard()}
	app := conversation.New(conversation.Options{Directory: st, Hydrator: hyd, MembershipMutations: st, Now: func() time.Time { return time.Unix(2000, 0) }})

	var listed, omitted, withLast, lastHidden, unreadPositive int64
	sampled := 0
	report := func(api string, it conversation.Conversation, err error) bool {
		v := err.(*mc.V)
		row := rows[it.ChannelID]
		return r.Violation(ev.Violation{Fingerprint: v.FP, Message: v.Msg, System: "rows-x-heads",
			Replay: map[string]any{"api": api, "row": c34RowStr(row), "head": c34HeadStr(cur)}})
	}
	for committed := uint64(0); committed <= 4; committed++ {
		for ret := uint64(0); ret <= 4; ret++ {
			for own := uint64(0); own <= 4; own++ {
				for last := -1; last <= 4; last++ {
					cur = c34Head{Committed: committed, Retention: ret, OwnLast: own, HasLast: last >= 0}
					if last >= 0 {
						cur.LastSeq = uint64(last)
					}
					seen := map[string]conversation.Conversation{}
					// ---- List: walk the whole directory (limit 200 => two pages)
					req := conversation.ListRequest{UID: uid, Limit: 200}
					for page := 0; page < 5; page++ {
						res, err := app.List(ctx, req)
						if err != nil {
							r.HarnessError("enum: List: %v", err)
							return
						}
						for _, it := range res.Items {
							if _, dup := seen[it.ChannelID]; dup {
								r.HarnessError("enum: channel %s listed twice", it.ChannelID)
								return
							}
							seen[it.ChannelID] = it
							if verr := c34CheckItem("List", it, rows[it.ChannelID], cur); verr != nil {
								if !report("List", it, verr) {
									e.Done(false, nil, "stopped after the violation cap")
									return
								}
							}
						}
						if res.Done {
							break
						}
						req.Cursor = res.NextCursor
					}
					// ---- Retry over all keys (two requests of <= 200 keys) must build the same conversations
					retried := map[string]conversation.Conversation{}
					for lo := 0; lo < len(keys); lo += 200 {
						hi := lo + 200
						if hi > len(keys) {
							hi = len(keys)
						}
						res, err := app.Retry(ctx, conversation.RetryRequest{UID: uid, Keys: keys[lo:hi]})
						if err != nil {
							r.HarnessError("enum: Retry: %v", err)
							return
						}
						for _, it := range res.Items {
							retried[it.ChannelID] = it
							if verr := c34CheckItem("Retry", it, rows[it.ChannelID], cur); verr != nil {
								if !report("Retry", it, verr) {
									e.Done(false, nil, "stopped after the violation cap")
									return
								}
							}
						}
					}
					for _, k := range keys {
						id := k.ChannelID
						row := rows[id]
						it, ok := seen[id]
						rt, rok := retried[id]
						if ok != rok || (ok && (it.Unread != rt.Unread || (it.LastMessage == nil) != (rt.LastMessage == nil))) {
							r.Violation(ev.Violation{Fingerprint: "C34:list-and-retry-disagree", Message: fmt.Sprintf("List and Retry build different conversations for row %s head %s: listed=%v/%+v retried=%v/%+v", c34RowStr(row), c34HeadStr(cur), ok, it, rok, rt),
								System: "rows-x-heads", Replay: map[string]any{"row": c34RowStr(row), "head": c34HeadStr(cur)}})
						}
						want := c34Unread(row, cur)
						out := "omitted"
						if ok {
							listed++
							out = fmt.Sprintf("listed/unread=%d", it.Unread)
							if it.LastMessage != nil {
								withLast++
								out += "/last"
							} else if cur.HasLast {
								lastHidden++
								out += "/last-hidden"
							}
							if it.Unread > 0 {
								unreadPositive++
							}
						} else {
							omitted++
						}
						// non-trivial: the row and the head both carry a boundary (not the all-zero tuple) and messages exist
						nontrivial := committed > 0 && (row.JoinSeq+row.ReadSeq+row.DeletedToSeq+ret+own) > 0
						e.CaseByConstruction(nontrivial, out)
						if ok && nontrivial && want > 0 && it.LastMessage != nil && sampled < 3 && row.DeletedToSeq > 0 && ret > 0 {
							sampled++
							r.Sample(map[string]any{"section": "rows-x-heads", "row": c34RowStr(row), "head": c34HeadStr(cur), "list_unread": it.Unread, "counted_unread": want, "last_message_seq": it.LastMessage.MessageSeq})
						}
					}
				}
			}
		}
	}
	e.Done(true, map[string]any{"row_fields": "join_seq, read_seq, deleted_to_seq in 0..4; activated {no, yes}", "head_fields": "last_committed, retention_through, own_last_send in 0..4; last message {none, seq 0..4}",
		"rows_in_real_table": len(rows), "directory_pages_per_head": 2},
		"every row is stored in the real membership table; for every head the whole directory is listed (two pages) and retried (two key sets); each returned conversation is compared with the message-by-message count")
	r.Guard("enum/listed", listed >= 50000 && omitted >= 1000, "listed %d omitted %d", listed, omitted)
	r.Guard("enum/last-message-hidden-by-floor", lastHidden >= 1000 && withLast >= 1000, "head message hidden %d times, shown %d times", lastHidden, withLast)
	r.Guard("enum/unread-positive", unreadPositive >= 1000, "%d conversations with unread > 0", unreadPositive)
}

// ================================================================ (mc) histories

type c34Env struct {
	pool *c34Pool
	// joinAt > 0: the user joins a channel that already has joinAt-1 committed messages
	joinAt uint64
}

type c34Inst struct {
	env  *c34Env
	d    *c34DB
	uid  string
	app  *conversation.App
	hyd  *c34Hydrator
	head c34Head
	mode int // answer of the leader during the current event (environment deviation)
	tick int64
	// bookkeeping of the oracle
	maxRead uint64 // highest read cursor ever stored
	// delTo is the reference delete-to boundary: the highest last-committed sequence at
	// which a DeleteConversation of this user succeeded (0 = never deleted)
	delTo   uint64
	deletes int // successful deletes so far (label of the violation message only)
	other   meta.UserChannelMembership
}

const (
	c34Chan  = "g-main"
	c34Other = "g-other" // a second, untouched conversation of the same user
)

// c34RepeatedDeletes counts executed successful deletes of an already hidden row
// (activated_at == 0, deleted_to_seq != 0) at a higher channel head (vacuity guard only).
var c34RepeatedDeletes atomic.Int64

var c34OtherHead = c34Head{Committed: 3, Retention: 0, OwnLast: 1, HasLast: true, LastSeq: 3}

func (e *c34Env) newInst() mc.Instance {
	x := &c34Inst{env: e, d: <-e.pool.free}
	x.uid = fmt.Sprintf("u%07d", e.pool.nextID.Add(1))
	ctx := context.Background()
	row := meta.UserChannelMembership{UID: x.uid, ChannelID: c34Chan, ChannelType: c34Type, JoinSeq: e.joinAt, UpdatedAt: 1}
	x.other = meta.UserChannelMembership{UID: x.uid, ChannelID: c34Other, ChannelType: c34Type, JoinSeq: 1, ReadSeq: 1, ActivatedAt: 7, UpdatedAt: 1}
	if err := x.d.shard().UpsertUserChannelMembership(ctx, row); err != nil {
		panic(err)
	}
	if err := x.d.shard().UpsertUserChannelMembership(ctx, x.other); err != nil {
		panic(err)
	}
	if e.joinAt > 1 {
		x.head.Committed = e.joinAt - 1
		x.head.HasLast, x.head.LastSeq = true, e.joinAt-1
	}
	x.hyd = &c34Hydrator{heads: func(id string) c34Head {
		if id == c34Other {
			return c34OtherHead
		}
		h := x.head
		h.Mode = x.mode
		return h
	}}
	st := c34Store{shard: x.d.shard()}
	x.app = conversation.New(conversation.Options{Directory: st, Hydrator: x.hyd, MembershipMutations: st, Now: func() time.Time { return time.Unix(5000+x.tick, 0) }})
	return x
}

func (x *c34Inst) Close() {
	if x.d == nil {
		return
	}
	ctx := context.Background()
	_ = x.d.shard().DeleteUserChannelMembership(ctx, x.uid, meta.ChannelKey{ChannelID: c34Chan, ChannelType: c34Type})
	_ = x.d.shard().DeleteUserChannelMembership(ctx, x.uid, meta.ChannelKey{ChannelID: c34Other, ChannelType: c34Type})
	x.env.pool.free <- x.d
	x.d = nil
}

func (x *c34Inst) Events() []string {
	return []string{"send-other", "send-self", "clear", "set-unread-0", "set-unread-1", "set-unread-2", "set-unread-3", "delete", "activate", "retention+1"}
}

func (x *c34Inst) row() (meta.UserChannelMembership, error) {
	row, ok, err := x.d.shard().GetUserChannelMembership(context.Background(), x.uid, c34Chan, c34Type)
	if err != nil || !ok {
		return row, fmt.Errorf("c34: membership row unreadable: ok=%v err=%v", ok, err)
	}
	return row, nil
}

// list returns the conversation of the main channel as List builds it (nil if omitted)
func (x *c34Inst) list() (*conversation.Conversation, conversation.ListResult, error) {
	res, err := x.app.List(context.Background(), conversation.ListRequest{UID: x.uid, Limit: 10})
	if err != nil {
		return nil, res, err
	}
	for i := range res.Items {
		if res.Items[i].ChannelID == c34Chan {
			return &res.Items[i], res, nil
		}
	}
	return nil, res, nil
}

func (x *c34Inst) refreshLast() {
	// the leader returns the newest retained committed message, if any
	if x.head.Committed > x.head.Retention {
		x.head.HasLast, x.head.LastSeq = true, x.head.Committed
	} else {
		x.head.HasLast, x.head.LastSeq = false, 0
	}
}

func (x *c34Inst) Apply(event string, env *mc.Env) (string, error) {
	x.tick++
	ctx := context.Background()
	before, err := x.row()
	if err != nil {
		return "", err
	}
	switch event {
	case "send-other":
		x.head.Committed++
		x.refreshLast()
		return "send", nil
	case "send-self":
		x.head.Committed++
		x.head.OwnLast = x.head.Committed
		x.refreshLast()
		return "send", nil
	case "retention+1":
		if x.head.Retention < x.head.Committed {
			x.head.Retention++
		}
		x.refreshLast()
		return "retention", nil
	}
	// personal-state commands ask the channel leader first: it may be unavailable or the channel gone
	if event != "activate" {
		x.mode = env.Choose("leader(ok/unavailable/channel-gone)", 3)
	}
	defer func() { x.mode = 0 }()
	var cmdErr error
	n := -1
	switch event {
	case "clear":
		cmdErr = x.app.ClearUnread(ctx, conversation.ClearUnreadCommand{UID: x.uid, ChannelID: c34Chan, ChannelType: uint8(c34Type)})
	case "delete":
		cmdErr = x.app.DeleteConversation(ctx, conversation.DeleteConversationCommand{UID: x.uid, ChannelID: c34Chan, ChannelType: uint8(c34Type)})
	case "activate":
		cmdErr = x.app.ActivateConversation(ctx, conversation.ActivateConversationCommand{UID: x.uid, ChannelID: c34Chan, ChannelType: uint8(c34Type)})
	default:
		if _, err := fmt.Sscanf(event, "set-unread-%d", &n); err != nil {
			return "", fmt.Errorf("c34: unknown event %q", event)
		}
		cmdErr = x.app.SetUnread(ctx, conversation.SetUnreadCommand{UID: x.uid, ChannelID: c34Chan, ChannelType: uint8(c34Type), Unread: n})
	}
	mode := x.mode
	x.mode = 0
	after, err := x.row()
	if err != nil {
		return "", err
	}
	name := strings.TrimRight(event, "-0123")
	// ---- the read cursor (and the delete-to boundary) only move forward
	if after.ReadSeq < before.ReadSeq {
		return name, mc.Violatef("C34:read-cursor-moved-backward:"+name, "%s moved read_seq %d -> %d (head %s)", event, before.ReadSeq, after.ReadSeq, c34HeadStr(x.head))
	}
	if after.DeletedToSeq < before.DeletedToSeq {
		return name, mc.Violatef("C34:delete-boundary-moved-backward:"+name, "%s moved deleted_to_seq %d -> %d (head %s)", event, before.DeletedToSeq, after.DeletedToSeq, c34HeadStr(x.head))
	}
	if after.ReadSeq > x.maxRead {
		x.maxRead = after.ReadSeq
	}
	if mode != 0 && event != "activate" {
		// the head could not be read: the command must fail and must not touch the row
		wantErr := conversation.ErrRouteNotReady
		if mode == 2 {
			wantErr = meta.ErrNotFound
		}
		if !errors.Is(cmdErr, wantErr) || after != before {
			return name, mc.Violatef("C34:command-without-channel-head-changed-state:"+name, "%s with the leader answering mode %d returned %v and changed the row %s -> %s", event, mode, cmdErr, c34RowStr(before), c34RowStr(after))
		}
		return name + ":no-head", nil
	}
	if cmdErr != nil {
		return name, mc.Violatef("C34:command-failed:"+name, "%s returned %v (row %s; head %s)", event, cmdErr, c34RowStr(before), c34HeadStr(x.head))
	}
	if event == "delete" {
		// the user deleted everything committed so far; Check judges List/Retry against it
		x.deletes++
		if before.ActivatedAt == 0 && before.DeletedToSeq != 0 && x.head.Committed > before.DeletedToSeq {
			c34RepeatedDeletes.Add(1) // an already hidden conversation reappeared through new messages and is deleted again
		}
		if x.head.Committed > x.delTo {
			x.delTo = x.head.Committed
		}
	}
	it, _, err := x.list()
	if err != nil {
		return name, mc.Violatef("C34:list-failed", "List after %s: %v", event, err)
	}
	unread := uint64(0)
	listed := it != nil
	if listed {
		unread = it.Unread
	}
	switch {
	case event == "clear" && unread != 0:
		return name, mc.Violatef("C34:unread-after-clear-not-zero", "ClearUnread succeeded but List reports unread=%d (row %s -> %s; head %s)", unread, c34RowStr(before), c34RowStr(after), c34HeadStr(x.head))
	case n >= 0 && unread > uint64(n):
		return name, mc.Violatef("C34:unread-after-set-exceeds-requested", "SetUnread(%d) succeeded but List reports unread=%d (row %s -> %s; head %s)", n, unread, c34RowStr(before), c34RowStr(after), c34HeadStr(x.head))
	}
	return fmt.Sprintf("%s:listed=%v,unread=%d", name, listed, unread), nil
}

// checkItem judges one returned conversation of the main channel against the counting
// specification with the MODEL delete-to boundary. When the answer is wrong only because the
// stored boundary differs from what the user deleted through, the violation gets its own
// fingerprint.
func (x *c34Inst) checkItem(api string, it conversation.Conversation, row meta.UserChannelMembership) error {
	spec := row
	spec.DeletedToSeq = x.delTo
	err := c34CheckItem(api, it, spec, x.head)
	if err == nil || row.DeletedToSeq == x.delTo || c34CheckItem(api, it, row, x.head) != nil {
		return err
	}
	v := err.(*mc.V)
	kind, what := "below", "messages the user deleted are counted / shown again"
	if row.DeletedToSeq > x.delTo {
		kind, what = "above", "messages the user never deleted are hidden"
	}
	sym := "unread"
	if strings.HasPrefix(v.FP, "C34:hidden-message-shown-as-last") {
		sym = "last-message"
	}
	return mc.Violatef("C34:delete-boundary-"+kind+"-deleted-messages:"+sym+":"+api,
		"%s: after %d successful DeleteConversation(s) the user has deleted through seq %d but the stored deleted_to_seq is %d: %s [%s]",
		api, x.deletes, x.delTo, row.DeletedToSeq, what, strings.Replace(v.Msg, "(row ", "(specification row ", 1))
}

func (x *c34Inst) Check() error {
	row, err := x.row()
	if err != nil {
		return err
	}
	if row.ReadSeq < x.maxRead {
		return mc.Violatef("C34:read-cursor-moved-backward:stored", "stored read_seq %d is below an earlier value %d", row.ReadSeq, x.maxRead)
	}
	it, res, err := x.list()
	if err != nil {
		return mc.Violatef("C34:list-failed", "List: %v", err)
	}
	if it != nil {
		if err := x.checkItem("List", *it, row); err != nil {
			return err
		}
	}
	// the untouched neighbour conversation is listed with its own numbers
	foundOther := false
	for _, o := range res.Items {
		if o.ChannelID == c34Other {
			foundOther = true
			if err := c34CheckItem("List(neighbour)", o, x.other, c34OtherHead); err != nil {
				return err
			}
		}
	}
	if !foundOther {
		return mc.Violatef("C34:neighbour-conversation-missing", "the untouched conversation %s disappeared from the list", c34Other)
	}
	rt, err := x.app.Retry(context.Background(), conversation.RetryRequest{UID: x.uid, Keys: []conversation.ConversationKey{{ChannelID: c34Chan, ChannelType: c34Type}}})
	if err != nil {
		return mc.Violatef("C34:retry-failed", "Retry: %v", err)
	}
	if (len(rt.Items) == 1) != (it != nil) {
		return mc.Violatef("C34:list-and-retry-disagree", "List lists=%v, Retry items=%d (row %s; head %s)", it != nil, len(rt.Items), c34RowStr(row), c34HeadStr(x.head))
	}
	if len(rt.Items) == 1 {
		if err := x.checkItem("Retry", rt.Items[0], row); err != nil {
			return err
		}
	}
	// while the leader is unavailable the conversation is unresolved, never shown with stale numbers
	x.mode = 1
	_, res2, err := x.list()
	x.mode = 0
	if err != nil {
		return mc.Violatef("C34:list-failed", "List with unavailable leader: %v", err)
	}
	for _, o := range res2.Items {
		if o.ChannelID == c34Chan {
			return mc.Violatef("C34:unavailable-head-listed", "conversation listed although its channel head could not be read")
		}
	}
	return nil
}

func (x *c34Inst) Canon() string {
	row, err := x.row()
	if err != nil {
		return ""
	}
	return fmt.Sprintf("%s|%s|maxread=%d|deleted_through=%d", c34RowStr(row), c34HeadStr(x.head), x.maxRead, x.delTo)
}

// ---------------------------------------------------------------- test entry

func TestVerifC34(t *testing.T) {
	r := ev.Start(t, "C34")
	defer r.Finish()
	workers := runtime.GOMAXPROCS(0)
	if workers > 8 {
		workers = 8
	}
	pool, err := c34Open(workers*2 + 2)
	if err != nil {
		r.HarnessError("cannot open membership databases: %v", err)
		return
	}
	defer pool.close()

	if r.Replay() == nil {
		c34Enum(r, pool)
	}
	depth := ev.Pick(r, 5, 7)
	var minStates int64 = 1 << 62
	var names []string
	for _, sys := range []struct {
		name   string
		joinAt uint64
	}{{"history/fresh-channel", 0}, {"history/joined-at-3", 3}} {
		env := &c34Env{pool: pool, joinAt: sys.joinAt}
		res := mc.Run(r, mc.System{
			Name: sys.name, New: env.newInst, MaxDepth: depth, MaxDeviations: 1, Workers: workers,
			Bounds: map[string]any{"join_seq": sys.joinAt, "set_unread_menu": "0..3", "environment": "channel leader answers / is unavailable / reports the channel gone during each personal-state command (<= 1 deviation per history)"},
			Note:   "real conversation.App over a real meta DB membership row (one DB per live instance) and a model channel (committed, retention, own last send); merged on stored row (join, read, deleted_to, activated yes/no) + model channel + highest read cursor seen + model delete-to boundary (highest head at a successful delete)",
		})
		if res.States < minStates {
			minStates = res.States
		}
		names = append(names, fmt.Sprintf("%s=%d", sys.name, res.States))
	}
	if r.Replay() != nil {
		return
	}
	sort.Strings(names)
	r.Guard("mc/states", minStates >= 300, "states per system: %v", names)
	r.Guard("mc/repeated-delete-of-hidden-conversation", c34RepeatedDeletes.Load() >= 4, "%d executed deletes of an already hidden conversation at a higher channel head (delete ; sends without activation ; delete)", c34RepeatedDeletes.Load())
	r.Assume("delete-to boundary of the specification (histories): the highest last-committed sequence at which a DeleteConversation succeeded, kept by the reference model; the stored deleted_to_seq is not trusted (a delete that does nothing, or hides more than the head, contradicts the counting specification in the next List/Retry)")
	r.Assume("the membership store behind the usecase ports is the real pkg/db/meta shard (direct Shard methods; ActivateUserChannelMembership maps to SetUserChannelMembershipActivatedAt as the C16 direct driver does); the cluster/Slot-FSM route to the same table is covered by C16")
	r.Assume("join point: join_seq is the first visible sequence (join_seq 0 = everything visible), so the join floor is join_seq-1; delete-to and retention boundaries hide sequences <= the boundary")
	r.Assume("SetUnread(N) is demanded to leave at most N unread (the property's wording), not exactly min(previous, N)")
	r.Assume("whether an empty / fully hidden conversation is listed at all (activated_at > 0 rule) is not part of the property; only listed conversations are judged")
}
