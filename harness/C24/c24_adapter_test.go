package wsmux_test

// C24 - JSON-RPC protocol is a faithful frame bridge (gateway adapter level).
//
// The same bridge, driven the way the gateway drives it: bytes -> wsmux.Adapter.Decode
// (which selects the jsonrpc adapter for '{' / '[' input) -> frames + TakeReplyTokens, and
// frame + OutboundMeta{ReplyToken} -> Encode -> bytes. Enumerated exhaustively:
//
//   sequences  every sequence of <= L client messages over an alphabet with colliding ids,
//              id-less notifications, messages the bridge rejects, truncated input and garbage,
//              executed in lockstep (Decode, then TakeReplyTokens(len(frames)) - what
//              gateway/core.dispatchInboundFrames does): the token handed out with a frame is
//              exactly the request id of the message that produced that frame, rejected /
//              incomplete input produces neither a frame nor a token, and the whole input of a
//              complete message is consumed;
//   encode     every outbound frame type x every request id: the response written for reply
//              token t has id t (read back with encoding/json), notifications have no id;
//   bytes      every truncation and every single-byte structural replacement of the alphabet's
//              messages: Decode never panics and answers exactly one of
//              {frames with consumed > 0, need-more (nil,0,nil), error}.

import (
	"encoding/json"
	"fmt"
	"reflect"
	"sort"
	"strings"
	"testing"

	"github.com/WuKongIM/WuKongIM/pkg/gateway/protocol"
	"github.com/WuKongIM/WuKongIM/pkg/gateway/protocol/wsmux"
	"github.com/WuKongIM/WuKongIM/pkg/gateway/session"
	"github.com/WuKongIM/WuKongIM/pkg/protocol/frame"
	"github.com/WuKongIM/WuKongIM/pkg/zzverif/ev"
)

type c24aMsg struct {
	Label string `json:"label"`
	Doc   string `json:"doc"`
	// expectation
	Kind  string `json:"kind"`  // "frame" | "error" | "more"
	Frame string `json:"frame"` // frame type name for Kind == frame
	ID    string `json:"id"`    // request id ("" = none)
}

func c24aAlphabet() []c24aMsg {
	return []c24aMsg{
		{"ping#a", `{"jsonrpc":"2.0","method":"ping","id":"a"}`, "frame", "PING", "a"},
		{"recvack", `{"jsonrpc":"2.0","method":"recvack","params":{"messageId":"7","messageSeq":3}}`, "frame", "RECVACK", ""},
		{"send#a", `{"jsonrpc":"2.0","method":"send","id":"a","params":{"channelId":"g","channelType":2,"payload":"aGk="}}`, "frame", "SEND", "a"},
		{"connect#b", `{"method":"connect","id":"b","params":{"uid":"u","token":"t","deviceFlag":1}}`, "frame", "CONNECT", "b"},
		{"subscribe#c", `{"jsonrpc":"2.0","method":"subscribe","id":"c","params":{"subNo":"n","channelId":"g","channelType":2}}`, "error", "", ""},
		{"truncated#d", `{"jsonrpc":"2.0","method":"ping","id":"d"`, "more", "", ""},
		{"garbage", `{"jsonrpc":"2.0",]`, "error", "", ""},
		{"disconnect#e", `{"jsonrpc":"2.0","method":"disconnect","id":"e","params":{"reasonCode":0}}`, "frame", "DISCONNECT", "e"},
		{"response#f", `{"jsonrpc":"2.0","id":"f","result":{}}`, "error", "", ""},
	}
}

// c24aSession is a minimal session.Session: only the value store is used by adapters.
func c24aSession() session.Session {
	return session.New(session.Config{ID: 1, Listener: "verif", RemoteAddr: "r", LocalAddr: "l"})
}

func c24aFrameName(f frame.Frame) string {
	switch f.(type) {
	case *frame.PingPacket:
		return "PING"
	case *frame.RecvackPacket:
		return "RECVACK"
	case *frame.SendPacket:
		return "SEND"
	case *frame.ConnectPacket:
		return "CONNECT"
	case *frame.DisconnectPacket:
		return "DISCONNECT"
	}
	return fmt.Sprintf("%T", f)
}

type c24aReplay struct {
	Kind  string    `json:"kind"` // "sequence" | "encode" | "bytes"
	Seq   []c24aMsg `json:"sequence,omitempty"`
	Frame string    `json:"frame,omitempty"`
	ID    string    `json:"id,omitempty"`
	Doc   string    `json:"doc,omitempty"`
}

type c24aViol struct{ fp, msg string }

// c24aRunSequence executes one message sequence on a fresh adapter + session.
func c24aRunSequence(seq []c24aMsg) (string, *c24aViol) {
	ad := wsmux.New()
	var tracker protocol.ReplyTokenTracker = ad
	sess := c24aSession()
	var trace []string
	for i, m := range seq {
		var frames []frame.Frame
		var consumed int
		var err error
		var tokens, stale []string
		if p := ev.Recover(func() {
			frames, consumed, err = ad.Decode(sess, []byte(m.Doc))
			tokens = tracker.TakeReplyTokens(sess, len(frames))
			stale = tracker.TakeReplyTokens(sess, 1)
		}); p != nil {
			return "panic", &c24aViol{"C24:adapter-panic", fmt.Sprintf("step %d (%s): %v", i, m.Label, p)}
		}
		if len(stale) != 0 {
			return "stale-token", &c24aViol{"C24:adapter-reply-token-left-behind", fmt.Sprintf("step %d (%s): after taking the tokens of the decoded frames the queue still holds %q", i, m.Label, stale)}
		}
		switch m.Kind {
		case "frame":
			if err != nil || len(frames) != 1 {
				return "rejected", &c24aViol{"C24:adapter-rejects-" + m.Frame, fmt.Sprintf("step %d (%s): Decode(%s) = %d frames, consumed %d, err %v", i, m.Label, m.Doc, len(frames), consumed, err)}
			}
			if got := c24aFrameName(frames[0]); got != m.Frame {
				return "wrong-frame", &c24aViol{"C24:adapter-wrong-frame-" + m.Frame, fmt.Sprintf("step %d (%s): got %s", i, m.Label, got)}
			}
			if consumed != len(m.Doc) {
				return "consumed", &c24aViol{"C24:adapter-consumed-length", fmt.Sprintf("step %d (%s): consumed %d of %d bytes", i, m.Label, consumed, len(m.Doc))}
			}
			want := []string(nil)
			if m.ID != "" {
				want = []string{m.ID}
			}
			if !reflect.DeepEqual(append([]string(nil), tokens...), want) {
				return "token", &c24aViol{"C24:adapter-reply-token-mismatch-" + m.Frame, fmt.Sprintf("step %d (%s): frame %s came with reply tokens %q, request id is %q (history %v)", i, m.Label, m.Frame, tokens, m.ID, trace)}
			}
		case "error":
			if err == nil || len(frames) != 0 || consumed != 0 || len(tokens) != 0 {
				return "accepted", &c24aViol{"C24:adapter-accepts-unbridged-message", fmt.Sprintf("step %d (%s): Decode(%s) = %d frames, consumed %d, tokens %q, err %v", i, m.Label, m.Doc, len(frames), consumed, tokens, err)}
			}
		case "more":
			if err != nil || len(frames) != 0 || consumed != 0 || len(tokens) != 0 {
				return "not-more", &c24aViol{"C24:adapter-incomplete-input-not-deferred", fmt.Sprintf("step %d (%s): Decode(%s) = %d frames, consumed %d, tokens %q, err %v", i, m.Label, m.Doc, len(frames), consumed, tokens, err)}
			}
		}
		trace = append(trace, m.Label)
	}
	return "ok", nil
}

var c24aIDs = []string{"1", "req-1", "a\"b\\c\n", "ü✓", "null", " ", "0", strings.Repeat("i", 200)}

func c24aOutbound() map[string]frame.Frame {
	h := frame.Framer{RedDot: true}
	return map[string]frame.Frame{
		"CONNACK":    &frame.ConnackPacket{Framer: h, ServerVersion: 4, ServerKey: "sk", Salt: "s", TimeDiff: 5, ReasonCode: 1, NodeId: 1<<64 - 1},
		"SENDACK":    &frame.SendackPacket{Framer: h, MessageID: -9, MessageSeq: 1 << 63, ReasonCode: 1},
		"PONG":       &frame.PongPacket{},
		"RECV":       &frame.RecvPacket{Framer: h, MessageID: 5, MessageSeq: 6, ChannelID: "g", ChannelType: 2, FromUID: "u", Payload: []byte{0, 255}},
		"EVENT":      &frame.EventPacket{Framer: h, Id: "e", Type: "t", Timestamp: 7, Data: []byte(`{"a":1}`)},
		"DISCONNECT": &frame.DisconnectPacket{ReasonCode: 2, Reason: "r"},
	}
}

// c24aCheckEncode: the response for reply token id carries id; notifications carry none.
func c24aCheckEncode(typ string, f frame.Frame, id string) (string, *c24aViol) {
	ad := wsmux.New()
	sess := c24aSession()
	// the protocol is selected by the first inbound message, as on a real connection
	if _, _, err := ad.Decode(sess, []byte(`{"jsonrpc":"2.0","method":"ping","id":"`+"sel"+`"}`)); err != nil {
		return "harness", &c24aViol{"C24:adapter-rejects-PING", "protocol selection ping rejected: " + err.Error()}
	}
	var out []byte
	var err error
	if p := ev.Recover(func() { out, err = ad.Encode(sess, f, session.OutboundMeta{ReplyToken: id}) }); p != nil {
		return "panic", &c24aViol{"C24:adapter-encode-panic-" + typ, fmt.Sprint(p)}
	}
	if err != nil {
		return "error", &c24aViol{"C24:adapter-encode-error-" + typ, err.Error()}
	}
	var doc map[string]json.RawMessage
	if err := json.Unmarshal(out, &doc); err != nil {
		return "not-json", &c24aViol{"C24:adapter-encode-not-json-" + typ, fmt.Sprintf("%q: %v", out, err)}
	}
	isResponse := typ == "CONNACK" || typ == "SENDACK" || typ == "PONG"
	raw, has := doc["id"]
	if isResponse {
		var got string
		if !has || json.Unmarshal(raw, &got) != nil || got != id {
			return "id", &c24aViol{"C24:adapter-response-id-mismatch-" + typ, fmt.Sprintf("reply token %q, encoded message %s", id, out)}
		}
		if _, m := doc["method"]; m {
			return "method", &c24aViol{"C24:adapter-response-has-method-" + typ, string(out)}
		}
		return "response", nil
	}
	if has {
		return "id", &c24aViol{"C24:adapter-notification-has-id-" + typ, string(out)}
	}
	var method string
	_ = json.Unmarshal(doc["method"], &method)
	want := map[string]string{"RECV": "recv", "EVENT": "event", "DISCONNECT": "disconnect"}[typ]
	if method != want {
		return "method", &c24aViol{"C24:adapter-notification-method-" + typ, string(out)}
	}
	return "notification", nil
}

var c24aStructural = []byte{'{', '}', '[', ']', '"', ',', ':', '0', 'n', 't', '\\', 0x00, 0xFF}

// c24aCheckBytes: one arbitrary input on a fresh connection.
func c24aCheckBytes(doc []byte) (string, *c24aViol) {
	ad := wsmux.New()
	sess := c24aSession()
	var frames []frame.Frame
	var consumed int
	var err error
	var tokens []string
	if p := ev.Recover(func() {
		frames, consumed, err = ad.Decode(sess, doc)
		tokens = ad.TakeReplyTokens(sess, 8)
	}); p != nil {
		return "panic", &c24aViol{"C24:adapter-panic", fmt.Sprintf("Decode(%q): %v", doc, p)}
	}
	switch {
	case err != nil:
		if len(frames) != 0 || consumed != 0 {
			return "err+frames", &c24aViol{"C24:adapter-error-with-frames", fmt.Sprintf("Decode(%q): %d frames, consumed %d, err %v", doc, len(frames), consumed, err)}
		}
		if len(tokens) != 0 {
			return "err+token", &c24aViol{"C24:adapter-reply-token-left-behind", fmt.Sprintf("Decode(%q) failed (%v) but queued reply tokens %q", doc, err, tokens)}
		}
		return "error", nil
	case len(frames) == 0:
		if consumed != 0 || len(tokens) != 0 {
			return "more+progress", &c24aViol{"C24:adapter-progress-without-frame", fmt.Sprintf("Decode(%q): no frame, consumed %d, tokens %q", doc, consumed, tokens)}
		}
		return "need-more", nil
	default:
		if consumed <= 0 || consumed > len(doc) {
			return "consumed", &c24aViol{"C24:adapter-consumed-length", fmt.Sprintf("Decode(%q): %d frames, consumed %d", doc, len(frames), consumed)}
		}
		if len(tokens) > len(frames) {
			return "tokens", &c24aViol{"C24:adapter-more-tokens-than-frames", fmt.Sprintf("Decode(%q): %d frames, tokens %q", doc, len(frames), tokens)}
		}
		for _, f := range frames {
			if f == nil || reflect.ValueOf(f).IsNil() {
				return "nil-frame", &c24aViol{"C24:adapter-nil-frame", fmt.Sprintf("Decode(%q) returned a nil frame", doc)}
			}
		}
		return "frames", nil
	}
}

func TestVerifC24Adapter(t *testing.T) {
	r := ev.Start(t, "C24")
	defer r.Finish()
	alpha := c24aAlphabet()
	outb := c24aOutbound()

	if rf := r.Replay(); rf != nil {
		var rp c24aReplay
		if err := json.Unmarshal(rf.Replay, &rp); err != nil {
			r.HarnessError("replay: %v", err)
			return
		}
		var out string
		var v *c24aViol
		switch rp.Kind {
		case "sequence":
			out, v = c24aRunSequence(rp.Seq)
		case "encode":
			out, v = c24aCheckEncode(rp.Frame, outb[rp.Frame], rp.ID)
		case "bytes":
			out, v = c24aCheckBytes([]byte(rp.Doc))
		}
		fmt.Printf("replay %s -> %s\n", rp.Kind, out)
		e := r.NewEnum("replay")
		e.CaseByConstruction(true, out)
		e.Done(true, nil, "replay")
		r.Sample(rp)
		if v != nil {
			fmt.Printf("replay: VIOLATES [%s] %s\n", v.fp, v.msg)
			r.MarkReplayReproduced()
			r.Violation(ev.Violation{Fingerprint: v.fp, Message: v.msg, System: rf.System, Replay: rp})
		}
		return
	}

	// ---- sequences
	maxLen := ev.Pick(r, 3, 4)
	e1 := r.NewEnum("adapter-sequences")
	var walk func(prefix []c24aMsg)
	sampled := false
	walk = func(prefix []c24aMsg) {
		if len(prefix) > 0 {
			out, v := c24aRunSequence(prefix)
			e1.CaseByConstruction(true, out)
			if v != nil {
				r.Violation(ev.Violation{Fingerprint: v.fp, Message: v.msg, System: "adapter-sequences", Replay: c24aReplay{Kind: "sequence", Seq: append([]c24aMsg(nil), prefix...)}})
			} else if !sampled && len(prefix) == 3 && prefix[0].Label == "recvack" && prefix[1].Label == "ping#a" && prefix[2].Label == "send#a" {
				sampled = true
				r.Sample(map[string]any{"adapter_sequence": []string{prefix[0].Label, prefix[1].Label, prefix[2].Label}, "outcome": out})
			}
		}
		if len(prefix) == maxLen {
			return
		}
		for _, m := range alpha {
			walk(append(prefix, m))
		}
	}
	walk(nil)
	labels := []string{}
	for _, m := range alpha {
		labels = append(labels, m.Label)
	}
	e1.Done(true, map[string]any{"alphabet": labels, "max_length": maxLen}, "every message sequence up to max_length on a fresh connection, lockstep Decode / TakeReplyTokens")
	r.Guard("adapter-sequences-count", e1.Evals() >= 800, "sequences executed: %d", e1.Evals())

	// ---- encode
	e2 := r.NewEnum("adapter-encode")
	types := []string{}
	for k := range outb {
		types = append(types, k)
	}
	sort.Strings(types)
	for _, typ := range types {
		for _, id := range c24aIDs {
			out, v := c24aCheckEncode(typ, outb[typ], id)
			e2.CaseByConstruction(true, typ+":"+out)
			if v != nil {
				r.Violation(ev.Violation{Fingerprint: v.fp, Message: v.msg, System: "adapter-encode", Replay: c24aReplay{Kind: "encode", Frame: typ, ID: id}})
			}
		}
	}
	e2.Done(true, map[string]any{"frame_types": types, "request_ids": len(c24aIDs)}, "every outbound frame type x every reply token")

	// ---- bytes
	e3 := r.NewEnum("adapter-byte-mutations")
	rec := func(doc []byte) {
		out, v := c24aCheckBytes(doc)
		e3.Case(string(doc), true, out)
		if v != nil {
			r.Violation(ev.Violation{Fingerprint: v.fp, Message: v.msg, System: "adapter-byte-mutations", Replay: c24aReplay{Kind: "bytes", Doc: string(doc)}})
		}
	}
	repl := c24aStructural
	if r.Thorough() {
		repl = make([]byte, 256)
		for i := range repl {
			repl[i] = byte(i)
		}
	}
	for _, m := range alpha {
		d := []byte(m.Doc)
		for n := 0; n <= len(d); n++ {
			rec(d[:n])
		}
		// position 0 is excluded: another first byte selects the binary wkproto decoder (property C23)
		for pos := 1; pos < len(d); pos++ {
			for _, b := range repl {
				if b == d[pos] {
					continue
				}
				mut := append([]byte(nil), d...)
				mut[pos] = b
				rec(mut)
			}
		}
		// two complete messages in one read: only the first is consumed
		rec(append(append([]byte(nil), d...), d...))
	}
	e3.Done(true, map[string]any{"documents": len(alpha), "replacement_bytes": len(repl)}, "every truncation and single-byte replacement (positions >= 1) of the alphabet's messages on a fresh connection")
	r.Guard("adapter-bytes-outcomes", e3.Outcome("frames") > 0 && e3.Outcome("need-more") > 0 && e3.Outcome("error") > 0,
		"frames=%d need-more=%d error=%d", e3.Outcome("frames"), e3.Outcome("need-more"), e3.Outcome("error"))
	r.Assume("the gateway takes reply tokens in lockstep with Decode (gateway/core.dispatchInboundFrames: TakeReplyTokens(len(frames)) right after each Decode)")
}
