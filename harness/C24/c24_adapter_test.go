package wsmux_test

// C24 - JSON-RPC protocol is a faithful frame bridge (gateway adapter level).
//
// The same bridge, driven the way the gateway drives it: bytes -> wsmux.Adapter.Decode
// (which selects the jsonrpc adapter for '{' / '[' input) -> frames + TakeReplyTokens, and
// frame + OutboundMeta{ReplyToken} -> Encode -> bytes. Enumerated exhaustively:
//
//   sequences  every sequence of <= L client messages over an alphabet with colliding ids,
//              id-less notifications, messages the bridge rejects, truncated input and garbage,
//              executed in lockstep (Decode, then TakeReplyTokens(len(frames)) - what
//              gateway/core.dispatchInboundFrames does): the token handed out with a frame is
//              exactly the request id of the message that produced that frame, rejected /
//              incomplete input produces neither a frame nor a token, and the whole input of a
//              complete message is consumed;
//   encode     every outbound frame type x every request id: the response written for reply
//              token t has id t (read back with encoding/json), notifications have no id;
//   bytes      every truncation and every single-byte structural replacement of the alphabet's
//              messages: Decode never panics and answers exactly one of
//              {frames with consumed > 0, need-more (nil,0,nil), error}.
//   retention  every sequence of <= L Encode / Decode calls on ONE adapter with TWO sessions
//              (outbound frame type x reply token x session), every Encode result retained as
//              returned (the gateway queues session A's bytes for writing while session B's
//              response is encoded) and judged after every later call: still byte-identical to
//              what was returned, and still the response for its own reply token. The run is
//              pinned to GOMAXPROCS=1 (harness.json) and collects garbage only between
//              sequences, so that a recycled buffer is handed from one call to the next
//              deterministically; the oracle does not depend on that.

import (
	"bytes"
	"encoding/json"
	"fmt"
	"reflect"
	"runtime"
	"runtime/debug"
	"sort"
	"strings"
	"testing"

	"github.com/WuKongIM/WuKongIM/pkg/gateway/protocol"
	"github.com/WuKongIM/WuKongIM/pkg/gateway/protocol/wsmux"
	"github.com/WuKongIM/WuKongIM/pkg/gateway/session"
	"github.com/WuKongIM/WuKongIM/pkg/protocol/frame"
	"github.com/WuKongIM/WuKongIM/pkg/zzverif/ev"
)

type c24aMsg struct {
	Label string `json:"label"`
	Doc   string `json:"doc"`
	// expectation
	Kind  string `json:"kind"`  // "frame" | "error" | "more"
	Frame string `json:"frame"` // frame type name for Kind == frame
	ID    string `json:"id"`    // request id ("" = none)
}

func c24aAlphabet() []c24aMsg {
	return []c24aMsg{
		{"ping#a", `{"jsonrpc":"2.0","method":"ping","id":"a"}`, "frame", "PING", "a"},
		{"recvack", `{"jsonrpc":"2.0","method":"recvack","params":{"messageId":"7","messageSeq":3}}`, "frame", "RECVACK", ""},
		{"send#a", `{"jsonrpc":"2.0","method":"send","id":"a","params":{"channelId":"g","channelType":2,"payload":"aGk="}}`, "frame", "SEND", "a"},
		{"connect#b", `{"method":"connect","id":"b","params":{"uid":"u","token":"t","deviceFlag":1}}`, "frame", "CONNECT", "b"},
		{"subscribe#c", `{"jsonrpc":"2.0","method":"subscribe","id":"c","params":{"subNo":"n","channelId":"g","channelType":2}}`, "error", "", ""},
		{"truncated#d", `{"jsonrpc":"2.0","method":"ping","id":"d"`, "more", "", ""},
		{"garbage", `{"jsonrpc":"2.0",]`, "error", "", ""},
		{"disconnect#e", `{"jsonrpc":"2.0","method":"disconnect","id":"e","params":{"reasonCode":0}}`, "frame", "DISCONNECT", "e"},
		{"response#f", `{"jsonrpc":"2.0","id":"f","result":{}}`, "error", "", ""},
	}
}

// c24aSession is a minimal session.Session: only the value store is used by adapters.
func c24aSession() session.Session {
	return session.New(session.Config{ID: 1, Listener: "verif", RemoteAddr: "r", LocalAddr: "l"})
}

func c24aFrameName(f frame.Frame) string {
	switch f.(type) {
	case *frame.PingPacket:
		return "PING"
	case *frame.RecvackPacket:
		return "RECVACK"
	case *frame.SendPacket:
		return "SEND"
	case *frame.ConnectPacket:
		return "CONNECT"
	case *frame.DisconnectPacket:
		return "DISCONNECT"
	}
	return fmt.Sprintf("%T", f)
}

type c24aReplay struct {
	Kind  string    `json:"kind"` // "sequence" | "encode" | "bytes" | "retention"
	Seq   []c24aMsg `json:"sequence,omitempty"`
	Frame string    `json:"frame,omitempty"`
	ID    string    `json:"id,omitempty"`
	Doc   string    `json:"doc,omitempty"`
	Calls []string  `json:"calls,omitempty"` // retention: labels of c24aRetentionOps; pipelined: op labels
}

type c24aViol struct{ fp, msg string }

// c24aRunSequence executes one message sequence on a fresh adapter + session.
func c24aRunSequence(seq []c24aMsg) (string, *c24aViol) {
	ad := wsmux.New()
	var tracker protocol.ReplyTokenTracker = ad
	sess := c24aSession()
	var trace []string
	for i, m := range seq {
		var frames []frame.Frame
		var consumed int
		var err error
		var tokens, stale []string
		if p := ev.Recover(func() {
			frames, consumed, err = ad.Decode(sess, []byte(m.Doc))
			tokens = tracker.TakeReplyTokens(sess, len(frames))
			stale = tracker.TakeReplyTokens(sess, 1)
		}); p != nil {
			return "panic", &c24aViol{"C24:adapter-panic", fmt.Sprintf("step %d (%s): %v", i, m.Label, p)}
		}
		if len(stale) != 0 {
			return "stale-token", &c24aViol{"C24:adapter-reply-token-left-behind", fmt.Sprintf("step %d (%s): after taking the tokens of the decoded frames the queue still holds %q", i, m.Label, stale)}
		}
		switch m.Kind {
		case "frame":
			if err != nil || len(frames) != 1 {
				return "rejected", &c24aViol{"C24:adapter-rejects-" + m.Frame, fmt.Sprintf("step %d (%s): Decode(%s) = %d frames, consumed %d, err %v", i, m.Label, m.Doc, len(frames), consumed, err)}
			}
			if got := c24aFrameName(frames[0]); got != m.Frame {
				return "wrong-frame", &c24aViol{"C24:adapter-wrong-frame-" + m.Frame, fmt.Sprintf("step %d (%s): got %s", i, m.Label, got)}
			}
			if consumed != len(m.Doc) {
				return "consumed", &c24aViol{"C24:adapter-consumed-length", fmt.Sprintf("step %d (%s): consumed %d of %d bytes", i, m.Label, consumed, len(m.Doc))}
			}
			want := []string(nil)
			if m.ID != "" {
				want = []string{m.ID}
			}
			if !reflect.DeepEqual(append([]string(nil), tokens...), want) {
				return "token", &c24aViol{"C24:adapter-reply-token-mismatch-" + m.Frame, fmt.Sprintf("step %d (%s): frame %s came with reply tokens %q, request id is %q (history %v)", i, m.Label, m.Frame, tokens, m.ID, trace)}
			}
		case "error":
			if err == nil || len(frames) != 0 || consumed != 0 || len(tokens) != 0 {
				return "accepted", &c24aViol{"C24:adapter-accepts-unbridged-message", fmt.Sprintf("step %d (%s): Decode(%s) = %d frames, consumed %d, tokens %q, err %v", i, m.Label, m.Doc, len(frames), consumed, tokens, err)}
			}
		case "more":
			if err != nil || len(frames) != 0 || consumed != 0 || len(tokens) != 0 {
				return "not-more", &c24aViol{"C24:adapter-incomplete-input-not-deferred", fmt.Sprintf("step %d (%s): Decode(%s) = %d frames, consumed %d, tokens %q, err %v", i, m.Label, m.Doc, len(frames), consumed, tokens, err)}
			}
		}
		trace = append(trace, m.Label)
	}
	return "ok", nil
}

var c24aIDs = []string{"1", "req-1", "a\"b\\c\n", "ü✓", "null", " ", "0", strings.Repeat("i", 200)}

func c24aOutbound() map[string]frame.Frame {
	h := frame.Framer{RedDot: true}
	return map[string]frame.Frame{
		"CONNACK":    &frame.ConnackPacket{Framer: h, ServerVersion: 4, ServerKey: "sk", Salt: "s", TimeDiff: 5, ReasonCode: 1, NodeId: 1<<64 - 1},
		"SENDACK":    &frame.SendackPacket{Framer: h, MessageID: -9, MessageSeq: 1 << 63, ReasonCode: 1},
		"PONG":       &frame.PongPacket{},
		"RECV":       &frame.RecvPacket{Framer: h, MessageID: 5, MessageSeq: 6, ChannelID: "g", ChannelType: 2, FromUID: "u", Payload: []byte{0, 255}},
		"EVENT":      &frame.EventPacket{Framer: h, Id: "e", Type: "t", Timestamp: 7, Data: []byte(`{"a":1}`)},
		"DISCONNECT": &frame.DisconnectPacket{ReasonCode: 2, Reason: "r"},
	}
}

// c24aOutboundWithLong adds a long RECV used only by the retention section.
func c24aOutboundWithLong() map[string]frame.Frame {
	m := c24aOutbound()
	m["RECV-long"] = &frame.RecvPacket{MessageID: 5, MessageSeq: 6, ChannelID: strings.Repeat("c", 300), ChannelType: 2, FromUID: "u", Payload: bytes.Repeat([]byte{0xab}, 1025)}
	return m
}

// c24aCheckEncode: the response for reply token id carries id; notifications carry none.
func c24aCheckEncode(typ string, f frame.Frame, id string) (string, *c24aViol) {
	ad := wsmux.New()
	sess := c24aSession()
	// the protocol is selected by the first inbound message, as on a real connection
	if _, _, err := ad.Decode(sess, []byte(`{"jsonrpc":"2.0","method":"ping","id":"`+"sel"+`"}`)); err != nil {
		return "harness", &c24aViol{"C24:adapter-rejects-PING", "protocol selection ping rejected: " + err.Error()}
	}
	var out []byte
	var err error
	if p := ev.Recover(func() { out, err = ad.Encode(sess, f, session.OutboundMeta{ReplyToken: id}) }); p != nil {
		return "panic", &c24aViol{"C24:adapter-encode-panic-" + typ, fmt.Sprint(p)}
	}
	if err != nil {
		return "error", &c24aViol{"C24:adapter-encode-error-" + typ, err.Error()}
	}
	var doc map[string]json.RawMessage
	if err := json.Unmarshal(out, &doc); err != nil {
		return "not-json", &c24aViol{"C24:adapter-encode-not-json-" + typ, fmt.Sprintf("%q: %v", out, err)}
	}
	isResponse := typ == "CONNACK" || typ == "SENDACK" || typ == "PONG"
	raw, has := doc["id"]
	if isResponse {
		var got string
		if !has || json.Unmarshal(raw, &got) != nil || got != id {
			return "id", &c24aViol{"C24:adapter-response-id-mismatch-" + typ, fmt.Sprintf("reply token %q, encoded message %s", id, out)}
		}
		if _, m := doc["method"]; m {
			return "method", &c24aViol{"C24:adapter-response-has-method-" + typ, string(out)}
		}
		return "response", nil
	}
	if has {
		return "id", &c24aViol{"C24:adapter-notification-has-id-" + typ, string(out)}
	}
	var method string
	_ = json.Unmarshal(doc["method"], &method)
	want := map[string]string{"RECV": "recv", "EVENT": "event", "DISCONNECT": "disconnect"}[typ]
	if method != want {
		return "method", &c24aViol{"C24:adapter-notification-method-" + typ, string(out)}
	}
	return "notification", nil
}

var c24aStructural = []byte{'{', '}', '[', ']', '"', ',', ':', '0', 'n', 't', '\\', 0x00, 0xFF}

// c24aCheckBytes: one arbitrary input on a fresh connection.
func c24aCheckBytes(doc []byte) (string, *c24aViol) {
	ad := wsmux.New()
	sess := c24aSession()
	var frames []frame.Frame
	var consumed int
	var err error
	var tokens []string
	if p := ev.Recover(func() {
		frames, consumed, err = ad.Decode(sess, doc)
		tokens = ad.TakeReplyTokens(sess, 8)
	}); p != nil {
		return "panic", &c24aViol{"C24:adapter-panic", fmt.Sprintf("Decode(%q): %v", doc, p)}
	}
	switch {
	case err != nil:
		if len(frames) != 0 || consumed != 0 {
			return "err+frames", &c24aViol{"C24:adapter-error-with-frames", fmt.Sprintf("Decode(%q): %d frames, consumed %d, err %v", doc, len(frames), consumed, err)}
		}
		if len(tokens) != 0 {
			return "err+token", &c24aViol{"C24:adapter-reply-token-left-behind", fmt.Sprintf("Decode(%q) failed (%v) but queued reply tokens %q", doc, err, tokens)}
		}
		return "error", nil
	case len(frames) == 0:
		if consumed != 0 || len(tokens) != 0 {
			return "more+progress", &c24aViol{"C24:adapter-progress-without-frame", fmt.Sprintf("Decode(%q): no frame, consumed %d, tokens %q", doc, consumed, tokens)}
		}
		return "need-more", nil
	default:
		if consumed <= 0 || consumed > len(doc) {
			return "consumed", &c24aViol{"C24:adapter-consumed-length", fmt.Sprintf("Decode(%q): %d frames, consumed %d", doc, len(frames), consumed)}
		}
		if len(tokens) > len(frames) {
			return "tokens", &c24aViol{"C24:adapter-more-tokens-than-frames", fmt.Sprintf("Decode(%q): %d frames, tokens %q", doc, len(frames), tokens)}
		}
		for _, f := range frames {
			if f == nil || reflect.ValueOf(f).IsNil() {
				return "nil-frame", &c24aViol{"C24:adapter-nil-frame", fmt.Sprintf("Decode(%q) returned a nil frame", doc)}
			}
		}
		return "frames", nil
	}
}

// ------------------------------------------------------------------ retention of Encode results

type c24aOp struct {
	Label string
	Typ   string // outbound frame type; "" = an inbound Decode
	ID    string
	Sess  int
	Doc   string
}

func c24aRetentionOps() []c24aOp {
	var ops []c24aOp
	for _, typ := range []string{"CONNACK", "SENDACK", "PONG", "RECV", "EVENT", "DISCONNECT"} {
		for _, id := range []string{"req-a", "req-b"} {
			for sess := 0; sess < 2; sess++ {
				if (typ == "RECV" || typ == "EVENT" || typ == "DISCONNECT") && id == "req-b" {
					continue // notifications carry no id: one token is enough
				}
				ops = append(ops, c24aOp{Label: fmt.Sprintf("Encode:%s#%s@s%d", typ, id, sess+1), Typ: typ, ID: id, Sess: sess})
			}
		}
	}
	ops = append(ops, c24aOp{Label: "Encode:PONG#long@s1", Typ: "PONG", ID: strings.Repeat("i", 200), Sess: 0})
	ops = append(ops, c24aOp{Label: "Encode:RECV-long#-@s2", Typ: "RECV-long", ID: "-", Sess: 1})
	ops = append(ops, c24aOp{Label: "Decode:send#x@s1", Sess: 0, Doc: `{"jsonrpc":"2.0","method":"send","id":"x","params":{"channelId":"g","channelType":2,"payload":"aGk="}}`})
	ops = append(ops, c24aOp{Label: "Decode:garbage@s2", Sess: 1, Doc: `{"jsonrpc":"2.0",]`})
	return ops
}

// c24aRunRetention executes one sequence on a fresh adapter with two sessions.
func c24aRunRetention(seq []c24aOp, outb map[string]frame.Frame, judged *int64) (string, *c24aViol) {
	ad := wsmux.New()
	sess := []session.Session{c24aSession(), c24aSession()}
	for _, s := range sess { // the protocol is selected by the first inbound message
		if _, _, err := ad.Decode(s, []byte(`{"jsonrpc":"2.0","method":"ping","id":"sel"}`)); err != nil {
			return "harness", &c24aViol{"C24:adapter-rejects-PING", "protocol selection ping rejected: " + err.Error()}
		}
		ad.TakeReplyTokens(s, 1)
	}
	type held struct {
		op     c24aOp
		out    []byte // as returned by Encode
		copyOf []byte // the harness's copy, taken when Encode returned
	}
	var hs []held
	names := func(n int) string {
		l := make([]string, n)
		for i := range l {
			l[i] = seq[i].Label
		}
		return "[" + strings.Join(l, ", ") + "]"
	}
	for k, op := range seq {
		var out []byte
		var err error
		if p := ev.Recover(func() {
			if op.Typ == "" {
				frames, _, _ := ad.Decode(sess[op.Sess], []byte(op.Doc))
				ad.TakeReplyTokens(sess[op.Sess], len(frames))
				return
			}
			out, err = ad.Encode(sess[op.Sess], outb[op.Typ], session.OutboundMeta{ReplyToken: op.ID})
		}); p != nil {
			return "panic", &c24aViol{"C24:adapter-panic-in-call-sequence", fmt.Sprintf("call %d of %s: %v", k+1, names(k+1), p)}
		}
		if op.Typ != "" && err != nil {
			return "error", &c24aViol{"C24:adapter-encode-error-" + strings.TrimSuffix(op.Typ, "-long"), fmt.Sprintf("call %d of %s: %v", k+1, names(k+1), err)}
		}
		for i, h := range hs {
			*judged++
			if !bytes.Equal(h.out, h.copyOf) {
				by := "encode"
				if op.Typ == "" {
					by = "decode"
				}
				return "retained-result-changed", &c24aViol{"C24:adapter-encode-result-overwritten-by-later-" + by,
					fmt.Sprintf("sequence %s: the bytes Encode returned in call %d were %q and are, after call %d, %q", names(k+1), i+1, h.copyOf, k+1, h.out)}
			}
		}
		if op.Typ != "" {
			hs = append(hs, held{op: op, out: out, copyOf: append([]byte(nil), out...)})
		}
	}
	// meaning: every retained response is still the response for its own reply token
	for i, h := range hs {
		var doc map[string]json.RawMessage
		if err := json.Unmarshal(h.out, &doc); err != nil {
			return "not-json", &c24aViol{"C24:adapter-retained-encoding-wrong", fmt.Sprintf("sequence %s: bytes of call %d are not JSON: %q", names(len(seq)), i+1, h.out)}
		}
		typ := strings.TrimSuffix(h.op.Typ, "-long")
		if typ == "CONNACK" || typ == "SENDACK" || typ == "PONG" {
			var got string
			if json.Unmarshal(doc["id"], &got) != nil || got != h.op.ID {
				return "wrong-id", &c24aViol{"C24:adapter-retained-encoding-wrong", fmt.Sprintf("sequence %s: the response of call %d was made for reply token %q, its bytes are %q", names(len(seq)), i+1, h.op.ID, h.out)}
			}
		} else {
			var method string
			_ = json.Unmarshal(doc["method"], &method)
			if want := map[string]string{"RECV": "recv", "EVENT": "event", "DISCONNECT": "disconnect"}[typ]; method != want {
				return "wrong-method", &c24aViol{"C24:adapter-retained-encoding-wrong", fmt.Sprintf("sequence %s: call %d encoded a %s notification, its bytes are %q", names(len(seq)), i+1, typ, h.out)}
			}
		}
	}
	return fmt.Sprintf("intact:len%d", len(seq)), nil
}

func c24aRetention(r *ev.R, outb map[string]frame.Frame) {
	defer debug.SetGCPercent(debug.SetGCPercent(-1)) // the collector runs between sequences only
	ops := c24aRetentionOps()
	rot := int(((r.Seed() % int64(len(ops))) + int64(len(ops))) % int64(len(ops)))
	menu := append(append([]c24aOp(nil), ops[rot:]...), ops[:rot]...) // VERIF_SEED permutes the order only
	maxLen := ev.Pick(r, 3, 4)
	e := r.NewEnum("adapter-encode-retention")
	var judged int64
	n := 0
	// shortest sequences first, so that the first counterexample reported is a shortest one
	for length := 1; length <= maxLen; length++ {
		ix := make([]int, length)
		seq := make([]c24aOp, length)
		for {
			for i := range seq {
				seq[i] = menu[ix[i]]
			}
			out, v := c24aRunRetention(seq, outb, &judged)
			if n++; n%128 == 0 {
				runtime.GC()
			}
			e.CaseByConstruction(length >= 2, out)
			if v != nil {
				calls := make([]string, length)
				for i, o := range seq {
					calls[i] = o.Label
				}
				r.Violation(ev.Violation{Fingerprint: v.fp, Message: v.msg[:min(len(v.msg), 1500)], System: "adapter-encode-retention", Replay: c24aReplay{Kind: "retention", Calls: calls}})
			}
			k := length - 1
			for k >= 0 {
				if ix[k]++; ix[k] < len(menu) {
					break
				}
				ix[k] = 0
				k--
			}
			if k < 0 {
				break
			}
		}
	}
	labels := make([]string, len(ops))
	for i, o := range ops {
		labels[i] = o.Label
	}
	e.Done(true, map[string]any{"calls": labels, "max_length": maxLen, "retained_results_judged": judged},
		"every sequence of 1..max_length Encode/Decode calls on one adapter with two sessions; every Encode result retained as returned and judged after every later call and at the end; non-trivial = at least one call is made while a result is retained")
	r.Guard("adapter-retention-gomaxprocs-1", runtime.GOMAXPROCS(0) == 1, "GOMAXPROCS=%d (harness.json pins the run to 1)", runtime.GOMAXPROCS(0))
	r.Guard("adapter-retention-count", e.Evals() >= 8000 && judged >= 8000, "sequences: %d, retained results judged after a later call: %d", e.Evals(), judged)
	r.Assume("adapter retention: calls are made one at a time on one goroutine; overlapping Encode calls of concurrently served sessions are not enumerated")
}

// c24aPipelinedOps is the alphabet of the pipelined section: Decode of one id-bearing or
// id-less request, or a TakeReplyTokens of 1..3 tokens that is NOT in lockstep with Decode.
func c24aPipelinedOps() []string {
	return []string{"D:a", "D:b", "D:c", "D:-", "T1", "T2", "T3"}
}

// c24aRunPipelined runs one op sequence on a fresh adapter + session against a FIFO model of
// the reply-token queue. Every slice returned by TakeReplyTokens is retained uncopied and
// judged twice: when it is returned and again after all later calls (a reply is written long
// after its request was decoded, so the token must still name that request).
func c24aRunPipelined(ops []string) (string, *c24aViol) {
	ad := wsmux.New()
	var tracker protocol.ReplyTokenTracker = ad
	sess := c24aSession()
	var model []string
	type taken struct {
		at   int
		got  []string
		want []string
	}
	var kept []taken
	var v *c24aViol
	if p := ev.Recover(func() {
		for i, op := range ops {
			if strings.HasPrefix(op, "D:") {
				id := op[2:]
				doc := `{"jsonrpc":"2.0","method":"ping","id":"` + id + `"}`
				if id == "-" {
					doc = `{"jsonrpc":"2.0","method":"recvack","params":{"messageId":"7","messageSeq":3}}`
				}
				frames, consumed, err := ad.Decode(sess, []byte(doc))
				if err != nil || len(frames) != 1 || consumed != len(doc) {
					v = &c24aViol{"C24:adapter-pipelined-decode", fmt.Sprintf("step %d (%s) of %v: Decode = %d frames, consumed %d, err %v", i, op, ops, len(frames), consumed, err)}
					return
				}
				if id != "-" {
					model = append(model, id)
				}
				continue
			}
			n := int(op[1] - '0')
			got := tracker.TakeReplyTokens(sess, n)
			if n > len(model) {
				n = len(model)
			}
			want := append([]string(nil), model[:n]...)
			model = model[n:]
			if !reflect.DeepEqual(append([]string{}, got...), append([]string{}, want...)) {
				v = &c24aViol{"C24:adapter-pipelined-token-order", fmt.Sprintf("step %d (%s) of %v: TakeReplyTokens returned %q, the oldest outstanding request ids are %q", i, op, ops, got, want)}
				return
			}
			kept = append(kept, taken{i, got, want})
		}
		for _, k := range kept {
			if !reflect.DeepEqual(append([]string{}, k.got...), append([]string{}, k.want...)) {
				v = &c24aViol{"C24:adapter-pipelined-token-changed-after-take", fmt.Sprintf("ops %v: the tokens returned at step %d were %q and read %q after the later calls", ops, k.at, k.want, k.got)}
				return
			}
		}
	}); p != nil {
		return "panic", &c24aViol{"C24:adapter-panic", fmt.Sprintf("pipelined ops %v: %v", ops, p)}
	}
	if v != nil {
		return "violation", v
	}
	return fmt.Sprintf("ok:takes=%d:left=%d", len(kept), len(model)), nil
}

func TestVerifC24Adapter(t *testing.T) {
	r := ev.Start(t, "C24")
	defer r.Finish()
	alpha := c24aAlphabet()
	outb := c24aOutbound()

	if rf := r.Replay(); rf != nil {
		var rp c24aReplay
		if err := json.Unmarshal(rf.Replay, &rp); err != nil {
			r.HarnessError("replay: %v", err)
			return
		}
		var out string
		var v *c24aViol
		switch rp.Kind {
		case "sequence":
			out, v = c24aRunSequence(rp.Seq)
		case "encode":
			out, v = c24aCheckEncode(rp.Frame, outb[rp.Frame], rp.ID)
		case "bytes":
			out, v = c24aCheckBytes([]byte(rp.Doc))
		case "pipelined":
			out, v = c24aRunPipelined(rp.Calls)
		case "retention":
			byLabel := map[string]c24aOp{}
			for _, o := range c24aRetentionOps() {
				byLabel[o.Label] = o
			}
			var seq []c24aOp
			for _, l := range rp.Calls {
				o, ok := byLabel[l]
				if !ok {
					r.HarnessError("replay: unknown call %q", l)
					return
				}
				seq = append(seq, o)
			}
			var judged int64
			out, v = c24aRunRetention(seq, c24aOutboundWithLong(), &judged)
		}
		fmt.Printf("replay %s -> %s\n", rp.Kind, out)
		e := r.NewEnum("replay")
		e.CaseByConstruction(true, out)
		e.Done(true, nil, "replay")
		r.Sample(rp)
		if v != nil {
			fmt.Printf("replay: VIOLATES [%s] %s\n", v.fp, v.msg)
			r.MarkReplayReproduced()
			r.Violation(ev.Violation{Fingerprint: v.fp, Message: v.msg, System: rf.System, Replay: rp})
		}
		return
	}

	// ---- sequences
	maxLen := ev.Pick(r, 3, 4)
	e1 := r.NewEnum("adapter-sequences")
	var walk func(prefix []c24aMsg)
	sampled := false
	walk = func(prefix []c24aMsg) {
		if len(prefix) > 0 {
			out, v := c24aRunSequence(prefix)
			e1.CaseByConstruction(true, out)
			if v != nil {
				r.Violation(ev.Violation{Fingerprint: v.fp, Message: v.msg, System: "adapter-sequences", Replay: c24aReplay{Kind: "sequence", Seq: append([]c24aMsg(nil), prefix...)}})
			} else if !sampled && len(prefix) == 3 && prefix[0].Label == "recvack" && prefix[1].Label == "ping#a" && prefix[2].Label == "send#a" {
				sampled = true
				r.Sample(map[string]any{"adapter_sequence": []string{prefix[0].Label, prefix[1].Label, prefix[2].Label}, "outcome": out})
			}
		}
		if len(prefix) == maxLen {
			return
		}
		for _, m := range alpha {
			walk(append(prefix, m))
		}
	}
	walk(nil)
	labels := []string{}
	for _, m := range alpha {
		labels = append(labels, m.Label)
	}
	e1.Done(true, map[string]any{"alphabet": labels, "max_length": maxLen}, "every message sequence up to max_length on a fresh connection, lockstep Decode / TakeReplyTokens")
	r.Guard("adapter-sequences-count", e1.Evals() >= 800, "sequences executed: %d", e1.Evals())

	// ---- encode
	e2 := r.NewEnum("adapter-encode")
	types := []string{}
	for k := range outb {
		types = append(types, k)
	}
	sort.Strings(types)
	for _, typ := range types {
		for _, id := range c24aIDs {
			out, v := c24aCheckEncode(typ, outb[typ], id)
			e2.CaseByConstruction(true, typ+":"+out)
			if v != nil {
				r.Violation(ev.Violation{Fingerprint: v.fp, Message: v.msg, System: "adapter-encode", Replay: c24aReplay{Kind: "encode", Frame: typ, ID: id}})
			}
		}
	}
	e2.Done(true, map[string]any{"frame_types": types, "request_ids": len(c24aIDs)}, "every outbound frame type x every reply token")

	// ---- bytes
	e3 := r.NewEnum("adapter-byte-mutations")
	rec := func(doc []byte) {
		out, v := c24aCheckBytes(doc)
		e3.Case(string(doc), true, out)
		if v != nil {
			r.Violation(ev.Violation{Fingerprint: v.fp, Message: v.msg, System: "adapter-byte-mutations", Replay: c24aReplay{Kind: "bytes", Doc: string(doc)}})
		}
	}
	repl := c24aStructural
	if r.Thorough() {
		repl = make([]byte, 256)
		for i := range repl {
			repl[i] = byte(i)
		}
	}
	for _, m := range alpha {
		d := []byte(m.Doc)
		for n := 0; n <= len(d); n++ {
			rec(d[:n])
		}
		// position 0 is excluded: another first byte selects the binary wkproto decoder (property C23)
		for pos := 1; pos < len(d); pos++ {
			for _, b := range repl {
				if b == d[pos] {
					continue
				}
				mut := append([]byte(nil), d...)
				mut[pos] = b
				rec(mut)
			}
		}
		// two complete messages in one read: only the first is consumed
		rec(append(append([]byte(nil), d...), d...))
	}
	e3.Done(true, map[string]any{"documents": len(alpha), "replacement_bytes": len(repl)}, "every truncation and single-byte replacement (positions >= 1) of the alphabet's messages on a fresh connection")
	r.Guard("adapter-bytes-outcomes", e3.Outcome("frames") > 0 && e3.Outcome("need-more") > 0 && e3.Outcome("error") > 0,
		"frames=%d need-more=%d error=%d", e3.Outcome("frames"), e3.Outcome("need-more"), e3.Outcome("error"))
	// ---- retention of Encode results across later calls
	c24aRetention(r, c24aOutboundWithLong())

	// ---- pipelined: takes that are not in lockstep with Decode
	pl := ev.Pick(r, 6, 7)
	e4 := r.NewEnum("adapter-pipelined")
	pops := c24aPipelinedOps()
	partial := 0
	var pwalk func(prefix []string)
	pwalk = func(prefix []string) {
		if len(prefix) > 0 {
			out, v := c24aRunPipelined(prefix)
			e4.CaseByConstruction(true, out)
			if v != nil {
				r.Violation(ev.Violation{Fingerprint: v.fp, Message: v.msg, System: "adapter-pipelined", Replay: c24aReplay{Kind: "pipelined", Calls: append([]string(nil), prefix...)}})
			} else if strings.HasPrefix(out, "ok:") && !strings.HasSuffix(out, "left=0") && !strings.HasPrefix(out, "ok:takes=0") {
				partial++
			}
		}
		if len(prefix) == pl {
			return
		}
		for _, o := range pops {
			pwalk(append(prefix, o))
		}
	}
	pwalk(nil)
	e4.Done(true, map[string]any{"alphabet": pops, "max_length": pl}, "every sequence up to max_length of Decode (3 request ids, one id-less) / TakeReplyTokens(1..3) on a fresh connection; FIFO reference model; every returned token slice retained and judged again after the last call")
	r.Guard("adapter-pipelined-partial-takes", partial > 1000, "sequences with a take that left tokens queued: %d", partial)

	r.Assume("the gateway takes reply tokens in lockstep with Decode (gateway/core.dispatchInboundFrames: TakeReplyTokens(len(frames)) right after each Decode); section adapter-pipelined covers the ReplyTokenTracker interface beyond that use")
}
